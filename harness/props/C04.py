"""C04 — the full tendency (explicit + implicit) does not depend on the reference-temperature split.

Lean: DinoProofs/Properties/C04.lean over the model Dino/Dynamics.lean (+ Dino/Sigma.lean, Dino/Implicit.lean).
Tie: the four real equation classes of primitive_equations.py are compared with the executable `Dynamics`
instance (driver token `dyn`, horizontal linear operators passed as matrices extracted from the real Grid):
full explicit_terms / implicit_terms / implicit_inverse, the implicit matrix, and every column routine on
random nodal inputs.  The named hypotheses of the theorems (transform round trip, curl grad = 0,
div grad = laplacian, div(uv(zeta, delta)) = delta, the two resolved product rules, linearity) are validated
on the real grids: the product rules (`MoistLaws`, used by T4.3 total_tendency_moist_indep_of_reference and T4.4
cloud_split_residual / cloud_indep_of_reference_partial) must hold on quadratic and cubic grids and must FAIL on
linear grids, and the moist-type invariance is only demanded on the kinds of grid where they were validated.
Search: two- and three-profile differential of explicit + implicit for the same absolute temperature on the real
classes; for the cloud class the measured difference must equal the closed form of cloud_split_residual
(clip(R (T1-T2) (curl|div)_cos_lat((q_l+q_i) sec2 cos_lat_grad(ln ps)))) to 1e-9, so that any other T_ref dependence
of that class is still a violation.
"""
import itertools
import os
import re

import numpy as np

import common
from common import fbits, fmat, unfvec, unfmat
import dinoutil
from props import c04_dyn as D

TOL = 1e-9          # correspondence
HYP_TOL = 1e-10     # named hypotheses on the real grids
INV_TOL = 1e-10     # relative T_ref dependence of a total tendency
RES_TOL = 1e-9      # measured cloud residual vs its closed form
RES_MIN = 1e-7      # the cloud residual is "really non-zero"
NEG_MIN = 1e-3      # negative control: an unmasked 'clipped' array must violate `roundtrip` at least this much
CLASSES = ('dry', 'time', 'moist', 'cloud')
GROUPS = dict(vorticity='momentum', divergence='momentum', temperature_variation='temperature',
              log_surface_pressure='pressure')
PRODUCT_RULES = ('product_rule_resolved', 'curl_product_rule_resolved')
MOIST_LIKE = ('moist', 'cloud', 'cloud-no-condensate')
RULE = ('correspondence: with_wavenumbers grids M=4..6 (quadratic, one linear, one cubic), 1..5 sigma layers '
        '(equidistant, uneven, strongly uneven), random physical constants, constant and variable T_ref, with/without '
        'orography, include_vertical_advection on/off, tracer sets {}, {x}, {q}, {q,ql,qi}, {q,ql,qi,x} incl. the '
        'missing-tracer error; search: admissible states (clipped, zero-mean vorticity/divergence, amplitudes 1e-3..1e3) '
        'on quadratic/cubic/linear grids, 1..8 layers, three profiles (constant, linear, random) of the same absolute '
        'temperature, include_vertical_advection=True; a case is non-trivial when layers >= 2 or the state has all '
        'fields non-zero; distinct = distinct (configuration, operation) resp. (class, grid, level set, state) hashes')
NOTE = ('M = masked coefficient space (the modal carrier of the theorems is the space of masked coefficient arrays: laws, mask closure and a negative control are validated on every grid used); the horizontal linear operators enter the model as matrices taken from the real Grid (their properties are the '
        'named hypotheses validated here and the subject of C01/C02); numpy.linalg.inv is external (C03); with '
        'include_vertical_advection=False the property is not claimed (vertical advection of T\' is then done by the '
        'semi-Lagrangian step outside explicit_terms)')


class _Env:
  """Modules of the real code, the four classes and a cache of grids (JAX compiles per shape: reuse objects)."""

  def __init__(self):
    self.jax = common.setup_jax()
    import jax.numpy as jnp
    from dinosaur import coordinate_systems, primitive_equations, scales, sigma_coordinates, spherical_harmonic
    self.jnp, self.pe, self.sh, self.sc, self.cs, self.scales = (
        jnp, primitive_equations, spherical_harmonic, sigma_coordinates, coordinate_systems, scales)
    pe = primitive_equations
    self.CL = dict(dry=pe.PrimitiveEquations, time=pe.PrimitiveEquationsWithTime, moist=pe.MoistPrimitiveEquations,
                   cloud=pe.MoistPrimitiveEquationsWithCloudMoisture)
    self._grids, self._ones = {}, {}
    self.law_checked = set()   # keys of self._grids on which the named laws were validated

  def grid(self, spec, radius=1.0):
    """spec = (M, dealiasing) or a named truncation 'T21' / 'TL31'; returns (grid, kind)."""
    key = (spec, float(radius))
    if key not in self._grids:
      if isinstance(spec, str):
        g = getattr(self.sh.Grid, spec)(radius=radius)
        kind = 'linear' if spec.startswith('TL') else 'quadratic'
      else:
        g = self.sh.Grid.with_wavenumbers(spec[0], dealiasing=spec[1], radius=radius)
        kind = spec[1]
      self._grids[key] = (g, kind)
    return self._grids[key]

  def one(self, grid):
    """Modal coefficients of the nodal constant 1 (exactly what to_modal gives)."""
    if id(grid) not in self._ones:
      self._ones[id(grid)] = np.asarray(grid.to_modal(self.jnp.ones(grid.nodal_shape)))
    return self._ones[id(grid)]

  def specs(self, rng, radius):
    R = float(rng.uniform(0.5, 3.0))
    return self.pe.PrimitiveEquationsSpecs(
        radius=float(radius), angular_velocity=float(rng.uniform(0.3, 1.5)),
        gravity_acceleration=float(rng.uniform(0.5, 2.0)), ideal_gas_constant=R,
        water_vapor_gas_constant=R * float(rng.uniform(1.2, 2.0)),
        water_vapor_isobaric_heat_capacity=R * float(rng.uniform(3.0, 9.0)),
        kappa=float(rng.choice([2 / 7, rng.uniform(0.1, 0.5)])), scale=self.scales.DEFAULT_SCALE)


def _spec_name(spec):
  return spec if isinstance(spec, str) else f'{spec[1]}{spec[0]}'


def _rel(a, b):
  a, b = np.asarray(a, dtype=float), np.asarray(b, dtype=float)
  s = max(np.abs(a).max(initial=0.0), np.abs(b).max(initial=0.0))
  return 0.0 if s == 0 else float(np.abs(a - b).max() / s)


def _call(f, *args):
  """Value of the real routine, 'value-error' for ValueError, 'raised …' for anything else."""
  try:
    return f(*args)
  except ValueError:
    return 'value-error'
  except Exception as e:  # pylint: disable=broad-except
    return f'raised {type(e).__name__}: {str(e)[:200]}'


# --------------------------------------------------------------------------
# 2. correspondence


TRACER_SETS = {
    'none': (),
    'x': ('x',),
    'humidity': (D.Q_KEY,),
    'cloud': (D.Q_KEY, D.QL_KEY, D.QI_KEY),
    'cloud+x': (D.Q_KEY, D.QL_KEY, D.QI_KEY, 'x'),
}


def _corr_configs(ctx, shared):
  rng = ctx.rng
  forced = [
      dict(spec=(4, 'quadratic'), n=1, kind='equidistant', tref='const', oro=False, iva=True, tracers='cloud'),
      dict(spec=(4, 'quadratic'), n=2, kind='strongly-uneven', tref='variable', oro=True, iva=True, tracers='humidity'),
      dict(spec=shared['quadratic'][0], n=shared['quadratic'][1], kind='uneven', tref='variable', oro=True, iva=False,
           tracers='none'),
      dict(spec=(4, 'quadratic'), n=shared['small_n'], kind=None, tref='const', oro=True, iva=True, tracers='cloud+x'),
  ]
  if ctx.quick:
    return forced
  forced += [
      dict(spec=(5, 'linear'), n=3, kind='uneven', tref='variable', oro=True, iva=True, tracers='cloud'),
      dict(spec=(4, 'cubic'), n=2, kind='uneven', tref='variable', oro=False, iva=True, tracers='cloud+x'),
      dict(spec=(6, 'quadratic'), n=4, kind='refined-bottom', tref='variable', oro=True, iva=True, tracers='x'),
      dict(spec=(4, 'quadratic'), n=3, kind='equidistant', tref='const', oro=False, iva=False, tracers='cloud'),
  ]
  for _ in range(6):
    forced.append(dict(spec=(int(rng.choice([4, 4, 5])), 'quadratic'), n=int(rng.integers(1, 6)), kind=None,
                       tref=str(rng.choice(['const', 'variable', 'variable'])), oro=bool(rng.random() < 0.6),
                       iva=bool(rng.random() < 0.7), tracers=str(rng.choice(list(TRACER_SETS)))))
  return forced


def _compare(ctx, kind, op, inp, impl, o):
  """One model response against the value (or error) of the real routine."""
  if isinstance(impl, str):
    if impl == 'value-error':
      return ctx.corr_exact(op + '[error]', inp, impl, o if o == 'value-error' else 'ok')
    ctx.corr_mismatch(op, inp, impl, o[:80], 'the real routine raised')
    return False
  if o in ('bad-op', 'value-error'):
    ctx.corr_mismatch(op, inp, 'impl ok', o, 'model rejected the operation')
    return False
  if kind == 'state':
    return D.compare_struct(ctx, op, inp, impl, D.DynCfg.un_state(o), rtol=TOL)
  if kind == 'diag':
    return D.compare_struct(ctx, op, inp, impl, D.DynCfg.un_diag(o), rtol=TOL)
  if kind == 'col':
    return ctx.corr_float(op, inp, impl, D.DynCfg.un_col(o), rtol=TOL)
  if kind == 'pair':
    a, b = o.split('|')
    ok = ctx.corr_float(op + '[0]', inp, impl[0], D.DynCfg.un_col(a), rtol=TOL)
    return ctx.corr_float(op + '[1]', inp, impl[1], D.DynCfg.un_col(b), rtol=TOL) and ok
  if kind == 'vec':
    return ctx.corr_float(op, inp, impl, unfvec(o), rtol=TOL)
  if kind == 'mat':
    return ctx.corr_float(op, inp, impl, unfmat(o), rtol=TOL)
  raise common.Infra(f'unknown comparison kind {kind}')


def _correspondence(ctx, E, shared):
  rng, jnp, pe = ctx.rng, E.jnp, E.pe
  inv_worst = 0.0
  for ci, c in enumerate(_corr_configs(ctx, shared)):
    radius = float(rng.choice([1.0, 1.3, rng.uniform(0.5, 2.0)]))
    grid, gkind = E.grid(c['spec'], radius)
    b, lkind = dinoutil.random_boundaries(rng, c['n'], c['kind'])
    n = len(b) - 1
    vert = E.sc.SigmaCoordinates(b)
    coords = E.cs.CoordinateSystem(horizontal=grid, vertical=vert)
    specs = E.specs(rng, radius)
    t0 = float(rng.uniform(1.0, 4.0))
    tref = np.full(n, t0) if (c['tref'] == 'const' or n == 1) else t0 * rng.uniform(0.6, 1.2, n)
    ms, ns, mask = grid.modal_shape, grid.nodal_shape, grid.mask
    oro = rng.standard_normal(ms) * mask * 0.1 if c['oro'] else np.zeros(ms)
    iva = c['iva']
    names = TRACER_SETS[c['tracers']]
    cfg = D.DynCfg(grid, vert, specs, tref, oro, iva)
    eqs = {cls: E.CL[cls](tref, jnp.asarray(oro), coords, specs, include_vertical_advection=iva) for cls in CLASSES}
    base = dict(config=ci, grid=_spec_name(c['spec']), radius=radius, boundaries=b.tolist(), tref=tref.tolist(),
                R=specs.R, R_vapor=specs.R_vapor, Cp_vapor=specs.Cp_vapor, kappa=specs.kappa, g=specs.g,
                omega=specs.angular_velocity, orography=c['oro'], include_vertical_advection=iva,
                tracers=list(names), seed=ctx.seed)
    nontriv = n >= 2
    for k in (f'corr-grid={_spec_name(c["spec"])}', f'corr-layers={n}', f'corr-levels={lkind}',
              f'corr-tracers={c["tracers"]}', f'corr-iva={iva}', f'corr-orography={c["oro"]}',
              'corr-Tref=' + ('const' if np.ptp(tref) == 0 else 'variable')):
      ctx.dist[k] += 1
    lines, checks = [], []

    def add(line, kind, op, impl, extra=None):
      lines.append(line)
      checks.append((kind, op, dict(base, **(extra or {})), impl))
      ctx.case((ci, ctx.seed, op, len(lines)), nontrivial=nontriv, sample=dict(base, op=op) if len(lines) == 1 else None)

    def rm(k, amp=1.0):
      return jnp.asarray(rng.standard_normal((k,) + ms) * mask * amp)

    def rn(k, amp=1.0, mean=0.0):
      return jnp.asarray(mean + amp * rng.standard_normal((k,) + ns))

    # (a) full explicit / implicit terms of the four classes
    tm = float(rng.uniform(0.1, 5.0))
    skw = dict(vorticity=rm(n), divergence=rm(n), temperature_variation=rm(n, 0.3 * t0),
               log_surface_pressure=rm(1, 0.2), tracers={k: rm(n, 0.05) for k in names})
    s_dry, s_time = pe.State(**skw), pe.StateWithTime(sim_time=tm, **skw)
    s_tok = cfg.state(s_time, tm)
    for cls in CLASSES:
      s = s_dry if cls == 'dry' else s_time
      for op in ('explicit', 'implicit'):
        r = _call(getattr(eqs[cls], op + '_terms'), s)
        add(cfg.line(op, cls, s_tok), 'state', f'{cls}.{op}_terms', r if isinstance(r, str) else D.flat_state(r, tm))
    # (b) implicit inverse (numpy.linalg.inv captured) and the implicit matrix
    eta = float(rng.choice([-1, 1]) * 10 ** rng.uniform(-2, 1))
    captured, orig = [], np.linalg.inv

    def spy(a, _c=captured, _o=orig):
      r = _o(a)
      _c.append((np.array(a), np.array(r)))
      return r
    np.linalg.inv = spy
    try:
      r = _call(eqs['time'].implicit_inverse, s_time, eta)
    finally:
      np.linalg.inv = orig
    if len(captured) != 1:
      ctx.corr_mismatch('implicit_inverse', base, f'{len(captured)} calls of numpy.linalg.inv', 'one external inv expected')
    else:
      a, ainv = captured[0]
      res = np.abs(np.einsum('...ij,...jk->...ik', ainv, a) - np.eye(a.shape[-1])).max(axis=(-1, -2))
      inv_worst = max(inv_worst, float((res / (1e-9 + 1e-12 * np.linalg.cond(a))).max()))
      add(cfg.line('inverse', '/'.join(fmat(m) for m in ainv), s_tok), 'state', 'implicit_inverse[split]',
          r if isinstance(r, str) else D.flat_state(r, tm), dict(eta=eta))
    mat = pe._get_implicit_term_matrix(eta, coords, tref, specs.kappa, specs.R)
    for l in sorted({0, 1, int(rng.integers(0, ms[1]))}):
      add(cfg.line('implmat', fbits(eta), str(l)), 'mat', '_get_implicit_term_matrix', mat[l], dict(eta=eta, l=l))
    # (c) every column routine on random nodal inputs
    aux = pe.DiagnosticState(
        vorticity=rn(n), divergence=rn(n), temperature_variation=rn(n, 0.3 * t0), cos_lat_u=(rn(n), rn(n)),
        sigma_dot_explicit=rn(n - 1), sigma_dot_full=rn(n - 1), cos_lat_grad_log_sp=(rn(1), rn(1)),
        u_dot_grad_log_sp=rn(n), tracers={k: rn(n, 0.02, 0.03) for k in names})
    a_tok = cfg.diag(aux)
    rows = D._rows  # pylint: disable=protected-access
    full = lambda x: rows(np.broadcast_to(np.asarray(x, dtype=float), (n,) + ns))   # a python 0 is a zero field
    eq = eqs['dry']
    r = _call(pe.compute_diagnostic_state, s_dry, coords)
    add(cfg.line('diag', s_tok), 'diag', 'compute_diagnostic_state', r if isinstance(r, str) else D.flat_diag(r))
    add(cfg.line('vvel', s_tok), 'col', 'compute_vertical_velocity', rows(pe.compute_vertical_velocity(s_dry, coords)))
    t3 = [rn(n), rn(n), rn(n)]
    add(cfg.line('tomega', *[cfg.col(x) for x in t3]), 'col', '_t_omega_over_sigma_sp',
        rows(eq._t_omega_over_sigma_sp(*t3)))
    w, x = rn(n - 1), rn(n)
    add(cfg.line('vtend', cfg.col(w), cfg.col(x)), 'col', '_vertical_tendency', rows(eq._vertical_tendency(w, x)))
    for cls in ('dry', 'moist', 'cloud'):
      r = _call(eqs[cls].curl_and_div_tendencies, aux)
      add(cfg.line('cdt', cls, a_tok), 'pair', f'{cls}.curl_and_div_tendencies',
          r if isinstance(r, str) else (rows(r[0]), rows(r[1])))
    add(cfg.line('ke', a_tok), 'col', 'kinetic_energy_tendency', rows(eq.kinetic_energy_tendency(aux)))
    add(cfg.line('oro'), 'vec', 'orography_tendency', np.asarray(eq.orography_tendency()).ravel())
    sca = rn(n)
    r = eq.horizontal_scalar_advection(sca, aux)
    add(cfg.line('hsa', cfg.col(sca), a_tok), 'pair', 'horizontal_scalar_advection', (rows(r[0]), rows(r[1])))
    add(cfg.line('tvert', a_tok), 'col', 'nodal_temperature_vertical_tendency',
        full(eq.nodal_temperature_vertical_tendency(aux)))
    for cls in ('dry', 'moist'):
      r = _call(eqs[cls].nodal_temperature_adiabatic_tendency, aux)
      add(cfg.line('tadiab', cls, a_tok), 'col', f'{cls}.nodal_temperature_adiabatic_tendency',
          r if isinstance(r, str) else rows(r))
    add(cfg.line('lsp', a_tok), 'vec', 'nodal_log_pressure_tendency',
        np.asarray(eq.nodal_log_pressure_tendency(aux)).ravel())
    for op, fn in (('humdiv', eqs['moist'].divergence_tendency_due_to_humidity),
                   ('humvort', eqs['moist'].vorticity_tendency_due_to_humidity)):
      r = _call(fn, s_dry, aux)
      add(cfg.line(op, s_tok, a_tok), 'col', fn.__name__, r if isinstance(r, str) else rows(r))
    xm = rm(n)
    add(cfg.line('gdiff', cfg.col(xm)), 'col', 'get_geopotential_diff', rows(pe.get_geopotential_diff(xm, vert, specs.R)))
    add(cfg.line('timpl', cfg.col(xm)), 'col', 'get_temperature_implicit',
        rows(pe.get_temperature_implicit(xm, vert, tref, specs.kappa)))

    outs = ctx.model(lines)
    nerr = sum(1 for ch in checks if isinstance(ch[3], str))
    ctx.dist['corr-missing-tracer-errors'] += nerr
    for (kind, op, inp, impl), o in zip(checks, outs):
      _compare(ctx, kind, op, inp, impl, o)
  ctx.obligation('numpy.linalg.inv left-inverse contract on every captured implicit matrix '
                 '(|inv(M)·M - I| <= 1e-9 + 1e-12·cond(M))', 'external-contract', inv_worst <= 1.0,
                 f'worst residual / bound = {inv_worst:.3e}')


# --------------------------------------------------------------------------
# 3. the named hypotheses on the real grids


LINEAR_OPS = ('to_nodal', 'to_modal', 'd_dlon', 'cos_lat_d_dlat', 'sec_lat_d_dlat_cos2', 'laplacian',
              'inverse_laplacian', 'clip_wavenumbers')
HYP_TEXT = {
    'roundtrip': 'clip(to_modal(to_nodal x)) = x for clipped x',
    'toNodal_one': 'to_nodal(to_modal(1)) is the spatial constant 1',
    'lap_one': 'laplacian(to_modal(1)) = 0',
    'curl_grad': 'clip(curl_cos_lat(sec2 * cos_lat_grad p)) = 0',
    'div_grad': 'clip(div_cos_lat(sec2 * cos_lat_grad p)) = laplacian p',
    'div_uv': 'clip(div_sec_lat(uv(zeta, delta))) = delta',
    'product_rule_resolved': 'clip(div_cos_lat(q * GS)) = clip(to_modal(sec2 * grad q . grad p + q * lap p))',
    'curl_product_rule_resolved': 'clip(curl_cos_lat(q * GS)) = clip(to_modal(sec2 * (grad q x grad p)))',
}


def _laws(E, grid, rng):
  """Relative violation of every named hypothesis for one random draw of clipped inputs."""
  jnp = E.jnp
  ms, mask, clip, sec2 = grid.modal_shape, grid.mask, grid.clip_wavenumbers, grid.sec2_lat

  def rm(zero_mean=False):
    x = rng.standard_normal(ms) * mask
    if zero_mean:
      x[0, 0] = 0
    return clip(jnp.asarray(x))

  p, qm, z, d = rm(), rm(), rm(True), rm(True)
  to_nodal, to_modal = grid.to_nodal, grid.to_modal
  g = grid.cos_lat_grad(p, clip=False)
  gu, gv = to_nodal(g[0]), to_nodal(g[1])
  GS = (to_modal(gu * sec2), to_modal(gv * sec2))
  lap_p = grid.laplacian(p)
  out = {}
  out['roundtrip'] = _rel(clip(to_modal(to_nodal(d))), d)
  one = jnp.asarray(E.one(grid))
  out['toNodal_one'] = float(np.abs(np.asarray(to_nodal(one)) - 1.0).max())
  out['lap_one'] = float(np.abs(np.asarray(grid.laplacian(one))).max() / np.abs(np.asarray(one)).max())
  out['curl_grad'] = float(np.abs(np.asarray(clip(grid.curl_cos_lat(GS, clip=False)))).max() /
                           np.abs(np.asarray(lap_p)).max())
  out['div_grad'] = _rel(clip(grid.div_cos_lat(GS, clip=False)), lap_p)
  cv = E.sh.get_cos_lat_vector(z, d, grid, clip=False)
  out['div_uv'] = _rel(clip(E.pe.div_sec_lat(to_nodal(cv[0]), to_nodal(cv[1]), grid)), d)
  q = to_nodal(qm)
  gq = grid.cos_lat_grad(qm, clip=False)
  gq0, gq1 = to_nodal(gq[0]), to_nodal(gq[1])
  qGS = (to_modal(q * gu * sec2), to_modal(q * gv * sec2))
  out['product_rule_resolved'] = _rel(clip(grid.div_cos_lat(qGS, clip=False)),
                                      clip(to_modal(sec2 * (gq0 * gu + gq1 * gv) + q * to_nodal(lap_p))))
  out['curl_product_rule_resolved'] = _rel(clip(grid.curl_cos_lat(qGS, clip=False)),
                                           clip(to_modal(sec2 * (gq0 * gv - gq1 * gu))))
  a, b = rng.standard_normal(2)
  lin = 0.0
  for name in LINEAR_OPS:
    f = getattr(grid, name)
    shape = grid.nodal_shape if name == 'to_modal' else ms
    x, y = jnp.asarray(rng.standard_normal(shape)), jnp.asarray(rng.standard_normal(shape))
    lin = max(lin, _rel(f(a * x + b * y), a * f(x) + b * f(y)))
  out['linearity'] = lin
  return out


def _hypotheses(ctx, E):
  """Returns {hypothesis: set of grid kinds on which every draw satisfied it}."""
  rng = ctx.rng
  if ctx.quick:
    specs = [(4, 'quadratic'), (5, 'quadratic'), (8, 'quadratic'), (11, 'quadratic'), (4, 'cubic'), (7, 'cubic'),
             (4, 'linear'), (5, 'linear'), (6, 'linear'), (11, 'linear')]
  else:
    specs = [(M, d) for d in ('quadratic', 'cubic', 'linear') for M in range(4, 12)] + ['T21', 'TL31']
  draws = ctx.n(2, 5)
  worst = {}          # (hypothesis, kind) -> (err, grid name)
  least = {}          # 'linear' -> min over the linear grids of the larger of the two product-rule violations
  for spec in specs:
    grid, kind = E.grid(spec)
    E.law_checked.add((spec, 1.0))
    ctx.dist[f'hyp-grid={kind}'] += 1
    per_grid = {}
    for di in range(draws):
      for h, e in _laws(E, grid, rng).items():
        per_grid[h] = max(per_grid.get(h, 0.0), e)
      ctx.case(('laws', _spec_name(spec), ctx.seed, di), nontrivial=True)
    for h, e in per_grid.items():
      if e >= worst.get((h, kind), (-1.0, ''))[0]:
        worst[(h, kind)] = (e, _spec_name(spec))
    if kind == 'linear':
      e = max(per_grid[h] for h in PRODUCT_RULES)
      least['linear'] = min(least.get('linear', np.inf), e)
  validated = {}
  kinds = ('quadratic', 'cubic', 'linear')
  for h in list(HYP_TEXT) + ['linearity']:
    req = ('quadratic', 'cubic') if h in PRODUCT_RULES else kinds
    validated[h] = {k for k in kinds if (h, k) in worst and worst[(h, k)][0] <= HYP_TOL}
    detail = ', '.join(f'{k}: {worst[(h, k)][0]:.1e} ({worst[(h, k)][1]})' for k in kinds if (h, k) in worst)
    text = HYP_TEXT.get(h, 'every horizontal operator (' + ', '.join(LINEAR_OPS) + ') is linear')
    ctx.obligation(f'{h}: {text} [real grids: {", ".join(req)}]', 'hypothesis', set(req) <= validated[h],
                   f'worst relative violation {detail}')
  return validated, least.get('linear', 0.0)


def _mask_checks(ctx, E, validated):
  """The carrier `M` of the theorems is the space of MASKED coefficient arrays (review B, C04 finding 1).

  On EVERY grid used by this run (correspondence, hypotheses, search; all radii): (a) the named laws on masked inputs
  (grids not already covered by `_hypotheses` are validated here), (b) `MaskClosed`: every modal operation of `HOps`
  maps masked arrays to masked arrays and `to_modal` lands in the masked arrays - EXACT zeros outside `grid.mask` -
  and (c) the negative control: an unmasked array with clip x = x violates `roundtrip`, and `to_nodal` ignores the
  entries outside the mask (so the masked arrays are exactly the right carrier: the domain is pinned from both sides).
  """
  rng, jnp = ctx.rng, E.jnp
  ops = ('d_dlon', 'cos_lat_d_dlat', 'sec_lat_d_dlat_cos2', 'laplacian', 'inverse_laplacian', 'clip_wavenumbers')
  closed_worst, closed_where = 0.0, ''
  neg_least, neg_where, junk_worst = np.inf, '', 0.0
  law_worst, law_where, nlaw = 0.0, '', 0
  ngrids = 0
  for (spec, radius), (grid, kind) in sorted(E._grids.items(), key=lambda kv: repr(kv[0])):
    gname = f'{_spec_name(spec)}@r={radius:g}'
    ngrids += 1
    mask = np.asarray(grid.mask).astype(bool)
    outside = ~mask
    ms = grid.modal_shape
    inp = dict(grid=gname, modal_shape=list(ms), entries_outside_mask=int(outside.sum()))
    ctx.case(('mask', gname, ctx.seed), nontrivial=True, branch='mask-closure-grid')
    with ctx.impl('mask-closure-exception', inp):
      # (b) closure, exact
      x = rng.standard_normal(ms) * mask
      z = rng.standard_normal(grid.nodal_shape)
      leaks = {'to_modal': float(np.abs(np.asarray(grid.to_modal(jnp.asarray(z)))[outside]).max(initial=0.0)),
               'oneModal': float(np.abs(E.one(grid)[outside]).max(initial=0.0))}
      for op in ops:
        leaks[op] = float(np.abs(np.asarray(getattr(grid, op)(jnp.asarray(x)))[outside]).max(initial=0.0))
      for pair_op in ('curl_cos_lat', 'div_cos_lat'):
        y = rng.standard_normal(ms) * mask
        leaks[pair_op] = float(np.abs(np.asarray(getattr(grid, pair_op)((jnp.asarray(x), jnp.asarray(y)), clip=False))
                                      [outside]).max(initial=0.0))
      for op, v in leaks.items():
        if v >= closed_worst:
          closed_worst, closed_where = v, f'{op} on {gname}'
        ctx.expect(v == 0.0, f'mask-closure:{op}', f'{op} maps a masked coefficient array (resp. a nodal field) to an '
                   f'array with non-zero entries outside grid.mask on {gname}: max |entry| = {v:.3e}', dict(inp, op=op))
      # (c) negative control
      xu = np.asarray(grid.clip_wavenumbers(jnp.asarray(rng.standard_normal(ms))))
      junk = xu * outside
      is_clipped = _rel(grid.clip_wavenumbers(jnp.asarray(xu)), xu) == 0.0
      defect = _rel(grid.clip_wavenumbers(grid.to_modal(grid.to_nodal(jnp.asarray(xu)))), xu)
      junk_nodal = float(np.abs(np.asarray(grid.to_nodal(jnp.asarray(junk)))).max(initial=0.0))
      junk_worst = max(junk_worst, junk_nodal)
      if not (outside.any() and np.abs(junk).max() > 0 and is_clipped):
        defect = 0.0   # no entry outside the mask survives clip: the masked reading would not be needed (never observed)
      if defect <= neg_least:
        neg_least, neg_where = defect, gname
      # (a) the laws on masked inputs, on the grids `_hypotheses` did not visit (other radii, thorough-tier scenarios)
      if (spec, radius) not in E.law_checked:
        nlaw += 1
        for hname, e in _laws(E, grid, rng).items():
          if hname in PRODUCT_RULES and kind not in ('quadratic', 'cubic'):
            continue
          if e >= law_worst:
            law_worst, law_where = e, f'{hname} on {gname}'
          ctx.expect(e <= HYP_TOL, f'law:{hname}', f'named hypothesis `{hname}` ({HYP_TEXT.get(hname, "linearity")}) '
                     f'fails for masked inputs on {gname}: relative violation {e:.3e}', dict(inp, hypothesis=hname))
  ctx.obligation('M = masked coefficient space: MaskClosed (every HOps field maps masked arrays to masked arrays, to_modal '
                 'and oneModal are masked: exact zeros outside grid.mask) on every grid used', 'hypothesis',
                 closed_worst == 0.0, f'{ngrids} grids; largest entry outside the mask {closed_worst:.1e} ({closed_where})')
  ctx.obligation('M = masked coefficient space, negative control: an UNMASKED array with clip x = x violates '
                 f'Laws.roundtrip (relative defect > {NEG_MIN:g}) on every grid used, and to_nodal ignores the entries '
                 'outside the mask exactly', 'hypothesis', bool(neg_least > NEG_MIN and junk_worst == 0.0),
                 f'{ngrids} grids; smallest roundtrip defect of an unmasked input {neg_least:.2e} ({neg_where}); '
                 f'largest |to_nodal(entries outside the mask)| = {junk_worst:.1e}')
  ctx.obligation('named laws on masked inputs on the grids not visited by the hypothesis sweep (other radii, search '
                 'scenarios)', 'hypothesis', law_worst <= HYP_TOL,
                 f'{nlaw} further grids; worst relative violation {law_worst:.1e} ({law_where})')
  ctx.notes.append('M = masked coefficient space: the laws Laws.roundtrip / curl_grad / div_grad / div_uv and MoistLaws are '
                   'validated on masked inputs (LawsOn), every HOps field preserves the mask exactly (MaskClosed), and an '
                   f'unmasked input violates roundtrip (smallest defect {neg_least:.2e}); the theorems are applied with the '
                   'carrier M := the masked arrays (Lean: total_tendency_indep_of_reference_masked, laws_restrict); states of '
                   'the search have masked leaves (standard_normal * mask)')
  ctx.notes.append('NOT validated here (model-only devices of the masked reading): MaskClosed.lproj_mem - `HOps.lproj l` (projection on '
                   'one total wavenumber, the axis _vertical_matvec_per_wavenumber maps over) has no counterpart function on the real '
                   'Grid; it is used by the model of implicit_inverse only, which no C04 theorem mentions, and its closure is needed '
                   'solely to form the record HOps.restrict; closure is validated for ' + ', '.join(('to_modal', 'oneModal') + ops) +
                   ' (+ curl_cos_lat, div_cos_lat). The unrestricted-operations corollaries (total_tendency_indep_of_reference_on_mask, '
                   '..._moist_..._on_mask) follow from the masked theorems by the proved naturality of Subtype.val (restrict_hom, '
                   'total_restrict, totalMoist_restrict: every field by rfl, no law used), so they need no further validation')


# --------------------------------------------------------------------------
# 4. search: T_ref differential on the real classes


def _scenarios(ctx, shared):
  """(grid spec, layers, level kind) triples; small grids in quick, real truncations in thorough."""
  rng = ctx.rng
  q, c, l = shared['quadratic'], shared['cubic'], shared['linear']
  out = [(q[0], q[1], 'uneven'), ((4, 'quadratic'), shared['small_n'], None), (c[0], c[1], 'uneven'),
         (l[0], l[1], 'strongly-uneven')]
  if ctx.quick:
    return out
  out += [((4, 'quadratic'), 1, 'equidistant'), ((4, 'quadratic'), 2, 'strongly-uneven'), ((6, 'linear'), 1, 'equidistant'),
          ('T21', 8, 'refined-bottom'), ('T21', 5, 'equidistant'), ('TL31', 6, 'uneven'), ((7, 'cubic'), 7, 'uneven'),
          ((10, 'quadratic'), 3, 'strongly-uneven'), ((9, 'linear'), 4, 'equidistant')]
  for _ in range(8):
    d = str(rng.choice(['quadratic', 'quadratic', 'cubic', 'linear']))
    out.append(((int(rng.integers(4, 9)), d), int(rng.integers(1, 9)), None))
  return out


def _sentinel(ctx, E, shared, validated):
  rng, jnp, pe = ctx.rng, E.jnp, E.pe
  pr_kinds = validated[PRODUCT_RULES[0]] & validated[PRODUCT_RULES[1]]
  must_invariant_kinds = set()     # grid kinds on which a moist-type momentum probe had to be invariant
  measured = {}                    # (class, kind, group) -> worst relative dependence
  res_seen = []                    # (kind, wind amplitude, size / total tendency, size / natural scale, mismatch)
  lin_res_seen = []                # (kind, wind amplitude, mismatch) of (iii) on grids not resolving the product rule
  alias_seen = []                  # (class, kind, wind amplitude, size, mismatch) of (iv) on the same grids
  div_margin, q_clip_err = np.inf, 0.0   # side conditions of T4.3/T4.4 on the generated humidity fields

  def totals(cls, eq_args, tref, st, one, iva=True, vmm=None):
    grid, coords, specs, oro = eq_args
    eq = E.CL[cls](np.asarray(tref), jnp.asarray(oro), coords, specs, include_vertical_advection=iva,
                   vertical_matmul_method=vmm)
    tv = st['T'] - np.asarray(tref)[:, None, None] * one
    kw = dict(vorticity=jnp.asarray(st['z']), divergence=jnp.asarray(st['d']), temperature_variation=jnp.asarray(tv),
              log_surface_pressure=jnp.asarray(st['p']), tracers={k: jnp.asarray(v) for k, v in st['tr'].items()})
    s = pe.State(**kw) if cls == 'dry' else pe.StateWithTime(sim_time=0.0, **kw)
    e, i = eq.explicit_terms(s), eq.implicit_terms(s)
    out = {f: np.asarray(getattr(e, f)) + np.asarray(getattr(i, f)) for f in GROUPS}
    out.update({'tr:' + k: np.asarray(e.tracers[k]) + np.asarray(i.tracers[k]) for k in e.tracers})
    return out

  # any amplitude, incl. large; the first scenario has a moderate one (reference for the size of the cloud residual)
  amps = [float(rng.choice([0.3, 1.0]))] + [float(a) for a in rng.permutation([1e-3, 30.0, 1e3, 1.0, 0.3])]
  for si, (spec, n, lkind) in enumerate(_scenarios(ctx, shared)):
    use_si = bool(si % 2 == 0)
    # the implicit half has two vertical-product strategies (dense matrices / cumulative sums; the latter is what runs
    # under vertical sharding): the split must not depend on the reference profile with either of them
    vmm = ['sparse', None, 'sparse', 'dense'][si % 4]
    radius = 1.0 if use_si else float(rng.choice([1.0, 1.3]))
    grid, kind = E.grid(spec, radius)
    b, lkind = dinoutil.random_boundaries(rng, n, lkind)
    n = len(b) - 1
    vert = E.sc.SigmaCoordinates(b)
    coords = E.cs.CoordinateSystem(horizontal=grid, vertical=vert)
    if use_si:
      specs = pe.PrimitiveEquationsSpecs.from_si()
      t0 = float(specs.nondimensionalize(288 * E.scales.units.degK))
    else:
      specs = E.specs(rng, radius)
      t0 = float(rng.uniform(0.05, 0.5)) / specs.R
    ms, mask, clip, one = grid.modal_shape, grid.mask, grid.clip_wavenumbers, E.one(grid)

    def rm(k, zero_mean=False, amp=1.0):
      x = rng.standard_normal((k,) + ms) * mask * amp
      if zero_mean:
        x[:, 0, 0] = 0
      return np.asarray(clip(jnp.asarray(x)))

    amp = amps[si % len(amps)]
    t_amp = float(rng.choice([0.02, 0.3]))
    p_amp = float(rng.choice([0.05, 0.5]))
    orog = bool(rng.random() < 0.6)
    qs, cscale = float(rng.choice([0.01, 0.03])), float(rng.choice([1e-3, 5e-3]))
    t_abs = rm(n, amp=t_amp * t0) + (t0 * np.linspace(0.75, 1.0, n))[:, None, None] * one
    moist_tr = {D.Q_KEY: rm(n, amp=qs / 3) + qs * one}
    cloud_tr = dict(moist_tr, **{k: rm(n, amp=cscale / 3) + cscale * one for k in (D.QL_KEY, D.QI_KEY)})
    # side conditions of T4.3 / T4.4: q carries no top wavenumber; division by 1 + (Cp_vapor/Cp - 1) q is a true inverse
    q_nodal = np.asarray(grid.to_nodal(jnp.asarray(moist_tr[D.Q_KEY])))
    div_margin = min(div_margin, float(np.abs(1 + (specs.Cp_vapor / specs.Cp - 1) * q_nodal).min()))
    q_clip_err = max(q_clip_err, _rel(clip(jnp.asarray(moist_tr[D.Q_KEY])), moist_tr[D.Q_KEY]))
    dry_tr = [{}, {'x': rm(n)}, dict(cloud_tr, x=rm(n))][int(rng.integers(0, 3))]
    st = dict(z=rm(n, True, 0.3 * amp), d=rm(n, True, 0.1 * amp), T=t_abs, p=rm(1, amp=p_amp))
    oro = rm(1, amp=0.01)[0] if orog else np.zeros(ms)
    trefs = [np.full(n, t0 * float(rng.uniform(0.8, 1.1))), t0 * np.linspace(*sorted(rng.uniform(0.6, 1.2, 2)), n),
             t0 * rng.uniform(0.6, 1.2, n)]
    if t0 > 50:
      # a profile given with an INTEGER dtype (whole kelvins in an int array) is the same reference temperature as its
      # float copy: no coefficient may be truncated on the way into the implicit weights
      trefs.append(np.round(t0 * np.linspace(0.72, 1.08, n)).astype(np.int64))
      ctx.dist['search-int-dtype-profile'] += 1
    eq_args = (grid, coords, specs, oro)
    inp = dict(scenario=si, grid=_spec_name(spec), radius=radius, boundaries=b.tolist(), orography=orog,
               specs='from_si' if use_si else dict(R=specs.R, R_vapor=specs.R_vapor, Cp_vapor=specs.Cp_vapor,
                                                   kappa=specs.kappa, omega=specs.angular_velocity, g=specs.g),
               T0=t0, amplitude=amp, T_amplitude=t_amp, lnps_amplitude=p_amp, q=qs, condensate=cscale,
               trefs=[t.tolist() for t in trefs], seed=ctx.seed, vertical_matmul_method=vmm)
    for k in (f'search-vertical-matmul={vmm}', f'search-grid={kind}', f'search-layers={n}', f'search-levels={lkind}', f'search-amplitude={amp:g}',
              f'search-orography={orog}', f'search-specs={"si" if use_si else "random"}'):
      ctx.dist[k] += 1

    runs = [('dry', dict(st, tr=dry_tr)), ('time', dict(st, tr=dry_tr)), ('moist', dict(st, tr=moist_tr)),
            ('cloud', dict(st, tr=cloud_tr)),
            ('cloud-no-condensate', dict(st, tr=dict(moist_tr, **{k: np.zeros((n,) + ms) for k in (D.QL_KEY, D.QI_KEY)})))]
    tots_by_name = {}
    for name, s in runs:
      cls = 'cloud' if name == 'cloud-no-condensate' else name
      cinp = dict(inp, cls=name, tracers=sorted(s['tr']))
      ctx.case((name, si, ctx.seed, b.tobytes()), nontrivial=True, sample=cinp if name == 'cloud' else None)
      ctx.dist[f'search-class={name}'] += 1
      tots = []
      with ctx.impl(f'tref-dependence-exception:{name}', cinp):
        tots = [totals(cls, eq_args, t, s, one, vmm=vmm) for t in trefs]
      if len(tots) != len(trefs):
        continue
      tots_by_name[name] = tots
      dep = {}
      for f in tots[0]:
        scale = max(np.abs(t[f]).max() for t in tots)
        diff = max(np.abs(x[f] - y[f]).max() for x, y in itertools.combinations(tots, 2))
        grp = 'tracers' if f.startswith('tr:') else GROUPS[f]
        dep[grp] = max(dep.get(grp, 0.0), 0.0 if scale == 0 else float(diff / scale))
      for grp, v in dep.items():
        key = f'tref-dependence:{name}:{kind}:{grp}'
        if grp == 'momentum' and name in MOIST_LIKE:
          if kind in pr_kinds:
            must_invariant_kinds.add(kind)
          elif name == 'cloud-no-condensate':
            # product_rule_resolved is not validated on this kind of grid: T4.3 does not apply; the dependence is
            # the one of the moist class (a cloud class without condensate is the moist class)
            key = f'tref-dependence:moist:{kind}:{grp}'
        measured[(name, kind, grp)] = max(measured.get((name, kind, grp), 0.0), v)
        ctx.expect(np.isfinite(v) and v <= INV_TOL, key,
                   f'explicit+implicit {grp} tendency of the {name} class depends on the reference temperature: relative '
                   f'difference {v:.3e} between three profiles of the same absolute temperature', cinp)
      # (ii) the cloud-class dependence is exactly the missing share R·T_ref·(q_l+q_i)·grad(ln ps)
      if name == 'cloud' and kind in pr_kinds:
        must_invariant_kinds.add(kind)
        sec2, R = grid.sec2_lat, specs.R
        g = grid.cos_lat_grad(jnp.asarray(s['p']), clip=False)
        gu, gv = grid.to_nodal(g[0]), grid.to_nodal(g[1])
        c = grid.to_nodal(jnp.asarray(s['tr'][D.QL_KEY])) + grid.to_nodal(jnp.asarray(s['tr'][D.QI_KEY]))
        cGS = (grid.to_modal(c * gu * sec2), grid.to_modal(c * gv * sec2))
        ops = dict(vorticity=np.asarray(grid.curl_cos_lat(cGS, clip=False)),
                   divergence=np.asarray(grid.div_cos_lat(cGS, clip=False)))
        size = mism = nat = 0.0
        lap_scale = float(np.abs(np.asarray(grid.laplacian(jnp.asarray(s['p'])))).max() * np.abs(np.asarray(c)).max())
        for (ia, ib) in itertools.combinations(range(len(trefs)), 2):
          dt = (trefs[ia] - trefs[ib])[:, None, None]
          for f, o in ops.items():
            pred = np.asarray(clip(jnp.asarray(R * dt * o)))
            meas = tots[ib][f] - tots[ia][f]
            scale = max(np.abs(t[f]).max() for t in tots)
            mism = max(mism, float(np.abs(meas - pred).max() / scale))
            size = max(size, float(np.abs(pred).max() / scale))
            nat = max(nat, float(np.abs(pred).max() / (R * np.abs(dt).max() * lap_scale)))
        res_seen.append((kind, amp, size, nat, mism))
        ctx.expect(mism <= RES_TOL, f'cloud-residual-mismatch:{kind}',
                   'T_ref dependence of the cloud class is not the closed form total(T2) - total(T1) = '
                   f'clip(R·(T1-T2)·(curl|div)_cos_lat((q_l+q_i)·sec2·cos_lat_grad(ln ps))): mismatch {mism:.3e} of the '
                   'total tendency', cinp)

    # (iii) grids that do NOT resolve the product rule (linear): the cloud-class dependence is a known finding there, but
    # it is not free: the condensate enters through the flux-form term only, so the dependence of the cloud class MINUS
    # the dependence of the same state without condensate (= the moist class, aliasing included) is again the closed form
    # of cloud_split_residual, to rounding.  The aliasing-level dependence of the moist class itself is pinned in (iv).
    if kind not in pr_kinds and 'cloud' in tots_by_name and 'cloud-no-condensate' in tots_by_name:
      tc, tn_ = tots_by_name['cloud'], tots_by_name['cloud-no-condensate']
      sec2, R = grid.sec2_lat, specs.R
      g = grid.cos_lat_grad(jnp.asarray(st['p']), clip=False)
      gu, gv = grid.to_nodal(g[0]), grid.to_nodal(g[1])
      c = grid.to_nodal(jnp.asarray(cloud_tr[D.QL_KEY])) + grid.to_nodal(jnp.asarray(cloud_tr[D.QI_KEY]))
      cGS = (grid.to_modal(c * gu * sec2), grid.to_modal(c * gv * sec2))
      ops = dict(vorticity=np.asarray(grid.curl_cos_lat(cGS, clip=False)),
                 divergence=np.asarray(grid.div_cos_lat(cGS, clip=False)))
      lin_mism = 0.0   # own variable: loop (iv) below has its own `mism` (review2 F, C04 N1)
      for (ia, ib) in itertools.combinations(range(len(trefs)), 2):
        dt = (trefs[ia] - trefs[ib])[:, None, None]
        for f, o in ops.items():
          pred = np.asarray(clip(jnp.asarray(R * dt * o)))
          meas = (tc[ib][f] - tc[ia][f]) - (tn_[ib][f] - tn_[ia][f])
          scale = max(np.abs(t[f]).max() for t in tc)
          lin_mism = max(lin_mism, float(np.abs(meas - pred).max() / scale))
      lin_res_seen.append((kind, amp, lin_mism))
      ctx.expect(np.isfinite(lin_mism) and lin_mism <= RES_TOL, f'cloud-residual-mismatch:{kind}',
                 'on a grid that does not resolve the product rule, the T_ref dependence of the cloud class minus that of '
                 'the same state without condensate is not the closed form clip(R·(T1-T2)·(curl|div)_cos_lat((q_l+q_i)·sec2·'
                 f'cos_lat_grad(ln ps))): mismatch {lin_mism:.3e} of the total tendency',
                 dict(inp, cls='cloud - cloud-no-condensate', tracers=sorted(cloud_tr)))
    # (iv) ... and the aliasing-level dependence of the moist class itself (the other known finding on such grids) is not
    # free either: every other term being linear in T_ref and cancelling by the validated laws, what remains is exactly the
    # DEFECT of the product-rule laws, total(T_b) - total(T_a) = clip((R_v - R)·(T_b - T_a)·[(curl|div)_cos_lat(q·GS) -
    # to_modal(product-rule form)]) (measured 2e-16 .. 2e-15 of the total tendency on the unchanged tree).  Any other
    # T_ref dependence on a linear grid is reported under `moist-aliasing-mismatch`, which is not a known finding.
    if kind not in pr_kinds:
      sec2 = grid.sec2_lat
      g = grid.cos_lat_grad(jnp.asarray(st['p']), clip=False)
      gu, gv = grid.to_nodal(g[0]), grid.to_nodal(g[1])
      qm_ = jnp.asarray(moist_tr[D.Q_KEY])
      qn_ = grid.to_nodal(qm_)
      gq = grid.cos_lat_grad(qm_, clip=False)
      gq0, gq1 = grid.to_nodal(gq[0]), grid.to_nodal(gq[1])
      qGS = (grid.to_modal(qn_ * gu * sec2), grid.to_modal(qn_ * gv * sec2))
      lap_p = grid.to_nodal(grid.laplacian(jnp.asarray(st['p'])))
      defect = dict(
          divergence=np.asarray(grid.div_cos_lat(qGS, clip=False))
          - np.asarray(grid.to_modal(sec2 * (gq0 * gu + gq1 * gv) + qn_ * lap_p)),
          vorticity=np.asarray(grid.curl_cos_lat(qGS, clip=False)) - np.asarray(grid.to_modal(sec2 * (gq0 * gv - gq1 * gu))))
      for nm in ('moist', 'cloud-no-condensate'):
        if nm not in tots_by_name:
          continue
        tm = tots_by_name[nm]
        mism = size = 0.0
        for (ia, ib) in itertools.combinations(range(len(trefs)), 2):
          dt = (trefs[ib] - trefs[ia])[:, None, None]
          for f, o in defect.items():
            pred = np.asarray(clip(jnp.asarray((specs.R_vapor - specs.R) * dt * o)))
            meas = tm[ib][f] - tm[ia][f]
            scale = max(np.abs(t[f]).max() for t in tm)
            mism = max(mism, float(np.abs(meas - pred).max() / scale))
            size = max(size, float(np.abs(pred).max() / scale))
        alias_seen.append((nm, kind, amp, size, mism))
        ctx.expect(np.isfinite(mism) and mism <= RES_TOL, f'moist-aliasing-mismatch:{kind}',
                   f'T_ref dependence of the {nm} class on a grid that does not resolve the product rule is not the closed '
                   'form clip((R_v-R)·(T_b-T_a)·[(curl|div)_cos_lat(q·sec2·grad ln ps) - to_modal(product-rule form)]): '
                   f'mismatch {mism:.3e} of the total tendency (size of the closed form {size:.3e})', dict(inp, cls=nm))

  # include_vertical_advection=False: not claimed; measured once for the record
  if not ctx.quick:
    with ctx.impl('tref-dependence-exception:dry-no-vertical-advection', inp):
      tots = [totals('dry', eq_args, t, dict(st, tr={}), one, iva=False) for t in trefs]
      f = 'temperature_variation'
      v = max(np.abs(x[f] - y[f]).max() for x, y in itertools.combinations(tots, 2)) / max(np.abs(t[f]).max() for t in tots)
      ctx.notes.append(f'include_vertical_advection=False (property not claimed): temperature dependence on T_ref {v:.2e}')

  fmt = lambda d: ', '.join(f'{"/".join(k)}={v:.1e}' for k, v in sorted(d.items()))
  ctx.notes.append('measured T_ref dependence (momentum) of the known findings: ' +
                   fmt({k: v for k, v in measured.items() if k[2] == 'momentum' and v > INV_TOL}))
  ctx.notes.append('worst T_ref dependence elsewhere: ' +
                   fmt({k: v for k, v in measured.items() if not (k[2] == 'momentum' and v > INV_TOL) and v > 0}))
  # non-zero: against its own natural scale R·|ΔT_ref|·|q_l+q_i|·|lap ln ps| in every scenario, and against the total
  # momentum tendency in the scenarios of moderate amplitude (the total grows with the square of the wind amplitude)
  moderate = [r for r in res_seen if r[1] <= 1.0]
  ok_res = bool(moderate) and all(r[2] > RES_MIN for r in moderate) and all(r[3] > 1e-3 for r in res_seen)
  detail = ('size of clip(R·ΔT_ref·(curl|div)((q_l+q_i)·∇ln ps)) relative to the total momentum tendency | to '
            'R·|ΔT_ref|·|q_l+q_i|·|lap ln ps| | mismatch to the measured difference: ' +
            ', '.join(f'{k} (amplitude {a:g}): {s:.1e} | {nt:.1e} | {m:.1e}' for k, a, s, nt, m in res_seen))
  ctx.notes.append('cloud_split_residual: ' + detail)
  ctx.notes.append('linear grids (known findings, bounded): the UNEXPLAINED part of the moist-type momentum dependence is '
                   f'bounded by {RES_TOL:g} of the total tendency (keys moist-aliasing-mismatch:*, cloud-residual-mismatch:*: '
                   'not known findings); a ceiling on the raw magnitude is not used (the legitimate aliasing term reaches '
                   '1e-1 of the total tendency for weak winds, measured in the thorough tier). Cloud minus '
                   'cloud-without-condensate dependence vs closed form (mismatch): ' +
                   (', '.join(f'{k} (amplitude {a:g}): {m:.1e}' for k, a, m in lin_res_seen) or 'no such scenario') +
                   '; moist-class dependence vs the defect of the product-rule laws (size | mismatch): ' +
                   (', '.join(f'{c}/{k} (amplitude {a:g}): {sz:.1e} | {m:.1e}' for c, k, a, sz, m in alias_seen)
                    or 'no such scenario'))
  if alias_seen:
    ctx.obligation('known findings on linear grids are pinned to their closed forms: moist dependence = (R_v-R)·dT_ref·(defect '
                   'of the product-rule laws); cloud dependence = that + the cloud_split_residual closed form', 'hypothesis',
                   all(m <= RES_TOL for *_, m in alias_seen) and all(m <= RES_TOL for *_, m in lin_res_seen),
                   f'worst mismatch moist {max(m for *_, m in alias_seen):.1e}, cloud-minus-no-condensate '
                   f'{max([m for *_, m in lin_res_seen] or [0.0]):.1e} of the total tendency')
  ctx.obligation('cloud_split_residual is non-zero on the real grid', 'hypothesis', ok_res, detail)
  ctx.obligation('side conditions of T4.3/T4.4 hold on every generated moist state: the humidity column is clipped like '
                 'the rest of the state (clip q = q) and 1 + (Cp_vapor/Cp - 1)·q stays away from 0 at every node '
                 '(division is a true inverse, hypothesis hdiv)', 'hypothesis',
                 bool(div_margin > 0.1 and q_clip_err <= 1e-13),
                 f'min |1 + (Cp_vapor/Cp - 1) q| = {div_margin:.3f}; |clip q - q| / |q| = {q_clip_err:.1e}')
  ctx.notes.append(f'T4.3/T4.4 side conditions on the generated states: min |1 + (Cp_vapor/Cp - 1) q| = {div_margin:.3f}, '
                   f'|clip q - q| / |q| = {q_clip_err:.1e}')
  return must_invariant_kinds


# --------------------------------------------------------------------------


def run(ctx: common.Ctx):
  E = _Env()
  # Source audit: the model, and every lemma file of the Dynamics family.  The five files below are merged and REQUIRED
  # (no existence guard: a missing one is an error).  Further `DinoProofs.Lemmas.Dynamics*` modules are audited exactly
  # when the property module imports them (e.g. DynamicsMaskedNat, naturality of the restriction): the audited set is
  # derived from the imports, so a file that the proofs use can never be skipped, and a file that is imported but
  # missing breaks the build of the property module.
  lemma_files = ['DinoProofs/Lemmas/Dynamics.lean', 'DinoProofs/Lemmas/DynamicsMoist.lean',
                 'DinoProofs/Lemmas/DynamicsToy.lean', 'DinoProofs/Lemmas/DynamicsMasked.lean', 'Dino/Dynamics.lean']
  prop_src = open(os.path.join(common.LEAN, 'DinoProofs/Properties/C04.lean')).read()
  for mod in re.findall(r'^import (DinoProofs\.Lemmas\.Dynamics\w*)\s*$', prop_src, re.M):
    f = mod.replace('.', '/') + '.lean'
    if f not in lemma_files:
      lemma_files.append(f)
  ctx.lean('DinoProofs.Properties.C04', 'C04.txt', extra_files=lemma_files)

  rng = ctx.rng
  # (grid, layers) pairs shared by the correspondence and the search (JAX compiles per shape)
  shared = dict(quadratic=((5, 'quadratic'), int(rng.integers(3, 6))), cubic=((4, 'cubic'), int(rng.integers(2, 9))),
                linear=((int(rng.choice([5, 6])), 'linear'), int(rng.integers(2, 7))), small_n=int(rng.integers(3, 6)))

  _correspondence(ctx, E, shared)
  validated, linear_violation = _hypotheses(ctx, E)
  must_invariant_kinds = _sentinel(ctx, E, shared, validated)
  _mask_checks(ctx, E, validated)

  pr_kinds = validated[PRODUCT_RULES[0]] & validated[PRODUCT_RULES[1]]
  ctx.obligation('product_rule_resolved is not resolved on linear grids (expected), and the moist theorems are only '
                 'applied on grids where it was validated', 'hypothesis',
                 linear_violation > 1e-3 and 'linear' not in pr_kinds and must_invariant_kinds <= pr_kinds,
                 f'smallest product-rule violation over the linear grids {linear_violation:.1e}; validated on '
                 f'{sorted(pr_kinds)}; moist-type momentum probes required invariant on {sorted(must_invariant_kinds)}')

  if not ctx.quick:
    ctx.leanchecker(['DinoProofs.Properties.C04'])
  return ctx.finish(RULE, NOTE)
