"""C18 — unit and time conversions are mutually inverse and multiplicative.

Lean: DinoProofs/Properties/C18.lean over the model Dino/Units.lean.
Tie: every model operation is run on the inputs given to the real functions of
scales.Scale, PrimitiveEquationsSpecs.*timedelta64, the xarray_utils time helpers and
radiation (float64) and compared; pint's unit table (conversion factor and dimension vector of
every atom) is an input of the model and its multiplicativity is checked on every compound unit.
Offset units (degC, degF, degRe) are affine units of the model (conversion factor, offset, dimension
vector): Scale.nondimensionalize / dimensionalize and Quantity.to on them are compared with
nondimAff / dimensionalizeAff / convertAff, and the round trips / unit independence are probed on
the real code with tolerances scaled to the Kelvin magnitude.
Sentinel probes evaluate the property itself on the real code; the hypotheses of the rounding
model used by T18.3/T18.4 are validated with exact rational arithmetic.
Float vectors are compared ENTRY BY ENTRY (relative 1e-9 of each entry, `corr_elementwise`).  The orbital
reduction is also modelled in double arithmetic (`orbfl`: exact floor, every operation rounded by fl53)
and compared bit for bit with the eager implementation; its range check is [0, 2pi + 2^-53 (|x| + 2*2pi)]
(key `orbital-range-widened`), and the literal range [0, 2pi) of the property statement is measured on
realistic model times and reported under the key `orbital-range` (a failure when that key is a recorded
known finding, a note otherwise).  What the code does at the excluded points of the theorems (zero
divisor, negative power of zero, zero scale, fractional exponents, jax arrays on the timedelta array
path, stamps off the minute grid of the reference) is recorded in the distribution / notes.
"""
import datetime
import dataclasses
from fractions import Fraction

import numpy as np

import common
from common import fbits, fvec, ivec, unfbits, unfvec, univec

DIMS = ['[current]', '[length]', '[luminosity]', '[mass]', '[printing_unit]', '[substance]',
        '[temperature]', '[time]']
TIME_DIM = [0, 0, 0, 0, 0, 0, 0, 1]
ATOMS = ['meter', 'kilometer', 'centimeter', 'mile', 'inch', 'second', 'minute', 'hour', 'day', 'week',
         'year', 'kilogram', 'gram', 'tonne', 'kelvin', 'pascal', 'hectopascal', 'bar', 'millibar',
         'atmosphere', 'joule', 'calorie', 'watt', 'newton', 'mole', 'ampere', 'candela', 'degree',
         'radian', 'percent', 'ppm', 'dimensionless', 'hertz', 'liter', 'knot']
# units of a single base dimension, used to build scales
SINGLE = {'[length]': ['meter', 'kilometer', 'mile', 'inch'], '[time]': ['second', 'minute', 'hour', 'day', 'year'],
          '[mass]': ['kilogram', 'gram', 'tonne'], '[temperature]': ['kelvin'], '[substance]': ['mole'],
          '[current]': ['ampere'], '[luminosity]': ['candela']}
U53 = Fraction(1, 2 ** 53)
TWO_PI = 2 * np.pi
RTOL = 1e-12   # probes: identities hold to a few ulps; every realistic defect is >= 1e-6
RULE = ('scales: DEFAULT/ATMOSPHERIC and random scales (1-7 base dimensions, magnitudes 1e-3..1e8, each '
        'given in a random unit of its dimension); quantities: compound units of 0-4 of 35 multiplicative '
        'pint units with INTEGER exponents -3..3 (the code also accepts fractional exponents such as m**0.5, which the model '
        'does not have: one identity is probed, nothing is proved), magnitudes +-1e-12..1e12 and 0, python floats/ints, numpy and '
        'jax arrays (jax arrays only where no integer conversion factor of pint reaches 2^63, which jax rejects with '
        'OverflowError); quotients by a non-zero quantity, negative powers of non-zero quantities only (division by a zero '
        'quantity and negative powers of zero are excluded points: the code raises ZeroDivisionError / returns inf, recorded); '
        'malformed stream: compound / squared / dimensionless / duplicate scales and quantities with an '
        'uncovered dimension; affine units: kelvin, degC, degF, degRe (and degR, offset 0) x DEFAULT/ATMOSPHERIC/'
        'Scale(3 mile, pi week, 2 lb, 32 K)/random scales with a temperature, temperatures from absolute zero to 1e4 '
        'incl. 0, -40, +-1e-9 and wide magnitudes to 1e8, python floats/ints, numpy and jax arrays (compound units '
        'built from an offset unit raise in pint and are outside the domain); durations: every whole second 0..1e5 (quick) / stratified to 1e9 (thorough) '
        'under the default and random time scales go through the REAL code (array path, and the scalar path on a subset); the '
        'model sees about 440 sampled seconds per time scale (40 smallest + 400 random; 3000 in thorough), compared bit for bit; '
        'numpy arrays and Python / numpy scalars only (a jax array of rank >= 1 raises TypeError in '
        'dimensionalize_timedelta64: excluded, recorded); datetimes: every minute of a '
        'multi-year window plus random stamps over +-60 years in datetime64[m|s|ms|us|ns], all a whole number of minutes from '
        'the reference, plus (unit s) stamps at arbitrary seconds, which come back rounded to whole minutes from the reference; '
        'orbital phases: times over +-1e6 model units incl. 0, tiny negative, whole days and whole years (eager float64), and '
        'realistic times (k days / hours / 6-minute steps over 1..100 years under DEFAULT_SCALE; float64 and float32, eager and '
        'jit) for the literal range [0, 2pi); a case is non-trivial when the '
        'unit is compound (>= 2 atoms or an exponent != 1) or the duration/time is non-zero')


def dimvec(container):
  v = [0] * len(DIMS)
  for k, e in dict(container).items():
    if k not in DIMS or int(e) != e:
      raise ValueError(f'unsupported dimension {k}^{e}')
    v[DIMS.index(k)] = int(e)
  return v


def scale_token(vals):
  return ','.join('-' if v is None else fbits(v) for v in vals)


def unit_token(parts, table):
  """parts: list of (atom name, exponent)."""
  if not parts:
    return '_'
  return ';'.join(f'{fbits(table[n][0])}:{ivec(table[n][1])}:{e}' for n, e in parts)


def close(a, b, rtol=RTOL):
  a = np.asarray(a, dtype=float)
  b = np.asarray(b, dtype=float)
  if a.shape != b.shape or not (np.isfinite(a).all() and np.isfinite(b).all()):
    return False
  return bool((np.abs(a - b) <= rtol * np.maximum(np.abs(a), np.abs(b))).all())


def corr_elementwise(ctx, op, inp, impl, model, rtol=1e-9):
  """correspondence of float vectors with an ELEMENTWISE relative tolerance: every entry is compared with
  rtol * max(|impl|, |model|) of that entry (the entries of one vector span 1e-12..1e12, so a tolerance relative to
  the largest entry, as `Ctx.corr_float` uses, would leave the small ones unchecked); zeros must agree exactly,
  non-finite entries must be identical."""
  a = np.asarray(impl, dtype=float).ravel()
  b = np.asarray(model, dtype=float).ravel()
  ctx.traces += 1
  if a.shape != b.shape:
    ctx.corr_mismatch(op, inp, list(a.shape), list(b.shape), 'shape')
    return False
  fa, fb = np.isfinite(a), np.isfinite(b)
  if not (fa == fb).all() or not (np.isnan(a) == np.isnan(b)).all() or not (a[~fa & ~np.isnan(a)] == b[~fa & ~np.isnan(a)]).all():
    ctx.corr_mismatch(op, inp, a.tolist(), b.tolist(), 'finiteness')
    return False
  err = np.abs(a[fa] - b[fa])
  tol = rtol * np.maximum(np.abs(a[fa]), np.abs(b[fa]))
  bad = np.nonzero(err > tol)[0]
  if bad.size:
    i = int(bad[np.argmax(err[bad] / np.maximum(tol[bad], 1e-300))])
    ctx.corr_mismatch(op, inp, a.tolist(), b.tolist(),
                      f'elementwise: {bad.size} of {a.size} entries differ, worst entry impl={a[fa][i]!r} model={b[fa][i]!r} '
                      f'rel={err[i] / max(abs(a[fa][i]), abs(b[fa][i])):.3e} > {rtol}')
    return False
  return True


def circ_dist(a, b):
  d = np.abs(np.asarray(a, dtype=float) - np.asarray(b, dtype=float)) % TWO_PI
  return np.minimum(d, TWO_PI - d)


def run(ctx: common.Ctx):
  jax = common.setup_jax()
  import jax.numpy as jnp
  from dinosaur import scales
  from dinosaur import primitive_equations as pe
  from dinosaur import xarray_utils as xu
  from dinosaur import radiation
  from dinosaur import coordinate_systems, spherical_harmonic, sigma_coordinates
  units = scales.units

  ctx.lean('DinoProofs.Properties.C18', 'C18.txt',
           extra_files=['DinoProofs/Lemmas/Units.lean', 'Dino/Units.lean', 'Dino/UnitsDrv.lean'])
  ctx.assumptions.append(
      'rounding model of T18.3/T18.4: every double operation returns the exact result times (1+d), '
      '|d| <= 2^-53 (no overflow/underflow), and is exact when the exact result is an integer below 2^53; '
      'validated on sampled operations with exact rationals, and the model is executed with the rounding '
      'function fl53 (proved to satisfy this model) and compared bit for bit with the doubles of the code')
  ctx.assumptions.append('pint is external: its unit table (factor to base units, dimension vector; for offset units factor '
                         'and offset of the OffsetConverter) is an input of the model; multiplicativity of the table is checked '
                         'on every compound unit, the affine table against to_base_units and against the unit definitions')
  ctx.assumptions.append('T18.1/T18.2 (multiplicative and affine units) assume ScaleOK (every base scale given to Scale() is '
                         'non-zero; the code does not check this) and a non-zero conversion factor of the unit; compound units '
                         'built from an offset unit (units.degC / units.m) are outside the domain (the code raises)')

  rng = ctx.rng
  lines, checks = [], []   # checks: (op, inp, impl, kind)

  def add(line, op, inp, impl, kind):
    if impl is None:      # the real code raised something unexpected (already reported by `guarded`)
      return
    lines.append(line)
    checks.append((op, inp, impl, kind))

  def guarded(fn, key, inp):
    """value of fn(), 'value-error' for the documented ValueError, None (and a reported failure of the
    property) for any other exception."""
    try:
      return fn()
    except ValueError:
      return 'value-error'
    except common.Infra:
      raise
    except Exception as e:  # pylint: disable=broad-except
      ctx.fail(key, f'implementation raised {type(e).__name__}: {str(e)[:200]}', inp)
      return None

  # ------------------------------------------------------------------ pint's table
  table = {}
  for name in ATOMS:
    q = units.Quantity(1.0, name).to_base_units()
    table[name] = (float(q.m), dimvec(units.Unit(name).dimensionality))

  def mk_unit(parts):
    u = units.Unit('dimensionless')
    for n, e in parts:
      u = u * units.Unit(n) ** e
    return u

  def scale_vals(scale):
    return [float(scale[d].m) if d in scale else None for d in DIMS]

  def random_scale(kind=None):
    kind = kind or rng.choice(['default', 'atmospheric', 'full4', 'full4', 'partial', 'wide'])
    if kind == 'default':
      return scales.DEFAULT_SCALE, kind
    if kind == 'atmospheric':
      return scales.ATMOSPHERIC_SCALE, kind
    if kind == 'full4':
      dims = ['[length]', '[time]', '[mass]', '[temperature]']
    elif kind == 'partial':
      k = int(rng.integers(1, 4))
      dims = list(rng.choice(['[length]', '[time]', '[mass]', '[temperature]'], size=k, replace=False))
    else:
      dims = list(SINGLE)
    qs = []
    for d in dims:
      mag = float(10.0 ** rng.uniform(-3, 8))
      if rng.random() < 0.2:
        mag = float(rng.integers(1, 1000))
      qs.append(mag * units.Unit(str(rng.choice(SINGLE[d]))))
    order = rng.permutation(len(qs))
    return scales.Scale(*[qs[i] for i in order]), kind

  def budget(parts, sv):
    """decimal orders of magnitude the conversion may span (keeps every case far from overflow/underflow,
    which is outside the domain of the property)"""
    d = [0] * len(DIMS)
    b = 0.0
    for n, e in parts:
      b += abs(e) * abs(np.log10(table[n][0]))
      for i, x in enumerate(table[n][1]):
        d[i] += e * x
    # bound by the sum of the absolute contributions (intermediate products in pint are partial products)
    for n, e in parts:
      for i, x in enumerate(table[n][1]):
        if sv[i] is not None:
          b += abs(e * x) * abs(np.log10(sv[i]))
    return b

  def random_parts(scale, covered=True, natoms=None):
    """compound unit; atoms restricted to dimensions the scale covers when `covered`, and at least one atom
    with an uncovered dimension otherwise."""
    sv = scale_vals(scale)
    cov = {d for d in DIMS if d in scale}
    ok_names = [n for n in ATOMS if all(DIMS[i] in cov for i, e in enumerate(table[n][1]) if e)]
    bad_names = [n for n in ATOMS if n not in ok_names]
    for _ in range(100):
      k = int(rng.choice([0, 1, 1, 2, 2, 3, 3, 4])) if natoms is None else natoms
      k = min(k, len(ok_names))
      chosen = list(rng.choice(ok_names, size=k, replace=False)) if k else []
      if not covered and bad_names:
        chosen.insert(int(rng.integers(0, len(chosen) + 1)), rng.choice(bad_names))
      parts = [(str(n), int(rng.choice([1, 1, 1, -1, -1, 2, -2, 3, -3]))) for n in chosen]
      if budget(parts, sv) < 80:
        return parts
    return []

  def random_mag():
    kind = rng.choice(['float', 'float', 'int', 'np1', 'np2', 'jnp', 'zero'])
    def val(shape=()):
      return rng.choice([-1.0, 1.0], size=shape) * 10.0 ** rng.uniform(-12, 12, size=shape)
    if kind == 'float':
      return float(val()), kind
    if kind == 'int':
      return int(rng.integers(-1000, 1000)), kind
    if kind == 'np1':
      return val((3,)), kind
    if kind == 'np2':
      return val((2, 2)), kind
    if kind == 'jnp':
      return jnp.asarray(val((3,))), kind
    return 0.0, kind

  # ------------------------------------------------------------------ correspondence: scales
  ncases = ctx.n(150, 2000)
  jax_overflow = []
  for ci in range(ncases):
    scale, skind = random_scale({0: 'default', 1: 'atmospheric', 2: 'partial'}.get(ci))
    sv = scale_vals(scale)
    st = scale_token(sv)
    uncovered = rng.random() < 0.15
    forced_parts = {0: [], 1: [('meter', 1)], 2: [('second', -2)]}.get(ci)
    parts = forced_parts if forced_parts is not None and ci < 3 else random_parts(scale, covered=not uncovered)
    if ci == 2:
      parts = random_parts(scale, covered=True, natoms=1)
    ut = unit_token(parts, table)
    unit = mk_unit(parts)
    ctx.dist[f'scale={skind}'] += 1
    ctx.dist[f'atoms={len(parts)}'] += 1
    inp0 = dict(scale=sv, unit=str(unit), parts=parts)
    nontriv = len(parts) >= 2 or any(e != 1 for _, e in parts)
    # pint's table is multiplicative on this compound unit (contract of the external parameter)
    qb = units.Quantity(1.0, unit).to_base_units()
    d_unit = dimvec(unit.dimensionality)
    add(f'units F compound {ut}', 'pint-table', inp0, (float(qb.m), d_unit), 'compound')
    # factor
    def _factor():
      f = scale._scaling_factor(unit.dimensionality)
      ctx.expect(dimvec(f.dimensionality) == d_unit, 'factor-dimension',
                 'scaling factor does not have the dimensionality asked for', inp0)
      return float(f.m)
    f_impl = guarded(_factor, 'scale-exception', inp0)
    ctx.dist[f'factor={"error" if f_impl == "value-error" else "ok"}'] += 1
    add(f'units F factor {st} {ivec(d_unit)}', 'Scale._scaling_factor', inp0, f_impl, 'scalar')
    mag, mkind = random_mag()
    if mkind == 'jnp':
      # pint keeps conversion factors of integer-defined units as exact Python integers; multiplying a jax array
      # by an integer >= 2^63 raises OverflowError inside jax (loud, not a conversion result): outside the domain
      try:
        scale.nondimensionalize(mag * unit)
        scale.dimensionalize(mag, unit)
      except OverflowError:
        jax_overflow.append(str(unit))
        ctx.dist['excluded: jax array x pint integer factor >= 2^63 (OverflowError raised by jax), numpy used instead'] += 1
        mag, mkind = np.asarray(mag), 'np1'
      except Exception:  # pylint: disable=broad-except
        pass               # reported below by `guarded`
    ctx.dist[f'mag={mkind}'] += 1
    flat = np.asarray(mag, dtype=float).ravel()
    inp = dict(inp0, magnitude=flat.tolist(), magkind=str(mkind))
    ctx.case(('scale', tuple(x if x is not None else -1 for x in sv), tuple(parts), flat.tobytes()),
             nontrivial=nontriv, sample=inp if ci % 15 == 0 else None)
    nd = guarded(lambda: scale.nondimensionalize(mag * unit), 'scale-exception', inp)
    nd_impl = nd if nd is None or isinstance(nd, str) else np.asarray(nd, dtype=float).ravel()
    add(f'units F nondim {st} {ut} {fvec(flat)}', 'Scale.nondimensionalize', inp, nd_impl, 'vec')
    dm = guarded(lambda: scale.dimensionalize(mag, unit), 'scale-exception', inp)
    if dm is None or isinstance(dm, str):
      dm_impl = dm
    else:
      dm_impl = np.asarray(dm.m, dtype=float).ravel()
      ctx.expect(dm.units == unit, 'dimensionalize-unit', 'dimensionalize returned another unit', inp)
    add(f'units F dim {st} {ut} {fvec(flat)}', 'Scale.dimensionalize', inp, dm_impl, 'vec')
    ctx.expect((f_impl == 'value-error') == (nd_impl == 'value-error' if isinstance(nd_impl, str) else False)
               or f_impl is None or nd_impl is None, 'scale-error-consistency',
               'factor and nondimensionalize disagree on whether the scale covers the unit', inp)

    # ---------------- probes of the property on the real code (T18.1 / T18.2)
    if nd_impl is None or dm_impl is None or isinstance(nd_impl, str) or isinstance(dm_impl, str):
      continue
    def probes(mag, nd):
      back = scale.dimensionalize(nd, unit)
      ctx.expect(close(back.m, mag), 'scale-roundtrip', 'dimensionalize(nondimensionalize(q)) != q', inp)
      ctx.expect(close(scale.nondimensionalize(dm), mag), 'scale-roundtrip-inverse',
                 'nondimensionalize(dimensionalize(v)) != v', inp)
      # another unit of the same dimension: swap atoms for same-dimension atoms
      parts2 = []
      for n, e in parts:
        same = [m for m in ATOMS if table[m][1] == table[n][1]]
        parts2.append((str(rng.choice(same)), e))
      unit2 = mk_unit(parts2)
      q = mag * unit
      q2 = q.to(unit2)
      i2 = dict(inp, other_unit=str(unit2))
      ctx.expect(close(scale.nondimensionalize(q2), nd_impl.reshape(np.shape(nd)), 1e-11), 'scale-unit-independence',
                 'nondimensional value depends on the unit of expression', i2)
      ctx.expect(close(scale.dimensionalize(nd, unit2).m, np.asarray(q2.m, dtype=float), 1e-11),
                 'scale-roundtrip-other-unit', 'dimensionalize in a compatible unit != q.to(unit)', i2)
      # products, quotients, powers
      partsb = random_parts(scale, covered=True, natoms=int(rng.integers(0, 3)))
      unitb = mk_unit(partsb)
      magb = float(rng.choice([-1.0, 1.0]) * 10.0 ** rng.uniform(-6, 6))
      qb_ = magb * unitb
      ndb = scale.nondimensionalize(qb_)
      i3 = dict(inp, b=[magb, str(unitb)])
      ctx.expect(close(scale.nondimensionalize(q * qb_), np.asarray(nd_impl.reshape(np.shape(nd))) * ndb, 1e-11),
                 'scale-product', 'nondim(q1*q2) != nondim(q1)*nondim(q2)', i3)
      ctx.expect(close(scale.nondimensionalize(q / qb_), np.asarray(nd_impl.reshape(np.shape(nd))) / ndb, 1e-11),
                 'scale-quotient', 'nondim(q1/q2) != nondim(q1)/nondim(q2)', i3)
      # powers: nondim_pow carries `m != 0 or n >= 0` (a negative power of a zero quantity is an excluded point: the
      # code raises / returns inf there, recorded below); zeros are probed with the positive powers
      n_pow = int(rng.choice([2, 3, -1, -2]))
      if n_pow < 0 and (flat == 0).any():
        ctx.dist['power: negative power of a zero magnitude (excluded point), positive power probed instead'] += 1
        n_pow = -n_pow
      nz = flat[flat != 0]
      if (((np.abs(np.log10(np.abs(nz))).max() if nz.size else 0.0) + budget(parts, sv)) * abs(n_pow)) < 280:
        ctx.dist[f'power: n={n_pow}{" (zero magnitude)" if (flat == 0).any() else ""}'] += 1
        ctx.expect(close(scale.nondimensionalize(q ** n_pow), np.asarray(nd_impl.reshape(np.shape(nd))) ** n_pow, 1e-11),
                   'scale-power', f'nondim(q**{n_pow}) != nondim(q)**{n_pow}', inp)
      # homomorphism of the factor itself
      try:
        fa = float(scale._scaling_factor(unit.dimensionality).m)
        fb = float(scale._scaling_factor(unitb.dimensionality).m)
        fab = float(scale._scaling_factor((unit * unitb).dimensionality).m)
        ctx.expect(close(fab, fa * fb, 1e-11), 'factor-homomorphism', 'factor(d1+d2) != factor(d1)*factor(d2)', i3)
      except ValueError as e:
        ctx.fail('factor-homomorphism', f'factor raised on covered dimensions: {e}', i3)

    with ctx.impl('scale-probe-exception', inp):
      try:
        probes(mag, nd)
      except OverflowError:
        if mkind != 'jnp':
          raise
        # excluded domain (see the note below): repeat the probes on the same values held by numpy
        jax_overflow.append(str(unit))
        ctx.dist['excluded: jax array x pint integer factor >= 2^63 (OverflowError raised by jax), numpy used instead'] += 1
        probes(np.asarray(mag), np.asarray(nd))

  if jax_overflow:
    ctx.notes.append(f'excluded domain: {len(jax_overflow)} quantities held in a jax array whose (compound) unit has an '
                     f'integer conversion factor >= 2^63 in pint (e.g. {jax_overflow[0]}): jax raises OverflowError on '
                     'array * int inside pint; the same values held by numpy convert correctly and were used instead')

  # ------------------------------------------------------------------ affine (offset) units: degC, degF
  # The registry is created with autoconvert_offset_to_baseunit=True, so Quantity(25, degC) is an admissible
  # argument of nondimensionalize and degC an admissible unit of dimensionalize, which is then an *affine*
  # function of the value.  Model: AffUnit (conv, off, dim), nondimAff / dimensionalizeAff / convertAff.
  # (a Lean tree without these operations answers `bad-op`, which is reported as a correspondence break)
  TEMP_DIM = dimvec(units.kelvin.dimensionality)
  aff = {}      # name -> (unit, conv, off): value_base = value * conv + off  (pint's OffsetConverter)
  for name in ['kelvin', 'degree_Celsius', 'degree_Fahrenheit', 'degree_Reaumur', 'degree_Rankine']:
    cv = units._units[name].converter    # pylint: disable=protected-access
    aff[name] = (units.Unit(name), float(cv.scale), float(getattr(cv, 'offset', 0.0)))
  # the table read from the converters is what the public API uses (to_base_units of 0 and 1), and it is what
  # the definitions of the units say (independent constants)
  for name, (un, cv_, of_) in aff.items():
    b0 = float(units.Quantity(0.0, un).to_base_units().m)
    b1 = float(units.Quantity(1.0, un).to_base_units().m)
    ctx.expect(b0 == of_ and abs((b1 - b0) - cv_) <= 1e-13, 'affine-pint-table',
               'converter scale/offset are not what to_base_units applies', dict(unit=name, conv=cv_, off=of_, b0=b0, b1=b1))
  exact_tab = {'kelvin': (Fraction(1), Fraction(0)), 'degree_Celsius': (Fraction(1), Fraction(27315, 100)),
               'degree_Fahrenheit': (Fraction(5, 9), Fraction(23315, 100) + Fraction(200, 9)),
               'degree_Reaumur': (Fraction(5, 4), Fraction(27315, 100)), 'degree_Rankine': (Fraction(5, 9), Fraction(0))}
  for name, (cq, oq) in exact_tab.items():
    ctx.expect(abs(Fraction(aff[name][1]) - cq) <= cq * U53 * 2 and abs(Fraction(aff[name][2]) - oq) <= oq * U53 * 2,
               'affine-pint-table', 'pint table differs from the definition of the unit', dict(unit=name))

  def aff_token(name):
    _, cv_, of_ = aff[name]
    return f'{fbits(cv_)}:{fbits(of_)}:{ivec(TEMP_DIM)}'

  def within(a, b, tol):
    a = np.asarray(a, dtype=float)
    b = np.asarray(b, dtype=float)
    tol = np.broadcast_to(np.asarray(tol, dtype=float), a.shape) if a.shape == b.shape else tol
    return a.shape == b.shape and bool(np.isfinite(a).all() and np.isfinite(b).all() and (np.abs(a - b) <= tol).all())

  custom_scale = scales.Scale(3 * units.mile, np.pi * units.week, 2 * units.lb, 32 * units.degK)
  aff_scales = [(scales.DEFAULT_SCALE, 'default'), (scales.ATMOSPHERIC_SCALE, 'atmospheric'), (custom_scale, 'custom-32K')]
  for _ in range(ctx.n(12, 100)):
    aff_scales.append(random_scale(str(rng.choice(['full4', 'wide']))))
  AFF_NAMES = list(aff)
  ART = 1e-12     # probes: a few ulps of the Kelvin magnitude; the seeded / realistic defects are >= 1e-3 K
  CRT = 1e-9      # correspondence, as everywhere else, relative to the Kelvin magnitude of the operation

  def temps(name, kind):
    """magnitudes of temperatures in the unit `name` (base values from absolute zero to 1e4 K, plus a few wide ones)"""
    _, cv_, of_ = aff[name]
    def val(shape=()):
      k = np.where(rng.random(size=shape) < 0.8, rng.uniform(0.0, 1e4, size=shape),
                   rng.choice([-1.0, 1.0], size=shape) * 10.0 ** rng.uniform(-6, 8, size=shape))
      return (k - of_) / cv_
    special = np.array([0.0, -40.0, 25.0, 36.6, 1e-9, -1e-9, -of_ / cv_, 100.0, 77.0])
    if kind == 'float':
      return float(rng.choice(special)) if rng.random() < 0.4 else float(val())
    if kind == 'int':
      return int(rng.integers(-200, 2000))
    if kind == 'np1':
      return np.concatenate([rng.choice(special, 2), val((3,))])
    if kind == 'np2':
      return val((2, 3))
    return jnp.asarray(np.concatenate([rng.choice(special, 2), val((3,))]))

  naff = 0
  for scale, skind in aff_scales:
    sv = scale_vals(scale)
    st = scale_token(sv)
    Ts = float(scale['[temperature]'].m)
    for name in AFF_NAMES:
      un, cv_, of_ = aff[name]
      for mkind in (['float', 'int', 'np1', 'np2', 'jnp'] if skind in ('default', 'atmospheric', 'custom-32K')
                    else [str(rng.choice(['float', 'int', 'np1', 'np2', 'jnp']))]):
        mag = temps(name, mkind)
        flat = np.asarray(mag, dtype=float).ravel()
        kel = flat * cv_ + of_                       # oracle: value in kelvin
        inp = dict(scale=sv, scale_kind=skind, unit=name, conv=cv_, off=of_, magnitude=flat.tolist(), magkind=mkind)
        ctx.dist[f'affine:unit={name}'] += 1
        ctx.dist[f'affine:mag={mkind}'] += 1
        ctx.case(('aff', tuple(x if x is not None else -1 for x in sv), name, flat.tobytes()),
                 nontrivial=of_ != 0.0, sample=inp if naff % 40 == 0 else None)
        naff += 1
        kscale = np.abs(kel) + abs(of_)              # Kelvin magnitude of the operations (per element)
        with ctx.impl('affine-exception', inp):
          q = units.Quantity(mag, un)
          nd = scale.nondimensionalize(q)
          nd_flat = np.asarray(nd, dtype=float).ravel()
          # independent oracle: the quantity in kelvin divided by the temperature scale
          ctx.expect(within(nd_flat, kel / Ts, ART * kscale / Ts), 'affine-oracle',
                     'nondimensionalize(Quantity(m, unit)) != (m * conv + off) / temperature scale', inp)
          back = scale.dimensionalize(nd, un)
          ctx.expect(back.units == un, 'dimensionalize-unit', 'dimensionalize returned another unit', inp)
          ctx.expect(within(np.asarray(back.m, dtype=float).ravel(), flat, ART * kscale / abs(cv_)), 'affine-roundtrip',
                     f'dimensionalize(nondimensionalize(q), {name}) != q', dict(inp, got=np.asarray(back.m, dtype=float).ravel().tolist()))
          # a non-dimensional value -> unit -> back
          y = nd if rng.random() < 0.5 else (np.asarray(rng.uniform(0.0, 1e4, size=np.shape(mag))) / Ts
                                             if mkind != 'jnp' else jnp.asarray(rng.uniform(0.0, 1e4, size=np.shape(mag)) / Ts))
          if mkind in ('float', 'int'):
            y = float(y)
          y_flat = np.asarray(y, dtype=float).ravel()
          ykel = np.abs(y_flat * Ts) + abs(of_)
          dm = scale.dimensionalize(y, un)
          dm_flat = np.asarray(dm.m, dtype=float).ravel()
          i2 = dict(inp, value=y_flat.tolist())
          ctx.expect(within(dm_flat, (y_flat * Ts - of_) / cv_, ART * ykel / abs(cv_)), 'affine-oracle',
                     'dimensionalize(y, unit) != (y * temperature scale - off) / conv', dict(i2, got=dm_flat.tolist()))
          ctx.expect(within(np.asarray(scale.nondimensionalize(dm), dtype=float).ravel(), y_flat, ART * ykel / Ts),
                     'affine-roundtrip-inverse', f'nondimensionalize(dimensionalize(y, {name})) != y', i2)
          # unit independence, both directions, against every other affine unit of the table
          for name2 in AFF_NAMES:
            if name2 == name:
              continue
            un2, cv2, of2 = aff[name2]
            i3 = dict(inp, other_unit=name2)
            q2 = q.to(un2)
            ctx.expect(within(np.asarray(scale.nondimensionalize(q2), dtype=float).ravel(), nd_flat,
                              ART * (kscale + abs(of2)) / Ts), 'affine-unit-independence',
                       'nondimensional value depends on the unit the temperature is expressed in', i3)
            ctx.expect(within(np.asarray(scale.dimensionalize(nd, un2).m, dtype=float).ravel(),
                              np.asarray(q2.m, dtype=float).ravel(), ART * (kscale + abs(of2)) / abs(cv2)),
                       'affine-roundtrip-other-unit', f'{name} -> nondim -> {name2} != q.to({name2})', i3)
            ctx.expect(within(np.asarray(dm.to(un2).m, dtype=float).ravel(),
                              np.asarray(scale.dimensionalize(y, un2).m, dtype=float).ravel(),
                              ART * (ykel + abs(of2)) / abs(cv2)), 'affine-dimensionalize-unit-independence',
                       f'dimensionalize(y, {name}).to({name2}) != dimensionalize(y, {name2})', dict(i3, value=y_flat.tolist()))
          ut = aff_token(name)
          add(f'units F anondim {st} {ut} {fvec(flat)}', 'Scale.nondimensionalize[affine]', inp,
              (nd_flat, CRT * kscale.max() / Ts), 'avec')
          add(f'units F adim {st} {ut} {fvec(y_flat)}', 'Scale.dimensionalize[affine]', i2,
              (dm_flat, CRT * ykel.max() / abs(cv_)), 'avec')
          name2 = str(rng.choice([n for n in AFF_NAMES if n != name]))
          un2, cv2, of2 = aff[name2]
          add(f'units F aconv {ut} {aff_token(name2)} {fvec(flat)}', 'Quantity.to[affine]', dict(inp, other_unit=name2),
              (np.asarray(q.to(un2).m, dtype=float).ravel(), CRT * (kscale.max() + abs(of2)) / abs(cv2)), 'avec')
  # a scale without a temperature: both directions raise the documented ValueError on an affine unit as well
  no_temp = scales.Scale(scales.RADIUS, 1 / 2 / scales.OMEGA)
  for name in ['degree_Celsius', 'degree_Fahrenheit']:
    un = aff[name][0]
    i4 = dict(scale=scale_vals(no_temp), unit=name)
    r1 = guarded(lambda: scale_token([float(no_temp.nondimensionalize(units.Quantity(25.0, un)))]), 'affine-exception', i4)
    r2 = guarded(lambda: scale_token([float(no_temp.dimensionalize(1.0, un).m)]), 'affine-exception', i4)
    ctx.expect(r1 == 'value-error' and r2 == 'value-error', 'scale-error-consistency',
               'a scale without a temperature does not raise ValueError on an offset unit', dict(i4, got=[r1, r2]))
    stn = scale_token(scale_vals(no_temp))
    add(f'units F anondim {stn} {aff_token(name)} {fvec([25.0])}', 'Scale.nondimensionalize[affine, uncovered]', i4, r1, 'avec')
    add(f'units F adim {stn} {aff_token(name)} {fvec([1.0])}', 'Scale.dimensionalize[affine, uncovered]', i4, r2, 'avec')
  # the same through PrimitiveEquationsSpecs.from_si()
  specs_si = pe.PrimitiveEquationsSpecs.from_si()
  for name in ['degree_Celsius', 'degree_Fahrenheit']:
    un, cv_, of_ = aff[name]
    for mag in [15.0, 0.0, np.array([-40.0, 0.0, 25.0, 36.6]), jnp.asarray([-40.0, 1e-9, 25.0, 36.6])]:
      flat = np.asarray(mag, dtype=float).ravel()
      inp = dict(via='PrimitiveEquationsSpecs.from_si', unit=name, magnitude=flat.tolist())
      ctx.case(('aff-specs', name, flat.tobytes()), nontrivial=True)
      with ctx.impl('affine-exception', inp):
        ynd = specs_si.nondimensionalize(units.Quantity(mag, un))
        tolk = ART * (np.abs(flat * cv_ + of_) + abs(of_))
        Tsi = float(specs_si.scale['[temperature]'].m)
        ctx.expect(within(np.asarray(ynd, dtype=float).ravel(), (flat * cv_ + of_) / Tsi, tolk / Tsi), 'affine-oracle',
                   'specs.nondimensionalize(Quantity(m, unit)) != (m * conv + off) / temperature scale', inp)
        ctx.expect(within(np.asarray(specs_si.dimensionalize(ynd, un).m, dtype=float).ravel(), flat, tolk / abs(cv_)),
                   'affine-roundtrip', f'specs: {name} -> nondim -> {name} != q', inp)
        ctx.expect(within(np.asarray(specs_si.dimensionalize(ynd, units.kelvin).m, dtype=float).ravel(), flat * cv_ + of_, tolk),
                   'affine-roundtrip-other-unit', f'specs: {name} -> nondim -> kelvin != q.to(kelvin)', inp)
        ctx.expect(within(np.asarray(specs_si.dimensionalize(ynd, un).to(units.kelvin).m, dtype=float).ravel(),
                          np.asarray(specs_si.dimensionalize(ynd, units.kelvin).m, dtype=float).ravel(), tolk),
                   'affine-dimensionalize-unit-independence', f'specs: dimensionalize(y, {name}).to(K) != dimensionalize(y, K)', inp)
  # outside the domain: a compound unit built from an offset unit (units.degC / units.m) — recorded, not judged
  for mk, label in [(lambda: units.degC / units.meter, 'degC / m'), (lambda: units.degC ** 2, 'degC ** 2')]:
    res = []
    for fn in (lambda: scales.DEFAULT_SCALE.nondimensionalize(units.Quantity(2.0, mk())),
               lambda: scales.DEFAULT_SCALE.dimensionalize(2.0, mk())):
      try:
        res.append(f'returns {fn()!r}')
      except Exception as e:  # pylint: disable=broad-except
        res.append(f'raises {type(e).__name__}')
    ctx.dist[f'excluded: compound unit with an offset unit ({label}): nondimensionalize {res[0]}, dimensionalize {res[1]}'] += 1
  ctx.notes.append('excluded domain: compound units built from an offset unit (units.degC / units.m, units.degC ** 2); '
                   "see the distribution for what the code does on them; pint's parser turns the string 'degC/m' into the "
                   'multiplicative delta_degC / m, which is covered by the multiplicative model')

  # ------------------------------------------------------------------ Scale.__init__ validation stream
  nval = ctx.n(60, 600)
  for vi in range(nval):
    mode = ['ok', 'compound', 'squared', 'dimensionless', 'duplicate', 'duplicate-other-unit', 'inverse'][vi % 7]
    dims = list(rng.choice(list(SINGLE), size=int(rng.integers(1, 5)), replace=False))
    qs = [float(10.0 ** rng.uniform(-2, 6)) * units.Unit(str(rng.choice(SINGLE[d]))) for d in dims]
    if mode == 'compound':
      qs.insert(int(rng.integers(0, len(qs) + 1)), 3.0 * units.meter / units.second)
    elif mode == 'squared':
      qs.insert(int(rng.integers(0, len(qs) + 1)), 2.0 * units.meter ** 2)
    elif mode == 'dimensionless':
      qs.insert(int(rng.integers(0, len(qs) + 1)), 2.0 * units.dimensionless)
    elif mode == 'duplicate':
      qs.append(qs[0])
    elif mode == 'duplicate-other-unit':
      d0 = dims[0]
      qs.append(5.0 * units.Unit(str(rng.choice(SINGLE[d0]))))
    elif mode == 'inverse':
      qs.insert(0, 2.0 / units.second)
    vinp = dict(scales=[str(q) for q in qs])
    impl = guarded(lambda: scale_token(scale_vals(scales.Scale(*qs))), 'scale-validation', vinp)
    if impl is None:
      continue
    ctx.dist[f'validation:{mode}:{"reject" if impl == "value-error" else "accept"}'] += 1
    ctx.case(('val', vi, mode), nontrivial=True)
    ctx.expect((impl == 'value-error') == (mode != 'ok'), 'scale-validation',
               f'Scale(...) accepted={impl != "value-error"} for mode {mode}', dict(scales=[str(q) for q in qs]))
    toks = []
    for q in qs:
      b = q.to_base_units()
      toks.append(f'{fbits(b.m)}:{ivec(dimvec(q.dimensionality))}')
    add(f'units F mkscale {len(DIMS)} {";".join(toks)}', 'Scale.__init__', dict(scales=[str(q) for q in qs]), impl, 'str')

  # the excluded points of nondim_div (`m2 != 0`) and nondim_pow (`m != 0` for a negative power) on the real code:
  # recorded, not judged (the theorems say nothing there; the model over a field would return 0 through x/0 = 0,
  # see nondim_div_excluded / nondim_pow_excluded)
  def behaviour(fn):
    try:
      with np.errstate(all='ignore'):
        r = np.asarray(fn(), dtype=float).ravel()
      return 'returns ' + ('inf' if np.isinf(r).all() else 'nan' if np.isnan(r).all() else f'the finite value {r.tolist()}')
    except Exception as e:  # pylint: disable=broad-except
      return f'raises {type(e).__name__}'
  S0 = scales.DEFAULT_SCALE
  excl = []
  for label, fn in [('nondimensionalize((3 m) / (0 s))', lambda z, th: S0.nondimensionalize((th * units.m) / (z * units.s))),
                    ('nondimensionalize((0 m) ** -1)', lambda z, th: S0.nondimensionalize((z * units.m) ** -1)),
                    ('nondimensionalize((0 m) ** -2)', lambda z, th: S0.nondimensionalize((z * units.m) ** -2))]:
    for kind, z, th in [('python float', 0.0, 3.0), ('python int', 0, 3), ('numpy array', np.array([0.0]), np.array([3.0])),
                        ('jax array', jnp.array([0.0]), jnp.array([3.0]))]:
      b = behaviour(lambda: fn(z, th))
      ctx.dist[f'excluded point {label} [{kind}]: {b}'] += 1
      excl.append(f'{label} [{kind}] {b}')
  ctx.notes.append('excluded points of nondim_div (m2 = 0) and nondim_pow (m = 0, n < 0) on the real code: ' + '; '.join(excl))
  # outside the model: fractional exponents of dimensions (the model has integer exponents, `List Int`); the code
  # accepts them — recorded, with the one identity that can be stated without the model
  with ctx.impl('scale-exception', dict(unit='meter ** 0.5')):
    L0 = float(S0['[length]'].m)
    r_half = float(S0.nondimensionalize(2.0 * units.m ** 0.5))
    ctx.expect(close(r_half, 2.0 / np.sqrt(L0), 1e-12), 'scale-fractional-exponent',
               'nondimensionalize(2 m**0.5) != 2 / sqrt(length scale)', dict(got=r_half))
    ctx.notes.append(f'outside the model: non-integer dimension exponents are accepted by the code (nondimensionalize(2 m**0.5) = '
                     f'{r_half!r} = 2 / sqrt(length scale)); the Lean model has integer exponents only')

  # the excluded point of T18.1/T18.2 (`ScaleOK`: scales are non-zero) on the real code: not validated there
  try:
    z = scales.Scale(0.0 * units.meter)
    with np.errstate(all='ignore'):
      r = z.nondimensionalize(1.0 * units.meter)
    ctx.notes.append(f'excluded point: Scale(0 m) is accepted by the code; nondimensionalize(1 m) = {r!r}')
  except Exception as e:  # pylint: disable=broad-except
    ctx.notes.append(f'excluded point: Scale(0 m).nondimensionalize(1 m) raises {type(e).__name__}: {e}')
  ctx.notes.append('excluded point: Scale(0 m)._scaling_factor of 1/m (factor_zsmul / factor_neg with a negative exponent at a zero '
                   'scale) ' + behaviour(lambda: scales.Scale(0.0 * units.meter)._scaling_factor((1 / units.meter).dimensionality).m))

  # ------------------------------------------------------------------ timedelta64
  specs0 = pe.PrimitiveEquationsSpecs.from_si()
  T0s = float(specs0.scale['[time]'].m)

  def random_time_specs():
    if rng.random() < 0.3:
      return specs0
    tq = float(10.0 ** rng.uniform(-2, 7)) * units.Unit(str(rng.choice(SINGLE['[time]'])))
    sc = scales.Scale(scales.RADIUS, tq, 1 * units.kilogram, 1 * units.degK)
    return dataclasses.replace(specs0, scale=sc)

  def seconds_sets():
    """list of (specs, int64 array of whole seconds, label)"""
    out = [(specs0, np.arange(0, 10 ** 5 + 1, dtype=np.int64), 'all-0..1e5-default')]
    nscales = ctx.n(4, 12)
    for _ in range(nscales):
      out.append((random_time_specs(), np.arange(0, 10 ** 5 + 1, dtype=np.int64), 'all-0..1e5-random-scale'))
    if not ctx.quick:
      for lo, hi in [(10 ** 5, 10 ** 6), (10 ** 6, 10 ** 7), (10 ** 7, 10 ** 8), (10 ** 8, 10 ** 9)]:
        s = np.unique(np.concatenate([rng.integers(lo, hi, 300000), [lo, hi, hi - 1]])).astype(np.int64)
        out.append((specs0, s, f'stratified-{lo}..{hi}'))
        out.append((random_time_specs(), s, f'stratified-{lo}..{hi}-random-scale'))
      out.append((specs0, np.arange(0, 3 * 10 ** 6 + 1, dtype=np.int64), 'all-0..3e6-default'))
    else:
      s = np.unique(np.concatenate([(10.0 ** rng.uniform(5, 9, 20000)).astype(np.int64), [10 ** 9]]))
      out.append((specs0, s, 'stratified-1e5..1e9'))
    return out

  lost_by_truncation = None
  hyp_ok, hyp_n, hyp_worst = True, 0, Fraction(0)
  for specs, secs, label in seconds_sets():
    T = float(specs.scale['[time]'].m)
    st = scale_token(scale_vals(specs.scale))
    inp = dict(time_scale_s=T, label=label)
    ctx.dist[f'timedelta:{label}'] += 1
    with ctx.impl('timedelta-exception', inp):
      td = secs.astype('timedelta64[s]')
      nd = specs.nondimensionalize_timedelta64(td)
      back = specs.dimensionalize_timedelta64(nd)
      bad = np.nonzero(back.astype(np.int64) != secs)[0]
      ctx.evaluations += len(secs)
      ctx.nontrivial.add(f'td:{label}:{T}')
      ctx.expect(bad.size == 0, 'timedelta-roundtrip[array]',
                 f'{bad.size} of {secs.size} whole-second durations do not survive the round trip (first: '
                 f'{int(secs[bad[0]]) if bad.size else None} s -> {back[bad[0]] if bad.size else None})',
                 dict(inp, seconds=[int(x) for x in secs[bad[:5]]]))
      ctx.expect(back.dtype == np.dtype('timedelta64[s]'), 'timedelta-dtype', f'dtype {back.dtype}', inp)
      # negative durations as well
      ndn = specs.nondimensionalize_timedelta64((-secs[:2000]).astype('timedelta64[s]'))
      backn = specs.dimensionalize_timedelta64(ndn)
      ctx.expect((backn.astype(np.int64) == -secs[:2000]).all(), 'timedelta-roundtrip[negative]',
                 'negative whole-second durations do not survive the round trip', inp)
      # the float operations really are fl(s/T) and fl(v*T)
      dsec = np.asarray(specs.scale.dimensionalize(nd, units('s')).m)
      ctx.expect((nd == secs / T).all() and (dsec == nd * T).all(), 'timedelta-float-chain',
                 'non-dimensionalisation is not the single division / multiplication the model assumes', inp)
      if label == 'all-0..1e5-default':
        lost_by_truncation = int((dsec.astype(np.int64) != secs).sum())
      # scalar path on a subset (python-level calls)
      nsub = ctx.n(1500, 20000) if 'default' in label or label.startswith('stratified') else ctx.n(300, 3000)
      sub = np.unique(np.concatenate([secs[:min(len(secs), nsub // 3)], rng.choice(secs, nsub)]))
      for s in sub:
        s = int(s)
        v = specs.nondimensionalize_timedelta64(np.timedelta64(s, 's'))
        b = specs.dimensionalize_timedelta64(v)
        if not (isinstance(b, np.timedelta64) and b == np.timedelta64(s, 's')):
          ctx.fail('timedelta-roundtrip[scalar]', f'{s} s comes back as {b}', dict(inp, seconds=s))
          break
      ctx.evaluations += len(sub)
      # model on a sample: nondim value, seconds before rounding, both paths, old truncation
      samp = np.unique(np.concatenate([secs[:40], rng.choice(secs, ctx.n(400, 3000))]))
      j = np.searchsorted(secs, samp)
      scal = [int(specs.dimensionalize_timedelta64(np.float64(x)) / np.timedelta64(1, 's')) for x in nd[j][:200]]
      add(f'units F td {st} {ivec(TIME_DIM)} {ivec(samp)}', 'timedelta64 round trip', dict(inp, seconds=samp[:20].tolist()),
          (nd[j], dsec[j], scal, back[j].astype(np.int64).tolist(), dsec[j].astype(np.int64).tolist()), 'td')
      # hypothesis of T18.3: relative error of the two (three) operations
      for s in rng.choice(secs[1:], 60):
        s = int(s)
        v = np.float64(s) / np.float64(T)
        d = v * np.float64(T)
        y = d * np.float64(1e6)
        for got, exact in ((v, Fraction(s) / Fraction(T)), (d, Fraction(float(v)) * Fraction(T)),
                           (y, Fraction(float(d)) * 10 ** 6)):
          if exact != 0:
            r = abs(Fraction(float(got)) / exact - 1)
            hyp_worst = max(hyp_worst, r)
            hyp_ok &= r <= U53
            hyp_n += 1
        # second half of the rounding model (`RoundingModel.exactInt`): integers below 2^53 are doubles, and an
        # operation whose exact result is such an integer returns it (array path: rint(y) / 1e6)
        hyp_ok &= Fraction(float(np.float64(s))) == s and float(np.rint(y) / np.float64(1e6)) == float(s)
        hyp_n += 1
  ctx.obligation('hypothesis: |fl(x)/x - 1| <= 2^-53 on the operations of the timedelta round trip', 'hypothesis',
                 hyp_ok, f'{hyp_n} operations, worst {float(hyp_worst / U53):.3f} * 2^-53')
  ctx.notes.append(f'plain truncation (code before 35952ac) would lose {lost_by_truncation} of the whole seconds '
                   '0..1e5 under the default scale')
  # the negative witness of the Lean file on the real arithmetic: 27 s under the default scale
  with ctx.impl('timedelta-witness', dict(seconds=27)):
    v27 = specs0.nondimensionalize_timedelta64(np.timedelta64(27, 's'))
    d27 = float(specs0.scale.dimensionalize(v27, units('s')).m)
    ctx.expect(specs0.dimensionalize_timedelta64(v27) == np.timedelta64(27, 's'), 'timedelta-roundtrip[scalar]',
               '27 s does not survive the round trip', dict(seconds=27, dt=d27))
    ctx.obligation('witness: Lean constants T0, v0, d0 are the doubles of the implementation', 'witness',
                   Fraction(float(specs0.scale['[time]'].m)) == Fraction(7539163657268239, 1099511627776)
                   and Fraction(float(v27)) == Fraction(4539835950260289, 1152921504606846976)
                   and Fraction(d27) == Fraction(7599824371187711, 281474976710656) and int(d27) == 26,
                   f'T={float(specs0.scale["[time]"].m)!r} v={float(v27)!r} dt={d27!r}')
  # outside the domain: a jax array given to dimensionalize_timedelta64 (the array path is `isinstance(dt, np.ndarray)`,
  # so a jax array of rank >= 1 falls into the scalar path and `float(dt)` raises) — recorded, not judged
  td_jax = []
  for label, mk in [('jax array of rank 1', lambda: jnp.asarray([27.0, 28.0]) / T0s), ('jax array of rank 0', lambda: jnp.asarray(27.0 / T0s)),
                    ('numpy array of rank 0', lambda: np.asarray(27.0 / T0s))]:
    try:
      td_jax.append(f'{label}: returns {specs0.dimensionalize_timedelta64(mk())!r}')
    except Exception as e:  # pylint: disable=broad-except
      td_jax.append(f'{label}: raises {type(e).__name__}')
    ctx.dist[f'excluded: dimensionalize_timedelta64 on a {td_jax[-1]}'] += 1
  ctx.notes.append('excluded domain: dimensionalize_timedelta64 takes Python / numpy scalars (scalar path) and numpy arrays (array '
                   'path); ' + '; '.join(td_jax))
  # arbitrary (not whole-second) values: documented rounding-down behaviour, both paths, vs model
  for specs in [specs0, random_time_specs(), random_time_specs()]:
    T = float(specs.scale['[time]'].m)
    st = scale_token(scale_vals(specs.scale))
    secs_f = np.concatenate([[6856.83, 0.69, 26.9999999, 26.9999994, 27.0000004, -1.5, -0.2, 0.9999995, 0.9999994,
                              2.5e-7, 1e9 + 0.5],
                             rng.uniform(-1e4, 1e6, ctx.n(300, 3000)),
                             rng.integers(0, 10 ** 6, 100) + rng.choice([-4e-7, 4e-7, -6e-7, 6e-7, 0.5], 100)])
    vals = secs_f / T
    arr = specs.dimensionalize_timedelta64(vals).astype(np.int64)
    scal = [int(specs.dimensionalize_timedelta64(np.float64(x)) / np.timedelta64(1, 's')) for x in vals]
    dsec = np.asarray(specs.scale.dimensionalize(vals, units('s')).m)
    old = [int(x) for x in dsec]
    ctx.evaluations += len(vals)
    # oracle: exact decimal rounding to microseconds, then toward zero
    orc = [int(Fraction(round(Fraction(float(x)) * 10 ** 6), 10 ** 6)) for x in dsec]
    ctx.expect(scal == orc, 'timedelta-rounding-oracle', 'scalar path != trunc(round(dt, 6))',
               dict(time_scale_s=T, first=[(float(a), b, c) for a, b, c in zip(dsec, scal, orc) if b != c][:3]))
    ctx.expect(arr.tolist() == scal, 'timedelta-paths-agree', 'array path and scalar path differ',
               dict(time_scale_s=T, first=[(float(a), b, c) for a, b, c in zip(dsec, arr.tolist(), scal) if b != c][:3]))
    add(f'units F tddim {st} {ivec(TIME_DIM)} {fvec(vals)}', 'dimensionalize_timedelta64',
        dict(time_scale_s=T, values=vals[:12].tolist()), (scal, arr.tolist(), old), 'tddim')

  # ------------------------------------------------------------------ datetime64 <-> model time
  hyp2_ok, hyp2_n = True, 0
  ndt = ctx.n(4, 12)
  for di in range(ndt):
    specs = specs0 if di == 0 else random_time_specs()
    T = float(specs.scale['[time]'].m)
    st = scale_token(scale_vals(specs.scale))
    unit = ['s', 'm', 'ns', 'ms', 'us', 'h'][di % 6] if di < 6 else str(rng.choice(['s', 'm', 'ns', 'ms', 'us']))
    ref_min = int(rng.integers(-30 * 525960, 60 * 525960))       # minutes since 1970, 1940..2030
    if di == 0:
      ref_min = int((np.datetime64('1979-01-01T00:00') - np.datetime64('1970-01-01T00:00')) / np.timedelta64(1, 'm'))
    ref = (np.datetime64('1970-01-01T00:00', 'm') + np.timedelta64(ref_min, 'm'))
    years = ctx.n(3, 20) if di == 0 else ctx.n(1, 5)
    start = int(rng.integers(-60 * 525960, 60 * 525960 - years * 525960)) if di else 0
    mins = np.concatenate([np.arange(start, start + years * 525960, dtype=np.int64),
                           rng.integers(-60 * 525960, 60 * 525960, ctx.n(100000, 1000000))])
    if unit == 'h':
      ref = ref.astype('datetime64[h]')
      stamps = ref + (mins // 60).astype('timedelta64[h]')
    else:
      ref = ref.astype(f'datetime64[{unit}]')
      stamps = ref + mins.astype('timedelta64[m]')
    stamps = stamps.astype(f'datetime64[{unit}]')
    inp = dict(time_scale_s=T, unit=unit, reference=str(ref), n=int(stamps.size))
    ctx.dist[f'datetime:unit={unit}'] += 1
    ctx.nontrivial.add(f'dt:{unit}:{T}:{ref}')
    ctx.evaluations += int(stamps.size)
    with ctx.impl('datetime-exception', inp):
      nd = xu.datetime64_to_nondim_time(stamps, specs, ref)
      # numpy crashes (segmentation fault) when datetime64[ns] + timedelta64[m] overflows int64, so a conversion
      # that is off by a large factor is reported here instead of being passed on to numpy
      mins_chk = np.asarray(specs.dimensionalize(nd, units.minute).magnitude, dtype=float)
      if not (np.isfinite(mins_chk).all() and np.abs(mins_chk).max() <= 1.4e8):
        ctx.fail('datetime-roundtrip', 'minutes recovered from model time are outside +-266 years although all stamps '
                 f'are within +-120 years of the reference (max |minutes| = {np.abs(mins_chk).max()})', inp)
        continue
      back = xu.nondim_time_to_datetime64(nd, specs, ref)
      bad = np.nonzero(back != stamps)[0]
      ctx.expect(bad.size == 0, 'datetime-roundtrip',
                 f'{bad.size} of {stamps.size} stamps are not recovered (first: {stamps[bad[0]] if bad.size else None} '
                 f'-> {back[bad[0]] if bad.size else None})', dict(inp, stamps=[str(x) for x in stamps[bad[:5]]]))
      # model time is proportional to elapsed time
      el = (stamps - ref) / np.timedelta64(1, 's')
      ctx.expect(close(nd, el / T, 1e-12), 'datetime-elapsed', 'model time != elapsed seconds / time scale', inp)
      # sample for the model
      j = np.unique(np.concatenate([np.arange(30), rng.integers(0, stamps.size, ctx.n(500, 3000))]))
      upm = {'s': 60, 'm': 1, 'ns': 60 * 10 ** 9, 'ms': 60000, 'us': 60 * 10 ** 6}.get(unit)
      cnt = stamps[j].astype(np.int64)
      refc = int(ref.astype(np.int64))
      uph = 1 if unit == 'h' else 60 * upm
      add(f'units F dt {st} {ivec(TIME_DIM)} {uph} {ivec(cnt - refc)}', 'datetime64_to_nondim_time',
          dict(inp, stamps=[str(x) for x in stamps[j[:10]]]), nd[j], 'vec')
      mins_impl = np.round(np.asarray(specs.dimensionalize(nd[j], units.minute).magnitude)).astype(np.int64)
      add(f'units F dtmin {st} {ivec(TIME_DIM)} {fvec(nd[j])}', 'nondim_time_to_datetime64[minutes]',
          dict(inp, times=nd[j[:10]].tolist()), mins_impl.tolist(), 'ivec')
      if upm is not None:
        add(f'units F dtrt {st} {ivec(TIME_DIM)} {upm} {refc} {ivec(cnt)}', 'datetime64 round trip',
            dict(inp, stamps=[str(x) for x in stamps[j[:10]]]), back[j].astype(np.int64).tolist(), 'ivec')
      # stamps that are NOT a whole number of minutes from the reference (outside `datetime_roundtrip`, whose stamps are
      # refc + m * upm): nondim_time_to_datetime64 rounds the elapsed time to whole minutes FROM THE REFERENCE, so such a
      # stamp comes back as the nearest reference + k minutes; the model (`dtRoundtrip`, bit-exact) is compared on all
      # of them, the probe skips the exact ties (half a minute: the direction depends on the rounding of the chain)
      if unit == 's':
        offs = np.concatenate([[30, 60, 90, 120, 150, -30, 29, 31, 0, 59, 61],
                               rng.integers(-2 * 10 ** 9, 2 * 10 ** 9, ctx.n(400, 4000))]).astype(np.int64)
        st2 = ref + offs.astype('timedelta64[s]')
        nd2 = xu.datetime64_to_nondim_time(st2, specs, ref)
        back2 = xu.nondim_time_to_datetime64(nd2, specs, ref)
        got = ((back2 - ref) / np.timedelta64(1, 's')).astype(np.int64)
        nearest = ((2 * offs + 60) // 120) * 60                 # nearest multiple of 60 (ties, excluded below, go up)
        notie = offs % 60 != 30
        ctx.dist['datetime:off-minute stamps'] += int((offs % 60 != 0).sum())
        ctx.evaluations += int(offs.size)
        ctx.expect((got[notie] == nearest[notie]).all(), 'datetime-off-minute',
                   'a stamp that is not a whole number of minutes from the reference does not come back as the nearest '
                   'reference + k minutes', dict(inp, offsets_s=offs[notie][got[notie] != nearest[notie]][:5].tolist()))
        add(f'units F dtrt {st} {ivec(TIME_DIM)} 60 {refc} {ivec(st2.astype(np.int64))}', 'datetime64 round trip [off-minute stamps]',
            dict(inp, offsets_s=offs[:12].tolist()), back2.astype(np.int64).tolist(), 'ivec')
      # scalar call and the time-axis helper
      k0, k1 = int(rng.integers(0, stamps.size)), int(rng.integers(0, stamps.size))
      ctx.expect(float(xu.datetime64_to_nondim_time(stamps[k0], specs, ref)) == float(nd[k0]), 'datetime-scalar',
                 'scalar and array conversion differ', dict(inp, stamp=str(stamps[k0])))
      if unit != 'h':
        ups = upm // 60 if upm >= 60 else None
        axis = np.array([stamps[k0], stamps[k1]])
        dlt = xu.nondim_time_delta_from_time_axis(axis, specs)
        if ups is not None:
          add(f'units F axis {st} {ivec(TIME_DIM)} {ups} {int(axis[0].astype(np.int64))} {int(axis[1].astype(np.int64))}',
              'nondim_time_delta_from_time_axis', dict(inp, axis=[str(a) for a in axis]), float(dlt), 'scalar')
        ctx.expect(close(dlt, float(nd[k1]) - float(nd[k0]), 1e-9) or abs(dlt - (nd[k1] - nd[k0])) < 1e-9 * abs(nd).max(),
                   'time-axis-delta', 'time-axis step != difference of model times', dict(inp, axis=[str(a) for a in axis]))
      # radiation.datetime_to_time agrees with the xarray helper on the same stamps
      for k in rng.integers(0, stamps.size, 25):
        s_ = stamps[k].astype('datetime64[s]')
        r_ = ref.astype('datetime64[s]')
        if abs(int((s_ - r_) / np.timedelta64(1, 's'))) > 10 ** 10 or s_ < np.datetime64('1900-01-01') or r_ < np.datetime64('1900-01-01'):
          continue
        tr = float(radiation.datetime_to_time(s_, specs, r_))
        ctx.expect(close(tr, float(nd[k]), 1e-12) or abs(tr - nd[k]) < 1e-15 * abs(nd).max(), 'datetime-to-time-consistency',
                   'radiation.datetime_to_time != xarray_utils.datetime64_to_nondim_time',
                   dict(inp, stamp=str(stamps[k]), radiation=tr, xarray=float(nd[k])))
        dd = radiation.datetime64_to_datetime(s_) - radiation.datetime64_to_datetime(r_)
        add(f'units F rad {st} {ivec(TIME_DIM)} {dd.days} {dd.seconds}', 'radiation.datetime_to_time',
            dict(inp, stamp=str(stamps[k])), tr, 'scalar')
      # hypothesis of T18.4: seven roundings, each within 2^-53
      for k in rng.integers(0, stamps.size, 40):
        dl = int(stamps[k].astype(np.int64)) - int(ref.astype(np.int64))
        if dl == 0:
          continue
        a0 = np.float64(dl)
        a1 = a0 / np.float64(uph)
        a2 = a1 / np.float64(T)
        a3 = a2 * np.float64(3600)
        b1 = a3 * np.float64(T)
        c = np.float64(1) / np.float64(60)
        b2 = b1 * c
        hyp2_ok &= (float(a3) == float(nd[k]))
        for got, exact in ((a0, Fraction(dl)), (a1, Fraction(float(a0)) / uph), (a2, Fraction(float(a1)) / Fraction(T)),
                           (a3, Fraction(float(a2)) * 3600), (b1, Fraction(float(a3)) * Fraction(T)),
                           (c, Fraction(1, 60)), (b2, Fraction(float(b1)) * Fraction(float(c)))):
          hyp2_ok &= abs(Fraction(float(got)) / exact - 1) <= U53
          hyp2_n += 1
  ctx.obligation('hypothesis: the datetime conversions are the seven roundings of T18.4, each within 2^-53',
                 'hypothesis', hyp2_ok, f'{hyp2_n} operations')
  # the negative witness `datetime_roundtrip_off_minute` on the real code: reference 00:00:30 (count 30 in seconds, default
  # scale), stamps 00:01:00, 00:02:00, 00:01:30 come back as 00:00:30, 00:02:30, 00:01:30
  with ctx.impl('datetime-exception', dict(reference='1970-01-01T00:00:30')):
    ref30 = np.datetime64('1970-01-01T00:00:30', 's')
    st30 = np.array([60, 120, 90], dtype=np.int64).astype('datetime64[s]')
    b30 = xu.nondim_time_to_datetime64(xu.datetime64_to_nondim_time(st30, specs0, ref30), specs0, ref30).astype(np.int64).tolist()
    ctx.obligation('witness: datetime_roundtrip_off_minute (reference at 00:00:30) is what the implementation returns', 'witness',
                   b30 == [30, 150, 90], f'counts 60, 120, 90 -> {b30}')

  # ------------------------------------------------------------------ orbital time
  coords = coordinate_systems.CoordinateSystem(spherical_harmonic.Grid.T21(),
                                               sigma_coordinates.SigmaCoordinates.equidistant(2))
  U = 2.0 ** -53
  orb_excess = []
  norb = ctx.n(6, 30)
  for oi in range(norb):
    specs = specs0 if oi == 0 else random_time_specs()
    T = float(specs.scale['[time]'].m)
    y = int(rng.integers(1950, 2040))
    refdt = datetime.datetime(1979, 1, 1) if oi == 0 else (
        datetime.datetime(y, 1, 1) + datetime.timedelta(minutes=int(rng.integers(0, 525000))))
    inp = dict(time_scale_s=T, reference=str(refdt))
    with ctx.impl('orbital-exception', inp):
      sr = radiation.SolarRadiation(coords, specs, np.datetime64(refdt) if oi % 2 else refdt)
      rate_o, rate_s = float(sr.orbital_rate.orbital_phase), float(sr.orbital_rate.synodic_phase)
      ref_o, ref_s = float(sr.reference_orbital_time.orbital_phase), float(sr.reference_orbital_time.synodic_phase)
      year_nd = 365.25 * 86400 / T
      day_nd = 86400 / T
      ctx.expect(close(rate_o * year_nd, TWO_PI, 1e-13) and close(rate_s * day_nd, TWO_PI, 1e-13), 'orbital-rate',
                 'orbital rates are not 2pi per year / per day', inp)
      n = ctx.n(4000, 40000)
      # model times corresponding to physical times within +-3000 years (the unreduced synodic phase stays
      # below 1e7, so that a phase in double precision is meaningful to ~1e-9)
      phys = rng.uniform(-1.0, 1.0, n) * 10.0 ** rng.uniform(0, 11, n)
      ts = np.concatenate([[0.0, -1e-20, 1e-20, -1e-300, day_nd, -day_nd, year_nd, -year_nd, 40 * year_nd],
                           phys / T, rng.integers(-20000, 20000, n // 4) * day_nd])
      ot = jax.vmap(sr.time_to_orbital_time)(jnp.asarray(ts))
      ph_o, ph_s = np.asarray(ot.orbital_phase), np.asarray(ot.synodic_phase)
      ctx.evaluations += len(ts)
      ctx.nontrivial.add(f'orb:{T}:{refdt}')
      ctx.dist['orbital:times'] += len(ts)
      # sample sent to the models: the special times, random times, and whole days (where the unreduced phase is next to
      # a multiple of 2pi and the rounding of q*2pi decides on which side of the period the result lands)
      sel = np.concatenate([np.arange(300), np.arange(len(ts) - 300, len(ts))])
      for nm, ph, r0, rate in (('orbital', ph_o, ref_o, rate_o), ('synodic', ph_s, ref_s, rate_s)):
        i_ = dict(inp, which=nm)
        # Over the reals the phase is in [0, 2pi) (T18.5).  In double arithmetic, operation by operation, it is
        # x - fl(q*2pi) with q the exact floor of x / fl(2pi) (x the unreduced double): theorem `reduceFl_mem` gives
        # [-e, 2pi + e), e = u ((1+u)(|x| + 2pi) + 2pi), u = 2^-53.  IEEE rounding is monotone and q*2pi <= x, so
        # fl(q*2pi) <= x and the lower end is exactly 0 (a tiny negative x is reduced to fl(2pi)); the upper end is
        # reached: fl(q*2pi) can be below q*2pi by half an ulp of x.  Real tolerance of this check: phase in
        # [0, 2pi + e] with that e (x recomputed by numpy, hence the factor 1 + 4u).
        xx = r0 + rate * ts
        tolr = U * ((1 + U) * (np.abs(xx) * (1 + 4 * U) + TWO_PI) + TWO_PI)
        rng_ok = (ph >= 0) & (ph <= TWO_PI + tolr)
        ctx.expect(rng_ok.all(), 'orbital-range-widened', f'{nm} phase outside [0, 2pi + 2^-53 (|x| + 2*2pi)] '
                   f'(first: t={ts[~rng_ok][0] if (~rng_ok).any() else None}, phase={ph[~rng_ok][0] if (~rng_ok).any() else None})', i_)
        at_end = int((ph == TWO_PI).sum())
        if at_end:
          ctx.dist[f'orbital:{nm}-phase==fl(2pi) (tiny negative argument: not in [0, 2pi))'] += at_end
        outside = ph > TWO_PI
        if outside.any():
          ctx.dist[f'orbital:{nm}-phase > fl(2pi) by <= 2^-53 |x| (rounding of q*2pi: not in [0, 2pi))'] += int(outside.sum())
          orb_excess.append(float(((ph - TWO_PI) / (U * np.abs(xx) + 1e-300))[outside].max()))
        x = r0 + rate * ts
        tol = 64 * np.finfo(float).eps * (np.abs(x) + TWO_PI)
        cd = circ_dist(ph, x)
        ctx.expect((cd <= tol).all(), 'orbital-congruence',
                   f'{nm} phase is not congruent to ref + rate*t (first: t={ts[cd > tol][0] if (cd > tol).any() else None})', i_)
        add(f'units F orb {fbits(TWO_PI)} {fbits(r0)} {fbits(rate)} {fvec(ts[sel])}',
            'SolarRadiation.time_to_orbital_time', dict(i_, times=ts[:12].tolist()),
            (ph[sel], 2 * np.finfo(float).eps * (np.abs(xx[sel]) + TWO_PI) + 1e-12), 'phase')
        # the model in double arithmetic (exact floor, every operation rounded by fl53) against the eager implementation,
        # bit for bit
        add(f'units F orbfl {fbits(TWO_PI)} {fbits(r0)} {fbits(rate)} {fvec(ts[sel])}',
            'SolarRadiation.time_to_orbital_time[double arithmetic, eager]', dict(i_, times=ts[sel][:12].tolist()), ph[sel], 'bits')
      # elapsed time: one year later the orbital phase is back, one day later the synodic phase is back
      ot_y = jax.vmap(sr.time_to_orbital_time)(jnp.asarray(ts + year_nd))
      ot_d = jax.vmap(sr.time_to_orbital_time)(jnp.asarray(ts + day_nd))
      tol = 256 * np.finfo(float).eps * (np.abs(ref_o + rate_o * ts) + np.abs(ref_s + rate_s * ts) + 100)
      ctx.expect((circ_dist(np.asarray(ot_y.orbital_phase), ph_o) <= tol).all(), 'orbital-elapsed',
                 'orbital phase does not return after one year', inp)
      ctx.expect((circ_dist(np.asarray(ot_d.synodic_phase), ph_s) <= tol).all(), 'orbital-elapsed',
                 'synodic phase does not return after one day', inp)
      ctx.expect((circ_dist(np.asarray(ot_d.orbital_phase), ph_o + TWO_PI / 365.25) <= tol).all(), 'orbital-elapsed',
                 'orbital phase does not advance by 2pi/365.25 per day', inp)
      # scalar call agrees with the vectorised one
      k = int(rng.integers(0, len(ts)))
      o1 = sr.time_to_orbital_time(float(ts[k]))
      ctx.expect(float(o1.orbital_phase) == float(ph_o[k]) and float(o1.synodic_phase) == float(ph_s[k]),
                 'orbital-scalar', 'scalar and vmapped time_to_orbital_time differ', dict(inp, t=float(ts[k])))

  if orb_excess:
    ctx.notes.append(f'orbital phases above fl(2pi) on the wide domain: worst excess {max(orb_excess):.3f} * 2^-53 |x| '
                     '(bound of reduceFl_mem: 1 + small)')

  # ---- the literal range [0, 2pi) of the property statement on REALISTIC model times: DEFAULT_SCALE, years of simulation
  # counted in whole days / hours / 6-minute steps from the reference, float64 and float32, eager and under jit.
  # Reported under the key `orbital-range` when that key is a recorded known finding, as a note otherwise.
  real_inp = dict(scale='DEFAULT_SCALE', reference='1979-01-01T00:00', times='k * day (0..100 y), k * hour (0..10 y), k * 6 min (0..1 y)')
  with ctx.impl('orbital-exception', real_inp):
    day0 = 86400 / T0s
    sr0 = radiation.SolarRadiation(coords, specs0, datetime.datetime(1979, 1, 1))
    grids = [('k*day, 0..100 y', np.arange(0, 36525) * day0), ('k*hour, 0..10 y', np.arange(0, 3653 * 24) * (day0 / 24)),
             ('k*6min, 0..1 y', np.arange(0, 366 * 240) * (day0 / 240))]
    rows, n_lit64, worst64, first64 = [], 0, 0.0, None
    for dt_ in (np.float64, np.float32):
      for mode, fn in (('eager', jax.vmap(sr0.time_to_orbital_time)), ('jit', jax.jit(jax.vmap(sr0.time_to_orbital_time)))):
        for label, tg in grids:
          ot = fn(jnp.asarray(tg.astype(dt_)))
          for nm, ph in (('orbital', np.asarray(ot.orbital_phase)), ('synodic', np.asarray(ot.synodic_phase))):
            if ph.dtype != dt_:
              raise common.Infra(f'time_to_orbital_time returned {ph.dtype} for {dt_.__name__} times')
            ph = ph.astype(float)
            out = (ph < 0) | (ph >= TWO_PI)
            ctx.evaluations += len(tg)
            ctx.dist[f'orbital-realistic:{dt_.__name__}:{mode}:{nm}:{label}: outside [0,2pi)'] += int(out.sum())
            if out.any():
              exc = float(np.maximum(-ph, ph - TWO_PI).max())
              k0 = int(np.nonzero(out)[0][0])
              rows.append(f'{dt_.__name__} {mode} {nm} {label}: {int(out.sum())} of {len(tg)} (negative: {int((ph < 0).sum())}), worst excess '
                          f'{exc:.3e} rad, first at t = {tg[k0]!r} ({tg[k0] / day0:.4f} days)')
              if dt_ is np.float64:
                n_lit64 += int(out.sum())
                worst64 = max(worst64, exc)
                first64 = first64 or (nm, mode, float(tg[k0]), float(ph[k0]))
    # the closed end on realistic inputs: midnight of the reference day when the reference is not at midnight (the
    # unreduced synodic phase is 0 up to rounding; when it comes out as a tiny negative number the phase is fl(2pi))
    for slabel, sp in (('DEFAULT_SCALE', specs0),
                       ('time scale 1 s', dataclasses.replace(specs0, scale=scales.Scale(scales.RADIUS, 1 * units.second, 1 * units.kilogram, 1 * units.degK))),
                       ('time scale 1 h', dataclasses.replace(specs0, scale=scales.Scale(scales.RADIUS, 1 * units.hour, 1 * units.kilogram, 1 * units.degK)))):
      for hh, mm in ((13, 27), (6, 0), (18, 45), (1, 1), (23, 59)):
        sr1 = radiation.SolarRadiation(coords, sp, datetime.datetime(2000, 6, 15, hh, mm))
        t_mid = float(sr1.datetime_to_time(datetime.datetime(2000, 6, 15)))
        for mode, fn in (('eager', jax.vmap(sr1.time_to_orbital_time)), ('jit', jax.jit(jax.vmap(sr1.time_to_orbital_time)))):
          p_mid = float(np.asarray(fn(jnp.asarray([t_mid])).synodic_phase)[0])
          ctx.evaluations += 1
          ctx.dist[f'orbital-realistic:float64:{mode}: midnight of the reference day: synodic phase '
                   f'{"== fl(2pi)" if p_mid == TWO_PI else "in [0,2pi)" if 0 <= p_mid < TWO_PI else "outside [0,2pi]"}'] += 1
          if not 0 <= p_mid < TWO_PI:
            n_lit64 += 1
            rows.append(f'float64 {mode} synodic, {slabel}, reference 2000-06-15T{hh:02d}:{mm:02d}, t = datetime_to_time(2000-06-15T00:00) = '
                        f'{t_mid!r}: phase {p_mid!r}{" == fl(2pi)" if p_mid == TWO_PI else ""}')
    # the Lean witness `timeToOrbitalFl_fl53_exceeds_period` is this implementation on these doubles
    t23 = float(sr0.datetime_to_time(datetime.datetime(1979, 1, 24)))
    p23 = float(sr0.time_to_orbital_time(t23).synodic_phase)
    ctx.obligation('witness: Lean constants twoPi64, rateS, t23 and the phase of timeToOrbitalFl_fl53_exceeds_period are the doubles '
                   'of the (eager) implementation', 'witness',
                   Fraction(TWO_PI) == Fraction(884279719003555, 140737488355328)
                   and Fraction(float(sr0.orbital_rate.synodic_phase)) == Fraction(8982748410267517, 18014398509481984)
                   and float(sr0.reference_orbital_time.synodic_phase) == 0.0
                   and Fraction(t23) == Fraction(5098448576952473, 17592186044416)
                   and Fraction(p23) == Fraction(221069929750889, 35184372088832) and p23 > TWO_PI,
                   f'2pi={TWO_PI!r} rate={float(sr0.orbital_rate.synodic_phase)!r} t={t23!r} phase={p23!r} phase-2pi={p23 - TWO_PI!r}')
    if n_lit64:
      msg = (f'float64 orbital phases outside the half-open interval [0, 2pi) of the property statement on realistic model times '
             f'(DEFAULT_SCALE): {n_lit64} cases, worst excess {worst64:.3e} rad (never negative; bounded by 2^-53 (|x| + 2*2pi), '
             f'theorem reduceFl_mem), first: {first64}; ' + ' | '.join(rows))
      ctx.fail('orbital-range', msg, real_inp)   # KNOWN-FINDING when recorded, VIOLATION otherwise
    elif rows:
      ctx.notes.append('orbital-range: float64 phases stay in [0, 2pi) on the realistic times; float32: ' + ' | '.join(rows))

  # domain of the double model (review 3, item 4.1): it takes the floor exactly, which jnp.floor_divide does only for
  # |x / 2pi| below ~2^49; far beyond every realistic model time the real reduction differs from the model and can leave
  # the proved range. Recorded (notes only), never a verdict.
  try:
    from fractions import Fraction as _Fr
    import jax.numpy as _jnp
    p_ = TWO_PI
    rows_ = []
    for dec in (12.0, 14.0, 15.5, 17.0):
      xs_ = (10.0 ** dec) * (1.0 + rng.random(200))
      got = np.asarray(_jnp.asarray(xs_) - _jnp.floor_divide(_jnp.asarray(xs_), p_) * p_)
      bad = 0
      for xv, gv in zip(xs_, got):
        q = (_Fr(float(xv)) / _Fr(p_)).__floor__()
        want = float(np.float64(xv) - np.float64(float(q)) * np.float64(p_)) if abs(q) < 2 ** 53 else None
        bad += int(want is None or want != float(gv))
      rows_.append(f'|x| ~ 1e{dec:g}: {bad}/200 differ from the exact-floor double model, {int(((got < 0) | (got >= p_ * (1 + 4e-16))).sum())}/200 outside [0, 2pi]')
    ctx.notes.append('domain of the orbital-phase double model (exact floor; the claim is for |x / 2pi| < 2^49): ' + '; '.join(rows_))
  except Exception as e:  # pylint: disable=broad-except
    ctx.notes.append(f'domain probe of the orbital-phase double model not run: {type(e).__name__}')
  # calendar part
  ncal = ctx.n(400, 5000)
  corner = [(2000, 2, 29, 23, 59), (1900, 2, 28, 0, 0), (2024, 12, 31, 23, 59), (2023, 12, 31, 23, 59),
            (1979, 1, 1, 0, 0), (2100, 3, 1, 12, 0), (2400, 2, 29, 6, 30), (1, 1, 1, 0, 0), (9999, 12, 31, 23, 59)]
  for ci in range(ncal):
    if ci < len(corner):
      y, mo, d, h, mi = corner[ci]
    else:
      y = int(rng.choice([rng.integers(1, 9999), rng.integers(1950, 2050), rng.choice([1900, 2000, 2100, 2400, 1600])]))
      mo = int(rng.integers(1, 13))
      d = int(rng.integers(1, 32))
      h, mi = int(rng.integers(0, 24)), int(rng.integers(0, 60))
    try:
      when = datetime.datetime(y, mo, d, h, mi, int(rng.integers(0, 60)))
      valid = True
    except ValueError:
      valid = False
    ctx.case(('cal', y, mo, d, h, mi), nontrivial=True)
    ctx.dist[f'calendar:{"valid" if valid else "invalid"}'] += 1
    inp = dict(when=[y, mo, d, h, mi])
    if not valid:
      add(f'units F cal {y} {mo} {d} {h} {mi}', 'calendar validity', inp, '0', 'calvalid')
      continue
    with ctx.impl('datetime-orbital-exception', inp):
      o = radiation.datetime_to_orbital_time(when)
      po, ps = float(o.orbital_phase), float(o.synodic_phase)
      add(f'units F cal {y} {mo} {d} {h} {mi}', 'days_in_year / tm_yday', inp,
          f'1 {radiation.days_in_year(when)} {when.timetuple().tm_yday}', 'str')
      add(f'units F dorb {fbits(TWO_PI)} {y} {mo} {d} {h} {mi}', 'datetime_to_orbital_time', inp, [po, ps], 'pair')
      ctx.expect(0 <= po < TWO_PI and 0 <= ps < TWO_PI, 'datetime-orbital-range',
                 f'phases ({po}, {ps}) outside [0, 2pi)', inp)
      # independent oracle: fraction of the calendar year / of the day elapsed (whole minutes)
      w0 = when.replace(second=0)
      y0 = datetime.datetime(y, 1, 1)
      fy = Fraction(int((w0 - y0).total_seconds()), int((datetime.datetime(y + 1, 1, 1) - y0).total_seconds())) \
          if y < 9999 else Fraction(int((w0 - y0).total_seconds()), 365 * 86400)
      fd = Fraction(60 * h + mi, 1440)
      ctx.expect(close(po, TWO_PI * float(fy), 1e-13) and close(ps, TWO_PI * float(fd), 1e-13), 'datetime-orbital-oracle',
                 'phases != 2pi * (fraction of the year, fraction of the day)', inp)

  # ------------------------------------------------------------------ run the model, compare
  outs = ctx.model(lines)
  for (op, inp, impl, kind), o in zip(checks, outs):
    if o == 'bad-op':
      ctx.corr_mismatch(op, inp, impl, o, 'model rejected the operation')
      continue
    if kind == 'str':
      ctx.corr_exact(op, inp, impl, o)
    elif kind == 'calvalid':
      ctx.corr_exact(op, inp, impl, o.split(' ')[0])
    elif isinstance(impl, str) or o == 'value-error':
      ctx.corr_exact(op, inp, impl, o)
    elif kind == 'compound':
      c, d = o.split(' ')
      ctx.corr_float(op, inp, [impl[0]], [unfbits(c)], atol=0.0)
      dm = univec(d)
      ctx.corr_exact(op + '[dim]', inp, impl[1], dm + [0] * (len(DIMS) - len(dm)))
    elif kind == 'scalar':
      ctx.corr_float(op, inp, [impl], [unfbits(o)], atol=0.0)
    elif kind == 'vec':
      corr_elementwise(ctx, op, inp, impl, unfvec(o))
    elif kind == 'pair':
      corr_elementwise(ctx, op, inp, impl, [unfbits(t) for t in o.split(' ')])
    elif kind == 'bits':
      ctx.corr_exact(op, inp, [float(x) for x in impl], unfvec(o))
    elif kind == 'avec':
      # affine operation: the result can be a small difference of Kelvin-sized numbers, so the tolerance is
      # absolute, relative to the Kelvin magnitude of the operation (computed where the line was built)
      ctx.corr_float(op, inp, impl[0], unfvec(o), rtol=0.0, atol=float(impl[1]))
    elif kind == 'ivec':
      ctx.corr_exact(op, inp, list(impl), univec(o))
    elif kind == 'phase':
      m = np.asarray(unfvec(o))
      a = np.asarray(impl[0], dtype=float)
      tl = np.asarray(impl[1])
      # same operations in the same order; XLA may contract ref + rate*t into one fused operation, so allow
      # one rounding error of the unreduced phase; compare on the circle as well (a phase next to the cut may
      # land on either side)
      ok = (np.abs(a - m) <= tl) | (circ_dist(a, m) <= tl)
      ctx.traces += 1
      ctx.dist['orbital:model-on-other-side-of-cut'] += int((np.abs(a - m) > tl).sum())
      ctx.dist['orbital:model-bit-identical'] += int((a == m).sum())
      if not ok.all():
        ctx.corr_mismatch(op, inp, a[~ok][:3].tolist(), m[~ok][:3].tolist(), 'phase')
    elif kind == 'td':
      p = o.split(' ')
      nd, dsec, scal, arr, old = impl
      ctx.corr_exact(op + '[s/T bits]', inp, [float(x) for x in nd], unfvec(p[0]))
      ctx.corr_exact(op + '[v*T bits]', inp, [float(x) for x in dsec], unfvec(p[1]))
      ctx.corr_exact(op + '[scalar path]', inp, scal, univec(p[2])[:len(scal)])
      ctx.corr_exact(op + '[array path]', inp, arr, univec(p[3]))
      ctx.corr_exact(op + '[plain truncation]', inp, old, univec(p[4]))
    elif kind == 'tddim':
      p = o.split(' ')
      scal, arr, old = impl
      ctx.corr_exact(op + '[scalar path]', inp, scal, univec(p[0]))
      ctx.corr_exact(op + '[array path]', inp, arr, univec(p[1]))
      ctx.corr_exact(op + '[plain truncation]', inp, old, univec(p[2]))
    else:
      raise common.Infra(f'unknown kind {kind}')

  # exact identities of the model at Rat (sanity of the executable model itself): round trip through a scale
  q0 = ctx.model(['units Q nondim 2,-,3/7 5/2:1,0,-1:2;7:0,0,1:1 11/3'])[0]
  ctx.corr_exact('model-rat-nondim', dict(line='nondim'), q0, '275/16')
  q1 = ctx.model([f'units Q dim 2,-,3/7 5/2:1,0,-1:2;7:0,0,1:1 {q0}'])[0]
  ctx.corr_exact('model-rat-roundtrip', dict(line='dim'), q1, '11/3')
  # timedelta round trip of the model in exact arithmetic (fl = id): nothing is lost, not even by plain truncation
  q2 = ctx.model(['units Q td -,7539163657268239/1099511627776 0,1 27,28,-5,0'])[0]
  ctx.corr_exact('model-rat-timedelta', dict(line='td'), q2.split(' ')[2:], ['27,28,-5,0'] * 3)

  # the witnesses of the Lean file on the executable model in exact arithmetic: 25 degC = 298.15 K = 77 degF under a
  # temperature scale of 32 K; the linearised variant (seeded change C18-1) returns -28759549/12800 degC
  sq, cq_, fq_ = '-,3,-,2,-,-,32', '1:5463/20:0,0,0,0,0,0,1', '5/9:45967/180:0,0,0,0,0,0,1'
  qa = ctx.model([f'units Q anondim {sq} {cq_} 25,0', f'units Q anondim {sq} {fq_} 77', f'units Q adim {sq} {cq_} 5963/640',
                  f'units Q adim {sq} {fq_} 5963/640', f'units Q aconv {cq_} {fq_} 25,-40', f'units Q alin {sq} {cq_} 5963/640'])
  ctx.corr_exact('model-rat-affine', dict(line='anondim/adim/aconv/alin'), qa,
                 ['5963/640,5463/640', '5963/640', '25', '77', '77,-40', '-28759549/12800'])
  # the orbital reduction of the model in exact arithmetic stays in [0, 2pi) on the double-arithmetic witness
  q4 = ctx.model(['units Q orbfl 884279719003555/140737488355328 0 8982748410267517/18014398509481984 '
                  '5098448576952473/17592186044416'])[0]
  ctx.corr_exact('model-rat-orbital', dict(line='orbfl at fl = id'), 0 <= Fraction(q4) < Fraction(884279719003555, 140737488355328), True)
  if not ctx.quick:
    ctx.leanchecker(['DinoProofs.Properties.C18'])
  return ctx.finish(RULE, 'theorems are about the Lean model Dino.Units; pint is external (its unit table is an input); '
                    'the inverse / unit-independence theorems need ScaleOK (all base scales non-zero, not checked by the code) '
                    'and a non-zero conversion factor, for multiplicative and for affine (degC, degF) units; '
                    'T18.3/T18.4 hold under the relative-error model of double arithmetic stated as a hypothesis (no overflow, '
                    'no underflow); the orbital phase range [0, 2pi) is proved OVER THE REALS ONLY (any ordered field with a floor): in '
                    'double arithmetic, operation by operation, the proved range is [-e, 2pi + e), e = 2^-53 ((1 + 2^-53)(|x| + 2pi) + 2pi) '
                    'for the unreduced phase x (reduceFl_mem), with witnesses on the real doubles that the half-open interval is not '
                    'kept (phase = fl(2pi) + 8 ulp at day 23 of the default configuration, phase = fl(2pi) for a tiny negative x); '
                    'the range check on the implementation is [0, 2pi + e] (tolerance 2^-53 (|x| + 2*2pi), about 1e-9 for |x| = 7e6; '
                    'measured excess up to about 0.4 * 2^-53 |x|), the literal range is measured on realistic times and reported '
                    'as the finding `orbital-range`; pint is external and its conversion (Quantity.to, to_base_units) is a TESTED '
                    'HYPOTHESIS: the unit-independence theorems take "same quantity" as m * conv = m\' * conv\' (affine: equal '
                    'base values) and are tied to pint only by the table comparison and the probes; the correspondence is bit-exact '
                    'for the timedelta operations, the datetime round trip and the orbital reduction in double arithmetic (eager), '
                    'integer results are compared exactly, every other float result entry by entry with relative tolerance 1e-9 '
                    '(affine units: 1e-9 of the Kelvin magnitude)')
