"""dyn_inst -- tie of the CONCRETE instance `Dino.DynamicsInst.gridOps` (lean/Dino/DynamicsInst.lean) to a real Grid.

Not a property check of its own (there is no property id): a helper exposing

    validate(ctx, grid, fast, radius_token=None, draws=2)  ->  dict(stats)

which any of C04 / C05 / C10 / C11 / C12 may call on the grids they use.

What the instance is.  `gridOps g : HOps K (Fin rows -> Fin cols -> K) (Fin nlon -> Fin nlat -> K)`; every field is
the list-model function of `Dino.Grid` / `Dino.SH` conjugated by the array <-> list conversion
(`op x = ofL (Grid.op (toL x))`, theorems `toL_dDlon`, `toL_cosLatDDlat`, ... `toL_toNodal`).  So "the instance
agrees with the real Grid" IS "the list model agrees with the real Grid", i.e. the differential correspondence that
C02 / C09 already run on every check (driver tokens `grid F ddlon|d1|d2|lap|ilap|clip|eig|wts|coslat|sec2lat|tonodal|
tomodal`).  No new driver op is needed and none is added.  `validate` re-runs exactly those ops, for the ONE clip
width (`n = 1`) and the field set the record `HOps` has, on the grid it is handed, with masked and unmasked inputs.

In addition it probes, on the real Grid, the one structural law that the Lean development found to be FALSE of the
list model on layouts with padding columns, and the statement that holds instead
(`secLat_padding_column`, `cosLatDDlat_padding_column`, `opsClosed_loose`):
    for a masked array x, column L of sec_lat_d_dlat_cos2(x) equals -(L+1) * b[m, L-1] * x[m, L-1]
    (cos_lat_d_dlat: -(L-1) * b[m, L-1] * x[m, L-1]); it vanishes iff x has the top wavenumber clipped;
    everything else outside the mask is exactly zero; clip_wavenumbers of the result is masked and clipped.

REDUNDANT below lists the harness validations whose subject is now a THEOREM of the instance (they remain useful as
cross-checks of the model/driver, but the verdict no longer rests on them as hypotheses).
"""
import numpy as np

import common
from common import fbits, fvec, fmat, unfvec, unfmat

RTOL = 1e-9

# harness validation  ->  theorem of the instance that makes it redundant as a HYPOTHESIS of the abstract theorems
REDUNDANT = [
    ('C04.py _laws: `linearity` of to_nodal/to_modal/d_dlon/sec_lat_d_dlat_cos2/laplacian/clip (LawsOn.*_lin)',
     'Dino.DynamicsInst.toNodal_lin, toModal_lin, dDlon_lin, secLatDDlatCos2_lin, laplacian_lin, clip_lin (via laws_of_analytic)'),
    ('C04.py _laws: `lap_one` (laplacian(one) = 0)', 'Dino.DynamicsInst.laplacian_one'),
    ('C04.py _laws: `div_uv` (clip(div_sec_lat(uv(zeta, delta))) = delta)',
     'Dino.DynamicsInst.div_uv_of_grad: follows from div_grad + curl_grad + linearity; no longer an independent hypothesis'),
    ('C04.py _mask_checks (b): MaskClosed of d_dlon, cos_lat_d_dlat, sec_lat_d_dlat_cos2, laplacian, inverse_laplacian, '
     'clip_wavenumbers, to_modal, oneModal (exact zeros outside grid.mask), unpadded layouts',
     'Dino.DynamicsInst.maskClosed (padCols = 0; to_modal via C01 structural zeros: realAnalysis_masked / evaluate_tables_masked)'),
    ('C05.py: LinLaws (every operator linear) and ConstLaws.lap_one / dDlon_one / cosLatDDlat_one',
     'Dino.DynamicsInst.linLaws, laplacian_one, dDlon_one, cosLatDDlat_one  (ConstLaws.toNodal_one / toModal_one stay analytic)'),
    ('C05.py: FactoryLaws.S_zeroMean (sec_lat_d_dlat_cos2 produces no (0,0) coefficient)', 'Dino.DynamicsInst.mode0 (.secLat)'),
    ('C10.py: operation-wise commutation of the equatorial mirror with d_dlon, cos_lat_d_dlat, sec_lat_d_dlat_cos2, '
     'laplacian, inverse_laplacian, clip, lproj, oneModal and the seven *_eps laws',
     'Dino.DynamicsInst.equivariant_mirror (remaining hypotheses: the two transform laws = T10.3, symmetric nodal tables)'),
    ('C11.py: OpsClosed (S <= Mk, to_modal in Mk, d_dlon / sec_lat / laplacian Mk -> Mk, clip Mk -> S, laplacian / lproj S -> S)',
     'Dino.DynamicsInst.opsClosed_loose (every layout, Mk = loosely masked) and opsClosed_masked (padCols = 0)'),
    ('C11.py: Mode0 / Mean0 (lproj sees (0,0) at l = 0 only, lapEig 0 = 0, d_dlon / sec_lat / laplacian give zero (0,0), clip keeps it)',
     'Dino.DynamicsInst.mode0, mean0'),
    ('C12.py: OpsLaws (homogeneity of the eight operations, additivity of three, annihilation of the constant)',
     'Dino.DynamicsInst.opsLaws'),
    ('C12.py: ProjLaws (lproj linear)', 'Dino.DynamicsInst.projLaws'),
    ('C12.py: OpsScaled between two real Grids of different radius (laplacian * l^-2, inverse_laplacian * l^2, rest equal)',
     'Dino.DynamicsInst.opsScaled_radius'),
]

# what remains a validated hypothesis (AnalyticLaws): sec2*cos^2 = 1, to_nodal(one) = 1, Gram identity (C01),
# Hyp-A / Hyp-B (C02); for C10 the transform laws of T10.3; for C04 moist classes the product-rule laws (MoistLaws).
STILL_HYPOTHESES = ['AnalyticLaws.sec_cos', 'AnalyticLaws.toNodal_one', 'AnalyticLaws.gram (C01 Gram identity)',
                    'AnalyticLaws.hypA / hypB (C02 Hyp-A / Hyp-B, clip = False, Dom ly 1)',
                    'Equivariant.toNodal / toModal (C10 T10.3), node symmetry of cos_lat / sec2_lat / sin_lat',
                    'MoistLaws.product_rule_resolved / curl_product_rule_resolved (C04 moist classes)',
                    'ConstLaws.toModal_one, UniformOk.div_uv (roundtrip form), Inv0Ok / InvScaled / ConstMode (external inverses)']


def layout_token(g, fast):
  pr, pc = g.modal_padding
  return f'{int(fast)},{g.longitude_wavenumbers},{g.total_wavenumbers},{pr},{pc}'


def _rel(a, b):
  a, b = np.asarray(a, dtype=float), np.asarray(b, dtype=float)
  s = max(float(np.abs(b).max(initial=0.0)), 1e-300)
  return float(np.abs(a - b).max(initial=0.0)) / s


def validate(ctx, grid, fast, draws=2, key='dyn-inst'):
  """Checks on the real `grid` (a `spherical_harmonic.Grid`; `fast` = it uses FastSphericalHarmonics):

  (1) correspondence of every field of the record `HOps` of `gridOps (GridData.ofGrid ...)` with the Grid method, through
      the existing `grid` driver ops (this is the C02 / C09 correspondence, restricted to the record);
  (2) the padding-column characterisation and `Loose` / `Clipped` closure (theorems of the instance) on the real code.
  Returns a dict of statistics; failures are reported through ctx.corr_* / ctx.expect with structural keys.
  """
  import jax.numpy as jnp
  rng = ctx.rng
  g = grid
  R, C = g.modal_shape
  L, M = g.total_wavenumbers, g.longitude_wavenumbers
  pr, pc = g.modal_padding
  ly = layout_token(g, fast)
  rb = fbits(float(g.radius))
  mask = np.asarray(g.mask).astype(bool)
  desc = dict(impl='fast' if fast else 'real', M=M, L=L, modal_shape=[R, C], nodal_shape=list(g.nodal_shape),
              modal_padding=[pr, pc], radius=float(g.radius))
  stats = dict(ops=0, padded=bool(pc), column_L_checked=0, column_L_max=0.0)
  lines, checks = [], []

  def add(line, op, inp, impl, kind='mat'):
    lines.append(line)
    checks.append((op, inp, impl, kind))

  # ---- (1) the fields of the record --------------------------------------------------------------------------------
  sin_lat = np.asarray(g.nodal_axes[1])
  add(f'grid F eig {ly} {rb}', 'lapEig', desc, g.laplacian_eigenvalues, 'vec')
  a_w, b_w = g._derivative_recurrence_weights   # cached_property
  add(f'grid F wts {ly}', 'a,b', desc, (a_w, b_w), 'pair')
  add(f'grid F coslat {fvec(sin_lat)}', 'cosLat', desc, g.cos_lat, 'vec')
  if np.all(np.abs(sin_lat) < 1):
    add(f'grid F sec2lat {fvec(sin_lat)}', 'sec2Lat', desc, g.sec2_lat, 'vec')
  bs = g.spherical_harmonics.basis
  f, p, w = np.asarray(bs.f), np.asarray(bs.p), np.asarray(bs.w)
  head = f'{fmat(f)} {"|".join(fmat(pm) for pm in p)} {fvec(w)}' if (f.ndim == 2 and R * C <= 400) else None
  for di in range(draws):
    x = rng.standard_normal((R, C)) * (mask if di % 2 == 0 else 1.0)   # masked and unmasked (padding filled) inputs
    xs = fmat(x)
    inp = dict(grid=desc, masked=(di % 2 == 0), x=x.tolist())
    ctx.case((key, 'ops', ly, x.tobytes()), nontrivial=M >= 2)
    with ctx.impl(f'{key}:ops-exception', inp):
      xj = jnp.asarray(x)
      add(f'grid F ddlon {ly} {xs}', 'dDlon', inp, g.d_dlon(xj))
      add(f'grid F d1 {ly} {xs}', 'cosLatDDlat', inp, g.cos_lat_d_dlat(xj))
      add(f'grid F d2 {ly} {xs}', 'secLatDDlatCos2', inp, g.sec_lat_d_dlat_cos2(xj))
      add(f'grid F lap {ly} {rb} {xs}', 'laplacian', inp, g.laplacian(xj))
      add(f'grid F ilap {ly} {rb} {xs}', 'inverseLaplacian', inp, g.inverse_laplacian(xj))
      add(f'grid F clip {ly} 1 {xs}', 'clip', inp, g.clip_wavenumbers(xj))
      if head is not None:
        z = rng.standard_normal(g.nodal_shape)
        add(f'grid F tonodal {ly} {head} {xs}', 'toNodal', inp, g.to_nodal(xj))
        add(f'grid F tomodal {ly} {head} {fmat(z)}', 'toModal', dict(grid=desc, z=z.tolist()), g.to_modal(jnp.asarray(z)))
  outs = ctx.model(lines)
  for (op, inp, impl, kind), o in zip(checks, outs):
    stats['ops'] += 1
    name = f'{key}:{op}'
    if o in ('bad-op', 'value-error'):
      ctx.corr_mismatch(name, inp, 'value', o, 'model did not evaluate the request')
    elif kind == 'vec':
      ctx.corr_float(name, inp, np.asarray(impl), unfvec(o), rtol=RTOL)
    elif kind == 'pair':
      mo = [np.array(unfmat(t), dtype=float) for t in o.split('|')]
      for comp in range(2):
        ctx.corr_float(f'{name}[{comp}]', inp, np.asarray(impl[comp]), mo[comp], rtol=RTOL)
    else:
      ctx.corr_float(name, inp, np.asarray(impl), np.array(unfmat(o), dtype=float), rtol=RTOL)

  # ---- (2) structural theorems of the instance, evaluated on the real code ------------------------------------------
  # oneModal: the (0,0) unit array; laplacian / d_dlon / cos_lat_d_dlat annihilate it EXACTLY (laplacian_one, dDlon_one,
  # cosLatDDlat_one); d_dlon / sec_lat_d_dlat_cos2 / laplacian of ANY array have an exactly zero (0,0) entry (mode0)
  e00 = np.zeros((R, C)); e00[0, 0] = 3.5449077
  xa = jnp.asarray(rng.standard_normal((R, C)))
  inp = dict(grid=desc)
  with ctx.impl(f'{key}:struct-exception', inp):
    for op in ('laplacian', 'd_dlon', 'cos_lat_d_dlat'):
      v = float(np.abs(np.asarray(getattr(g, op)(jnp.asarray(e00)))).max(initial=0.0))
      ctx.expect(v == 0.0, f'{key}:const:{op}', f'{op}(constant mode) is not exactly zero on the real Grid ({v:.3e}): '
                 'contradicts the theorem of the instance (laplacian_one / dDlon_one / cosLatDDlat_one)', dict(inp, op=op))
    for op in ('laplacian', 'd_dlon', 'sec_lat_d_dlat_cos2'):
      v = float(abs(np.asarray(getattr(g, op)(xa))[0, 0]))
      ctx.expect(v == 0.0, f'{key}:mode0:{op}', f'{op}(x)[0,0] is not exactly zero for an arbitrary array ({v:.3e}): '
                 'contradicts Mode0 of the instance', dict(inp, op=op))
    # Loose / Clipped closure and the padding column
    x = rng.standard_normal((R, C)) * mask                      # masked, top wavenumber NOT clipped
    bw = np.asarray(b_w)
    loose_out = np.ones((R, C), dtype=bool)                     # True where the LOOSE mask is false
    loose_out[:, :L] = ~mask[:, :L]
    rows_ok = mask.any(axis=1)
    loose_out[:, L:] = ~rows_ok[:, None]
    for op, fac in (('cos_lat_d_dlat', -(L - 1.0)), ('sec_lat_d_dlat_cos2', -(L + 1.0))):
      y = np.asarray(getattr(g, op)(jnp.asarray(x)))
      v = float(np.abs(y[loose_out]).max(initial=0.0))
      ctx.expect(v == 0.0, f'{key}:loose:{op}', f'{op} of a masked array is non-zero outside the LOOSE mask ({v:.3e}): '
                 'contradicts cosLatDDlat_loose / secLat_loose', dict(inp, op=op))
      yc = np.asarray(g.clip_wavenumbers(jnp.asarray(y)))
      out = ~mask
      out[:, max(L - 1, 0):] = True
      v = float(np.abs(yc[out]).max(initial=0.0))
      ctx.expect(v == 0.0, f'{key}:clipped:{op}', f'clip({op}(masked)) is not in Clipped ({v:.3e})', dict(inp, op=op))
      if pc > 0 and L >= 1:
        want = fac * bw[:, L - 1] * x[:, L - 1]
        e = _rel(y[:, L], want) if np.abs(want).max() > 0 else float(np.abs(y[:, L]).max(initial=0.0))
        stats['column_L_checked'] += 1
        stats['column_L_max'] = max(stats['column_L_max'], float(np.abs(y[:, L]).max(initial=0.0)))
        ctx.expect(e <= 1e-12, f'{key}:padding-column:{op}',
                   f'column L of {op}(masked x) differs from {fac:g} * b[:, L-1] * x[:, L-1] (relative {e:.3e}): contradicts '
                   'the padding-column theorem of the instance', dict(inp, op=op))
        rest = y[:, L + 1:]
        ctx.expect(float(np.abs(rest).max(initial=0.0)) == 0.0, f'{key}:padding-beyond:{op}',
                   f'{op}(masked x) is non-zero in a padding column beyond L', dict(inp, op=op))
      else:
        v = float(np.abs(y[~mask]).max(initial=0.0))
        ctx.expect(v == 0.0, f'{key}:masked:{op}', f'{op} of a masked array is non-zero outside the mask on a layout '
                   f'WITHOUT padding columns ({v:.3e}): contradicts maskClosed', dict(inp, op=op))
  ctx.case((key, 'struct', ly, ctx.seed), nontrivial=M >= 2, branch='padded' if pc else 'unpadded')
  return stats


def selftest(seed=0):
  """Stand-alone run on a few real grids (real / fast / fast with padding); prints the statistics."""
  common.setup_jax()
  import functools
  from dinosaur import spherical_harmonic as sh
  ctx = common.Ctx('C02', 'quick', seed)
  specs = [(0, 4, 5, 13, 7, None), (1, 4, 5, 13, 7, None), (1, 4, 5, 13, 7, 4), (1, 5, 6, 16, 8, 8), (0, 8, 10, 24, 12, None)]
  res = []
  for fast, M, L, nlon, nlat, base in specs:
    impl = sh.RealSphericalHarmonics
    if fast:
      impl = (sh.FastSphericalHarmonics if base is None
              else functools.partial(sh.FastSphericalHarmonics, base_shape_multiple=base))
    g = sh.Grid(longitude_wavenumbers=M, total_wavenumbers=L, longitude_nodes=nlon, latitude_nodes=nlat,
                latitude_spacing='gauss', radius=1.7, spherical_harmonics_impl=impl)
    st = validate(ctx, g, fast)
    res.append((dict(fast=fast, M=M, L=L, base=base, modal_shape=list(g.modal_shape), padding=list(g.modal_padding)), st))
  return ctx, res


if __name__ == '__main__':
  import sys
  ctx, res = selftest(int(sys.argv[1]) if len(sys.argv) > 1 else 0)
  for spec, st in res:
    print(spec, st)
  print('breaks:', len(ctx.breaks), 'failures:', len(ctx.failures))
  for b in ctx.breaks[:10]:
    print('BREAK', b['kind'], b['name'], str(b['detail'])[:300])
  for f in ctx.failures[:10]:
    print('FAIL', f['key'], f['what'][:300])
  sys.exit(1 if (ctx.breaks or ctx.failures) else 0)
