"""C12 helper — the same SI problem set up on the real code under an arbitrary `scales.Scale`.

Everything here goes through the public construction path of dinosaur: `Scale(...)`,
`PrimitiveEquationsSpecs.from_si` / `ShallowWaterSpecs.from_si`, `Grid(radius=specs.radius)`,
`specs.nondimensionalize(quantity)` for every piece of data, `specs.dimensionalize(value, unit)` for every
result.  An SI problem is a plain dictionary of SI numbers (`si_problem`), so that it can be written into a
replay file.
"""
from __future__ import annotations

import numpy as np

Q_KEY = 'specific_humidity'

# SI unit (pint expression) of every state leaf and of its tendency
STATE_UNITS = dict(vorticity='1/s', divergence='1/s', temperature_variation='K', log_surface_pressure=None,
                   sim_time='s', tracers='dimensionless', potential='m**2/s**2')


class Env:
  """Modules of the real code."""

  def __init__(self, jax):
    import jax.numpy as jnp
    from dinosaur import (coordinate_systems, held_suarez, primitive_equations, scales, shallow_water,
                          sigma_coordinates, spherical_harmonic, time_integration)
    self.jax, self.jnp = jax, jnp
    self.cs, self.hs, self.pe, self.scales, self.sw = (coordinate_systems, held_suarez, primitive_equations, scales,
                                                       shallow_water)
    self.sc, self.sh, self.ti = sigma_coordinates, spherical_harmonic, time_integration
    self.units = scales.units
    self._grids = {}

  # ---- scales ----
  def default_units(self):
    """(length [m], time [s], mass [kg], temperature [K]) of DEFAULT_SCALE."""
    s = self.scales.DEFAULT_SCALE
    u = self.units
    return [float(s['[length]'].to(u.m).magnitude), float(s['[time]'].to(u.s).magnitude),
            float(s['[mass]'].to(u.kg).magnitude), float(s['[temperature]'].to(u.degK).magnitude)]

  def scale(self, base):
    """`scales.Scale` with the base units `base = [m, s, kg, K]`."""
    u = self.units
    return self.scales.Scale(base[0] * u.m, base[1] * u.s, base[2] * u.kg, base[3] * u.degK)

  def grid(self, M, radius, dealiasing='quadratic'):
    key = (M, float(radius), dealiasing)
    if key not in self._grids:
      self._grids[key] = self.sh.Grid.with_wavenumbers(M, dealiasing=dealiasing, radius=float(radius))
    return self._grids[key]

  def q(self, x, unit):
    return np.asarray(x) * self.units(unit)


# --------------------------------------------------------------------------
# SI problems


def si_constants(rng, earth=False):
  """SI constants of `PrimitiveEquationsSpecs.from_si` (Earth's, or within a factor ~2 of them)."""
  f = (lambda lo, hi: 1.0) if earth else (lambda lo, hi: float(rng.uniform(lo, hi)))
  R = 1004 * 2 / 7 * f(0.7, 1.4)
  return dict(radius=6.37122e6 * f(0.5, 2), omega=7.292e-5 * f(0.5, 2), g=9.80616 * f(0.5, 2), R=R,
              Rv=461. * f(0.8, 1.3), Cpv=1859. * f(0.8, 1.3), kappa=float(2 / 7 * f(0.8, 1.2)))


def si_problem(rng, M, boundaries, moist=False, orography=True, earth=False, tref='variable'):
  """A primitive-equation problem in SI numbers: constants, reference profile, orography, state, time step.

  Horizontal fields are given by their spectral coefficients (arrays of shape `modal_shape`, the units are
  those of the field; the coefficients of a field are linear in the field), so the same numbers describe
  the same physical field on grids of any radius.
  """
  n = len(boundaries) - 1
  L = M + 1
  shape = (2 * M - 1, L)

  def spec(amp, zero_mean=False):
    x = rng.standard_normal((n,) + shape) * amp
    x = x / (1 + np.arange(L)) ** 1.5         # red spectrum
    if zero_mean:
      x[:, 0, 0] = 0
    return x

  c = si_constants(rng, earth)
  centers = (np.asarray(boundaries)[1:] + np.asarray(boundaries)[:-1]) / 2
  if tref == 'const':
    tref_si = np.full(n, 288.0)
  else:
    tref_si = 210 + 90 * centers + rng.uniform(-3, 3, n)
  p = dict(M=M, boundaries=np.asarray(boundaries).tolist(), const=c, tref=tref_si.tolist(),
           vorticity=spec(2e-5, True), divergence=spec(4e-6, True), temperature_variation=spec(4.0),
           ps_mean=float(rng.uniform(0.9e5, 1.05e5)),
           lnps_var=(rng.standard_normal(shape) / (1 + np.arange(L)) ** 1.5 * 0.02),
           orography=(rng.standard_normal(shape) / (1 + np.arange(L)) ** 1.5 * 300. if orography else None),
           sim_time=float(rng.uniform(0, 3e5)), dt=float(rng.choice([300., 600., 1200.])),
           tracers={})
  p['lnps_var'][0, 0] = 0
  if moist:
    q = np.abs(spec(2e-3)) * 0 + spec(2e-3)
    q[:, 0, 0] += 0.01 * np.sqrt(4 * np.pi) * 2      # positive mean humidity
    p['tracers'][Q_KEY] = q
    p['tracers']['x'] = spec(1.0)
  return p


def mask_of(grid):
  return np.asarray(grid.mask)


def specs_of(env, p, sc):
  c, u = p['const'], env.units
  return env.pe.PrimitiveEquationsSpecs.from_si(
      radius_si=c['radius'] * u.m, angular_velocity_si=c['omega'] / u.s,
      gravity_acceleration_si=c['g'] * u.m / u.s ** 2, ideal_gas_constant_si=c['R'] * u.J / u.kg / u.degK,
      water_vapor_gas_constant_si=c['Rv'] * u.J / u.kg / u.degK,
      water_vapor_isobaric_heat_capacity_si=c['Cpv'] * u.J / u.kg / u.degK,
      kappa_si=c['kappa'] * u.dimensionless, scale=sc)


def one_modal(env, grid):
  """The constant field one as a *pure* (0, 0) coefficient.  (`to_modal(ones)` has quadrature noise of 1e-14 in
  the other coefficients; multiplied by the additive constant of `ln p_s`, up to ~40, that noise would be a
  genuinely different state under every scale.)"""
  full = np.asarray(grid.to_modal(env.jnp.ones(grid.nodal_shape)))
  out = np.zeros_like(full)
  out[0, 0] = full[0, 0]
  return out


class Setup:
  """Problem `p` under the scale `sc`: specs, grid, coordinates, non-dimensional data."""

  def __init__(self, env, p, sc):
    self.env, self.p, self.sc = env, p, sc
    self.specs = specs_of(env, p, sc)
    self.grid = env.grid(p['M'], self.specs.radius)
    self.coords = env.cs.CoordinateSystem(self.grid, env.sc.SigmaCoordinates(np.asarray(p['boundaries'])))
    nd = self.specs.nondimensionalize
    m = mask_of(self.grid)
    self.mask = m
    self.one = one_modal(env, self.grid)
    self.tref = np.asarray(nd(env.q(p['tref'], 'K')))
    self.oro = (np.zeros(self.grid.modal_shape) if p['orography'] is None
                else np.asarray(nd(env.q(p['orography'], 'm'))) * m)
    self.dt = float(nd(p['dt'] * env.units.s))
    # log surface pressure: log of the non-dimensional pressure field, as the initialisation code does
    self.ln_unit = float(np.log(nd(1.0 * env.units.pascal)))     # ln(1 Pa in scale units)
    self.lnps = (np.log(p['ps_mean']) + self.ln_unit) * self.one + p['lnps_var'] * m

  def state(self, with_time):
    env, p, nd, m = self.env, self.p, self.specs.nondimensionalize, self.mask
    kw = dict(vorticity=env.jnp.asarray(nd(env.q(p['vorticity'], '1/s')) * m),
              divergence=env.jnp.asarray(nd(env.q(p['divergence'], '1/s')) * m),
              temperature_variation=env.jnp.asarray(nd(env.q(p['temperature_variation'], 'K')) * m),
              log_surface_pressure=env.jnp.asarray(self.lnps)[None],
              tracers={k: env.jnp.asarray(np.asarray(v) * m) for k, v in p['tracers'].items()})
    if with_time:
      return env.pe.StateWithTime(sim_time=float(nd(p['sim_time'] * env.units.s)), **kw)
    return env.pe.State(**kw)

  def equation(self, cls, **kw):
    return getattr(self.env.pe, cls)(reference_temperature=self.tref, orography=self.env.jnp.asarray(self.oro),
                                     coords=self.coords, physics_specs=self.specs, **kw)

  # ---- back to SI ----
  def to_si(self, x, tendency):
    """State / tendency of the real code -> dictionary of SI arrays (`ln p_s` as ln of pascals, split into
    its mean and its variation)."""
    env, dim = self.env, self.specs.dimensionalize
    per_s = '/s' if tendency else ''
    out = {}
    for name in ('vorticity', 'divergence'):
      out[name] = np.asarray(dim(np.asarray(getattr(x, name)), env.units('1/s' + per_s)).magnitude)
    out['temperature_variation'] = np.asarray(
        dim(np.asarray(x.temperature_variation), env.units('K' + per_s)).magnitude)
    lnps = np.asarray(x.log_surface_pressure)
    if tendency:
      out['log_surface_pressure'] = np.asarray(dim(lnps, env.units('1/s')).magnitude)
    else:
      c00 = self.one[0, 0]
      mean = lnps[..., 0, 0] / c00 - self.ln_unit
      var = lnps.copy()
      var[..., 0, 0] = 0
      out['log_surface_pressure.mean'] = np.asarray(mean)
      out['log_surface_pressure.var'] = var
    for k, v in x.tracers.items():
      out['tracers.' + k] = (np.asarray(dim(np.asarray(v), env.units('1/s')).magnitude) if tendency
                             else np.asarray(v))
    if hasattr(x, 'sim_time'):
      out['sim_time'] = (np.asarray(x.sim_time, dtype=float) if tendency
                         else np.asarray(dim(np.asarray(x.sim_time, dtype=float), env.units.s).magnitude))
    return out


def compare(a, b):
  """Largest relative difference (per leaf, relative to the largest entry of the leaf); returns (err, leaf)."""
  worst, leaf = 0.0, None
  for k in a:
    x, y = np.asarray(a[k], dtype=float), np.asarray(b[k], dtype=float)
    if x.shape != y.shape or not (np.isfinite(x).all() and np.isfinite(y).all()):
      return np.inf, k
    s = max(np.abs(x).max(initial=0.0), np.abs(y).max(initial=0.0))
    e = 0.0 if s == 0 else float(np.abs(x - y).max() / s)
    if e > worst:
      worst, leaf = e, k
  return worst, leaf


# --------------------------------------------------------------------------
# rounding error of numpy.linalg.inv under a badly scaled similarity (a-posteriori bound)

EPS = 2.3e-16


def inverse_bound(s, st, out, eta):
  """Per-leaf bound of the rounding error that `numpy.linalg.inv` contributes to
  `implicit_inverse(st, eta)` under the scale of `s`, relative to the largest entry of the leaf of `out`.

  The matrices are those the code inverts (`_get_implicit_term_matrix`); with X = inv(M) as computed,
  X - M^-1 = (X M - I) M^-1 = M^-1 (M X - I), so |(X - M^-1) x| <= min(|XM - I| |X| |x|, |X| |MX - I| |x|) up to
  the rounding of the residual itself (4 N eps |X||M|) — a bound measured on the actual matrices, valid for
  every conditioning.  LU with partial pivoting is not invariant under the diagonal similarity
  S M S^-1 that a change of units is, so this error depends on the scale although the exact inverse does not.
  """
  env = s.env
  m = np.asarray(env.pe._get_implicit_term_matrix(eta, s.coords, s.tref, s.specs.kappa, s.specs.R))
  n = len(s.tref)
  N = 2 * n + 1
  amax = lambda a: np.abs(np.asarray(a)).max(axis=-2)          # max over m: [..., L]
  x = np.concatenate([amax(st.divergence), amax(st.temperature_variation), amax(st.log_surface_pressure)], axis=0)
  bound = np.zeros_like(x)
  for l in range(m.shape[0]):
    mi = np.linalg.inv(m[l])
    am, ai = np.abs(m[l]), np.abs(mi)
    left = np.abs(mi @ m[l] - np.eye(N)) + 4 * N * EPS * (ai @ am)
    right = np.abs(m[l] @ mi - np.eye(N)) + 4 * N * EPS * (am @ ai)
    b1 = left @ (ai @ x[:, l])
    b2 = ai @ (right @ x[:, l])
    bound[:, l] = np.minimum(b1, b2) + 4 * N * EPS * (ai @ x[:, l])
  ref = lambda a: max(np.abs(np.asarray(a)).max(), 1e-300)
  lp = np.asarray(out.log_surface_pressure)
  lv = lp.copy()
  lv[..., 0, 0] = 0
  return {'divergence': bound[:n].max() / ref(out.divergence),
          'temperature_variation': bound[n:2 * n].max() / ref(out.temperature_variation),
          'log_surface_pressure.mean': bound[2 * n, 0] / ref(lp[..., 0, 0]),
          'log_surface_pressure.var': bound[2 * n, 1:].max(initial=0.0) / ref(lv)}


class Recorder:
  """Wraps an ImplicitExplicitODE and records the step sizes passed to implicit_inverse."""

  def __init__(self, env, eq):
    self.eq, self.etas = eq, []
    base = env.ti.ImplicitExplicitODE
    rec = self

    class _R(base):
      def explicit_terms(self, state):
        return eq.explicit_terms(state)

      def implicit_terms(self, state):
        return eq.implicit_terms(state)

      def implicit_inverse(self, state, step_size):
        rec.etas.append(float(step_size))
        return eq.implicit_inverse(state, step_size)

    self.ode = _R()


INTEGRATORS = ('backward_forward_euler', 'crank_nicolson_rk2', 'crank_nicolson_rk3', 'crank_nicolson_rk4',
               'imex_rk_sil3')


# --------------------------------------------------------------------------
# shallow water


def sw_problem(rng, M, layers, orography=True):
  L = M + 1
  shape = (2 * M - 1, L)
  red = (1 + np.arange(L)) ** 1.5

  def spec(amp, zero_mean=False):
    x = rng.standard_normal((layers,) + shape) * amp / red
    if zero_mean:
      x[:, 0, 0] = 0
    return x

  dens = 997. * np.cumprod(np.concatenate([[1.0], 1 + rng.uniform(0.005, 0.05, layers - 1)]))
  g = 9.80616 * float(rng.uniform(0.5, 2))
  return dict(M=M, layers=layers,
              const=dict(radius=6.37122e6 * float(rng.uniform(0.5, 2)), omega=7.292e-5 * float(rng.uniform(0.5, 2)),
                         g=g, densities=dens.tolist()),
              refpot=(g * rng.uniform(2e3, 8e3, layers)).tolist(),
              orography=(rng.standard_normal(shape) / red * g * 200. if orography else None),
              vorticity=spec(2e-5, True), divergence=spec(4e-6, True), potential=spec(g * 50.),
              dt=float(rng.choice([300., 600., 1200.])))


class SWSetup:

  def __init__(self, env, p, sc):
    from dinosaur import layer_coordinates
    self.env, self.p, self.sc = env, p, sc
    c, u = p['const'], env.units
    self.specs = env.sw.ShallowWaterSpecs.from_si(
        densities=np.asarray(c['densities']) * u.kg / u.m ** 3, radius_si=c['radius'] * u.m,
        angular_velocity_si=c['omega'] / u.s, gravity_acceleration_si=c['g'] * u.m / u.s ** 2, scale=sc)
    self.grid = env.grid(p['M'], self.specs.radius)
    self.coords = env.cs.CoordinateSystem(self.grid, layer_coordinates.LayerCoordinates(p['layers']))
    nd = self.specs.nondimensionalize
    self.mask = mask_of(self.grid)
    self.refpot = np.asarray(nd(env.q(p['refpot'], 'm**2/s**2')))
    self.oro = None if p['orography'] is None else env.jnp.asarray(
        np.asarray(nd(env.q(p['orography'], 'm**2/s**2'))) * self.mask)
    self.dt = float(nd(p['dt'] * u.s))
    self.eq = env.sw.ShallowWaterEquations(self.coords, self.specs, self.oro, self.refpot)

  def state(self):
    env, p, nd, m = self.env, self.p, self.specs.nondimensionalize, self.mask
    return env.sw.State(vorticity=env.jnp.asarray(nd(env.q(p['vorticity'], '1/s')) * m),
                        divergence=env.jnp.asarray(nd(env.q(p['divergence'], '1/s')) * m),
                        potential=env.jnp.asarray(nd(env.q(p['potential'], 'm**2/s**2')) * m))

  def to_si(self, x, tendency):
    env, dim = self.env, self.specs.dimensionalize
    per_s = '/s' if tendency else ''
    return dict(vorticity=np.asarray(dim(np.asarray(x.vorticity), env.units('1/s' + per_s)).magnitude),
                divergence=np.asarray(dim(np.asarray(x.divergence), env.units('1/s' + per_s)).magnitude),
                potential=np.asarray(dim(np.asarray(x.potential), env.units('m**2/s**2' + per_s)).magnitude))


# --------------------------------------------------------------------------
# Held-Suarez


def hs_params(rng, default=False):
  """SI parameters of HeldSuarezForcing (the defaults of the paper, or within a factor ~2 of them)."""
  f = (lambda lo, hi: 1.0) if default else (lambda lo, hi: float(rng.uniform(lo, hi)))
  return dict(p0=1e5 * f(0.9, 1.1), sigma_b=float(0.7 * f(0.8, 1.1)), kf_day=1.0 * f(0.5, 2), ka_day=40. * f(0.5, 2),
              ks_day=4. * f(0.5, 2), minT=200. * f(0.9, 1.1), maxT=315. * f(0.95, 1.05), dTy=60. * f(0.5, 1.5),
              dThz=10. * f(0.5, 1.5))


def hs_forcing(env, s, hp):
  u = env.units
  return env.hs.HeldSuarezForcing(
      coords=s.coords, physics_specs=s.specs, reference_temperature=s.tref, p0=hp['p0'] * u.pascal,
      sigma_b=hp['sigma_b'], kf=1 / (hp['kf_day'] * u.day), ka=1 / (hp['ka_day'] * u.day),
      ks=1 / (hp['ks_day'] * u.day), minT=hp['minT'] * u.degK, maxT=hp['maxT'] * u.degK, dTy=hp['dTy'] * u.degK,
      dThz=hp['dThz'] * u.degK)
