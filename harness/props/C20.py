"""C20 — physical forcings are bounded, periodic and dissipative.

Lean: DinoProofs/Properties/C20.lean over the model Dino/Forcing.lean; literal constants of the
source are re-translated on every run (harness/gen/consts_c20.py -> DinoGen/ForcingConsts.lean).
Tie: every model operation is run (Float) on the inputs given to the real functions of
dinosaur/radiation.py and dinosaur/held_suarez.py (float64) and compared; for
`HeldSuarezForcing.explicit_terms` the model produces the nodal tendencies and the real
transforms of the grid (`to_modal`, `curl_cos_lat`, `div_cos_lat` — external in the model) are
applied to them before comparing with the real output.
Sentinel probes evaluate the property itself on the real code.
"""
import datetime

import numpy as np

import common
from common import fvec, fbits, unfvec, unfmat
import dinoutil
from gen import consts_c20

TWO_PI = 2 * np.pi
RULE = ('radiation: orbital/synodic phases uniform in [0,2pi) plus corners (0, 2pi, negative, +-50 rad), '
        'longitudes in [0,2pi), latitudes in [-pi/2,pi/2] incl. poles/equator, point sets of 1..16 points and '
        'Gaussian grids (16x8 .. T42, with Grid.longitude_offset 0, 0.3, half a cell, pi/7, -0.4: the flux is '
        'compared at the own node longitudes of the grid), (mean, variation) = SI defaults, non-dimensionalised defaults, random '
        '0<=variation<=mean incl. variation=0 and variation=mean; model times up to ~4 years with random '
        'reference datetimes; Held-Suarez: 1..12 sigma layers (equidistant / uneven / strongly uneven), random '
        'sigma_b, kf, ka, ks (both orders), minT, maxT, dTy, dThz, p0, random reference temperatures and random '
        'spectral states whose top two total wavenumbers are zero (probes: top one or two); asserted negative controls '
        'on every run: one equiangular_with_poles grid (12x7, drag non-finite) and vorticity at the spare top wavenumber '
        'l = L-1 only on g16x8 and T21 (drag != -kv (zeta, delta), per-wavenumber deviations in the notes); a radiation case is non-trivial when the point '
        'set has day-side and night-side points (or is a scalar-function case with var != 0), a Held-Suarez '
        'case when levels lie on both sides of sigma_b; distinct = distinct input hashes')


def _phase(rng, i):
  corner = [0.0, TWO_PI, -1.25, 50.0, -50.0, np.pi, 1e-9]
  return float(corner[i]) if i < len(corner) else float(rng.uniform(0, TWO_PI))


def _points(rng, i):
  """(lon, lat) point sets; corner cases first."""
  if i == 0:
    lon = np.array([0.0]); lat = np.array([0.0])
  elif i == 1:
    lon = np.array([0.0, np.pi, 1.0, 4.0]); lat = np.array([np.pi / 2, -np.pi / 2, np.pi / 2, 0.0])
  elif i == 2:
    lon = np.array([TWO_PI, 0.0]); lat = np.array([0.3, 0.3])
  else:
    n = int(rng.choice([1, 2, 5, 16]))
    lon = rng.uniform(0, TWO_PI, n)
    lat = np.arcsin(rng.uniform(-1, 1, n))
  return lon, lat


def _mean_var(rng, i, rad, specs):
  tsi = float(rad.TOTAL_SOLAR_IRRADIANCE.magnitude)
  dv = float(rad.SOLAR_IRRADIANCE_VARIATION.magnitude)
  k = i % 6
  if k == 0:
    return tsi, dv, 'si-defaults'
  if k == 1:
    return (float(specs.nondimensionalize(rad.TOTAL_SOLAR_IRRADIANCE)),
            float(specs.nondimensionalize(rad.SOLAR_IRRADIANCE_VARIATION)), 'nondim-defaults')
  if k == 2:
    m = float(rng.uniform(0.5, 2000))
    return m, 0.0, 'variation=0'
  if k == 3:
    m = float(rng.uniform(0.5, 2000))
    return m, m, 'variation=mean'
  m = float(np.exp(rng.uniform(-3, 8)))
  return m, float(m * rng.uniform(0, 1)), 'random'


def _grid(sh, name):
  if name == 'g16x8':
    return sh.Grid(longitude_wavenumbers=6, total_wavenumbers=7, longitude_nodes=16, latitude_nodes=8)
  if name == 'g12x6-offset':
    return sh.Grid(longitude_wavenumbers=4, total_wavenumbers=5, longitude_nodes=12, latitude_nodes=6,
                   longitude_offset=0.3)
  if name == 'g16x8-halfcell':           # first node half a cell east of Greenwich
    return sh.Grid(longitude_wavenumbers=6, total_wavenumbers=7, longitude_nodes=16, latitude_nodes=8,
                   longitude_offset=np.pi / 16)
  if name == 'g12x6-negative':           # the [-pi, pi) layout shifted a little: negative node longitudes
    return sh.Grid(longitude_wavenumbers=4, total_wavenumbers=5, longitude_nodes=12, latitude_nodes=6,
                   latitude_spacing='equiangular', longitude_offset=-0.4)
  if '@' in name:                        # e.g. 'T21@pi/7': a standard grid with a longitude offset
    base, off = name.split('@')
    return getattr(sh.Grid, base)(longitude_offset=OFFSETS[off])
  return getattr(sh.Grid, name)()


OFFSETS = {'pi/7': np.pi / 7, 'halfcell': np.pi / 64, '-0.4': -0.4, '2pi+0.2': TWO_PI + 0.2}


def own_nodes(grid):
  """Longitude / latitude of every node of the grid, from the grid's OWN axes (Grid.longitudes / Grid.latitudes,
  which include Grid.longitude_offset) - not from SolarRadiation.lon / .lat."""
  lon, lat = np.meshgrid(np.asarray(grid.longitudes, dtype=float), np.asarray(grid.latitudes, dtype=float),
                         indexing='ij')
  return lon, lat


def sun_vector_oracle(o, s, consts_eot):
  """Unit vector to the sun in earth-fixed coordinates, written out independently of radiation.py (only its
  published constants): declination 23.45 deg * sin(b), equation of time in minutes, subsolar longitude."""
  b = o - 79 * TWO_PI / 365.25
  decl = np.deg2rad(23.45) * np.sin(b)
  minutes = consts_eot[0] * np.sin(2 * b) - consts_eot[1] * np.cos(b) - consts_eot[2] * np.sin(b)
  sub_lon = np.pi - s - TWO_PI * minutes / 1440
  return np.array([np.cos(decl) * np.cos(sub_lon), np.cos(decl) * np.sin(sub_lon), np.sin(decl)])


def run(ctx: common.Ctx):
  jax = common.setup_jax()
  import jax.numpy as jnp
  from dinosaur import radiation as rad
  from dinosaur import held_suarez as hs
  from dinosaur import coordinate_systems as cs
  from dinosaur import primitive_equations as pe
  from dinosaur import sigma_coordinates as sc
  from dinosaur import spherical_harmonic as sh
  units = rad.units

  consts = consts_c20.run(ctx)
  ctx.lean('DinoProofs.Properties.C20', 'C20.txt',
           extra_files=['DinoProofs/Lemmas/Forcing.lean', 'Dino/Forcing.lean', 'Dino/ForcingDrv.lean'],
           gen_targets=['DinoGen.ForcingConsts'])

  import time as _time
  marks = [('start', _time.time())]
  rng = ctx.rng
  specs = pe.PrimitiveEquationsSpecs.from_si()
  eot = [float(consts[k]) for k in ('eotA', 'eotB', 'eotC')] if consts else [9.87, 7.53, 1.5]
  cvec = fvec([rad.MINUTES_PER_DAY, rad.PERIHELION, rad.SPRING_EQUINOX, rad.EARTH_AXIS_INCLINATION] + eot)

  lines, checks = [], []   # checks: (op, inp, impl, kind, atol)

  def add(line, op, inp, impl, kind='vec', atol=1e-12):
    lines.append('forcing F ' + line)
    checks.append((op, inp, np.asarray(impl, dtype=float), kind, atol))

  # ------------------------------------------------------------------ correspondence: radiation
  nrad = ctx.n(40, 600)
  for ci in range(nrad):
    o, s = _phase(rng, ci), _phase(rng, (ci * 3 + 1) % 11 if ci < 11 else 99)
    lon, lat = _points(rng, ci)
    mean, var, mvkind = _mean_var(rng, ci, rad, specs)
    ctx.dist[f'rad:mean-var={mvkind}'] += 1
    ctx.dist[f'rad:npoints={len(lon)}'] += 1
    phases = np.array([o, s] + [_phase(rng, 99) for _ in range(int(rng.integers(0, 4)))])
    peri = float(rad.PERIHELION) if ci % 2 == 0 else float(rng.uniform(0, TWO_PI))
    inp = dict(orbital_phase=o, synodic_phase=s, lon=lon.tolist(), lat=lat.tolist(), mean=mean, variation=var)
    big = 1e-12 * max(1.0, mean + var)
    with ctx.impl('radiation-exception', inp):
      add(f'irr {fvec(phases)} {fbits(mean)} {fbits(var)} {fbits(peri)}', 'get_direct_solar_irradiance',
          dict(phases=phases.tolist(), mean=mean, variation=var, perihelion=peri),
          rad.get_direct_solar_irradiance(phases, mean, var, peri), atol=big)
      add(f'decl {cvec} {fvec(phases)}', 'get_declination', dict(phases=phases.tolist()),
          rad.get_declination(phases))
      add(f'eot {cvec} {fvec(phases)}', 'equation_of_time', dict(phases=phases.tolist()),
          rad.equation_of_time(phases))
      add(f'hour {cvec} {fbits(o)} {fbits(s)} {fvec(lon)}', 'get_hour_angle', inp,
          rad.get_hour_angle(o, s, lon))
      sin_alt = np.asarray(rad.get_solar_sin_altitude(o, s, lon, lat))
      add(f'sinalt {cvec} {fbits(o)} {fbits(s)} {fvec(lon)} {fvec(lat)}', 'get_solar_sin_altitude', inp, sin_alt)
      ot = rad.OrbitalTime(orbital_phase=o, synodic_phase=s)
      add(f'flux {cvec} {fbits(o)} {fbits(s)} {fbits(mean)} {fbits(var)} {fvec(lon)} {fvec(lat)}',
          'get_radiation_flux', inp, rad.get_radiation_flux(ot, lon, lat, mean, var), atol=big)
      if mean + var > 0:
        add(f'nflux {cvec} {fbits(o)} {fbits(s)} {fbits(mean)} {fbits(var)} {fvec(lon)} {fvec(lat)}',
            'get_normalized_radiation_flux', inp, rad.get_normalized_radiation_flux(ot, lon, lat, mean, var))
      nontriv = bool((sin_alt > 0).any() and (sin_alt <= 0).any()) or (len(lon) == 1 and var != 0)
      ctx.case(('rad', o, s, lon.tobytes(), lat.tobytes(), mean, var), nontrivial=nontriv,
               sample=dict(op='get_radiation_flux', **inp) if ci in (1, 7) else None)

  marks.append(('corr-radiation', _time.time()))
  # SolarRadiation: time -> orbital time -> flux on a grid
  ntime = ctx.n(6, 60)
  # grids with a non-zero Grid.longitude_offset included (0.3, half a cell, negative): the radiation lives on the
  # grid's own nodes, so the model is fed the grid's own longitudes (Grid.nodal_mesh), not SolarRadiation.lon
  grid_names = (['g16x8', 'g12x6-offset', 'g16x8-halfcell', 'g12x6-negative'] if ctx.quick else
                ['g16x8', 'g12x6-offset', 'g16x8-halfcell', 'g12x6-negative', 'T21', 'T21@pi/7'])
  sr_cache = {}
  for ti in range(ntime):
    gname = grid_names[ti % len(grid_names)]
    ref = (datetime.datetime(1979, 1, 1) if ti == 0 else
           datetime.datetime(int(rng.integers(1970, 2030)), 1, 1) +
           datetime.timedelta(minutes=int(rng.integers(0, 366 * 1440))))
    if ti % 3 == 2:
      ref = np.datetime64(ref, 's')
    normalized = ti % 4 == 3
    grid_t = _grid(sh, gname)
    coords = cs.CoordinateSystem(grid_t, sc.SigmaCoordinates.equidistant(2))
    inp0 = dict(grid=gname, longitude_offset=float(grid_t.longitude_offset), reference_datetime=str(ref),
                normalized=normalized)
    with ctx.impl('solar-radiation-exception', inp0):
      srad = (rad.SolarRadiation.normalized if normalized else rad.SolarRadiation)(coords, specs, ref)
      sr_cache[ti] = srad
      days = [0.0, 1.0, 365.25][ti] if ti < 3 else float(rng.uniform(0, 1500))
      time = float(specs.nondimensionalize(days * units.day))
      time_arg = jnp.asarray(time) if ti % 2 else time
      inp = dict(days=days, time=time, **inp0)
      ro, rs = float(srad.reference_orbital_time.orbital_phase), float(srad.reference_orbital_time.synodic_phase)
      ko, ks_ = float(srad.orbital_rate.orbital_phase), float(srad.orbital_rate.synodic_phase)
      mean, var = float(srad.total_solar_irradiance), float(srad.solar_irradiance_variation)
      now = srad.time_to_orbital_time(time_arg)
      add(f'orbital {fbits(ro)} {fbits(rs)} {fbits(ko)} {fbits(ks_)} {fbits(time)}',
          'SolarRadiation.time_to_orbital_time', inp, [float(now.orbital_phase), float(now.synodic_phase)],
          kind='phase')
      glon, glat = own_nodes(grid_t)
      lon, lat = glon.ravel(), glat.ravel()
      flux = np.asarray(srad.radiation_flux(time_arg))
      ctx.expect(tuple(flux.shape) == tuple(grid_t.nodal_shape), 'flux-shape',
                 f'SolarRadiation.radiation_flux has shape {flux.shape}, the grid has nodes {grid_t.nodal_shape}', inp)
      add(f'fluxt {cvec} {fbits(ro)} {fbits(rs)} {fbits(ko)} {fbits(ks_)} {fbits(time)} {fbits(mean)} '
          f'{fbits(var)} {fvec(lon)} {fvec(lat)}', 'SolarRadiation.radiation_flux', inp, flux.ravel(),
          atol=1e-12 * max(1.0, mean + var))
      ctx.dist[f'time:grid={gname}'] += 1
      ctx.dist[f'time:longitude-offset={"zero" if grid_t.longitude_offset == 0 else "nonzero"}'] += 1
      ctx.dist[f'time:normalized={normalized}'] += 1
      ctx.case(('fluxt', gname, str(ref), time), nontrivial=bool((flux > 0).any() and (flux == 0).any()),
               sample=inp if ti == 3 else None)

  marks.append(('corr-solar-radiation', _time.time()))
  # ------------------------------------------------------------------ correspondence: Held-Suarez
  nhs = ctx.n(8, 60)
  hs_cases = []
  for hi in range(nhs):
    forced = {0: (1, 'equidistant'), 1: (2, 'strongly-uneven'), 2: (5, 'equidistant')}.get(hi)
    b, kind = dinoutil.random_boundaries(rng, *(forced or (None, None)))
    nlev = len(b) - 1
    gname = 'T21' if (not ctx.quick and hi % 10 == 9) else ['g16x8', 'g12x6-offset'][hi % 2]
    grid = _grid(sh, gname)
    coords = cs.CoordinateSystem(grid, sc.SigmaCoordinates(b))
    if hi in (0, 2):
      kw, pkind = {}, 'defaults'
    else:
      pkind = 'random'
      ka_days, ks_days = float(rng.uniform(10, 80)), float(rng.uniform(1, 8))
      if hi % 3 == 0:
        ka_days, ks_days = ks_days, ka_days      # ks < ka: convex combination the other way round
      kw = dict(p0=float(rng.uniform(0.8e5, 1.1e5)) * units.pascal,
                sigma_b=float(rng.choice([0.7, rng.uniform(0.15, 0.95)])),
                kf=1 / (float(rng.uniform(0.3, 3)) * units.day), ka=1 / (ka_days * units.day),
                ks=1 / (ks_days * units.day), minT=float(rng.uniform(150, 250)) * units.degK,
                maxT=float(rng.uniform(280, 330)) * units.degK, dTy=float(rng.uniform(0, 80)) * units.degK,
                dThz=float(rng.uniform(0, 20)) * units.degK)
    tref = rng.uniform(200, 300, nlev)
    inp0 = dict(boundaries=b.tolist(), grid=gname, params={k: str(v) for k, v in kw.items()},
                reference_temperature=tref.tolist())
    with ctx.impl('held-suarez-exception', inp0):
      h = hs.HeldSuarezForcing(coords, specs, tref, **kw)
      sig = np.asarray(h.sigma)
      sb = float(h.sigma_b)
      ctx.dist[f'hs:layers={nlev}'] += 1
      ctx.dist[f'hs:kind={kind}'] += 1
      ctx.dist[f'hs:params={pkind}'] += 1
      ctx.dist[f'hs:grid={gname}'] += 1
      lat = np.asarray(h.lat).ravel()
      coslat = np.broadcast_to(np.asarray(grid.cos_lat), grid.nodal_shape).ravel()
      add(f'kv {fbits(h.kf)} {fbits(sb)} {fvec(sig)}', 'HeldSuarezForcing.kv', inp0, np.asarray(h.kv()).ravel())
      add(f'kt {fbits(h.ka)} {fbits(h.ks)} {fbits(sb)} {fvec(sig)} {fvec(lat)}', 'HeldSuarezForcing.kt', inp0,
          np.asarray(h.kt()).reshape(nlev, -1), kind='mat')
      # random spectral state; top two total wavenumbers and l = 0 of vorticity/divergence are zero
      ls = np.asarray(grid.modal_axes[1])
      L = grid.total_wavenumbers
      mask = np.asarray(grid.mask)
      def spec(shape, cut, scale=1.0):
        x = rng.standard_normal(shape) * mask * (ls < L - cut)
        return x * scale
      vor = spec(coords.modal_shape, 2, 1e-5 * float(specs.nondimensionalize(1 / units.second)))
      div = spec(coords.modal_shape, 2, 1e-6 * float(specs.nondimensionalize(1 / units.second)))
      vor[..., 0] = 0
      div[..., 0] = 0
      tvar_m = spec(coords.modal_shape, 1, 3.0)
      lsp_nodal0 = np.log(float(h.p0) * (1 + 0.05 * np.tanh(rng.standard_normal(grid.nodal_shape))))
      lsp_m = np.asarray(grid.to_modal(jnp.asarray(lsp_nodal0)))[np.newaxis]
      state = pe.State(vorticity=jnp.asarray(vor), divergence=jnp.asarray(div),
                       temperature_variation=jnp.asarray(tvar_m), log_surface_pressure=jnp.asarray(lsp_m))
      inp = dict(inp0, state='random spectrum (seeded), top two wavenumbers zero')
      out = h.explicit_terms(state)
      aux = pe.compute_diagnostic_state(state=state, coords=coords)
      lsp_nodal = np.asarray(grid.to_nodal(state.log_surface_pressure))[0].ravel()
      ps = np.exp(lsp_nodal)
      teq = np.asarray(h.equilibrium_temperature(jnp.asarray(ps.reshape(grid.nodal_shape))))
      pvec = fvec([h.p0, specs.kappa, h.minT, h.maxT, h.dTy, h.dThz])
      first = len(lines)
      for k in range(nlev):
        add(f'teq {pvec} {fbits(sig[k])} {fvec(lat)} {fvec(ps)}', 'HeldSuarezForcing.equilibrium_temperature',
            dict(inp0, level=k), teq[k].ravel())
      hs_cases.append(dict(h=h, coords=coords, grid=grid, out=out, inp=inp, nlev=nlev, first=len(lines)))
      u, v = (np.asarray(a) for a in aux.cos_lat_u)
      tv = np.asarray(aux.temperature_variation)
      for k in range(nlev):
        # nodal tendencies have no observable counterpart in the implementation: impl=None, assembled below
        for comp in (u, v):
          lines.append(f'forcing F veltend {fbits(h.kf)} {fbits(sb)} {fbits(sig[k])} {fvec(coslat)} '
                       f'{fvec(comp[k].ravel())}')
          checks.append(('explicit_terms/nodal', inp, None, 'defer', 0))
        lines.append(f'forcing F temptend {pvec} {fbits(h.ka)} {fbits(h.ks)} {fbits(sb)} {fbits(sig[k])} '
                     f'{fbits(tref[k])} {fvec(lat)} {fvec(lsp_nodal)} {fvec(tv[k].ravel())}')
        checks.append(('explicit_terms/nodal', inp, None, 'defer', 0))
      nontriv = bool((sig <= sb).any() and (sig > sb).any())
      ctx.case(('hs', b.tobytes(), gname, repr(sorted(inp0['params'].items())), tref.tobytes()),
               nontrivial=nontriv, sample=inp0 if hi == 3 else None)

  marks.append(('corr-held-suarez', _time.time()))
  outs = ctx.model(lines)
  marks.append(('model-driver', _time.time()))
  for (op, inp, impl, kind, atol), o in zip(checks, outs):
    if kind == 'defer':
      continue
    if o in ('bad-op', 'value-error'):
      ctx.corr_mismatch(op, inp, impl, o, 'model rejected the operation')
    elif kind == 'mat':
      ctx.corr_float(op, inp, impl, np.asarray(unfmat(o)))
    elif kind == 'phase':
      m = np.asarray(unfvec(o))
      d = np.abs(impl - m)
      d = np.minimum(d, np.abs(d - TWO_PI))       # phases are compared on the circle
      ctx.traces += 1
      if not (d <= 1e-9).all():
        ctx.corr_mismatch(op, inp, impl.tolist(), m.tolist(), 'phase differs (mod 2pi)')
    else:
      ctx.corr_float(op, inp, impl, unfvec(o), atol=atol)
  # explicit_terms: model nodal tendencies -> real transforms -> compare with the real output
  for c in hs_cases:
    grid, nlev, out, inp = c['grid'], c['nlev'], c['out'], c['inp']
    res = outs[c['first']:c['first'] + 3 * nlev]
    if any(r in ('bad-op', 'value-error') for r in res):
      ctx.corr_mismatch('HeldSuarezForcing.explicit_terms', inp, None, res[0][:40], 'model rejected the operation')
      continue
    arr = [np.asarray(unfvec(r)).reshape(grid.nodal_shape) for r in res]
    ut = jnp.asarray(np.stack(arr[0::3]))
    vt = jnp.asarray(np.stack(arr[1::3]))
    tt = jnp.asarray(np.stack(arr[2::3]))
    with ctx.impl('transform-exception', inp):
      vel = (grid.to_modal(ut), grid.to_modal(vt))
      ctx.corr_float('HeldSuarezForcing.explicit_terms.vorticity', inp, out.vorticity, grid.curl_cos_lat(vel))
      ctx.corr_float('HeldSuarezForcing.explicit_terms.divergence', inp, out.divergence, grid.div_cos_lat(vel))
      ctx.corr_float('HeldSuarezForcing.explicit_terms.temperature_variation', inp, out.temperature_variation,
                     grid.to_modal(tt))
      ctx.corr_exact('HeldSuarezForcing.explicit_terms.log_surface_pressure', inp,
                     bool((np.asarray(out.log_surface_pressure) == 0).all()), True)

  # ------------------------------------------------------------------ probes on the real code
  marks.append(('compare', _time.time()))
  probes_radiation(ctx, rad, specs, sh, cs, sc, jnp, units, grid_names, eot)
  marks.append(('probes-radiation', _time.time()))
  probes_held_suarez(ctx, hs, pe, specs, sh, cs, sc, jnp, units)
  marks.append(('probes-held-suarez', _time.time()))
  ctx.notes.append('timing [s]: ' + ', '.join(f'{b[0]}={b[1] - a[1]:.1f}' for a, b in zip(marks, marks[1:])))

  # DOMAIN STATEMENTS (review C, C20 findings 1-2; review2 F, C20 N1/N2): the drag theorems need cos_lat != 0 at every
  # node and the wind round trip.  Both boundaries of the domain are ASSERTED negative controls on every run:
  #  * control:pole-grid-nonfinite - on a grid WITH pole nodes (equiangular_with_poles: cos_lat = 0 at both ends) the
  #    real code divides by zero and the drag is non-finite;
  #  * control:unclipped-drag - on a state with energy at the spare top total wavenumber l = L-1 the drag is NOT
  #    -kv (zeta, delta): per-wavenumber deviations recorded below.
  pole_note = control_pole_grid(ctx, hs, pe, specs, sh, cs, sc, jnp)
  unclipped_note = control_unclipped(ctx, hs, pe, specs, sh, cs, sc, jnp)
  marks.append(('controls', _time.time()))
  ctx.notes.append(dict(domain_statement='drag (T20.4) is claimed on pole-free grids (cos_lat != 0 at every node: '
                        'validated on every probe grid, key hyp-pole-free) and for states whose spare top total '
                        'wavenumber l = L-1 is clipped (hyp-wind-roundtrip); hypotheses Homogeneous / WindRoundTrip are '
                        'sampled on the real grid, not proved for it.  Outside this domain the real code does NOT '
                        'satisfy drag = -kv (zeta, delta): asserted on every run by the two negative controls below',
                        real_code_on_a_grid_with_pole_nodes=pole_note,
                        real_code_on_unclipped_states=unclipped_note))

  if not ctx.quick:
    ctx.leanchecker(['DinoProofs.Properties.C20'])
  return ctx.finish(RULE, 'theorems are about the Lean model Dino.Forcing with sin/cos/exp/log/pow/floor/pi '
                    'instantiated by the real functions of Mathlib; horizontal transforms are external '
                    '(linearity and the wind round trip are explicit hypotheses of T20.4, sampled on the real '
                    'grid, on pole-free grids and states whose spare top wavenumber is clipped; both domain boundaries are '
                    'asserted negative controls); cutoff_nonneg, equilibriumTemperature_ge_min (max with minT) and '
                    'logSurfacePressureTendency_eq_zero are definitional in the model: that they describe the real code '
                    'rests on the correspondence check, on sigma*ps/p0 > 0 (ps <= 0 gives NaN in the real code, a '
                    'totalised log in the model); float rounding is outside the theorems (tolerance 1e-9 in the '
                    'correspondence); the global-mean = S/4 identity is a quadrature statement and is a test only')


# ---------------------------------------------------------------------------------------------


def control_pole_grid(ctx, hs, pe, specs, sh, cs, sc, jnp):
  """Negative control (asserted): on `equiangular_with_poles` (cos_lat = 0 at both end nodes) the drag of a smooth,
  clipped state is non-finite - the side condition `cos_lat != 0` of the drag theorems is necessary on the real code."""
  inp = dict(grid='Grid(4, 5, 12, 7, latitude_spacing=equiangular_with_poles)', layers=3,
             state='random vorticity at 0 < l < 3 (seeded), zero divergence')
  ctx.case(('control-pole-grid',), nontrivial=True)
  note = None
  with ctx.impl('control:pole-grid-exception', inp):
    with np.errstate(all='ignore'):
      gp = sh.Grid(longitude_wavenumbers=4, total_wavenumbers=5, longitude_nodes=12, latitude_nodes=7,
                   latitude_spacing='equiangular_with_poles')
      cp = cs.CoordinateSystem(gp, sc.SigmaCoordinates.equidistant(3))
      hp = hs.HeldSuarezForcing(cp, specs, np.full(3, 250.0))
      lsg = np.asarray(gp.modal_axes[1])
      vorp = ctx.rng.standard_normal(cp.modal_shape) * np.asarray(gp.mask) * (lsg < 3) * (lsg > 0) * 1e-3
      stp = pe.State(vorticity=jnp.asarray(vorp), divergence=jnp.asarray(0 * vorp),
                     temperature_variation=jnp.asarray(0 * vorp),
                     log_surface_pressure=jnp.zeros((1,) + gp.modal_shape))
      outp = np.asarray(hp.explicit_terms(stp).vorticity)
    min_cos = float(np.abs(np.asarray(gp.cos_lat)).min())
    finite = bool(np.isfinite(outp).all())
    note = dict(min_abs_cos_lat=min_cos, drag_finite=finite,
                drag_relerr_vs_minus_kv_vor=(float(np.abs(outp + np.asarray(hp.kv()) * vorp).max()
                                                   / np.abs(np.asarray(hp.kv()) * vorp).max()) if finite else None))
    ctx.expect(min_cos == 0.0, 'control:pole-grid-cos-lat',
               f'negative control: equiangular_with_poles was expected to have cos_lat = 0 at its end nodes; '
               f'min |cos_lat| = {min_cos}', inp)
    ctx.expect(not finite, 'control:pole-grid-nonfinite',
               'negative control: the drag on a grid with pole nodes (cos_lat = 0) was expected to be NON-finite '
               '(division by cos_lat**2); it is finite, so the stated domain restriction "pole-free grids" of the drag '
               'theorems no longer describes the real code', inp)
    ctx.dist['control-pole-grid'] += 1
  return note


def control_unclipped(ctx, hs, pe, specs, sh, cs, sc, jnp):
  """Negative control (asserted): states with energy at the spare top total wavenumber l = L-1.  The drag is then not
  -kv (zeta, delta): curl_cos_lat/div_cos_lat clip l = L-1 (deviation exactly 1 there), the division by cos_lat**2 of a
  wind that is not band-limited spreads the defect to l = L-3, L-5, ... of the same field and couples vorticity into
  the divergence tendency at l = L-2, L-4, ...  Returns the per-wavenumber deviations (relative to max |kv zeta| on the
  drag level) for the evidence notes."""
  rng = ctx.rng
  notes = {}
  for gname in ('g16x8', 'T21'):
    inp = dict(grid=gname, layers=4, state='vorticity at the top total wavenumber l = L-1 only (seeded), zero divergence')
    ctx.case(('control-unclipped', gname), nontrivial=True)
    with ctx.impl('control:unclipped-exception', inp):
      grid = _grid(sh, gname)
      coords = cs.CoordinateSystem(grid, sc.SigmaCoordinates.equidistant(4))
      h = hs.HeldSuarezForcing(coords, specs, np.full(4, 250.0))
      ls = np.asarray(grid.modal_axes[1])
      L = grid.total_wavenumbers
      mask = np.asarray(grid.mask)
      kv = np.asarray(h.kv())
      k = int(np.argmax(kv.ravel()))                    # the lowest level: kv > 0

      def dev(vor, div):
        st = pe.State(vorticity=jnp.asarray(vor), divergence=jnp.asarray(div),
                      temperature_variation=jnp.zeros(coords.modal_shape),
                      log_surface_pressure=jnp.zeros((1,) + grid.modal_shape))
        out = h.explicit_terms(st)
        ev = np.abs(np.asarray(out.vorticity) + kv * vor)[k]
        ed = np.abs(np.asarray(out.divergence) + kv * div)[k]
        sc_ = max(np.abs(kv[k] * vor[k]).max(), np.abs(kv[k] * div[k]).max())
        return ([float((ev * (ls == l)).max() / sc_) for l in range(L)],
                [float((ed * (ls == l)).max() / sc_) for l in range(L)])

      vs = 1e-5
      top = rng.standard_normal(coords.modal_shape) * mask * (ls == L - 1) * vs
      dv, dd = dev(top, 0 * top)
      full_v = rng.standard_normal(coords.modal_shape) * mask * (ls > 0) * vs
      full_d = rng.standard_normal(coords.modal_shape) * mask * (ls > 0) * vs * 0.1
      fv, fd = dev(full_v, full_d)
      clip_v, clip_d = full_v * (ls < L - 1), full_d * (ls < L - 1)
      cv, cd = dev(clip_v, clip_d)
      notes[gname] = dict(
          L=int(L), kv_level=float(kv.ravel()[k]),
          top_only_vorticity=dict(
              vorticity_dev={f'l=L-{j}': dv[L - j] for j in (1, 2, 3, 4, 5) if L - j >= 0},
              divergence_dev={f'l=L-{j}': dd[L - j] for j in (1, 2, 3, 4, 5) if L - j >= 0}),
          full_random_state=dict(max_dev_at_top=max(fv[L - 1], fd[L - 1]),
                                 max_dev_below_top=max(max(fv[:L - 1]), max(fd[:L - 1]))),
          same_state_clipped=dict(max_dev=max(max(cv), max(cd))))
      ctx.expect(dv[L - 1] > 0.5 and dv[L - 3] > 1e-3 and dd[L - 2] > 1e-3, 'control:unclipped-drag',
                 'negative control: for a state with vorticity at the spare top wavenumber l = L-1 the drag was expected '
                 f'to deviate from -kv (zeta, delta): deviation {dv[L - 1]:.3g} at L-1, {dv[L - 3]:.3g} at L-3, '
                 f'divergence leak {dd[L - 2]:.3g} at L-2 (relative to max |kv zeta|)', inp)
      ctx.expect(max(max(cv), max(cd)) <= 1e-9, 'drag-clipped-control-state',
                 f'the same random state with l = L-1 clipped does not satisfy drag = -kv (zeta, delta): '
                 f'relative deviation {max(max(cv), max(cd)):.3g}', dict(inp, state='full random state, l = L-1 clipped'))
      ctx.dist['control-unclipped'] += 1
  return notes


def probes_radiation(ctx, rad, specs, sh, cs, sc, jnp, units, grid_names, eot):
  rng = ctx.rng
  nprobe = ctx.n(60, 1000)
  for pi in range(nprobe):
    o, s = _phase(rng, pi), _phase(rng, 99 if pi >= 7 else 6 - pi)
    mean, var, _ = _mean_var(rng, pi, rad, specs)
    directed = {6: (np.pi, 0), 7: (np.pi, 1), 12: (0.0, 0), 13: (0.0, 1)}.get(pi)
    if directed is not None:
      # aphelion / perihelion with the module's own constants (SI and non-dimensional): the extremes of the
      # irradiance, where `variation <= mean` is needed for non-negativity
      o = float(rad.PERIHELION) + directed[0]
      mean, var, _ = _mean_var(rng, directed[1], rad, specs)
    n = 64
    lon = rng.uniform(0, TWO_PI, n)
    lat = np.arcsin(rng.uniform(-1, 1, n))
    lat[:2] = [np.pi / 2, -np.pi / 2]
    inp = dict(orbital_phase=o, synodic_phase=s, mean=mean, variation=var, lon=lon.tolist(), lat=lat.tolist())
    ctx.case(('probe-rad', o, s, mean, var, lon.tobytes()), nontrivial=True)
    with ctx.impl('radiation-probe-exception', inp):
      ot = rad.OrbitalTime(orbital_phase=o, synodic_phase=s)
      flux = np.asarray(rad.get_radiation_flux(ot, lon, lat, mean, var))
      sa = np.asarray(rad.get_solar_sin_altitude(o, s, lon, lat))
      top = mean + var
      ctx.expect(np.isfinite(flux).all() and (flux >= 0).all(), 'flux-nonnegative',
                 f'get_radiation_flux negative or non-finite: min={flux.min()}', inp)
      ctx.expect((flux <= top * (1 + 1e-12)).all(), 'flux-upper-bound',
                 f'get_radiation_flux exceeds mean+variation: max={flux.max()} > {top}', inp)
      ctx.expect((np.abs(sa) <= 1 + 1e-12).all(), 'sin-altitude-bound',
                 f'|sin altitude| > 1: {np.abs(sa).max()}', inp)
      irr = np.asarray(rad.get_direct_solar_irradiance(o, mean, var))
      ctx.expect(mean - var - 1e-12 * top <= irr <= top * (1 + 1e-12), 'irradiance-bounds',
                 f'irradiance {irr} outside [{mean - var}, {top}]', inp)
      # exact zeros below the horizon, positive above — against an independent vector oracle
      decl = float(rad.get_declination(o))
      sub_lon = np.pi - s - float(rad.equation_of_time(o))       # subsolar longitude
      sun = np.array([np.cos(decl) * np.cos(sub_lon), np.cos(decl) * np.sin(sub_lon), np.sin(decl)])
      up = np.stack([np.cos(lat) * np.cos(lon), np.cos(lat) * np.sin(lon), np.sin(lat)])
      oracle = sun @ up
      ctx.expect(np.abs(oracle - sa).max() < 1e-9, 'sin-altitude-oracle',
                 f'sin altitude differs from sun·zenith by {np.abs(oracle - sa).max()}', inp)
      night = oracle < -1e-9
      day = oracle > 1e-9
      ctx.expect((flux[night] == 0).all(), 'night-zero',
                 f'non-zero flux below the horizon: {flux[night].max() if night.any() else 0}', inp)
      ctx.expect((flux[sa <= 0] == 0).all(), 'night-zero', 'non-zero flux where sin altitude <= 0', inp)
      if mean > var:
        ctx.expect((flux[day] > 0).all(), 'day-positive', 'zero flux above the horizon', inp)
      ctx.expect(np.abs(flux - irr * np.maximum(0, oracle)).max() <= 1e-9 * max(top, 1e-300), 'flux-oracle',
                 'flux != irradiance * max(0, sun·zenith)', inp)
      if top > 0:
        nf = np.asarray(rad.get_normalized_radiation_flux(ot, lon, lat, mean, var))
        ctx.expect((nf >= 0).all() and (nf <= 1 + 1e-12).all(), 'normalized-range',
                   f'normalised flux outside [0,1]: [{nf.min()}, {nf.max()}]', inp)
        ctx.expect(np.abs(nf * top - flux).max() <= 1e-9 * top, 'normalized-scale',
                   'normalised flux != flux / (mean+variation)', inp)
      # periodicity in both phases and in longitude
      k, m, j = (int(v) for v in rng.integers(-3, 4, 3))
      if pi % 3 == 0:
        m = j = 0
        k = k or 1
      elif pi % 3 == 1:
        k = j = 0
        m = m or -1
      ot2 = rad.OrbitalTime(orbital_phase=o + k * TWO_PI, synodic_phase=s + m * TWO_PI)
      flux2 = np.asarray(rad.get_radiation_flux(ot2, lon + j * TWO_PI, lat, mean, var))
      ctx.expect(np.abs(flux2 - flux).max() <= 1e-9 * max(top, 1e-300),
                 'periodicity-orbital' if pi % 3 == 0 else 'periodicity-synodic' if pi % 3 == 1 else 'periodicity',
                 f'flux changes by {np.abs(flux2 - flux).max()} under shifts (orbital {k}, synodic {m}, lon {j})·2π',
                 dict(inp, shifts=[k, m, j]))

  # SolarRadiation on grids: bounds, wrap, global mean
  # grids whose first longitude node is not at zero (Grid.longitude_offset: pi/7, half a cell, negative) included:
  # node (i, j) of the flux sits at grid.longitudes[i], grid.latitudes[j]
  ngrid = ctx.n(8, 48)
  gm_grids = ['T21', 'T21@pi/7', 'T31', 'T21@halfcell', 'T42', 'T21@-0.4', 'T21', 'T21@pi/7']
  for gi in range(ngrid):
    gname = gm_grids[gi % len(gm_grids)] if (ctx.quick is False or gi % 8 != 2) else 'T21@-0.4'
    ref = datetime.datetime(int(rng.integers(1975, 2025)), 1, 1) + datetime.timedelta(
        minutes=int(rng.integers(0, 365 * 1440)))
    days = float(rng.uniform(0, 1400)) if gi else 0.0
    normalized = gi % 2 == 1
    inp = dict(grid=gname, reference_datetime=str(ref), days=days, normalized=normalized)
    ctx.case(('probe-grid', gname, str(ref), days), nontrivial=True)
    with ctx.impl('solar-radiation-probe-exception', inp):
      grid = _grid(sh, gname)
      inp['longitude_offset'] = float(grid.longitude_offset)
      ctx.dist[f'probe-grid:longitude-offset={"zero" if grid.longitude_offset == 0 else "nonzero"}'] += 1
      coords = cs.CoordinateSystem(grid, sc.SigmaCoordinates.equidistant(2))
      srad = (rad.SolarRadiation.normalized if normalized else rad.SolarRadiation)(coords, specs, ref)
      time = float(specs.nondimensionalize(days * units.day))
      flux = np.asarray(srad.radiation_flux(time))
      mean, var = float(srad.total_solar_irradiance), float(srad.solar_irradiance_variation)
      top = mean + var
      ctx.expect(flux.shape == grid.nodal_shape and np.isfinite(flux).all() and (flux >= 0).all(),
                 'flux-nonnegative', f'SolarRadiation.radiation_flux negative/non-finite: min={flux.min()}', inp)
      ctx.expect((flux <= top * (1 + 1e-12)).all(), 'flux-upper-bound',
                 f'SolarRadiation.radiation_flux exceeds the perihelion constant: {flux.max()} > {top}', inp)
      if normalized:
        ctx.expect(abs(top - 1) < 1e-12, 'normalized-range', f'normalised scale {top} != 1', inp)
      now = srad.time_to_orbital_time(time)
      wo, ws = float(now.orbital_phase), float(now.synodic_phase)
      ctx.expect(-1e-9 <= wo < TWO_PI + 1e-9 and -1e-9 <= ws < TWO_PI + 1e-9, 'wrap-range',
                 f'wrapped phases outside [0, 2π): {wo}, {ws}', inp)
      # the wrap is invisible: flux at the unwrapped phases is the same
      uo = float(srad.reference_orbital_time.orbital_phase) + float(srad.orbital_rate.orbital_phase) * time
      us = float(srad.reference_orbital_time.synodic_phase) + float(srad.orbital_rate.synodic_phase) * time
      for w, u, nm in ((wo, uo, 'orbital'), (ws, us, 'synodic')):
        r = (u - w) / TWO_PI
        ctx.expect(abs(r - round(r)) < 1e-9, 'wrap-integer-periods',
                   f'{nm} phase wrap removed {r} periods (not an integer)', inp)
      glon, glat = own_nodes(grid)                # the grid's own node positions (longitude_offset included)
      flux_u = np.asarray(rad.get_radiation_flux(rad.OrbitalTime(orbital_phase=uo, synodic_phase=us),
                                                 glon, glat, mean, var))
      ctx.expect(np.abs(flux_u - flux).max() <= 1e-8 * top, 'wrap-invisible',
                 f'flux at wrapped and unwrapped phases differ by {np.abs(flux_u - flux).max()}', inp)
      # the sun's position at the grid's own nodes, independent of radiation.py: flux = S * max(0, sun . zenith),
      # exactly zero on the night side, positive on the day side
      sun = sun_vector_oracle(wo, ws, eot)
      zen = np.stack([np.cos(glat) * np.cos(glon), np.cos(glat) * np.sin(glon), np.sin(glat)])
      sin_alt = np.tensordot(sun, zen, axes=1)
      night, day = sin_alt < -1e-9, sin_alt > 1e-9
      s_now = mean + var * np.cos(wo - 3 * TWO_PI / 365.25)
      ctx.expect(flux.shape == sin_alt.shape and bool((flux[night] == 0).all()), 'grid-night-zero',
                 'SolarRadiation.radiation_flux is non-zero at grid nodes where the sun is below the horizon: up to '
                 f'{(flux[night].max() if night.any() else 0) / top:.3e} of the perihelion constant', inp)
      ctx.expect(flux.shape == sin_alt.shape and bool((flux[day] > 0).all()), 'grid-day-positive',
                 'SolarRadiation.radiation_flux is zero at grid nodes where the sun is above the horizon', inp)
      err = float(np.abs(flux - s_now * np.maximum(0, sin_alt)).max()) if flux.shape == sin_alt.shape else np.inf
      ctx.expect(err <= 1e-9 * top, 'grid-flux-oracle',
                 'SolarRadiation.radiation_flux != irradiance * max(0, sin altitude) at the longitudes / latitudes of '
                 f'the grid nodes (Grid.longitudes, Grid.latitudes): error {err / top:.3e} of the perihelion constant',
                 inp)
      ctx.expect(bool(night.any() and day.any()), 'grid-oracle-nontrivial', 'oracle has no day or no night side', inp)
      # global mean = S(orbital phase)/4 up to quadrature error (test only, generous tolerance)
      irr = float(rad.get_direct_solar_irradiance(wo, mean, var))
      gmean = float(grid.integrate(jnp.asarray(flux))) / (4 * np.pi * grid.radius**2)
      ratio = gmean / (irr / 4)
      ctx.dist['global-mean:|ratio-1|<1e-3'] += int(abs(ratio - 1) < 1e-3)
      ctx.expect(abs(ratio - 1) < 5e-3, 'global-mean',
                 f'global mean / (S/4) = {ratio} on {gname}', inp)


def probes_held_suarez(ctx, hs, pe, specs, sh, cs, sc, jnp, units):
  rng = ctx.rng
  nprobe = ctx.n(8, 60)
  for pi in range(nprobe):
    forced = {0: (1, 'equidistant'), 1: (3, 'strongly-uneven'), 2: (8, 'equidistant')}.get(pi)
    b, kind = dinoutil.random_boundaries(rng, *(forced or (None, None)))
    nlev = len(b) - 1
    gname = ['g16x8', 'g12x6-offset', 'T21'][pi % 3]
    if pi % 2 == 0:
      kw = {}
    else:
      ka_days, ks_days = float(rng.uniform(10, 80)), float(rng.uniform(1, 8))
      if pi % 4 == 3:
        ka_days, ks_days = ks_days, ka_days
      kw = dict(p0=float(rng.uniform(0.8e5, 1.1e5)) * units.pascal, sigma_b=float(rng.uniform(0.15, 0.95)),
                kf=1 / (float(rng.uniform(0.3, 3)) * units.day), ka=1 / (ka_days * units.day),
                ks=1 / (ks_days * units.day), minT=float(rng.uniform(150, 250)) * units.degK,
                maxT=float(rng.uniform(280, 330)) * units.degK, dTy=float(rng.uniform(0, 80)) * units.degK,
                dThz=float(rng.uniform(0, 20)) * units.degK)
    tref = rng.uniform(200, 300, nlev)
    inp = dict(boundaries=b.tolist(), grid=gname, params={k: str(v) for k, v in kw.items()},
               reference_temperature=tref.tolist())
    ctx.case(('probe-hs', b.tobytes(), gname, repr(sorted(inp['params'].items()))), nontrivial=nlev >= 2)
    with ctx.impl('held-suarez-probe-exception', inp):
      grid = _grid(sh, gname)
      coords = cs.CoordinateSystem(grid, sc.SigmaCoordinates(b))
      h = hs.HeldSuarezForcing(coords, specs, tref, **kw)
      # side condition of the division by cos_lat**2 (nodalVelocityTendency_eq / drag_eq_neg_kv_smul), in the form
      # of cosLat_ne_zero_of_poleFree: no pole node (|sin_lat| < 1), cos_lat**2 = 1 - sin_lat**2, cos_lat != 0
      cl_, sl_ = np.asarray(grid.cos_lat, dtype=float), np.asarray(grid.nodal_axes[1], dtype=float)
      ctx.expect(bool((np.abs(sl_) < 1).all() and (cl_ != 0).all()
                      and np.abs(cl_**2 - (1 - sl_**2)).max() <= 4 * np.finfo(float).eps),
                 'hyp-pole-free', 'the latitude nodes of a probe grid include a pole (cos_lat = 0) or cos_lat**2 != '
                 f'1 - sin_lat**2: min cos_lat = {cl_.min()}', inp)
      ctx.dist['hyp-pole-free-validated'] += 1
      sig, sb = np.asarray(h.sigma), float(h.sigma_b)
      kv = np.asarray(h.kv())
      kt = np.asarray(h.kt())
      ctx.expect(kv.shape == (nlev, 1, 1) and (kv >= 0).all(), 'kv-nonnegative', f'kv negative: {kv.ravel()}', inp)
      ctx.expect((kv.ravel()[sig <= sb] == 0).all(), 'kv-zero-above-boundary-layer',
                 f'kv non-zero above sigma_b={sb}: {kv.ravel()} at sigma={sig}', inp)
      below = sig > sb
      ctx.expect(np.abs(kv.ravel()[below] - float(h.kf) * (sig[below] - sb) / (1 - sb)).max(initial=0)
                 <= 1e-12 * float(h.kf), 'kv-ramp', 'kv is not kf*(sigma-sigma_b)/(1-sigma_b) in the boundary layer',
                 inp)
      lo, hi = min(float(h.ka), float(h.ks)), max(float(h.ka), float(h.ks))
      ctx.expect((kt >= 0).all() and (kt >= lo * (1 - 1e-12)).all() and (kt <= hi * (1 + 1e-12)).all(),
                 'kt-convex', f'kt outside [min(ka,ks), max(ka,ks)] = [{lo},{hi}]: [{kt.min()},{kt.max()}]', inp)
      ctx.expect(np.abs(kt[sig <= sb] - float(h.ka)).max(initial=0) == 0, 'kt-free-atmosphere',
                 'kt != ka above the boundary layer', inp)
      # states
      ls = np.asarray(grid.modal_axes[1])
      L = grid.total_wavenumbers
      mask = np.asarray(grid.mask)
      vscale = 1e-5 * float(specs.nondimensionalize(1 / units.second))
      # admissible states: the spare top total wavenumber (last column) is clipped; every second case also has the
      # next one empty. Energy at the highest retained wavenumber l = L-2 matters: its wind lives at l = L-1, which
      # compute_diagnostic_state keeps (clip=False) - measured 1.6e-13 on the unchanged tree
      cut = 1 + (pi % 2)
      vor = rng.standard_normal(coords.modal_shape) * mask * (ls < L - cut) * (ls > 0) * vscale
      div = rng.standard_normal(coords.modal_shape) * mask * (ls < L - cut) * (ls > 0) * vscale * 0.1
      tvar = rng.standard_normal(coords.modal_shape) * mask * (ls < L - 1) * 3.0
      amp = [0.05, 0.3][pi % 2]
      lspn = np.log(float(h.p0) * np.exp(amp * np.tanh(rng.standard_normal(grid.nodal_shape))))
      lsp = np.asarray(grid.to_modal(jnp.asarray(lspn)))[np.newaxis]
      state = pe.State(vorticity=jnp.asarray(vor), divergence=jnp.asarray(div),
                       temperature_variation=jnp.asarray(tvar), log_surface_pressure=jnp.asarray(lsp))
      out = h.explicit_terms(state)
      ov, od = np.asarray(out.vorticity), np.asarray(out.divergence)
      scale = max(np.abs(kv * vor).max(), np.abs(kv * div).max(), 1e-300)
      ctx.expect(np.abs(ov + kv * vor).max() <= 1e-9 * scale + 1e-9 * np.abs(kv).max() * np.abs(vor).max(),
                 'drag-vorticity', f'vorticity tendency != -kv*vorticity (err {np.abs(ov + kv * vor).max()}, '
                 f'scale {scale})', inp)
      ctx.expect(np.abs(od + kv * div).max() <= 1e-9 * scale + 1e-9 * np.abs(kv).max() * np.abs(vor).max(),
                 'drag-divergence', f'divergence tendency != -kv*divergence (err {np.abs(od + kv * div).max()}, '
                 f'scale {scale})', inp)
      free = sig <= sb
      ctx.expect((ov[free] == 0).all() and (od[free] == 0).all(), 'drag-zero-above-boundary-layer',
                 'non-zero drag above the boundary layer', inp)
      # dissipation: <zeta, zeta_dot> <= 0 level by level
      diss = (ov * vor).sum(axis=(1, 2)) + (od * div).sum(axis=(1, 2))
      ctx.expect((diss <= 1e-12 * scale * np.abs(vor).max()).all(), 'drag-dissipative',
                 f'drag increases enstrophy/divergence norm on some level: {diss}', inp)
      olsp = np.asarray(out.log_surface_pressure)
      ctx.expect(olsp.shape == lsp.shape and (olsp == 0).all(), 'no-surface-pressure-tendency',
                 'log surface pressure tendency is not identically zero', inp)
      # equilibrium temperature: floor, and the Held-Suarez (1994) formula as an independent oracle
      psn = np.exp(np.asarray(grid.to_nodal(jnp.asarray(lsp)))[0])
      teq = np.asarray(h.equilibrium_temperature(jnp.asarray(psn)))
      ctx.expect(teq.shape == (nlev,) + grid.nodal_shape and (teq >= float(h.minT)).all(), 'teq-floor',
                 f'equilibrium temperature below its floor: {teq.min()} < {h.minT}', inp)
      lat = np.asarray(h.lat)
      pp = sig[:, None, None] * psn[None] / float(h.p0)
      hs94 = np.maximum(float(h.minT), (float(h.maxT) - float(h.dTy) * np.sin(lat)**2
                                       - float(h.dThz) * np.log(pp) * np.cos(lat)**2) * pp**float(specs.kappa))
      ctx.expect(np.abs(teq - hs94).max() <= 1e-9 * np.abs(hs94).max(), 'teq-oracle',
                 'equilibrium temperature differs from the Held-Suarez 1994 formula', inp)
      # relaxation: T_dot = to_modal(-kt (T - Teq))
      tn = tref[:, None, None] + np.asarray(grid.to_nodal(jnp.asarray(tvar)))
      expect_t = np.asarray(grid.to_modal(jnp.asarray(-kt * (tn - hs94))))
      ot = np.asarray(out.temperature_variation)
      ctx.expect(np.abs(ot - expect_t).max() <= 1e-9 * max(np.abs(expect_t).max(), 1e-300), 'relaxation',
                 f'temperature tendency != to_modal(-kt (T - Teq)): err {np.abs(ot - expect_t).max()}', inp)
      # extreme surface pressures: the floor still holds and nothing is NaN
      ps_ext = float(h.p0) * np.exp(rng.uniform(-3, 1, grid.nodal_shape))
      teq2 = np.asarray(h.equilibrium_temperature(jnp.asarray(ps_ext)))
      ctx.expect(np.isfinite(teq2).all() and (teq2 >= float(h.minT)).all(), 'teq-floor',
                 f'equilibrium temperature below floor / non-finite at extreme pressure: {teq2.min()}', inp)
      # hypotheses of T20.4 on the real transforms: homogeneity and the wind round trip
      a = float(rng.uniform(-2, 2))
      x = rng.standard_normal((nlev,) + grid.nodal_shape)
      y = rng.standard_normal((nlev,) + grid.nodal_shape)
      mx, my = np.asarray(grid.to_modal(jnp.asarray(x))), np.asarray(grid.to_modal(jnp.asarray(y)))
      ctx.expect(dinoutil.relerr(grid.to_modal(jnp.asarray(a * x)), a * mx) < 1e-10 or a == 0,
                 'hyp-to-modal-homogeneous', 'to_modal(a x) != a to_modal(x)', dict(inp, a=a))
      ctx.expect(np.abs(np.asarray(grid.curl_cos_lat((jnp.asarray(a * mx), jnp.asarray(a * my))))
                        - a * np.asarray(grid.curl_cos_lat((jnp.asarray(mx), jnp.asarray(my))))).max()
                 <= 1e-10 * np.abs(np.asarray(grid.curl_cos_lat((jnp.asarray(mx), jnp.asarray(my))))).max(),
                 'hyp-curl-homogeneous', 'curl_cos_lat(a v) != a curl_cos_lat(v)', dict(inp, a=a))
      ctx.expect(np.abs(np.asarray(grid.div_cos_lat((jnp.asarray(a * mx), jnp.asarray(a * my))))
                        - a * np.asarray(grid.div_cos_lat((jnp.asarray(mx), jnp.asarray(my))))).max()
                 <= 1e-10 * np.abs(np.asarray(grid.div_cos_lat((jnp.asarray(mx), jnp.asarray(my))))).max(),
                 'hyp-div-homogeneous', 'div_cos_lat(a v) != a div_cos_lat(v)', dict(inp, a=a))
      aux = pe.compute_diagnostic_state(state=state, coords=coords)
      sec2 = 1 / np.asarray(grid.cos_lat)**2
      vel = tuple(grid.to_modal(jnp.asarray(np.asarray(c) * sec2)) for c in aux.cos_lat_u)
      zs = max(np.abs(vor).max(), 1e-300)
      ctx.expect(np.abs(np.asarray(grid.curl_cos_lat(vel)) - vor).max() <= 1e-9 * zs and
                 np.abs(np.asarray(grid.div_cos_lat(vel)) - div).max() <= 1e-9 * zs,
                 'hyp-wind-roundtrip', '(zeta, delta) -> wind -> (zeta, delta) is not the identity on a state '
                 'whose top total wavenumber is clipped', dict(inp, emptied_top_wavenumbers=cut))
