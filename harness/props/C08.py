"""C08 — forward- and reverse-mode derivatives are finite, mutually adjoint and correct; checkpointing and scan
nesting do not change gradients.

PARTIAL BY DESIGN (DESIGN.md section 6 C08, section 8): JAX's differentiation rules are executed, not modelled.

Lean: DinoProofs/Properties/C08.lean (+ Lemmas/AD.lean) over the model Dino/AD.lean: dual numbers `Dual K` with the
core arithmetic classes, so that the EXISTING generic model functions (Dino.Interp, Dino.Filters, Dino.Sigma,
Dino.Implicit, Dino.Forcing, the column physics of Dino.Dynamics) are run at `Dual K`: forward mode by evaluation.

Tie (correspondence, driver namespace `ad`): `jax.jvp` of the real functions against the dual-number Float model:
  vertical_interpolation.interp / _dot_interp / linear_interp_with_linear_extrap / _linear_interp_with_safe_extrap
  (with respect to the data and to the query), exponential_filter (state and attenuation), horizontal_diffusion_filter
  (state and scale), Robert-Asselin, the sigma column routines (cumulative integrals, centred difference, centred /
  upwind advection, geopotential), get_temperature_implicit (dense / sparse), PrimitiveEquations._t_omega_over_sigma_sp,
  nodal_temperature_adiabatic_tendency (dry and moist), the two pointwise kernels of the moist tendency (`ad kernel
  var|hum`) against the temperature field that the REAL MoistPrimitiveEquations.nodal_temperature_adiabatic_tendency
  hands to `_t_omega_over_sigma_sp` (observed by a recording subclass; Lean: C08.moistAdiabatic_eq_kernels ties the
  kernels to the Dynamics model), HeldSuarezForcing.equilibrium_temperature; and the model's
  jvpChain / vjpChain (T8.1) on the Jacobians (jax.jacfwd) of two real column routines against jax.jvp / jax.vjp of
  their composition.

Probes on the REAL code (tests, labelled as such in the evidence): for every entry point f, state x, tangent v and
cotangent w: jax.jvp and jax.vjp finite, <J v, w> = <v, J^T w>, finite difference of f along v = J v (Richardson
extrapolated central difference for the smooth entry points, a small-step central difference with kink exclusion for
the piecewise-smooth ones); entry points: Grid.to_modal/to_nodal (and vjp(to_nodal)(w z) = to_modal(z)),
explicit_terms / implicit_terms / implicit_inverse of the dry, moist, cloud and shallow-water classes (also at the
state of rest), the two spectral filters, vertical regridding sigma <-> pressure, hybrid -> sigma (interpolating and
conservative), get_surface_pressure (fields and surface pressure), the semi-Lagrangian vertical advection step,
Held-Suarez forcing, complete 1-3 step functions (classes x integrators x filter stacks); value, gradient and jvp of
nested_checkpoint_scan against a flat lax.scan for several factorisations (a pytree recurrence and a real filtered
shallow-water step as body), and of a two-step loss with / without jax.checkpoint.
"""
import math

import numpy as np

import common
from common import fbits, fvec, unfbits
import dinoutil

CORR_RTOL = 1e-9
PAIR_TOL = 1e-12       # |<Jv,w> - <v,J^T w>| relative to sum |Jv_i w_i| + sum |v_i (J^T w)_i|   (measured <= 6e-17)
# smooth entry points: Richardson-extrapolated central difference (4 D(h) - D(2h)) / 3, h = 1e-3 of the state scale
# (truncation O(h^4), rounding eps |f| / h); measured: error <= 5e-11 max|Jv| and <= 3e-12 max|f| on every probe
FD_STEP = 1e-3
FD_RTOL = 1e-8         # |FD - Jv| relative to max|Jv| of the leaf ...
FD_FLOOR = 1e-10       # ... plus this times max|f| of the leaf
# piecewise-smooth entry points (interpolation, maximum): plain central difference with a small step, so that a
# perturbation hardly ever straddles a kink; entries whose one-sided quotients disagree are not compared
FD_STEP_K = 1e-5       # measured: error <= 3e-10 max|Jv|, <= 5e-10 max|f|
FD_RTOL_K = 2e-6
FD_FLOOR_K = 1e-8
GRAD_TOL = 1e-11       # nested vs flat scan, checkpoint vs none: relative (measured <= 4e-16)
# piecewise-smooth entry points: an entry whose one-sided difference quotients disagree is classed as sitting on a kink
# and is not compared with jax.jvp.  Ceiling on the share of such entries over a run (all piecewise-smooth probes
# together), so that the exclusion cannot silently swallow the comparison; measured: 0 of ~4300 entries (quick, seeds 0-2)
KINK_CEILING = 0.02
RULE = ('correspondence: node sets of 1..8 nodes (uniform, uneven, strongly uneven), queries below / at / between / '
        'beyond the nodes, random data and tangents; 1..8 sigma layers equidistant / uneven / strongly uneven; grids '
        'with_wavenumbers(4..8), both spherical-harmonics implementations; probes: grids M=5..10, 2-4 uneven layers, '
        'random orography, random physical constants, dry / moist / cloud / shallow-water x integrators x filters by '
        'rotation over the seed; a case is non-trivial when the tangent is non-zero and the operator is not the '
        'identity; distinct = distinct (operation, configuration, input) hashes')
NOTE = ('C08 is partial: correctness of JAX\'s JVP/VJP/transpose/checkpoint rules is trusted and executed, not '
        'modelled; the finite-difference, adjointness, finiteness and scan-gradient checks are tests on the real code; '
        'the theorems are about the dual-number model Dino.AD run on the models of C03/C13/C15/C17/C20/C04; '
        'jax.checkpoint is MODELLED as the identity (assumption, not a theorem; under it nested = flat is C14); '
        'derivatives with respect to the interpolation NODES (interp_hybrid_to_sigma, get_surface_pressure, '
        'semi-Lagrangian advection) and of _dot_interp have no theorem: correspondence and probes only; ties '
        'of jnp.maximum / query exactly at a node of _dot_interp are excluded from the correspondence (JAX averages '
        'the two one-sided derivatives there)')

# indexed names that are closure / helper lemmas (one-line wrappers of Mathlib lemmas or of definitions): audited for
# axioms and statement-pinned like every indexed name, but labelled `helper-lemma` in the evidence, not `theorem`
HELPER_LEMMAS = frozenset('Dino.C08.' + n for n in (
    'Tracks.const Tracks.var Tracks.line Tracks.add Tracks.sub Tracks.neg Tracks.mul Tracks.smul Tracks.powN Tracks.sin '
    'Tracks.cos Tracks.exp equilibriumTemperature_eq powN_v smoothTemperature_v maxK_v variationKernel_v humidityKernel_v '
    'tOmega_eq checkpoint_id interp_data_weights interp_guard_ne_zero col_mul_dual innerNestedScanCk_eq '
    'nested_derivative_eq_flat implicitTerms_dual_of').split()) | {'Dino.AD.cellSlope_padN', 'Dino.AD.coreSlope_padN'}

Q_KEY = 'specific_humidity'
QL_KEY = 'specific_cloud_liquid_water_content'
QI_KEY = 'specific_cloud_ice_water_content'


# --------------------------------------------------------------------------
# encoding of dual numbers for the line protocol


def dvec(x, dx):
  x, dx = np.asarray(x, dtype=float).ravel(), np.asarray(dx, dtype=float).ravel()
  return ','.join(f'{fbits(a)}:{fbits(b)}' for a, b in zip(x, dx)) if x.size else '_'


def undvec(s):
  """'v:d,v:d' (or 'nan') -> (values, tangents)"""
  if s == '_':
    return np.zeros(0), np.zeros(0)
  vs, ds = [], []
  for t in s.split(','):
    if t == 'nan':
      vs.append(np.nan)     # `left=nan` / `right=nan` of jnp.interp: a constant, so the tangent is 0
      ds.append(0.0)
    else:
      a, b = t.split(':')
      vs.append(unfbits(a))
      ds.append(unfbits(b))
  return np.asarray(vs), np.asarray(ds)


class _Env:
  def __init__(self):
    self.jax = common.setup_jax()
    import jax.numpy as jnp
    from dinosaur import (coordinate_systems, filtering, held_suarez, primitive_equations, scales, shallow_water,
                          sigma_coordinates, spherical_harmonic, time_integration, vertical_interpolation)
    self.jnp, self.pe, self.sh, self.sc, self.cs, self.scales = (
        jnp, primitive_equations, spherical_harmonic, sigma_coordinates, coordinate_systems, scales)
    self.ti, self.sw, self.flt, self.vi, self.hs = (time_integration, shallow_water, filtering,
                                                    vertical_interpolation, held_suarez)
    pe, ti = primitive_equations, time_integration
    self.CL = dict(dry=pe.PrimitiveEquations, time=pe.PrimitiveEquationsWithTime, moist=pe.MoistPrimitiveEquations,
                   cloud=pe.MoistPrimitiveEquationsWithCloudMoisture)
    self.INT = dict(bfe=ti.backward_forward_euler, cnrk2=ti.crank_nicolson_rk2, rk3=ti.crank_nicolson_rk3,
                    rk4=ti.crank_nicolson_rk4, sil3=ti.imex_rk_sil3)
    self._grids = {}

  def grid(self, M, impl='real', radius=1.0):
    key = (M, impl, float(radius))
    if key not in self._grids:
      cls = self.sh.RealSphericalHarmonics if impl == 'real' else self.sh.FastSphericalHarmonics
      if impl == 'fast-padded':
        # a padded modal / nodal layout (what model-parallel runs use): zero-padded tables are where a derivative rule
        # can go non-finite (0 * inf) although every primal value is right
        import functools
        cls = functools.partial(self.sh.FastSphericalHarmonics, base_shape_multiple=4)
      self._grids[key] = self.sh.Grid.with_wavenumbers(M, spherical_harmonics_impl=cls, radius=radius)
    return self._grids[key]

  def specs(self, rng, radius=1.0):
    R = float(rng.uniform(0.5, 3.0)) * 1e-3
    return self.pe.PrimitiveEquationsSpecs(
        radius=float(radius), angular_velocity=float(rng.uniform(0.3, 1.0)),
        gravity_acceleration=float(rng.uniform(20.0, 80.0)), ideal_gas_constant=R,
        water_vapor_gas_constant=R * float(rng.uniform(1.2, 2.0)),
        water_vapor_isobaric_heat_capacity=R * float(rng.uniform(3.0, 9.0)),
        kappa=float(rng.choice([2 / 7, rng.uniform(0.2, 0.4)])), scale=self.scales.DEFAULT_SCALE)


def _keep(grid):
  keep = np.array(grid.mask, dtype=bool)
  keep[:, -(1 + grid.modal_padding[-1]):] = False
  return keep


def random_nodes(rng, n=None):
  if n is None:
    n = int(rng.choice([1, 2, 3, 4, 5, 8]))
  kind = str(rng.choice(['uniform', 'uneven', 'strongly-uneven']))
  if kind == 'uniform':
    d = np.ones(n)
  elif kind == 'uneven':
    d = rng.uniform(0.5, 1.5, n)
  else:
    d = np.exp(rng.uniform(-3, 3, n))
  x0 = float(rng.uniform(-2, 2))
  return x0 + np.concatenate([[0.0], np.cumsum(d)[:-1]]) if n > 1 else np.array([x0]), kind


def random_queries(rng, xp, with_nodes):
  """queries strictly between the nodes, beyond both ends, and (optionally) exactly at nodes"""
  qs = [xp[0] - float(rng.uniform(0.1, 2)), xp[-1] + float(rng.uniform(0.1, 2))]
  for a, b in zip(xp[:-1], xp[1:]):
    qs.append(a + (b - a) * float(rng.uniform(0.05, 0.95)))
  if with_nodes:
    qs += [float(v) for v in xp]
  return np.asarray(qs, dtype=float)


# --------------------------------------------------------------------------
# (a) correspondence: jax.jvp of the real functions vs the dual-number Float model


def _corr(ctx, E):
  rng, jax, jnp, vi, pe, sc = ctx.rng, E.jax, E.jnp, E.vi, E.pe, E.sc
  lines, checks = [], []

  def add(line, op, inp, val, tan, key=None, nontrivial=True):
    """`val`, `tan`: primal result and jvp of the implementation (flattened)"""
    lines.append('ad F ' + line)
    checks.append((op, inp, np.asarray(val, dtype=float).ravel(), np.asarray(tan, dtype=float).ravel()))
    ctx.case((op, key if key is not None else line), nontrivial=nontrivial)
    ctx.dist['corr:' + op.split('[')[0]] += 1

  # ---- interpolation ----
  fns = dict(interp=vi.interp, dot=vi._dot_interp, linext=vi.linear_interp_with_linear_extrap,
             safe=lambda x, xp, fp: vi._linear_interp_with_safe_extrap(x, xp, fp, n=1))
  names = dict(interp='vertical_interpolation.interp', dot='vertical_interpolation._dot_interp',
               linext='vertical_interpolation.linear_interp_with_linear_extrap',
               safe='vertical_interpolation._linear_interp_with_safe_extrap')
  compiled = {}

  def all_jvps(n):
    """one jitted function per node count: every (op, argument) jvp on the open queries and, for the two routines
    that pick the cell by searchsorted alone, on the nodes themselves"""
    if n not in compiled:
      ops = ['interp'] + (['dot', 'linext', 'safe'] if n >= 2 else [])

      def g(xp, fp, dfp, xs, dxs, xn, dxn):
        out = {}
        for op in ops:
          f = jax.vmap(fns[op], (0, None, None))
          out[op, 'data', 'open'] = jax.jvp(lambda q: f(xs, xp, q), (fp,), (dfp,))
          out[op, 'query', 'open'] = jax.jvp(lambda q: f(q, xp, fp), (xs,), (dxs,))
          if op in ('interp', 'linext'):
            out[op, 'data', 'nodes'] = jax.jvp(lambda q: f(xn, xp, q), (fp,), (dfp,))
            out[op, 'query', 'nodes'] = jax.jvp(lambda q: f(q, xp, fp), (xn,), (dxn,))
        return out
      compiled[n] = jax.jit(g)
    return compiled[n]

  sizes = [1, 2, 3, 5] if ctx.quick else [1, 2, 3, 4, 5, 8]
  for ci in range(ctx.n(12, 140)):
    xp, kind = random_nodes(rng, {0: 1, 1: 2, 2: 3}.get(ci, int(rng.choice(sizes))))
    n = len(xp)
    fp = rng.standard_normal(n) * 10
    dfp = rng.standard_normal(n)
    ctx.dist[f'interp-nodes={n}'] += 1
    ctx.dist[f'interp-kind={kind}'] += 1
    # open queries: beyond both ends (near and far: the far ones are outside the one-cell safe extrapolation) and
    # strictly inside every cell; node queries: jnp.interp / linext pick the cell to the right by searchsorted (so
    # does the model); the `where`s of _dot_interp at the end nodes and the nan edges of `safe` are ties
    xs = random_queries(rng, xp, with_nodes=False)
    span = (xp[-1] - xp[0]) if n > 1 else 1.0
    xs = np.concatenate([xs, [xp[0] - 10 * span, xp[-1] + 10 * span]])
    dxs = rng.standard_normal(len(xs))
    xn, dxn = xp.copy(), rng.standard_normal(n)
    inp = dict(xp=xp.tolist(), fp=fp.tolist(), dfp=dfp.tolist())
    J = jnp.asarray
    with ctx.impl('corr-exception:interp', inp):
      res = all_jvps(n)(J(xp), J(fp), J(dfp), J(xs), J(dxs), J(xn), J(dxn))
      for (op, wrt, where), (v, t) in res.items():
        q, dq = (xs, dxs) if where == 'open' else (xn, dxn)
        extra = ['1'] if op == 'safe' else []
        i2 = dict(inp, op=op, wrt=wrt, x=q.tolist(), dx=dq.tolist())
        if wrt == 'data':
          line = ' '.join(['interp', op] + extra + [fvec(xp), dvec(fp, dfp), fvec(q)])
        else:
          line = ' '.join(['interp', op] + extra + [fvec(xp), fvec(fp), dvec(q, dq)])
        add(line, f'{names[op]}[{wrt}]', i2, v, t)
        ctx.dist[f'interp-queries={where}'] += 1

  # ---- filters ----
  for ci in range(ctx.n(4, 40)):
    M = int(rng.choice([4, 5, 6, 8]))
    grid = E.grid(M, str(rng.choice(['real', 'fast'])), float(rng.choice([1.0, 1.7])))
    ls = np.asarray(grid.modal_axes[1], dtype=float)
    lss = fvec(ls)
    shape = (int(rng.integers(1, 3)),) + grid.modal_shape
    x, dx = rng.standard_normal(shape), rng.standard_normal(shape)
    shs = ','.join(str(s) for s in shape)
    a, p, c = float(rng.uniform(1, 20)), int(rng.integers(1, 6)), float(rng.choice([0.0, 0.3, 0.6]))
    da = float(rng.standard_normal())
    inp = dict(grid=f'{M}', modal_shape=list(grid.modal_shape), attenuation=a, order=p, cutoff=c, seed=ctx.seed)
    J = jnp.asarray
    with ctx.impl('corr-exception:filters', inp):
      v, t = jax.jvp(lambda aa, xx: E.flt.exponential_filter(grid, aa, p, c)(xx), (J(a), J(x)), (J(da), J(dx)))
      add(f'filters expfilter {fbits(a)}:{fbits(da)} {p} {fbits(c)} {lss} {shs} {dvec(x, dx)}',
          'exponential_filter[attenuation,state]', inp, v, t, key=(ci, 'exp'))
      order = int(rng.choice([1, 2, 3]))
      eig = np.asarray(grid.laplacian_eigenvalues, dtype=float)
      scale = float(10 ** rng.uniform(-3, 0) / np.abs(eig).max() ** order)
      dscale = scale * float(rng.standard_normal())
      v, t = jax.jvp(lambda s, xx: E.flt.horizontal_diffusion_filter(grid, s, order)(xx), (J(scale), J(x)),
                     (J(dscale), J(dx)))
      add(f'filters difffilter {fbits(scale)}:{fbits(dscale)} {order} {fbits(grid.radius)} {lss} {shs} {dvec(x, dx)}',
          'horizontal_diffusion_filter[scale,state]', dict(inp, scale=scale, order=order), v, t, key=(ci, 'diff'))
      r = float(rng.uniform(0.01, 0.2))
      leaves = [rng.standard_normal(6) for _ in range(8)]
      (p0, p1, n0, n1), (d0, d1, e0, e1) = leaves[:4], leaves[4:]
      ra = E.ti.robert_asselin_leapfrog_filter(r)
      v, t = jax.jvp(lambda u, un: ra(u, un), ((J(p0), J(p1)), (J(n0), J(n1))), ((J(d0), J(d1)), (J(e0), J(e1))))
      add(f'filters ra {fbits(r)} {dvec(p0, d0)} {dvec(p1, d1)} {dvec(n0, e0)} {dvec(n1, e1)}',
          'robert_asselin_leapfrog_filter', dict(r=r), np.concatenate([np.asarray(q) for q in v]),
          np.concatenate([np.asarray(q) for q in t]), key=(ci, 'ra'))

  # ---- sigma column routines, implicit temperature operator, column physics ----
  for ci in range(ctx.n(6, 100)):
    forced = {0: (1, 'equidistant'), 1: (2, 'strongly-uneven')}.get(ci)
    b, kind = dinoutil.random_boundaries(rng, *(forced or (None, None)))
    n = len(b) - 1
    coords = sc.SigmaCoordinates(b)
    bs = fvec(b)
    ctx.dist[f'column-layers={n}'] += 1
    x, dx = rng.standard_normal(n), rng.standard_normal(n)
    inp = dict(boundaries=b.tolist(), x=x.tolist(), dx=dx.tolist())
    J = jnp.asarray
    col = lambda a: a[:, None, None]
    with ctx.impl('corr-exception:sigma', inp):
      for down in (True, False):
        v, t = jax.jvp(lambda q: sc.cumulative_sigma_integral(q, coords, axis=0, downward=down), (J(x),), (J(dx),))
        add(f'sigma cumint {bs} {dvec(x, dx)} {int(down)}', 'cumulative_sigma_integral', inp, v, t)
        lc = np.log(coords.centers)
        v, t = jax.jvp(lambda q: sc.cumulative_log_sigma_integral(q, coords, axis=0, downward=down), (J(x),),
                       (J(dx),))
        add(f'sigma logint {fvec(lc)} {dvec(x, dx)} {int(down)}', 'cumulative_log_sigma_integral', inp, v, t)
      v, t = jax.jvp(lambda q: sc.sigma_integral(q, coords, axis=0, keepdims=True), (J(x),), (J(dx),))
      add(f'sigma sigint {bs} {dvec(x, dx)}', 'sigma_integral', inp, v, t)
      R = float(rng.uniform(0.1, 5))
      alpha = pe.get_sigma_ratios(coords)
      for method in ('dense', 'sparse'):
        v, t = jax.jvp(lambda q: pe.get_geopotential_diff(q, coords, R, method=method), (J(col(x)),), (J(col(dx)),))
        add(f'sigma gdiff {method} {fbits(R)} {fvec(alpha)} {dvec(x, dx)}', f'get_geopotential_diff[{method}]',
            dict(inp, R=R), v, t)
      tref = rng.uniform(200, 300, n)
      kappa = float(rng.uniform(0.2, 0.4))
      ds = coords.layer_thickness
      for method in ('dense', 'sparse'):
        v, t = jax.jvp(lambda q: pe.get_temperature_implicit(q, coords, tref, kappa, method=method), (J(col(x)),),
                       (J(col(dx)),))
        add(f'implicit tempimp {method} {fvec(ds)} {fvec(tref)} {fvec(alpha)} {fbits(kappa)} {dvec(x, dx)}',
            f'get_temperature_implicit[{method}]', dict(inp, tref=tref.tolist(), kappa=kappa), v, t)
      if n >= 2:
        v, t = jax.jvp(lambda q: sc.centered_difference(q, coords, axis=0), (J(x),), (J(dx),))
        add(f'sigma cdiff {bs} {dvec(x, dx)}', 'centered_difference', inp, v, t)
        w, dw = rng.standard_normal(n - 1), rng.standard_normal(n - 1)
        inp2 = dict(inp, w=w.tolist(), dw=dw.tolist())
        v, t = jax.jvp(lambda ww, q: sc.centered_vertical_advection(ww, q, coords, axis=0), (J(w), J(x)),
                       (J(dw), J(dx)))
        add(f'sigma adv {bs} {dvec(w, dw)} {dvec(x, dx)}', 'centered_vertical_advection', inp2, v, t)
        v, t = jax.jvp(lambda ww, q: sc.upwind_vertical_advection(ww, q, coords, axis=0), (J(w), J(x)),
                       (J(dw), J(dx)))
        add(f'sigma upwind {bs} {dvec(w, dw)} {dvec(x, dx)}', 'upwind_vertical_advection', inp2, v, t)
    # column physics of the primitive equations (one nodal point = one column)
    grid = E.grid(4)
    specs = E.specs(rng)
    csys = E.cs.CoordinateSystem(horizontal=grid, vertical=coords)
    oro = jnp.zeros(grid.modal_shape)
    lcs = fvec(np.log(coords.centers))
    T, G, V = (rng.standard_normal(n) * s for s in (10.0, 1.0, 1.0))
    dT, dG, dV = (rng.standard_normal(n) for _ in range(3))
    q, dq = rng.uniform(0.0, 0.03, n), rng.standard_normal(n) * 1e-2
    inp = dict(boundaries=b.tolist(), tref=tref.tolist(), R=specs.R, Rv=specs.R_vapor, CpV=specs.Cp_vapor,
               kappa=specs.kappa, T=T.tolist(), G=G.tolist(), V=V.tolist(), q=q.tolist(),
               dT=dT.tolist(), dG=dG.tolist(), dV=dV.tolist(), dq=dq.tolist())
    with ctx.impl('corr-exception:column-physics', inp):
      eq = pe.PrimitiveEquations(tref, oro, csys, specs)
      v, t = jax.jvp(eq._t_omega_over_sigma_sp, (J(col(T)), J(col(G)), J(col(V))), (J(col(dT)), J(col(dG)), J(col(dV))))
      add(f'tomega {bs} {lcs} {dvec(T, dT)} {dvec(G, dG)} {dvec(V, dV)}',
          'PrimitiveEquations._t_omega_over_sigma_sp', inp, v, t)
      ph = fvec([specs.R, specs.R_vapor, specs.Cp_vapor, specs.kappa])
      z = jnp.zeros((n, 1, 1))

      def adiabatic(eqn, tracers_of):
        def f(div, temp, udg, qq):
          aux = pe.DiagnosticState(vorticity=z, divergence=div, temperature_variation=temp, cos_lat_u=(z, z),
                                   sigma_dot_explicit=z[:-1], sigma_dot_full=z[:-1], cos_lat_grad_log_sp=(z[0], z[0]),
                                   u_dot_grad_log_sp=udg, tracers=tracers_of(qq))
          return eqn.nodal_temperature_adiabatic_tendency(aux)
        return jax.jvp(f, (J(col(G)), J(col(T)), J(col(V)), J(col(q))), (J(col(dG)), J(col(dT)), J(col(dV)), J(col(dq))))

      v, t = adiabatic(eq, lambda qq: {})
      add(f'adiabatic dry {bs} {lcs} {ph} {fvec(tref)} {dvec(G, dG)} {dvec(T, dT)} {dvec(V, dV)} {dvec(q, dq)}',
          'PrimitiveEquations.nodal_temperature_adiabatic_tendency', inp, v, t)
      meq = pe.MoistPrimitiveEquations(tref, oro, csys, specs)
      v, t = adiabatic(meq, lambda qq: {Q_KEY: qq})
      add(f'adiabatic moist {bs} {lcs} {ph} {fvec(tref)} {dvec(G, dG)} {dvec(T, dT)} {dvec(V, dV)} {dvec(q, dq)}',
          'MoistPrimitiveEquations.nodal_temperature_adiabatic_tendency', inp, v, t)
      # the two pointwise kernels of T8.5 (`AD.variationKernel`, `AD.humidityKernel`; Lean: `moistAdiabatic_eq_kernels`
      # ties them to the Dynamics model) against the expressions of the REAL method: a recording subclass observes the
      # temperature field that MoistPrimitiveEquations.nodal_temperature_adiabatic_tendency hands to its second
      # `_t_omega_over_sigma_sp` call (variation_temperature_component + humidity_reference_component); with T_ref = 0
      # that is the variation kernel of (T', q), with T' = 0 it is the humidity kernel of (T_ref, q)
      rec = []

      class _Rec(pe.MoistPrimitiveEquations):
        def _t_omega_over_sigma_sp(self, temperature_field, g_term, v_dot_grad_log_sp):
          rec.append(temperature_field)
          return pe.MoistPrimitiveEquations._t_omega_over_sigma_sp(self, temperature_field, g_term, v_dot_grad_log_sp)

      def kernel_terms(tref_):
        eqn = _Rec(tref_, oro, csys, specs)

        def f(temp, qq):
          del rec[:]
          aux = pe.DiagnosticState(vorticity=z, divergence=J(col(G)), temperature_variation=temp, cos_lat_u=(z, z),
                                   sigma_dot_explicit=z[:-1], sigma_dot_full=z[:-1], cos_lat_grad_log_sp=(z[0], z[0]),
                                   u_dot_grad_log_sp=J(col(V)), tracers={Q_KEY: qq})
          eqn.nodal_temperature_adiabatic_tendency(aux)
          if len(rec) != 2:
            raise RuntimeError(f'nodal_temperature_adiabatic_tendency called _t_omega_over_sigma_sp {len(rec)} times, '
                               'expected 2 (mean-T part, variation-and-humidity part)')
          return rec[1]
        return f
      gr, hr = specs.R_vapor / specs.R, specs.Cp_vapor / specs.Cp
      kv, kt = jax.jvp(kernel_terms(np.zeros(n)), (J(col(T)), J(col(q))), (J(col(dT)), J(col(dq))))
      hv, ht = jax.jvp(kernel_terms(tref), (jnp.zeros((n, 1, 1)), J(col(q))), (jnp.zeros((n, 1, 1)), J(col(dq))))
      kv, kt, hv, ht = (np.asarray(a).ravel() for a in (kv, kt, hv, ht))
      for k in range(n):
        add(f'kernel var {fbits(gr)} {fbits(hr)} {fbits(T[k])}:{fbits(dT[k])} {fbits(q[k])}:{fbits(dq[k])}',
            'MoistPrimitiveEquations.nodal_temperature_adiabatic_tendency[variation_temperature_component]',
            dict(inp, layer=k, gas_const_ratio=gr, heat_capacity_ratio=hr), [kv[k]], [kt[k]])
        add(f'kernel hum {fbits(gr)} {fbits(hr)} {fbits(tref[k])} {fbits(q[k])}:{fbits(dq[k])}',
            'MoistPrimitiveEquations.nodal_temperature_adiabatic_tendency[humidity_reference_component]',
            dict(inp, layer=k, gas_const_ratio=gr, heat_capacity_ratio=hr), [hv[k]], [ht[k]])

  # ---- Held-Suarez equilibrium temperature ----
  units = E.scales.units
  for ci in range(ctx.n(3, 30)):
    M = int(rng.choice([4, 5, 6]))
    grid = E.grid(M)
    b, kind = dinoutil.random_boundaries(rng, int(rng.integers(2, 7)), None)
    coords = E.cs.CoordinateSystem(horizontal=grid, vertical=sc.SigmaCoordinates(b))
    specs = pe.PrimitiveEquationsSpecs.from_si()
    nlev = len(b) - 1
    tref = rng.uniform(200, 300, nlev)
    kw = {}
    if ci % 2 == 1:
      kw = dict(p0=float(rng.uniform(0.8e5, 1.1e5)) * units.pascal, minT=float(rng.uniform(150, 250)) * units.degK,
                maxT=float(rng.uniform(280, 330)) * units.degK, dTy=float(rng.uniform(0, 80)) * units.degK,
                dThz=float(rng.uniform(0, 20)) * units.degK)
    inp = dict(boundaries=b.tolist(), grid=M, params={k: str(v) for k, v in kw.items()})
    with ctx.impl('corr-exception:held-suarez', inp):
      h = E.hs.HeldSuarezForcing(coords, specs, tref, **kw)
      ps = float(h.p0) * (1 + 0.2 * np.tanh(rng.standard_normal(grid.nodal_shape)))
      dps = float(h.p0) * 0.1 * rng.standard_normal(grid.nodal_shape)
      v, t = jax.jvp(h.equilibrium_temperature, (jnp.asarray(ps),), (jnp.asarray(dps),))
      v, t = np.asarray(v), np.asarray(t)
      lat = np.broadcast_to(np.asarray(h.lat), grid.nodal_shape).ravel()
      pvec = fvec([h.p0, specs.kappa, h.minT, h.maxT, h.dTy, h.dThz])
      sig = np.asarray(h.sigma)
      # exclude exact ties of the maximum (JAX averages there); none occur for continuous random pressures
      for k in range(nlev):
        active = 'floor' if (v[k] <= float(h.minT)).all() else ('smooth' if (v[k] > float(h.minT)).all() else 'mixed')
        ctx.dist[f'teq-branch={active}'] += 1
        add(f'teq {pvec} {fbits(sig[k])} {fvec(lat)} {dvec(ps, dps)}', 'HeldSuarezForcing.equilibrium_temperature',
            dict(inp, level=k, sigma=float(sig[k])), v[k], t[k], key=(ci, k))

  # ---- Jacobian chains: the model's jvpChain / vjpChain (T8.1) against jax.jvp / jax.vjp of a composition ----
  chain_lines, chain_checks = [], []
  for ci in range(ctx.n(4, 40)):
    b, kind = dinoutil.random_boundaries(rng, int(rng.integers(2, 7)), None)
    n = len(b) - 1
    coords = sc.SigmaCoordinates(b)
    J = jnp.asarray
    w0 = J(rng.standard_normal(n - 1))
    f1 = lambda x: sc.centered_vertical_advection(w0, x, coords, axis=0) + 0.1 * x ** 2
    f2 = lambda y: (sc.cumulative_sigma_integral(jnp.tanh(y), coords, axis=0) * y[0])[:max(1, n - 1)]
    x, v, w = rng.standard_normal(n), rng.standard_normal(n), rng.standard_normal(max(1, n - 1))
    inp = dict(boundaries=b.tolist(), x=x.tolist(), v=v.tolist(), w=w.tolist())
    with ctx.impl('corr-exception:chain', inp):
      J1 = np.asarray(jax.jacfwd(f1)(J(x)))
      J2 = np.asarray(jax.jacfwd(f2)(f1(J(x))))
      comp = lambda q: f2(f1(q))
      lhs = float(np.vdot(np.asarray(jax.jvp(comp, (J(x),), (J(v),))[1]), w))
      rhs = float(np.vdot(v, np.asarray(jax.vjp(comp, J(x))[1](J(w))[0])))
      chain_lines.append(f'ad F pairing {common.fmat(J1)}/{common.fmat(J2)} {fvec(v)} {fvec(w)}')
      chain_checks.append((inp, lhs, rhs, max(np.abs(J1).max(), 1.0) * max(np.abs(J2).max(), 1.0)))
      ctx.case(('chain', ci, ctx.seed), nontrivial=True)
      ctx.dist['corr:jvp-vjp-chain'] += 1
  for (inp, lhs, rhs, sc_), o in zip(chain_checks, ctx.model(chain_lines)):
    if ',' not in o:
      ctx.corr_mismatch('jvpChain/vjpChain', inp, (lhs, rhs), o, 'model rejected the operation')
      continue
    m = common.unfvec(o)
    ctx.corr_float('jax.jvp of a composition vs jvpChain', inp, [lhs], [m[0]], rtol=CORR_RTOL, atol=1e-12 * sc_)
    ctx.corr_float('jax.vjp of a composition vs vjpChain', inp, [rhs], [m[1]], rtol=CORR_RTOL, atol=1e-12 * sc_)

  outs = ctx.model(lines)
  for (op, inp, val, tan), o in zip(checks, outs):
    if o in ('bad-op', 'value-error', 'index-error', 'type-error'):
      ctx.corr_mismatch(op, inp, 'jvp', o, 'model rejected the operation')
      continue
    mv, mt = undvec(o.replace(';', ','))
    ctx.corr_float(op + '.value', inp, val, mv, rtol=CORR_RTOL)
    # tangents are compared on the scale of the tangent itself, or of rounding of the primal when it vanishes
    ctx.corr_float(op + '.tangent', inp, tan, mt, rtol=CORR_RTOL,
                   atol=1e-12 + 1e-13 * float(np.abs(val[np.isfinite(val)]).max(initial=0.0)))



# --------------------------------------------------------------------------
# (b) probes on the real code (tests)


def _stat(ctx, name, value, key):
  st = ctx.__dict__.setdefault('c08_stats', {})
  if name not in st or value > st[name][0]:
    st[name] = (float(value), key)


def _leaves(E, t):
  return [np.asarray(a, dtype=float) for a in E.jax.tree_util.tree_leaves(t)]


def _axpy(E, x, v, h):
  return E.jax.tree_util.tree_map(lambda a, b: a + h * b, x, v)


def _deriv_probe(ctx, E, key, f, x, v, inp, fd=True, kinks=False, nontrivial=True):
  """finiteness of jvp / vjp, <Jv,w> = <v,J^T w>, central finite difference = Jv, for f at x along v"""
  jax, jnp, rng = E.jax, E.jnp, ctx.rng
  ctx.case((key, repr(sorted(inp.items()))[:400], ctx.seed), nontrivial=nontrivial,
           sample=dict(inp, probe=key) if len(ctx.samples) < 10 else None)
  ctx.dist['probe:' + key.split(':')[0]] += 1
  with ctx.impl(key + ':raises', inp):
    out, jv = jax.jvp(f, (x,), (v,))
    out2, pull = jax.vjp(f, x)
    w = jax.tree_util.tree_map(lambda a: jnp.asarray(rng.standard_normal(np.shape(a))), out)
    (ct,) = pull(w)
    lo, lj, lw, lv, lc = (_leaves(E, t) for t in (out, jv, w, v, ct))
    fin = all(np.isfinite(a).all() for a in lo + lj + lc)
    ctx.expect(fin, key + ':finite', 'non-finite primal / jvp / vjp: ' +
               ', '.join(f'{nm}[{i}]' for nm, ls in (('out', lo), ('jvp', lj), ('vjp', lc))
                         for i, a in enumerate(ls) if not np.isfinite(a).all()), inp)
    if not fin:
      return None
    lhs = sum(float(np.vdot(a, b)) for a, b in zip(lj, lw))
    rhs = sum(float(np.vdot(a, b)) for a, b in zip(lv, lc))
    scale = sum(float(np.abs(a * b).sum()) for a, b in zip(lj, lw)) + \
        sum(float(np.abs(a * b).sum()) for a, b in zip(lv, lc))
    _stat(ctx, 'adjoint', abs(lhs - rhs) / (scale + 1e-300), key)
    ctx.expect(abs(lhs - rhs) <= PAIR_TOL * scale + 1e-300, key + ':adjoint',
               f'<Jv,w> = {lhs!r} but <v,J^T w> = {rhs!r} (scale {scale:.3e})', inp)
    # the two primal evaluations agree (vjp does not change the value)
    ctx.expect(all(dinoutil.relerr(a, b) <= 1e-12 for a, b in zip(lo, _leaves(E, out2))), key + ':primal',
               'jax.jvp and jax.vjp return different primal values', inp)
    if fd:
      h = FD_STEP_K if kinks else FD_STEP
      rtol, floor = (FD_RTOL_K, FD_FLOOR_K) if kinks else (FD_RTOL, FD_FLOOR)
      fp_, fm_ = _leaves(E, f(_axpy(E, x, v, h))), _leaves(E, f(_axpy(E, x, v, -h)))
      if not kinks:
        fp2, fm2 = _leaves(E, f(_axpy(E, x, v, 2 * h))), _leaves(E, f(_axpy(E, x, v, -2 * h)))
      for i, (a, b, o, t) in enumerate(zip(fp_, fm_, lo, lj)):
        d = (a - b) / (2 * h)
        ok_entries = np.ones(d.shape, dtype=bool)
        if kinks:   # entries whose one-sided difference quotients disagree sit on a kink of a piecewise-smooth routine
          dp, dm = (a - o) / h, (o - b) / h
          ok_entries = np.abs(dp - dm) <= 1e-3 * (np.abs(dp).max(initial=0.0) + np.abs(dm).max(initial=0.0)) + 1e-300
          ctx.dist['probe-fd-kink-entries'] += int((~ok_entries).sum())
          ctx.dist['probe-fd-piecewise-entries'] += int(ok_entries.size)
        else:
          d = (4 * d - (fp2[i] - fm2[i]) / (4 * h)) / 3
        if not ok_entries.any():
          ctx.dist['probe-fd-leaves-all-kink'] += int(ok_entries.size > 0)    # see the ceiling obligation of `run`
          continue
        err = float(np.abs(d - t)[ok_entries].max())
        tol = rtol * float(np.abs(t).max(initial=0.0)) + floor * float(np.abs(o).max(initial=0.0)) + 1e-300
        _stat(ctx, 'finite-difference (error / tolerance)' + (' [piecewise-smooth]' if kinks else ''), err / tol, key)
        ctx.expect(err <= tol, key + ':finite-difference',
                   f'leaf {i}: finite difference (h={h}) differs from jax.jvp by {err:.3e} '
                   f'(max|Jv| = {np.abs(t).max(initial=0.0):.3e}, max|f| = {np.abs(o).max(initial=0.0):.3e})', inp)
    return jv


def _rm(rng, grid, k, a):
  ms = grid.modal_shape
  l = np.arange(ms[1])
  return rng.standard_normal((k,) + ms) * _keep(grid) * a / (1.0 + l) ** 1.5


def _pe_setup(ctx, E, grid, n, cls):
  rng, jnp, pe = ctx.rng, E.jnp, E.pe
  b, lk = dinoutil.random_boundaries(rng, n, str(rng.choice(['uneven', 'equidistant', 'refined-bottom']))
                                     if n > 1 else 'equidistant')
  coords = E.cs.CoordinateSystem(horizontal=grid, vertical=E.sc.SigmaCoordinates(b))
  specs = E.specs(rng, grid.radius)
  tref = np.full(n, 250.0) if rng.random() < 0.3 else np.sort(rng.uniform(200.0, 300.0, n))
  oro = np.asarray(grid.clip_wavenumbers(grid.to_modal(jnp.asarray(rng.uniform(0, 0.02, grid.nodal_shape)))))
  eq = E.CL[cls](tref, jnp.asarray(oro), coords, specs)
  J = jnp.asarray

  def mk(amp=1.0, base=True, t=0.0):
    """a random state (base=True) or a random tangent of the same structure"""
    tr = {}
    if cls in ('moist', 'cloud'):
      q = _rm(rng, grid, n, 1e-3 * amp)
      if base:
        q[:, 0, 0] += 0.03
      tr[Q_KEY] = J(q)
    if cls == 'cloud':
      tr[QL_KEY], tr[QI_KEY] = J(_rm(rng, grid, n, 1e-5 * amp)), J(_rm(rng, grid, n, 1e-5 * amp))
    tr['x'] = J(_rm(rng, grid, n, amp))
    d = dict(vorticity=J(_rm(rng, grid, n, 0.3 * amp)), divergence=J(_rm(rng, grid, n, 0.05 * amp)),
             temperature_variation=J(_rm(rng, grid, n, amp)), log_surface_pressure=J(_rm(rng, grid, 1, 0.01 * amp)),
             tracers=tr)
    return pe.State(**d) if cls == 'dry' else pe.StateWithTime(sim_time=J(float(t)), **d)

  info = dict(cls=cls, layers=n, levels=lk, boundaries=b.tolist(), tref=tref.tolist(), R=specs.R, g=specs.g,
              kappa=specs.kappa, omega=specs.angular_velocity, Rv=specs.R_vapor, CpV=specs.Cp_vapor)
  return eq, coords, specs, tref, mk, info


def _sw_setup(ctx, E, grid, n):
  rng, jnp = ctx.rng, E.jnp
  dens = np.sort(rng.uniform(1.0, 2.0, n))
  specs = E.sw.ShallowWaterSpecs(densities=dens, radius=grid.radius, angular_velocity=float(rng.uniform(0.3, 1.0)),
                                 gravity_acceleration=float(rng.uniform(0.5, 2.0)), scale=E.scales.DEFAULT_SCALE)
  coords = E.cs.CoordinateSystem(horizontal=grid, vertical=E.sc.SigmaCoordinates.equidistant(n))
  ref = rng.uniform(0.5, 2.0, n)
  oro = np.asarray(grid.clip_wavenumbers(grid.to_modal(jnp.asarray(rng.uniform(0, 0.05, grid.nodal_shape)))))
  eq = E.sw.ShallowWaterEquations(coords, specs, jnp.asarray(oro), ref)
  J = jnp.asarray

  def mk(amp=1.0, base=True, t=0.0):
    return E.sw.State(J(_rm(rng, grid, n, 0.2 * amp)), J(_rm(rng, grid, n, 0.05 * amp)), J(_rm(rng, grid, n, 0.1 * amp)))

  info = dict(cls='shallow-water', layers=n, densities=dens.tolist(), reference_potential=ref.tolist(),
              omega=specs.angular_velocity)
  return eq, coords, specs, ref, mk, info


def _filters(E, grid, dt, stack, leapfrog, rng):
  ti = E.ti
  out, desc = [], []
  for f in stack:
    if f == 'exp':
      tau, order, cutoff = float(rng.uniform(0.02, 0.2)), int(rng.integers(1, 5)), float(rng.choice([0.0, 0.3]))
      mk = ti.exponential_leapfrog_step_filter if leapfrog else ti.exponential_step_filter
      out.append(mk(grid, dt, tau, order, cutoff))
      desc.append(f'exp(tau={tau:.4g},order={order},cutoff={cutoff})')
    elif f == 'diff':
      tau, order = float(rng.uniform(0.05, 0.5)), int(rng.integers(1, 3))
      if leapfrog:
        eig = grid.laplacian_eigenvalues
        scale = dt / (tau * np.abs(eig).max() ** order)
        out.append(ti.leapfrog_step_filter(E.flt.horizontal_diffusion_filter(grid, scale, order)))
      else:
        out.append(ti.horizontal_diffusion_step_filter(grid, dt, tau, order))
      desc.append(f'diff(tau={tau:.4g},order={order})')
    elif f == 'ra':
      r = float(rng.uniform(0.01, 0.1))
      out.append(ti.robert_asselin_leapfrog_filter(r))
      desc.append(f'ra(r={r:.4g})')
  return out, '+'.join(desc) or 'none'


def _run_grid(ctx, E):
  """one (grid, layers) per run, so that the eagerly executed primitives are compiled once"""
  rng = ctx.rng
  M = [5, 6, 7][ctx.seed % 3] if ctx.quick else int(rng.choice([5, 6, 7, 8, 10]))
  impl = ['real', 'fast'][(ctx.seed // 3) % 2] if ctx.quick else str(rng.choice(['real', 'fast']))
  n = [3, 2, 4][ctx.seed % 3] if ctx.quick else int(rng.integers(2, 5))
  return E.grid(M, impl), f'{impl}-{M}', n


def _probes_ops(ctx, E, grid, gname, n):
  """transforms, tendencies, implicit solve, filters, vertical interpolation, Held-Suarez"""
  rng, jax, jnp, pe = ctx.rng, E.jax, E.jnp, E.pe
  J = jnp.asarray
  ginfo = dict(grid=gname, modal_shape=list(grid.modal_shape), nodal_shape=list(grid.nodal_shape), seed=ctx.seed)
  # transforms (both implementations in thorough; the run grid in quick)
  grids = [(grid, gname)] if ctx.quick else [(grid, gname), (E.grid(5, 'fast'), 'fast-5'), (E.grid(8, 'real'), 'real-8')]
  for g, gn in grids:
    gi = dict(ginfo, grid=gn)
    x, v = J(_rm(rng, g, 2, 1.0)), J(_rm(rng, g, 2, 1.0))
    jv = _deriv_probe(ctx, E, 'to_nodal', g.to_nodal, x, v, gi)
    if jv is not None:   # linear: the jvp is the operator applied to the tangent
      ctx.expect(dinoutil.relerr(jv, g.to_nodal(v)) <= 1e-12, 'to_nodal:linear', 'jvp(to_nodal)(v) != to_nodal(v)', gi)
    z, dz = J(rng.standard_normal((2,) + g.nodal_shape)), J(rng.standard_normal((2,) + g.nodal_shape))
    jv = _deriv_probe(ctx, E, 'to_modal', g.to_modal, z, dz, gi)
    if jv is not None:
      ctx.expect(dinoutil.relerr(jv, g.to_modal(dz)) <= 1e-12, 'to_modal:linear', 'jvp(to_modal)(v) != to_modal(v)', gi)
    # analysis is the w-adjoint of synthesis (T8.1) on the real Grid: the VJP of to_nodal at the cotangent w * z is
    # to_modal(z) (on the mask), and sum_ij w_j (S x)_ij z_ij = sum_ml x_ml (A z)_ml
    quad = np.asarray(g.spherical_harmonics.basis.w)
    mask = np.asarray(g.mask)
    with ctx.impl('to_nodal:analysis-is-adjoint:raises', gi):
      _, pull = jax.vjp(g.to_nodal, x)
      (ct,) = pull(J(np.asarray(z) * quad))
      az = np.asarray(g.to_modal(z))
      ctx.case(('synth-analysis-adjoint', gn, ctx.seed), nontrivial=True)
      ctx.expect(dinoutil.relerr(np.asarray(ct) * mask, az * mask) <= 1e-12, 'to_nodal:analysis-is-adjoint',
                 'vjp(to_nodal)(w z) != to_modal(z) on the mask', gi)
      lhs = float(np.vdot(np.asarray(g.to_nodal(x)) * quad, np.asarray(z)))
      rhs = float(np.vdot(np.asarray(x), az))
      ctx.expect(abs(lhs - rhs) <= 1e-12 * (abs(lhs) + abs(rhs)) + 1e-300, 'to_nodal:analysis-is-adjoint',
                 f'sum w (S x) z = {lhs!r} but sum x (A z) = {rhs!r}', gi)
  # padded layout: every spectral operator whose static table is padded, plus a shallow-water tendency and step
  gp = E.grid([5, 6, 7][ctx.seed % 3] if ctx.quick else int(rng.choice([5, 6, 7, 9])), 'fast-padded')
  gpi = dict(ginfo, grid='fast-padded', modal_shape=list(gp.modal_shape), nodal_shape=list(gp.nodal_shape),
             modal_padding=list(gp.modal_padding))
  ctx.dist[f'padded-grid:modal_padding={tuple(gp.modal_padding)}'] += 1
  xp_, vp_ = J(_rm(rng, gp, 2, 1.0)), J(_rm(rng, gp, 2, 1.0))
  for opn, opf in (('inverse_laplacian', gp.inverse_laplacian), ('laplacian', gp.laplacian),
                   ('clip_wavenumbers', gp.clip_wavenumbers), ('to_nodal', gp.to_nodal), ('d_dlon', gp.d_dlon),
                   ('cos_lat_d_dlat', gp.cos_lat_d_dlat), ('sec_lat_d_dlat_cos2', gp.sec_lat_d_dlat_cos2),
                   ('cos_lat_grad', lambda a: gp.cos_lat_grad(a)), ('to_nodal_of_wind', lambda a: tuple(
                       gp.to_nodal(c) for c in E.sh.get_cos_lat_vector(a, 0.5 * a, gp)))):
    _deriv_probe(ctx, E, f'{opn}:padded-layout', opf, xp_, vp_, gpi)
  zp_, dzp_ = J(rng.standard_normal((2,) + gp.nodal_shape)), J(rng.standard_normal((2,) + gp.nodal_shape))
  _deriv_probe(ctx, E, 'to_modal:padded-layout', gp.to_modal, zp_, dzp_, gpi)
  eqp, _, _, _, mkp, infop = _sw_setup(ctx, E, gp, 2)
  infop = dict(gpi, **infop)
  _deriv_probe(ctx, E, 'explicit_terms:shallow-water:padded-layout', eqp.explicit_terms, mkp(), mkp(base=False), infop)
  stepp = E.ti.imex_rk_sil3(eqp, 0.005)
  _deriv_probe(ctx, E, 'step:shallow-water:sil3:padded-layout', stepp, mkp(), mkp(base=False), infop)
  # equation classes: explicit / implicit terms, implicit inverse
  classes = ['dry', 'moist', 'cloud', 'time'] if not ctx.quick else [['dry', 'moist'], ['moist', 'time'], ['cloud', 'dry']][ctx.seed % 3]
  for cls in classes:
    eq, coords, specs, tref, mk, info = _pe_setup(ctx, E, grid, n, cls)
    info = dict(ginfo, **info)
    x, v = mk(), mk(base=False)
    eta = float(rng.choice([0.005, 0.01, 0.02]))
    _deriv_probe(ctx, E, f'explicit_terms:{cls}', eq.explicit_terms, x, v, info)
    _deriv_probe(ctx, E, f'implicit_terms:{cls}', eq.implicit_terms, x, v, info)
    _deriv_probe(ctx, E, f'implicit_inverse:{cls}', lambda s: eq.implicit_inverse(s, eta), x, v, dict(info, eta=eta))
    # finiteness at the state of rest (zero wind, zero T', flat pressure): no sqrt / division by a vanishing field
    x0 = jax.tree_util.tree_map(jnp.zeros_like, x)
    if cls in ('moist', 'cloud'):
      x0.tracers[Q_KEY] = x.tracers[Q_KEY]
    _deriv_probe(ctx, E, f'explicit_terms-at-rest:{cls}', eq.explicit_terms, x0, v, info, fd=False)
  eq, coords, specs, ref, mk, info = _sw_setup(ctx, E, grid, n)
  info = dict(ginfo, **info)
  x, v = mk(), mk(base=False)
  _deriv_probe(ctx, E, 'explicit_terms:shallow-water', eq.explicit_terms, x, v, info)
  _deriv_probe(ctx, E, 'implicit_terms:shallow-water', eq.implicit_terms, x, v, info)
  _deriv_probe(ctx, E, 'implicit_inverse:shallow-water', lambda s: eq.implicit_inverse(s, 0.01), x, v, dict(info, eta=0.01))
  # finiteness at a fluid AT REST (zero vorticity and divergence in every layer, a height bump): an admissible state at
  # which a formulation through the wind SPEED (sqrt of u^2 + v^2) has an infinite derivative although the primal is fine
  xr = jax.tree_util.tree_map(jnp.zeros_like, x)
  xr = type(x)(xr.vorticity, xr.divergence, x.potential)
  _deriv_probe(ctx, E, 'explicit_terms-at-rest:shallow-water', eq.explicit_terms, xr, v, info, fd=False)
  _deriv_probe(ctx, E, 'step-at-rest:shallow-water:sil3', E.ti.imex_rk_sil3(eq, 0.005), xr, v, info, fd=False)
  # a quiescent deep layer under a moving upper layer
  if np.shape(x.vorticity)[0] >= 2:
    xq = type(x)(x.vorticity.at[-1].set(0.0), x.divergence.at[-1].set(0.0), x.potential)
    _deriv_probe(ctx, E, 'explicit_terms-quiescent-layer:shallow-water', eq.explicit_terms, xq, v, info, fd=False)
  # filters
  tree = dict(a=J(_rm(rng, grid, n, 1.0)), b=J(_rm(rng, grid, 1, 1.0)), t=J(1.5))
  dtree = dict(a=J(_rm(rng, grid, n, 1.0)), b=J(_rm(rng, grid, 1, 1.0)), t=J(0.3))
  a_, p_, c_ = float(rng.uniform(1, 20)), int(rng.integers(1, 6)), float(rng.choice([0.0, 0.3]))
  _deriv_probe(ctx, E, 'exponential_filter', E.flt.exponential_filter(grid, a_, p_, c_), tree, dtree,
               dict(ginfo, attenuation=a_, order=p_, cutoff=c_))
  order = int(rng.choice([1, 2]))
  scale = float(10 ** rng.uniform(-2, 0) / np.abs(grid.laplacian_eigenvalues).max() ** order)
  _deriv_probe(ctx, E, 'horizontal_diffusion_filter', E.flt.horizontal_diffusion_filter(grid, scale, order), tree, dtree,
               dict(ginfo, scale=scale, order=order))
  # vertical interpolation: sigma -> pressure -> sigma, differentiated with respect to the fields AND the surface
  # pressure (the queries p / p_s and sigma p_s move with it)
  b, _ = dinoutil.random_boundaries(rng, max(n, 3), 'uneven')
  sig = E.sc.SigmaCoordinates(b)
  ns = grid.nodal_shape
  sp0 = 1000.0
  pc = E.vi.PressureCoordinates(np.sort(rng.uniform(0.05, 0.98, 4)) * sp0)
  sp, dsp = J(sp0 * (1 + 0.03 * rng.standard_normal((1,) + ns))), J(10.0 * rng.standard_normal((1,) + ns))
  for iname, ifn in (('constant-extrapolation', E.vi.vertical_interpolation),
                     ('linear-extrapolation', E.vi.linear_interp_with_linear_extrap)):
    vfn = E.vi.vectorize_vertical_interpolation(ifn)
    fs, dfs = J(rng.standard_normal((sig.layers,) + ns)), J(rng.standard_normal((sig.layers,) + ns))
    info = dict(ginfo, interpolate_fn=iname, sigma_boundaries=b.tolist(), pressure_centers=pc.centers.tolist())
    _deriv_probe(ctx, E, f'interp_sigma_to_pressure:{iname}',
                 lambda a: E.vi.interp_sigma_to_pressure(a[0], pc, sig, a[1], vfn), (fs, sp), (dfs, dsp), info,
                 kinks=True)
    fp_, dfp_ = J(rng.standard_normal((4,) + ns)), J(rng.standard_normal((4,) + ns))
    _deriv_probe(ctx, E, f'interp_pressure_to_sigma:{iname}',
                 lambda a: E.vi.interp_pressure_to_sigma(a[0], pc, sig, a[1], vfn), (fp_, sp), (dfp_, dsp), info,
                 kinks=True)
  # hybrid -> sigma (linear interpolation and conservative regridding): nodes / cell bounds move with p_s
  nh = 6
  sb = np.linspace(0, 1, nh + 1) ** 1.3
  hyb = E.vi.HybridCoordinates(a_boundaries=sp0 * 0.6 * sb * (1 - sb), b_boundaries=sb - 0.6 * sb * (1 - sb))
  fh, dfh = J(rng.standard_normal((nh,) + ns)), J(rng.standard_normal((nh,) + ns))
  sp2, dsp2 = J(sp0 * (1 + 0.03 * rng.standard_normal(ns))), J(10.0 * rng.standard_normal(ns))
  info = dict(ginfo, a_boundaries=hyb.a_boundaries.tolist(), b_boundaries=hyb.b_boundaries.tolist(),
              sigma_boundaries=b.tolist())
  _deriv_probe(ctx, E, 'interp_hybrid_to_sigma', lambda a: E.vi.interp_hybrid_to_sigma(a[0], hyb, sig, a[1]),
               (fh, sp2), (dfh, dsp2), info, kinks=True)
  _deriv_probe(ctx, E, 'regrid_hybrid_to_sigma', lambda a: E.vi.regrid_hybrid_to_sigma(a[0], hyb, sig, a[1]),
               (fh, sp2), (dfh, dsp2), info, kinks=True)
  # surface pressure from geopotential on pressure levels (linear interpolation with data-dependent nodes)
  plev = E.vi.PressureCoordinates(np.array([300.0, 500.0, 700.0, 850.0, 1000.0]))
  g0 = 9.8
  geo = g0 * 8000.0 * np.log(1013.0 / plev.centers)[:, None, None] * (1 + 0.01 * rng.standard_normal((5,) + ns))
  oro_n = rng.uniform(0.0, 1500.0, (1,) + ns)
  _deriv_probe(ctx, E, 'get_surface_pressure', lambda a: E.vi.get_surface_pressure(plev, a[0], a[1], g0),
               (J(geo), J(oro_n)), (J(geo * 0.01 * rng.standard_normal(geo.shape)), J(100.0 * rng.standard_normal(oro_n.shape))),
               dict(ginfo, pressure_levels=plev.centers.tolist()), kinks=True)
  # semi-Lagrangian vertical advection: the interpolation nodes depend on the state
  eq, coords, specs, tref, mk, info = _pe_setup(ctx, E, grid, max(n, 3), 'dry')
  x, v = mk(), mk(base=False)
  dts = float(rng.choice([0.05, 0.2]))
  _deriv_probe(ctx, E, 'semi_lagrangian_vertical_advection_step',
               lambda s: pe.semi_lagrangian_vertical_advection_step(s, coords, dts), x, v, dict(ginfo, dt=dts, **info),
               kinks=True)
  # Held-Suarez forcing
  units = E.scales.units
  specs_si = pe.PrimitiveEquationsSpecs.from_si()
  b, lk = dinoutil.random_boundaries(rng, max(n, 3), 'uneven')
  coords = E.cs.CoordinateSystem(horizontal=grid, vertical=E.sc.SigmaCoordinates(b))
  nl = coords.vertical.layers
  tref = rng.uniform(220, 300, nl)
  kw = {} if ctx.seed % 2 == 0 else dict(minT=float(rng.uniform(180, 240)) * units.degK, sigma_b=float(rng.uniform(0.4, 0.8)))
  h = E.hs.HeldSuarezForcing(coords, specs_si, tref, **kw)
  vs = float(specs_si.nondimensionalize(1e-5 / units.second))

  def hs_state(base):
    lsp = _rm(rng, grid, 1, 0.05)
    if base:
      lsp[0, 0, 0] += math.log(float(h.p0)) * pe._CONSTANT_NORMALIZATION_FACTOR
    return pe.State(vorticity=J(_rm(rng, grid, nl, vs)), divergence=J(_rm(rng, grid, nl, 0.1 * vs)),
                    temperature_variation=J(_rm(rng, grid, nl, 5.0)), log_surface_pressure=J(lsp))
  info = dict(ginfo, boundaries=b.tolist(), tref=tref.tolist(), params={k: str(v_) for k, v_ in kw.items()})
  _deriv_probe(ctx, E, 'held_suarez.explicit_terms', h.explicit_terms, hs_state(True), hs_state(False), info, kinks=True)
  ps, dps = J(float(h.p0) * (1 + 0.2 * np.tanh(rng.standard_normal(ns)))), J(float(h.p0) * 0.1 * rng.standard_normal(ns))
  _deriv_probe(ctx, E, 'held_suarez.equilibrium_temperature', h.equilibrium_temperature, ps, dps, info, kinks=True)


def _step_plan(ctx):
  one = ['bfe', 'cnrk2', 'rk3', 'rk4', 'sil3']
  stacks = [['exp'], ['diff'], ['exp', 'diff'], []]
  r = ctx.seed
  if ctx.quick:
    return [('dry', one[r % 5], stacks[r % 4], 2), ('moist', 'sil3', ['exp'], 2),
            (['cloud', 'time', 'moist'][r % 3], one[(r + 2) % 5], stacks[(r + 1) % 4], 1),
            ('shallow-water', one[(r + 1) % 5], stacks[(r + 2) % 4], 3),
            (['dry', 'shallow-water', 'moist'][r % 3], 'leapfrog', [['exp', 'ra'], ['ra'], ['ra', 'diff']][r % 3], 2)]
  plan = [(cls, name, stacks[(i + j + r) % 4], 1 + (i + j) % 3)
          for i, cls in enumerate(['dry', 'time', 'moist', 'cloud', 'shallow-water']) for j, name in enumerate(one)]
  plan += [(cls, 'leapfrog', st, 2) for cls in ('dry', 'moist', 'shallow-water') for st in (['exp', 'ra'], ['ra', 'diff'])]
  return plan


def _probes_steps(ctx, E, grid, gname, n):
  rng, jax, ti = ctx.rng, E.jax, E.ti
  for ci, (cls, name, stack, k) in enumerate(_step_plan(ctx)):
    if cls == 'shallow-water':
      eq, coords, specs, ref, mk, info = _sw_setup(ctx, E, grid, n)
    else:
      eq, coords, specs, tref, mk, info = _pe_setup(ctx, E, grid, n, cls)
    dt = float(rng.choice([0.005, 0.01, 1 / 128]))
    leap = name == 'leapfrog'
    filters, fdesc = _filters(E, grid, dt, stack, leap, rng)
    alpha = float(rng.choice([0.5, 0.6, 1.0]))
    base = ti.semi_implicit_leapfrog(eq, dt, alpha) if leap else E.INT[name](eq, dt)
    step = ti.step_with_filters(base, filters)

    def f(u, step=step, k=k):
      for _ in range(k):
        u = step(u)
      return u
    if leap:
      x0 = mk()
      x = (x0, jax.tree_util.tree_map(lambda a, b: a + 0.01 * b, x0, mk(base=False, t=0.0)))
      v = (mk(base=False), mk(base=False))
    else:
      x, v = mk(), mk(base=False)
    inp = dict(info, grid=gname, integrator=name, filters=fdesc, dt=dt, steps=k, alpha=alpha if leap else None,
               seed=ctx.seed)
    for kk in (f'step-class={cls}', f'step-integrator={name}', f'step-filters={"+".join(stack) or "none"}',
               f'step-count={k}'):
      ctx.dist[kk] += 1
    _deriv_probe(ctx, E, f'step:{cls}:{name}', f, x, v, inp)


def _grad_close(E, a, b):
  la, lb = _leaves(E, a), _leaves(E, b)
  if len(la) != len(lb):
    return np.inf
  return max([dinoutil.relerr(x, y) for x, y in zip(la, lb)] + [0.0])


def _probes_scan(ctx, E, grid, gname, n):
  """gradients of nested_checkpoint_scan vs a flat lax.scan; a step with / without jax.checkpoint"""
  rng, jax, jnp, ti = ctx.rng, E.jax, E.jnp, E.ti
  J = jnp.asarray

  def compare(key, body, init, xs, nestings, inp):
    def loss(scan):
      def l(init_, xs_):
        carry, out = scan(init_, xs_)
        return sum(jnp.sum(a ** 2) for a in jax.tree_util.tree_leaves(carry)) + \
            sum(jnp.sum(jnp.sin(a)) for a in jax.tree_util.tree_leaves(out))
      return l
    with ctx.impl(key + ':raises', inp):
      ref_v, ref_g = jax.value_and_grad(loss(lambda i, x: jax.lax.scan(body, i, x)), argnums=(0, 1))(init, xs)
      fin = all(np.isfinite(a).all() for a in _leaves(E, ref_g))
      ctx.expect(fin, key + ':finite', 'gradient of the flat scan is not finite', inp)
      if not fin:
        return
      for ls in nestings:
        i2 = dict(inp, nested_lengths=list(ls))
        ctx.case((key, tuple(ls), ctx.seed), nontrivial=len(ls) > 1)
        ctx.dist[f'scan-nesting-depth={len(ls)}'] += 1
        v, g = jax.value_and_grad(
            loss(lambda i, x: ti.nested_checkpoint_scan(body, i, x, nested_lengths=ls)), argnums=(0, 1))(init, xs)
        ctx.expect(abs(float(v) - float(ref_v)) <= GRAD_TOL * abs(float(ref_v)), key + ':value',
                   f'nested scan {ls}: loss {float(v)!r} != flat scan {float(ref_v)!r}', i2)
        err = _grad_close(E, g, ref_g)
        _stat(ctx, 'scan gradient', err, key)
        ctx.expect(err <= GRAD_TOL, key + ':gradient',
                   f'nested scan {ls}: gradient differs from the flat scan by {err:.3e} (relative)', i2)
        # forward mode through the nested scan
        tin = jax.tree_util.tree_map(lambda a: J(rng.standard_normal(np.shape(a))), (init, xs))
        _, t1 = jax.jvp(lambda i, x: ti.nested_checkpoint_scan(body, i, x, nested_lengths=ls), (init, xs), tin)
        _, t0 = jax.jvp(lambda i, x: jax.lax.scan(body, i, x), (init, xs), tin)
        err = _grad_close(E, t1, t0)
        ctx.expect(err <= GRAD_TOL, key + ':tangent',
                   f'nested scan {ls}: jvp differs from the flat scan by {err:.3e} (relative)', i2)

  # (1) a small nonlinear recurrence with a pytree carry, scanned inputs and stacked outputs
  A = J(rng.standard_normal((3, 3)) * 0.5)

  def body(c, x):
    u = jnp.tanh(A @ c['u'] + x['f']) * (1 + 0.1 * jnp.tanh(c['s']))      # bounded for any length
    s = 0.9 * c['s'] * jnp.cos(x['g']) + jnp.mean(u ** 2)
    return dict(u=u, s=s), (u[0] * s, jnp.sum(u))
  length = 12 if ctx.quick else 24
  init = dict(u=J(rng.standard_normal(3)), s=J(float(rng.uniform(0.5, 1.5))))
  xs = dict(f=J(rng.standard_normal((length, 3))), g=J(rng.standard_normal(length)))
  nestings = [(12,), (3, 4), (4, 3), (2, 2, 3), (6, 2), (1, 12), (12, 1)] if ctx.quick else \
      [(24,), (4, 6), (6, 4), (2, 3, 4), (2, 2, 2, 3), (24, 1), (1, 24), (8, 3), (3, 8), (2, 12)]
  compare('nested_checkpoint_scan:recurrence', body, init, xs, nestings, dict(length=length, seed=ctx.seed))

  # (2) a real filtered time step as scan body (xs = None is not differentiable input: use a forcing amplitude)
  eq, coords, specs, ref, mk, info = _sw_setup(ctx, E, grid, 1 if ctx.quick else n)
  dt = 0.01
  filters, fdesc = _filters(E, grid, dt, ['exp'], False, rng)
  step = ti.step_with_filters(E.INT[['cnrk2', 'sil3', 'bfe'][ctx.seed % 3]](eq, dt), filters)
  pert = mk(base=False)

  def sbody(c, a):
    c = step(jax.tree_util.tree_map(lambda p, q: p + a * q, c, pert))
    return c, jnp.sum(c.potential ** 2)
  amps = J(rng.standard_normal(4) * 1e-3)
  compare('nested_checkpoint_scan:shallow-water-step', sbody, mk(), amps, [(2, 2)] if ctx.quick else [(2, 2), (4, 1), (1, 4)],
          dict(info, grid=gname, filters=fdesc, dt=dt, seed=ctx.seed))

  # (3) jax.checkpoint around a complete step does not change value or gradient
  cls = ['moist', 'dry', 'cloud'][ctx.seed % 3]
  eq, coords, specs, tref, mk, info = _pe_setup(ctx, E, grid, n, cls)
  filters, fdesc = _filters(E, grid, dt, ['exp'], False, rng)
  step = ti.step_with_filters(E.INT[['sil3', 'cnrk2', 'rk3'][ctx.seed % 3]](eq, dt), filters)
  x = mk()
  inp = dict(info, grid=gname, filters=fdesc, dt=dt, seed=ctx.seed)

  def loss(stepfn):
    return lambda u: sum(jnp.sum(a ** 2) for a in jax.tree_util.tree_leaves(stepfn(stepfn(u))))
  key = f'checkpoint:{cls}'
  ctx.case((key, ctx.seed), nontrivial=True)
  with ctx.impl(key + ':raises', inp):
    v0, g0 = jax.value_and_grad(loss(step))(x)
    v1, g1 = jax.value_and_grad(loss(jax.checkpoint(step)))(x)
    ctx.expect(all(np.isfinite(a).all() for a in _leaves(E, g0) + _leaves(E, g1)), key + ':finite',
               'non-finite gradient of a two-step loss', inp)
    ctx.expect(abs(float(v0) - float(v1)) <= GRAD_TOL * abs(float(v0)), key + ':value',
               f'jax.checkpoint changes the value: {float(v0)!r} vs {float(v1)!r}', inp)
    err = _grad_close(E, g0, g1)
    _stat(ctx, 'checkpoint gradient', err, key)
    ctx.expect(err <= GRAD_TOL, key + ':gradient', f'jax.checkpoint changes the gradient by {err:.3e} (relative)', inp)


def run(ctx: common.Ctx):
  E = _Env()
  ctx.lean('DinoProofs.Properties.C08', 'C08.txt',
           extra_files=['DinoProofs/Lemmas/AD.lean', 'DinoProofs/Lemmas/ADExtra.lean', 'DinoProofs/Lemmas/ADInterp.lean',
                        'Dino/AD.lean', 'Dino/ADDrv.lean'])
  indexed = [o for o in ctx.obligations if o['kind'] == 'theorem']
  for o in indexed:
    if o['name'] in HELPER_LEMMAS:
      o['kind'] = 'helper-lemma'
  nh = sum(o['kind'] == 'helper-lemma' for o in indexed)
  ctx.notes.append(f'{nh} of the {len(indexed)} indexed names are closure / helper lemmas (kind helper-lemma: one-line '
                   f'wrappers of Mathlib lemmas or of definitions, axiom-audited and pinned); property theorems: '
                   f'{len(indexed) - nh}')
  _corr(ctx, E)
  for rep in range(ctx.n(1, 3)):     # one (grid, layer count) per repetition: eager primitives are compiled once each
    grid, gname, n = _run_grid(ctx, E)
    ctx.dist[f'probe-grid={gname}'] += 1
    ctx.dist[f'probe-layers={n}'] += 1
    _probes_ops(ctx, E, grid, gname, n)
    _probes_steps(ctx, E, grid, gname, n)
    _probes_scan(ctx, E, grid, gname, n)
  for name, (val, key) in sorted(ctx.__dict__.get('c08_stats', {}).items()):
    ctx.notes.append(f'measured worst {name}: {val:.3e} at {key}')
  tot, kink, skipped = (ctx.dist[k] for k in ('probe-fd-piecewise-entries', 'probe-fd-kink-entries',
                                               'probe-fd-leaves-all-kink'))
  share = kink / tot if tot else 1.0
  ctx.obligation(f'probe-coverage: share of finite-difference entries of the piecewise-smooth entry points classed as '
                 f'kinks (excluded from the comparison with jax.jvp) <= {KINK_CEILING}, and no output leaf excluded entirely',
                 'coverage', tot > 0 and share <= KINK_CEILING and skipped == 0,
                 f'{kink}/{tot} entries classed as kinks (share {share:.2e}); {skipped} leaves excluded entirely')
  if not ctx.quick:
    ctx.leanchecker(['DinoProofs.Properties.C08'])
  return ctx.finish(RULE, NOTE)
