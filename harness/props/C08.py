"""C08 — forward- and reverse-mode derivatives are finite, mutually adjoint and correct; checkpointing and scan
nesting do not change gradients.

PARTIAL BY DESIGN (DESIGN.md section 6 C08, section 8): JAX's differentiation rules are executed, not modelled.

Lean: DinoProofs/Properties/C08.lean (+ Lemmas/AD.lean) over the model Dino/AD.lean: dual numbers `Dual K` with the
core arithmetic classes, so that the EXISTING generic model functions (Dino.Interp, Dino.Filters, Dino.Sigma,
Dino.Implicit, Dino.Forcing, the column physics of Dino.Dynamics) are run at `Dual K`: forward mode by evaluation.

Tie (correspondence, driver namespace `ad`): `jax.jvp` of the real functions against the dual-number Float model:
  vertical_interpolation.interp / _dot_interp / linear_interp_with_linear_extrap / _linear_interp_with_safe_extrap
  (with respect to the data and to the query), exponential_filter (state and attenuation), horizontal_diffusion_filter
  (state and scale), Robert-Asselin, the sigma column routines (cumulative integrals, centred difference, centred /
  upwind advection, geopotential), get_temperature_implicit (dense / sparse), PrimitiveEquations._t_omega_over_sigma_sp,
  nodal_temperature_adiabatic_tendency (dry and moist), HeldSuarezForcing.equilibrium_temperature.

Probes on the REAL code (tests, labelled as such in the evidence): for every entry point f, state x, tangent v and
cotangent w: jax.jvp and jax.vjp finite, <J v, w> = <v, J^T w>, central finite difference of f along v = J v;
entry points: Grid.to_modal/to_nodal, explicit_terms / implicit_terms / implicit_inverse of the dry, moist and
shallow-water classes, the two spectral filters, vertical regridding (fields and surface pressure), Held-Suarez
forcing, complete 1-3 step functions (classes x integrators x filter stacks); gradients of nested_checkpoint_scan
against a flat lax.scan for several factorisations, and of a step with / without jax.checkpoint.
"""
import math

import numpy as np

import common
from common import fbits, fvec, unfbits
import dinoutil

CORR_RTOL = 1e-9
PAIR_TOL = 1e-10       # |<Jv,w> - <v,J^T w>| relative to sum |Jv_i w_i| + sum |v_i (J^T w)_i|   (measured <= 3e-15)
FD_RTOL = 2e-6         # |FD - Jv| relative to max|Jv| of the leaf ...
FD_FLOOR = 1e-8        # ... plus this times max|f| of the leaf (rounding of the difference quotient: eps |f| / h)
FD_STEP = 1e-5         # relative to the size of the state
GRAD_TOL = 1e-11       # nested vs flat scan, checkpoint vs none: relative (measured <= 1e-15)
RULE = ('correspondence: node sets of 1..8 nodes (uniform, uneven, strongly uneven), queries below / at / between / '
        'beyond the nodes, random data and tangents; 1..8 sigma layers equidistant / uneven / strongly uneven; grids '
        'with_wavenumbers(4..8), both spherical-harmonics implementations; probes: grids M=5..10, 2-4 uneven layers, '
        'random orography, random physical constants, dry / moist / cloud / shallow-water x integrators x filters by '
        'rotation over the seed; a case is non-trivial when the tangent is non-zero and the operator is not the '
        'identity; distinct = distinct (operation, configuration, input) hashes')
NOTE = ('C08 is partial: correctness of JAX\'s JVP/VJP/transpose/checkpoint rules is trusted and executed, not '
        'modelled; the finite-difference, adjointness, finiteness and scan-gradient checks are tests on the real code; '
        'the theorems are about the dual-number model Dino.AD run on the models of C03/C13/C15/C17/C20/C04; ties '
        'of jnp.maximum / query exactly at a node of _dot_interp are excluded from the correspondence (JAX averages '
        'the two one-sided derivatives there)')

Q_KEY = 'specific_humidity'
QL_KEY = 'specific_cloud_liquid_water_content'
QI_KEY = 'specific_cloud_ice_water_content'


# --------------------------------------------------------------------------
# encoding of dual numbers for the line protocol


def dvec(x, dx):
  x, dx = np.asarray(x, dtype=float).ravel(), np.asarray(dx, dtype=float).ravel()
  return ','.join(f'{fbits(a)}:{fbits(b)}' for a, b in zip(x, dx)) if x.size else '_'


def undvec(s):
  """'v:d,v:d' (or 'nan') -> (values, tangents)"""
  if s == '_':
    return np.zeros(0), np.zeros(0)
  vs, ds = [], []
  for t in s.split(','):
    if t == 'nan':
      vs.append(np.nan)
      ds.append(np.nan)
    else:
      a, b = t.split(':')
      vs.append(unfbits(a))
      ds.append(unfbits(b))
  return np.asarray(vs), np.asarray(ds)


class _Env:
  def __init__(self):
    self.jax = common.setup_jax()
    import jax.numpy as jnp
    from dinosaur import (coordinate_systems, filtering, held_suarez, primitive_equations, scales, shallow_water,
                          sigma_coordinates, spherical_harmonic, time_integration, vertical_interpolation)
    self.jnp, self.pe, self.sh, self.sc, self.cs, self.scales = (
        jnp, primitive_equations, spherical_harmonic, sigma_coordinates, coordinate_systems, scales)
    self.ti, self.sw, self.flt, self.vi, self.hs = (time_integration, shallow_water, filtering,
                                                    vertical_interpolation, held_suarez)
    pe, ti = primitive_equations, time_integration
    self.CL = dict(dry=pe.PrimitiveEquations, time=pe.PrimitiveEquationsWithTime, moist=pe.MoistPrimitiveEquations,
                   cloud=pe.MoistPrimitiveEquationsWithCloudMoisture)
    self.INT = dict(bfe=ti.backward_forward_euler, cnrk2=ti.crank_nicolson_rk2, rk3=ti.crank_nicolson_rk3,
                    rk4=ti.crank_nicolson_rk4, sil3=ti.imex_rk_sil3)
    self._grids = {}

  def grid(self, M, impl='real', radius=1.0):
    key = (M, impl, float(radius))
    if key not in self._grids:
      cls = self.sh.RealSphericalHarmonics if impl == 'real' else self.sh.FastSphericalHarmonics
      self._grids[key] = self.sh.Grid.with_wavenumbers(M, spherical_harmonics_impl=cls, radius=radius)
    return self._grids[key]

  def specs(self, rng, radius=1.0):
    R = float(rng.uniform(0.5, 3.0)) * 1e-3
    return self.pe.PrimitiveEquationsSpecs(
        radius=float(radius), angular_velocity=float(rng.uniform(0.3, 1.0)),
        gravity_acceleration=float(rng.uniform(20.0, 80.0)), ideal_gas_constant=R,
        water_vapor_gas_constant=R * float(rng.uniform(1.2, 2.0)),
        water_vapor_isobaric_heat_capacity=R * float(rng.uniform(3.0, 9.0)),
        kappa=float(rng.choice([2 / 7, rng.uniform(0.2, 0.4)])), scale=self.scales.DEFAULT_SCALE)


def _keep(grid):
  keep = np.array(grid.mask, dtype=bool)
  keep[:, -(1 + grid.modal_padding[-1]):] = False
  return keep


def random_nodes(rng, n=None):
  if n is None:
    n = int(rng.choice([1, 2, 3, 4, 5, 8]))
  kind = str(rng.choice(['uniform', 'uneven', 'strongly-uneven']))
  if kind == 'uniform':
    d = np.ones(n)
  elif kind == 'uneven':
    d = rng.uniform(0.5, 1.5, n)
  else:
    d = np.exp(rng.uniform(-3, 3, n))
  x0 = float(rng.uniform(-2, 2))
  return x0 + np.concatenate([[0.0], np.cumsum(d)[:-1]]) if n > 1 else np.array([x0]), kind


def random_queries(rng, xp, with_nodes):
  """queries strictly between the nodes, beyond both ends, and (optionally) exactly at nodes"""
  qs = [xp[0] - float(rng.uniform(0.1, 2)), xp[-1] + float(rng.uniform(0.1, 2))]
  for a, b in zip(xp[:-1], xp[1:]):
    qs.append(a + (b - a) * float(rng.uniform(0.05, 0.95)))
  if with_nodes:
    qs += [float(v) for v in xp]
  return np.asarray(qs, dtype=float)


# --------------------------------------------------------------------------
# (a) correspondence: jax.jvp of the real functions vs the dual-number Float model


def _corr(ctx, E):
  rng, jax, jnp, vi, pe, sc = ctx.rng, E.jax, E.jnp, E.vi, E.pe, E.sc
  lines, checks = [], []

  def add(line, op, inp, val, tan, key=None, nontrivial=True):
    """`val`, `tan`: primal result and jvp of the implementation (flattened)"""
    lines.append('ad F ' + line)
    checks.append((op, inp, np.asarray(val, dtype=float).ravel(), np.asarray(tan, dtype=float).ravel()))
    ctx.case((op, key if key is not None else line), nontrivial=nontrivial)
    ctx.dist['corr:' + op.split('[')[0]] += 1

  # ---- interpolation ----
  fns = dict(interp=vi.interp, dot=vi._dot_interp, linext=vi.linear_interp_with_linear_extrap,
             safe=lambda x, xp, fp: vi._linear_interp_with_safe_extrap(x, xp, fp, n=1))
  names = dict(interp='vertical_interpolation.interp', dot='vertical_interpolation._dot_interp',
               linext='vertical_interpolation.linear_interp_with_linear_extrap',
               safe='vertical_interpolation._linear_interp_with_safe_extrap')
  for ci in range(ctx.n(14, 140)):
    xp, kind = random_nodes(rng, {0: 1, 1: 2, 2: 3}.get(ci))
    n = len(xp)
    fp = rng.standard_normal(n) * 10
    dfp = rng.standard_normal(n)
    ctx.dist[f'interp-nodes={n}'] += 1
    ctx.dist[f'interp-kind={kind}'] += 1
    for op, fn in fns.items():
      if op == 'safe' and n < 2:
        continue
      if op in ('dot', 'linext') and n < 2:
        continue      # one node: the weights divide by an empty array (C17 known finding for _dot_interp)
      # nodes as queries: jnp.interp / linext pick the right cell by searchsorted (same in the model); the `where`s
      # of _dot_interp at the end nodes are ties
      xs = random_queries(rng, xp, with_nodes=op in ('interp', 'linext'))
      if op == 'safe':
        xs = np.concatenate([xs, [xp[0] - 10 * (xp[1] - xp[0]), xp[-1] + 10 * (xp[-1] - xp[-2])]])
      dxs = rng.standard_normal(len(xs))
      inp = dict(op=op, xp=xp.tolist(), fp=fp.tolist(), dfp=dfp.tolist(), x=xs.tolist(), dx=dxs.tolist())
      J = jnp.asarray
      with ctx.impl('corr-exception:' + op, inp):
        f = jax.vmap(fn, (0, None, None))
        v, t = jax.jvp(lambda q: f(J(xs), J(xp), q), (J(fp),), (J(dfp),))
        extra = ['1'] if op == 'safe' else []
        add(' '.join(['interp', op] + extra + [fvec(xp), dvec(fp, dfp), fvec(xs)]), names[op] + '[data]', inp, v, t)
        v, t = jax.jvp(lambda q: f(q, J(xp), J(fp)), (J(xs),), (J(dxs),))
        add(' '.join(['interp', op] + extra + [fvec(xp), fvec(fp), dvec(xs, dxs)]), names[op] + '[query]', inp, v, t)

  # ---- filters ----
  for ci in range(ctx.n(4, 40)):
    M = int(rng.choice([4, 5, 6, 8]))
    grid = E.grid(M, str(rng.choice(['real', 'fast'])), float(rng.choice([1.0, 1.7])))
    ls = np.asarray(grid.modal_axes[1], dtype=float)
    lss = fvec(ls)
    shape = (int(rng.integers(1, 3)),) + grid.modal_shape
    x, dx = rng.standard_normal(shape), rng.standard_normal(shape)
    shs = ','.join(str(s) for s in shape)
    a, p, c = float(rng.uniform(1, 20)), int(rng.integers(1, 6)), float(rng.choice([0.0, 0.3, 0.6]))
    da = float(rng.standard_normal())
    inp = dict(grid=f'{M}', modal_shape=list(grid.modal_shape), attenuation=a, order=p, cutoff=c, seed=ctx.seed)
    J = jnp.asarray
    with ctx.impl('corr-exception:filters', inp):
      v, t = jax.jvp(lambda aa, xx: E.flt.exponential_filter(grid, aa, p, c)(xx), (J(a), J(x)), (J(da), J(dx)))
      add(f'filters expfilter {fbits(a)}:{fbits(da)} {p} {fbits(c)} {lss} {shs} {dvec(x, dx)}',
          'exponential_filter[attenuation,state]', inp, v, t, key=(ci, 'exp'))
      order = int(rng.choice([1, 2, 3]))
      eig = np.asarray(grid.laplacian_eigenvalues, dtype=float)
      scale = float(10 ** rng.uniform(-3, 0) / np.abs(eig).max() ** order)
      dscale = scale * float(rng.standard_normal())
      v, t = jax.jvp(lambda s, xx: E.flt.horizontal_diffusion_filter(grid, s, order)(xx), (J(scale), J(x)),
                     (J(dscale), J(dx)))
      add(f'filters difffilter {fbits(scale)}:{fbits(dscale)} {order} {fbits(grid.radius)} {lss} {shs} {dvec(x, dx)}',
          'horizontal_diffusion_filter[scale,state]', dict(inp, scale=scale, order=order), v, t, key=(ci, 'diff'))
      r = float(rng.uniform(0.01, 0.2))
      leaves = [rng.standard_normal(6) for _ in range(8)]
      (p0, p1, n0, n1), (d0, d1, e0, e1) = leaves[:4], leaves[4:]
      ra = E.ti.robert_asselin_leapfrog_filter(r)
      v, t = jax.jvp(lambda u, un: ra(u, un), ((J(p0), J(p1)), (J(n0), J(n1))), ((J(d0), J(d1)), (J(e0), J(e1))))
      add(f'filters ra {fbits(r)} {dvec(p0, d0)} {dvec(p1, d1)} {dvec(n0, e0)} {dvec(n1, e1)}',
          'robert_asselin_leapfrog_filter', dict(r=r), np.concatenate([np.asarray(q) for q in v]),
          np.concatenate([np.asarray(q) for q in t]), key=(ci, 'ra'))

  # ---- sigma column routines, implicit temperature operator, column physics ----
  for ci in range(ctx.n(10, 100)):
    forced = {0: (1, 'equidistant'), 1: (2, 'strongly-uneven')}.get(ci)
    b, kind = dinoutil.random_boundaries(rng, *(forced or (None, None)))
    n = len(b) - 1
    coords = sc.SigmaCoordinates(b)
    bs = fvec(b)
    ctx.dist[f'column-layers={n}'] += 1
    x, dx = rng.standard_normal(n), rng.standard_normal(n)
    inp = dict(boundaries=b.tolist(), x=x.tolist(), dx=dx.tolist())
    J = jnp.asarray
    col = lambda a: a[:, None, None]
    with ctx.impl('corr-exception:sigma', inp):
      for down in (True, False):
        v, t = jax.jvp(lambda q: sc.cumulative_sigma_integral(q, coords, axis=0, downward=down), (J(x),), (J(dx),))
        add(f'sigma cumint {bs} {dvec(x, dx)} {int(down)}', 'cumulative_sigma_integral', inp, v, t)
        lc = np.log(coords.centers)
        v, t = jax.jvp(lambda q: sc.cumulative_log_sigma_integral(q, coords, axis=0, downward=down), (J(x),),
                       (J(dx),))
        add(f'sigma logint {fvec(lc)} {dvec(x, dx)} {int(down)}', 'cumulative_log_sigma_integral', inp, v, t)
      v, t = jax.jvp(lambda q: sc.sigma_integral(q, coords, axis=0, keepdims=True), (J(x),), (J(dx),))
      add(f'sigma sigint {bs} {dvec(x, dx)}', 'sigma_integral', inp, v, t)
      R = float(rng.uniform(0.1, 5))
      alpha = pe.get_sigma_ratios(coords)
      for method in ('dense', 'sparse'):
        v, t = jax.jvp(lambda q: pe.get_geopotential_diff(q, coords, R, method=method), (J(col(x)),), (J(col(dx)),))
        add(f'sigma gdiff {method} {fbits(R)} {fvec(alpha)} {dvec(x, dx)}', f'get_geopotential_diff[{method}]',
            dict(inp, R=R), v, t)
      tref = rng.uniform(200, 300, n)
      kappa = float(rng.uniform(0.2, 0.4))
      ds = coords.layer_thickness
      for method in ('dense', 'sparse'):
        v, t = jax.jvp(lambda q: pe.get_temperature_implicit(q, coords, tref, kappa, method=method), (J(col(x)),),
                       (J(col(dx)),))
        add(f'implicit tempimp {method} {fvec(ds)} {fvec(tref)} {fvec(alpha)} {fbits(kappa)} {dvec(x, dx)}',
            f'get_temperature_implicit[{method}]', dict(inp, tref=tref.tolist(), kappa=kappa), v, t)
      if n >= 2:
        v, t = jax.jvp(lambda q: sc.centered_difference(q, coords, axis=0), (J(x),), (J(dx),))
        add(f'sigma cdiff {bs} {dvec(x, dx)}', 'centered_difference', inp, v, t)
        w, dw = rng.standard_normal(n - 1), rng.standard_normal(n - 1)
        inp2 = dict(inp, w=w.tolist(), dw=dw.tolist())
        v, t = jax.jvp(lambda ww, q: sc.centered_vertical_advection(ww, q, coords, axis=0), (J(w), J(x)),
                       (J(dw), J(dx)))
        add(f'sigma adv {bs} {dvec(w, dw)} {dvec(x, dx)}', 'centered_vertical_advection', inp2, v, t)
        v, t = jax.jvp(lambda ww, q: sc.upwind_vertical_advection(ww, q, coords, axis=0), (J(w), J(x)),
                       (J(dw), J(dx)))
        add(f'sigma upwind {bs} {dvec(w, dw)} {dvec(x, dx)}', 'upwind_vertical_advection', inp2, v, t)
    # column physics of the primitive equations (one nodal point = one column)
    grid = E.grid(4)
    specs = E.specs(rng)
    csys = E.cs.CoordinateSystem(horizontal=grid, vertical=coords)
    oro = jnp.zeros(grid.modal_shape)
    lcs = fvec(np.log(coords.centers))
    T, G, V = (rng.standard_normal(n) * s for s in (10.0, 1.0, 1.0))
    dT, dG, dV = (rng.standard_normal(n) for _ in range(3))
    q, dq = rng.uniform(0.0, 0.03, n), rng.standard_normal(n) * 1e-2
    inp = dict(boundaries=b.tolist(), tref=tref.tolist(), R=specs.R, Rv=specs.R_vapor, CpV=specs.Cp_vapor,
               kappa=specs.kappa, T=T.tolist(), G=G.tolist(), V=V.tolist(), q=q.tolist(),
               dT=dT.tolist(), dG=dG.tolist(), dV=dV.tolist(), dq=dq.tolist())
    with ctx.impl('corr-exception:column-physics', inp):
      eq = pe.PrimitiveEquations(tref, oro, csys, specs)
      v, t = jax.jvp(eq._t_omega_over_sigma_sp, (J(col(T)), J(col(G)), J(col(V))), (J(col(dT)), J(col(dG)), J(col(dV))))
      add(f'tomega {bs} {lcs} {dvec(T, dT)} {dvec(G, dG)} {dvec(V, dV)}',
          'PrimitiveEquations._t_omega_over_sigma_sp', inp, v, t)
      ph = fvec([specs.R, specs.R_vapor, specs.Cp_vapor, specs.kappa])
      z = jnp.zeros((n, 1, 1))

      def adiabatic(eqn, tracers_of):
        def f(div, temp, udg, qq):
          aux = pe.DiagnosticState(vorticity=z, divergence=div, temperature_variation=temp, cos_lat_u=(z, z),
                                   sigma_dot_explicit=z[:-1], sigma_dot_full=z[:-1], cos_lat_grad_log_sp=(z[0], z[0]),
                                   u_dot_grad_log_sp=udg, tracers=tracers_of(qq))
          return eqn.nodal_temperature_adiabatic_tendency(aux)
        return jax.jvp(f, (J(col(G)), J(col(T)), J(col(V)), J(col(q))), (J(col(dG)), J(col(dT)), J(col(dV)), J(col(dq))))

      v, t = adiabatic(eq, lambda qq: {})
      add(f'adiabatic dry {bs} {lcs} {ph} {fvec(tref)} {dvec(G, dG)} {dvec(T, dT)} {dvec(V, dV)} {dvec(q, dq)}',
          'PrimitiveEquations.nodal_temperature_adiabatic_tendency', inp, v, t)
      meq = pe.MoistPrimitiveEquations(tref, oro, csys, specs)
      v, t = adiabatic(meq, lambda qq: {Q_KEY: qq})
      add(f'adiabatic moist {bs} {lcs} {ph} {fvec(tref)} {dvec(G, dG)} {dvec(T, dT)} {dvec(V, dV)} {dvec(q, dq)}',
          'MoistPrimitiveEquations.nodal_temperature_adiabatic_tendency', inp, v, t)

  # ---- Held-Suarez equilibrium temperature ----
  units = E.scales.units
  for ci in range(ctx.n(3, 30)):
    M = int(rng.choice([4, 5, 6]))
    grid = E.grid(M)
    b, kind = dinoutil.random_boundaries(rng, int(rng.integers(2, 7)), None)
    coords = E.cs.CoordinateSystem(horizontal=grid, vertical=sc.SigmaCoordinates(b))
    specs = pe.PrimitiveEquationsSpecs.from_si()
    nlev = len(b) - 1
    tref = rng.uniform(200, 300, nlev)
    kw = {}
    if ci % 2 == 1:
      kw = dict(p0=float(rng.uniform(0.8e5, 1.1e5)) * units.pascal, minT=float(rng.uniform(150, 250)) * units.degK,
                maxT=float(rng.uniform(280, 330)) * units.degK, dTy=float(rng.uniform(0, 80)) * units.degK,
                dThz=float(rng.uniform(0, 20)) * units.degK)
    inp = dict(boundaries=b.tolist(), grid=M, params={k: str(v) for k, v in kw.items()})
    with ctx.impl('corr-exception:held-suarez', inp):
      h = E.hs.HeldSuarezForcing(coords, specs, tref, **kw)
      ps = float(h.p0) * (1 + 0.2 * np.tanh(rng.standard_normal(grid.nodal_shape)))
      dps = float(h.p0) * 0.1 * rng.standard_normal(grid.nodal_shape)
      v, t = jax.jvp(h.equilibrium_temperature, (jnp.asarray(ps),), (jnp.asarray(dps),))
      v, t = np.asarray(v), np.asarray(t)
      lat = np.broadcast_to(np.asarray(h.lat), grid.nodal_shape).ravel()
      pvec = fvec([h.p0, specs.kappa, h.minT, h.maxT, h.dTy, h.dThz])
      sig = np.asarray(h.sigma)
      # exclude exact ties of the maximum (JAX averages there); none occur for continuous random pressures
      for k in range(nlev):
        active = 'floor' if (v[k] <= float(h.minT)).all() else ('smooth' if (v[k] > float(h.minT)).all() else 'mixed')
        ctx.dist[f'teq-branch={active}'] += 1
        add(f'teq {pvec} {fbits(sig[k])} {fvec(lat)} {dvec(ps, dps)}', 'HeldSuarezForcing.equilibrium_temperature',
            dict(inp, level=k, sigma=float(sig[k])), v[k], t[k], key=(ci, k))

  outs = ctx.model(lines)
  worst = 0.0
  for (op, inp, val, tan), o in zip(checks, outs):
    if o in ('bad-op', 'value-error', 'index-error', 'type-error'):
      ctx.corr_mismatch(op, inp, 'jvp', o, 'model rejected the operation')
      continue
    mv, mt = undvec(o.replace(';', ','))
    ctx.corr_float(op + '.value', inp, val, mv, rtol=CORR_RTOL)
    # tangents are compared on the scale of the tangent itself, or of rounding of the primal when it vanishes
    ctx.corr_float(op + '.tangent', inp, tan, mt, rtol=CORR_RTOL, atol=1e-12 + 1e-13 * float(np.abs(val[np.isfinite(val)]).max(initial=0.0)))
  return worst


def run(ctx: common.Ctx):
  E = _Env()
  ctx.lean('DinoProofs.Properties.C08', 'C08.txt',
           extra_files=['DinoProofs/Lemmas/AD.lean', 'Dino/AD.lean', 'Dino/ADDrv.lean'])
  _corr(ctx, E)
  if not ctx.quick:
    ctx.leanchecker(['DinoProofs.Properties.C08'])
  return ctx.finish(RULE, NOTE)
