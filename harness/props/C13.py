"""C13 — vertical (sigma) calculus.

Lean: DinoProofs/Properties/C13.lean over the model Dino/Sigma.lean.
Tie: every model operation is run on the inputs given to the real functions of
sigma_coordinates / jax_numpy_utils / primitive_equations (float64) and compared.
Sentinel probes evaluate the property itself on the real code.
"""
import numpy as np

import common
from common import fvec, fbits, unfvec, unfmat, unfbits
import dinoutil

TOL = 1e-10
RULE = ('level sets: 1..12 layers, equidistant / uneven / strongly uneven (thickness ratios up to e^6) / '
        'refined; data: standard normal columns, batched shapes and all axis positions; a case is '
        'non-trivial when the level set has >= 2 layers of different thickness or the op is a validation '
        'case; distinct = distinct (op, level set, data) hashes')


def run(ctx: common.Ctx):
  jax = common.setup_jax()
  import jax.numpy as jnp
  from dinosaur import sigma_coordinates as sc
  from dinosaur import jax_numpy_utils as jnu
  from dinosaur import primitive_equations as pe

  ctx.lean('DinoProofs.Properties.C13', 'C13.txt',
           extra_files=['DinoProofs/Lemmas/Sigma.lean', 'Dino/Sigma.lean'])

  rng = ctx.rng
  ncases = ctx.n(40, 400)
  lines, checks = [], []   # checks: (op, inp, impl_value, kind)

  def add(line, op, inp, impl, kind='vec'):
    lines.append(line)
    checks.append((op, inp, impl, kind))

  # ------------------------------------------------------------------ correspondence
  for ci in range(ncases):
    forced = {0: (1, 'equidistant'), 1: (2, 'strongly-uneven'), 2: (2, 'equidistant')}.get(ci)
    b, kind = dinoutil.random_boundaries(rng, *(forced or (None, None)))
    n = len(b) - 1
    coords = sc.SigmaCoordinates(b)
    nontriv = n >= 2 and (np.ptp(np.diff(b)) > 1e-12)
    bs = fvec(b)
    ctx.dist[f'layers={n}'] += 1
    ctx.dist[f'kind={kind}'] += 1
    inp0 = dict(boundaries=b.tolist())
    add(f'sigma F centers {bs}', 'centers', inp0, coords.centers)
    add(f'sigma F thickness {bs}', 'layer_thickness', inp0, coords.layer_thickness)
    add(f'sigma F ctc {bs}', 'center_to_center', inp0, coords.center_to_center)
    # batched data, vertical axis at a random position
    rest = tuple(int(v) for v in rng.choice([1, 2, 3], size=int(rng.integers(0, 3))))
    axis_pos = int(rng.integers(0, len(rest) + 1))
    shape = rest[:axis_pos] + (n,) + rest[axis_pos:]
    axis = axis_pos - len(shape) if rng.random() < 0.5 else axis_pos
    ctx.dist[f'ndim={len(shape)}'] += 1
    x = rng.standard_normal(shape)
    key = (b.tobytes(), x.tobytes())
    ctx.case(key, nontrivial=nontriv, sample=dict(boundaries=b.tolist(), shape=list(shape), axis=axis))
    for method in ('dot', 'jax'):
      for name, fn in (('cumsum', jnu.cumsum), ('rcumsum', jnu.reverse_cumsum)):
        out = np.asarray(fn(jnp.asarray(x), axis, method=method))
        for (idx, col), (_, ocol) in zip(dinoutil.columns(x, axis), dinoutil.columns(out, axis)):
          add(f'sigma F {name} {method} {fvec(col)}', f'jax_numpy_utils.{name}[{method}]',
              dict(x=col.tolist()), ocol)
    for down in (True, False):
      for method in ('dot', 'jax'):
        out = np.asarray(sc.cumulative_sigma_integral(jnp.asarray(x), coords, axis=axis, downward=down,
                                                     cumsum_method=method))
        for (_, col), (_, ocol) in zip(dinoutil.columns(x, axis), dinoutil.columns(out, axis)):
          add(f'sigma F cumint {bs} {fvec(col)} {int(down)}', 'cumulative_sigma_integral',
              dict(boundaries=b.tolist(), x=col.tolist(), downward=down, method=method), ocol)
      lc = np.log(coords.centers)
      out = np.asarray(sc.cumulative_log_sigma_integral(jnp.asarray(x), coords, axis=axis, downward=down))
      for (_, col), (_, ocol) in zip(dinoutil.columns(x, axis), dinoutil.columns(out, axis)):
        add(f'sigma F logint {fvec(lc)} {fvec(col)} {int(down)}', 'cumulative_log_sigma_integral',
            dict(boundaries=b.tolist(), x=col.tolist(), downward=down), ocol)
    out = np.asarray(sc.sigma_integral(jnp.asarray(x), coords, axis=axis, keepdims=True))
    for (_, col), (_, ocol) in zip(dinoutil.columns(x, axis), dinoutil.columns(out, axis)):
      add(f'sigma F sigint {bs} {fvec(col)}', 'sigma_integral', dict(boundaries=b.tolist(), x=col.tolist()),
          ocol, 'scalar')
    if n >= 2:
      out = np.asarray(sc.centered_difference(jnp.asarray(x), coords, axis=axis))
      for (_, col), (_, ocol) in zip(dinoutil.columns(x, axis), dinoutil.columns(out, axis)):
        add(f'sigma F cdiff {bs} {fvec(col)}', 'centered_difference',
            dict(boundaries=b.tolist(), x=col.tolist()), ocol)
      wshape = list(shape)
      wshape[axis_pos] = n - 1
      w = rng.standard_normal(wshape)
      out = np.asarray(sc.centered_vertical_advection(jnp.asarray(w), jnp.asarray(x), coords, axis=axis))
      outu = np.asarray(sc.upwind_vertical_advection(jnp.asarray(w), jnp.asarray(x), coords, axis=axis))
      for (_, col), (_, wcol), (_, ocol), (_, ucol) in zip(
          dinoutil.columns(x, axis), dinoutil.columns(w, axis), dinoutil.columns(out, axis),
          dinoutil.columns(outu, axis)):
        i = dict(boundaries=b.tolist(), w=wcol.tolist(), x=col.tolist())
        add(f'sigma F adv {bs} {fvec(wcol)} {fvec(col)}', 'centered_vertical_advection', i, ocol)
        add(f'sigma F upwind {bs} {fvec(wcol)} {fvec(col)}', 'upwind_vertical_advection', i, ucol)
    # geopotential
    R = float(rng.choice([1.0, 287.0, rng.uniform(0.1, 5)]))
    alpha = pe.get_sigma_ratios(coords)
    add(f'sigma F ratios {fvec(np.log(coords.centers))}', 'get_sigma_ratios', inp0, alpha)
    add(f'sigma F gweights {fbits(R)} {fvec(alpha)}', 'get_geopotential_weights',
        dict(boundaries=b.tolist(), R=R), pe.get_geopotential_weights(coords, R), 'mat')
    t3 = rng.standard_normal((n, 2, 2)) * 30 + 250
    for method in ('dense', 'sparse'):
      out = np.asarray(pe.get_geopotential_diff(jnp.asarray(t3), coords, R, method=method))
      for (_, col), (_, ocol) in zip(dinoutil.columns(t3, 0), dinoutil.columns(out, 0)):
        add(f'sigma F gdiff {method} {fbits(R)} {fvec(alpha)} {fvec(col)}', f'get_geopotential_diff[{method}]',
            dict(boundaries=b.tolist(), R=R, t=col.tolist()), ocol)

  # validation stream (mostly invalid inputs)
  nval = ctx.n(60, 600)
  for vi in range(nval):
    b, _ = dinoutil.random_boundaries(rng)
    mode = ['ok', 'first', 'last', 'swap', 'dup', 'neg', 'tiny-first', 'tiny-last', 'beyond', 'nan-interior', 'inf-interior',
            'nan-end'][vi % 12]
    b = b.copy()
    if mode == 'first':
      b[0] = rng.choice([1e-3, -1e-3, 0.01])
    elif mode == 'last':
      b[-1] = rng.choice([0.9, 1.1, 1 + 1e-4])
    elif mode == 'swap' and len(b) >= 4:
      b[1], b[2] = b[2], b[1]
    elif mode == 'dup' and len(b) >= 3:
      b[1] = b[2] if len(b) > 3 else b[0]
    elif mode == 'neg' and len(b) >= 3:
      b[1] = -0.1
    elif mode == 'tiny-first':
      b[0] = rng.choice([5e-9, -5e-9, 2e-8])
    elif mode == 'tiny-last':
      b[-1] = 1 + rng.choice([5e-6, -5e-6, 2e-5])
    elif mode == 'beyond' and len(b) >= 3:
      b[-2] = 1.0 + 1e-7
    # non-finite levels are not "strictly increasing from 0 to 1" (every comparison with NaN is false): a NaN interior
    # level passes a vectorised `any(diff <= 0)` test although it fails `all(diff > 0)`
    elif mode == 'nan-interior' and len(b) >= 3:
      b[int(rng.integers(1, len(b) - 1))] = np.nan
    elif mode == 'inf-interior' and len(b) >= 3:
      b[int(rng.integers(1, len(b) - 1))] = rng.choice([np.inf, -np.inf])
    elif mode == 'nan-end':
      b[int(rng.choice([0, -1]))] = np.nan
    try:
      sc.SigmaCoordinates(b)
      accepted = True
    except ValueError:
      accepted = False
    ctx.dist[f'validation:{mode}:{"accept" if accepted else "reject"}'] += 1
    ctx.case(('val', b.tobytes()), nontrivial=True)
    add(f'sigma F accepts {fvec(b)}', 'SigmaCoordinates.__init__', dict(boundaries=b.tolist()), accepted, 'bool')
    # the property: anything not strictly increasing from 0 to 1 is rejected
    increasing = bool((np.diff(b) > 0).all()) and abs(b[0]) <= 1e-8 and abs(b[-1] - 1) <= 1e-8 + 1e-5
    ctx.expect(accepted == increasing, 'validation', f'SigmaCoordinates accepted={accepted} for {b.tolist()}',
               dict(boundaries=b.tolist()))

  # many layers (every run): "all layer counts" has no upper end; the cumulative-sum strategies may switch
  # algorithm with the length of the axis (seeded C13-5: a long-axis fallback above 256 entries)
  for nbig in (257, 300, int(rng.integers(258, 400))):
    for kindb in ('equidistant', 'uneven'):
      dz = np.ones(nbig) if kindb == 'equidistant' else rng.uniform(0.2, 1.8, nbig)
      bb = np.concatenate([[0.0], np.cumsum(dz) / dz.sum()]); bb[-1] = 1.0
      cb = sc.SigmaCoordinates(bb)
      xb = rng.standard_normal((nbig, 2))
      binp = dict(layers=nbig, kind=kindb, seed=ctx.seed)
      ctx.case(('many-layers', nbig, kindb), nontrivial=True)
      with ctx.impl('many-layers-exception', binp):
        for method in ('dot', 'jax'):
          cs_ = np.asarray(jnu.cumsum(jnp.asarray(xb), 0, method=method))
          rc_ = np.asarray(jnu.reverse_cumsum(jnp.asarray(xb), 0, method=method))
          ctx.expect(np.abs(cs_ - np.cumsum(xb, 0)).max() < 1e-10 * nbig, 'many-layers',
                     f'cumsum[{method}] over {nbig} entries differs from the sequential sum', binp)
          ctx.expect(np.abs(rc_ - np.cumsum(xb[::-1], 0)[::-1]).max() < 1e-10 * nbig, 'many-layers',
                     f'reverse_cumsum[{method}] over {nbig} entries differs from the sequential reverse sum '
                     f'(max {np.abs(rc_ - np.cumsum(xb[::-1], 0)[::-1]).max():.3g})', binp)
          dn_ = np.asarray(sc.cumulative_sigma_integral(jnp.asarray(xb), cb, axis=0, downward=True, cumsum_method=method))
          up_ = np.asarray(sc.cumulative_sigma_integral(jnp.asarray(xb), cb, axis=0, downward=False, cumsum_method=method))
          tot_ = np.asarray(sc.sigma_integral(jnp.asarray(xb), cb, axis=0))
          ctx.expect(np.abs(dn_[-1] - tot_).max() < 1e-10 and np.abs(up_[0] - tot_).max() < 1e-10, 'many-layers',
                     f'cumulative integrals over {nbig} layers do not end at the total ({method})', binp)
          ctx.expect(np.abs(dn_ + up_ - tot_ - xb * cb.layer_thickness[:, None]).max() < 1e-10, 'many-layers',
                     f'down + up != total + local over {nbig} layers ({method})', binp)

  outs = ctx.model(lines)
  for (op, inp, impl, kind), o in zip(checks, outs):
    if o in ('bad-op', 'value-error'):
      ctx.corr_mismatch(op, inp, impl, o, 'model rejected the operation')
      continue
    if kind == 'bool':
      ctx.corr_exact(op, inp, bool(impl), o == '1')
    elif kind == 'mat':
      ctx.corr_float(op, inp, np.asarray(impl), np.asarray(unfmat(o)))
    elif kind == 'scalar':
      ctx.corr_float(op, inp, np.asarray(impl).ravel(), [unfbits(o)])
    else:
      ctx.corr_float(op, inp, impl, unfvec(o))

  # ------------------------------------------------------------------ probes on the real code
  nprobe = ctx.n(30, 300)
  for pi in range(nprobe):
    forced = {0: (1, 'equidistant'), 1: (2, 'strongly-uneven')}.get(pi)
    b, kind = dinoutil.random_boundaries(rng, *(forced or (None, None)))
    n = len(b) - 1
    coords = sc.SigmaCoordinates(b)
    x = rng.standard_normal((n, 2, 3))
    inp = dict(boundaries=b.tolist(), x=x.tolist())
    ctx.case(('probe', b.tobytes(), x.tobytes()), nontrivial=n >= 2)
    with ctx.impl('probe-exception', inp):
      xj = jnp.asarray(x)
      tot = np.asarray(sc.sigma_integral(xj, coords, axis=0))
      for method in ('dot', 'jax'):
        down = np.asarray(sc.cumulative_sigma_integral(xj, coords, axis=0, downward=True, cumsum_method=method))
        up = np.asarray(sc.cumulative_sigma_integral(xj, coords, axis=0, downward=False, cumsum_method=method))
        ctx.expect(dinoutil.relerr(down[-1:], tot) < TOL and dinoutil.relerr(up[:1], tot) < TOL,
                   'cum-last-total', f'cumulative integral does not end at the total ({method})', inp)
        local = x * coords.layer_thickness[:, None, None]
        ctx.expect(dinoutil.relerr(down + up, tot + local) < TOL, 'down-plus-up',
                   f'down+up != total+local ({method})', inp)
      for fn in (jnu.cumsum, jnu.reverse_cumsum):
        ctx.expect(dinoutil.relerr(fn(xj, 0, method='dot'), fn(xj, 0, method='jax')) < TOL,
                   'cumsum-methods', f'{fn.__name__}: dot and jax differ', inp)
        ctx.expect(dinoutil.relerr(fn(jnp.moveaxis(xj, 0, 2), 2, method='dot'),
                                   jnp.moveaxis(fn(xj, 0, method='jax'), 0, 2)) < TOL,
                   'cumsum-axes', f'{fn.__name__}: axis handling differs', inp)
      # integer-dtype fields are admissible data: every operator must act on them as on the same values in float64
      xi = rng.integers(-9, 10, size=(n, 2, 3))
      xif = jnp.asarray(xi.astype(np.float64))
      iinp = dict(boundaries=b.tolist(), x_int=xi.tolist())
      int_ops = [('sigma_integral', lambda v: sc.sigma_integral(v, coords, axis=0))]
      for method in ('dot', 'jax'):
        int_ops += [(f'cumsum[{method}]', lambda v, m=method: jnu.cumsum(v, 0, method=m)),
                    (f'reverse_cumsum[{method}]', lambda v, m=method: jnu.reverse_cumsum(v, 0, method=m))]
        for dn in (True, False):
          int_ops.append((f'cumulative_sigma_integral[{method},down={dn}]', lambda v, m=method, dn=dn:
                          sc.cumulative_sigma_integral(v, coords, axis=0, downward=dn, cumsum_method=m)))
      if n >= 2:
        wi = jnp.asarray(rng.standard_normal((n - 1, 2, 3)))
        int_ops += [('centered_difference', lambda v: sc.centered_difference(v, coords, axis=0)),
                    ('centered_vertical_advection', lambda v: sc.centered_vertical_advection(wi, v, coords, axis=0)),
                    ('upwind_vertical_advection', lambda v: sc.upwind_vertical_advection(wi, v, coords, axis=0))]
      for nm, op in int_ops:
        gi, gf = np.asarray(op(jnp.asarray(xi)), dtype=np.float64), np.asarray(op(xif))
        ctx.expect(gi.shape == gf.shape and np.abs(gi - gf).max() <= 1e-11 * (1 + np.abs(gf).max()), 'integer-dtype',
                   f'{nm} on an integer-dtype field differs from the same values in float64 by '
                   f'{np.abs(gi - gf).max() if gi.shape == gf.shape else "shape"}', dict(iinp, op=nm))
      if n >= 2:
        a0, s0 = rng.standard_normal(2)
        aff = (a0 + s0 * coords.centers)[:, None, None] * np.ones((n, 2, 3))
        d = np.asarray(sc.centered_difference(jnp.asarray(aff), coords, axis=0))
        ctx.expect(np.abs(d - s0).max() < 1e-9 * max(1, abs(s0), abs(a0)) * (1 / np.diff(coords.centers).min()),
                   'affine-exact', 'centered difference not exact on affine profile',
                   dict(boundaries=b.tolist(), a=a0, s=s0))
        w = rng.standard_normal((n - 1, 2, 3))
        adv = np.asarray(sc.centered_vertical_advection(jnp.asarray(w), xj, coords, axis=0))
        wp = np.concatenate([np.zeros((1, 2, 3)), w, np.zeros((1, 2, 3))])
        lhs = (coords.layer_thickness[:, None, None] * adv).sum(0)
        rhs = (x * np.diff(wp, axis=0)).sum(0)
        scale = np.abs(coords.layer_thickness[:, None, None] * adv).sum(0).max() + 1e-300
        ctx.expect(np.abs(lhs - rhs).max() < 1e-10 * scale, 'summation-by-parts',
                   'mass-weighted sum of advection + convergence does not vanish',
                   dict(boundaries=b.tolist(), w=w.tolist(), x=x.tolist()))
      R = 287.0
      t = x * 30 + 250
      gd = np.asarray(pe.get_geopotential_diff(jnp.asarray(t), coords, R, method='dense'))
      gs = np.asarray(pe.get_geopotential_diff(jnp.asarray(t), coords, R, method='sparse'))
      li = R * np.asarray(sc.cumulative_log_sigma_integral(jnp.asarray(t), coords, axis=0, downward=False))
      ctx.expect(dinoutil.relerr(gd, gs) < TOL, 'geopotential-dense-sparse', 'dense and sparse geopotential differ',
                 dict(boundaries=b.tolist(), t=t.tolist()))
      ctx.expect(dinoutil.relerr(gd, li) < TOL, 'geopotential-trapezoid',
                 'geopotential != R * trapezoid integral in log sigma', dict(boundaries=b.tolist(), t=t.tolist()))
      # independent trapezoid oracle
      lc = np.log(coords.centers)
      ref = np.zeros_like(t)
      for j in range(n):
        acc = t[n - 1] * (0 - lc[n - 1])
        for k in range(n - 2, j - 1, -1):
          acc = acc + 0.5 * (t[k] + t[k + 1]) * (lc[k + 1] - lc[k])
        ref[j] = acc
      ctx.expect(dinoutil.relerr(gd, R * ref) < TOL, 'geopotential-oracle',
                 'geopotential != R * documented trapezoid rule (independent oracle)',
                 dict(boundaries=b.tolist(), t=t.tolist()))

  if not ctx.quick:
    ctx.leanchecker(['DinoProofs.Properties.C13'])
  return ctx.finish(RULE, 'theorems are about the Lean model Dino.Sigma; log is external (passed as data); '
                    'float rounding is outside the theorems (tolerance 1e-9 in the correspondence)')
