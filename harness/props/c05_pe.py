"""Primitive-equation probes of C05 (helper module of harness/props/C05.py).

1. `sphere_oracle`: an **independent pointwise evaluation of the continuous sigma-coordinate
   equations** on the sphere.  Every field is a polynomial in the Cartesian coordinates (x, y, z) of
   the unit sphere, extended radially-constant to R^3; the horizontal derivatives are exact
   (forward-mode differentiation of the polynomials: tangential gradient, surface divergence,
   normal component of the curl, Laplace-Beltrami operator), the vertical discretisation is the one
   the code documents (`cumulative_sigma_integral`, `centered_difference`, the averaged centred
   advection with zero boundary values, Durran's alpha weights in omega/p and in the hydrostatic
   sum), re-implemented here from the docstrings.  Nothing of `dinosaur` is imported by the oracle.
   This is a labelled TEST (analytic-oracle differential), not a proof.

   Equations (level k, `v = grad chi + k x grad psi`, `pi = ln p_s`, `G = delta + v.grad pi`,
   `F_k = sum_{j<=k} G_j dsigma_j`):
     d pi/dt    = -F_n
     sigma-dot  = sigma_{k+1/2} F_n - F_k           (interior boundaries; zero at sigma = 0, 1)
     omega/p    = v.grad pi - (alpha_k F_k + alpha_{k-1} F_{k-1}) / dsigma_k
     Phi_k      = g h + R [alpha_k Tv_k + sum_{j>k} (alpha_j + alpha_{j-1}) Tv_j]
     A          = (zeta + f) k x v + sigma-dot dv/dsigma + R Tv grad pi
     d zeta/dt  = -k.curl A          d delta/dt = -div A - lap(v.v/2 + Phi)
     dT/dt      = -v.grad T - sigma-dot dT/dsigma + kappa_eff T omega/p
     dq/dt      = -v.grad q - sigma-dot dq/dsigma
   with Tv = T (dry), T (1 + eps q) (moist), kappa_eff = kappa (1 + eps q) / (1 + (c - 1) q),
   eps = R_v/R - 1, c = Cp_v/Cp.  For the cloud class the pressure-gradient force uses what the
   class documents, `R [T (1 + eps q) - T' (q_l + q_i)]` (condensate loading on T' only; the missing
   T_ref share is the C04 finding on that class and is not re-reported here).

2. balanced families: resting isothermal atmosphere over orography; solid-body zonal rotation in
   gradient-wind balance (derived in `solid_body_state`).
"""
from __future__ import annotations

import itertools

import numpy as np

Q_KEY = 'specific_humidity'
QL_KEY = 'specific_cloud_liquid_water_content'
QI_KEY = 'specific_cloud_ice_water_content'
CLASSES = ('dry', 'time', 'moist', 'cloud')


# ----------------------------------------------------------------------------------------------
# polynomials in (x, y, z): exact algebra on monomial coefficients


class Poly:
  """Polynomial(s) in (x, y, z): `c[..., i, j, k]` is the coefficient of x^i y^j z^k; leading axes are
  levels.  Differentiation is exact (integer factors), products are direct sums of products."""

  def __init__(self, c):
    self.c = np.asarray(c, dtype=float)

  @property
  def size(self):
    return self.c.shape[-1]

  def _pad(self, d):
    if d == self.size:
      return self.c
    pad = [(0, 0)] * (self.c.ndim - 3) + [(0, d - self.size)] * 3
    return np.pad(self.c, pad)

  def __add__(self, o):
    if not isinstance(o, Poly):
      o = Poly.const(o)
    d = max(self.size, o.size)
    return Poly(self._pad(d) + o._pad(d))

  __radd__ = __add__

  def __neg__(self):
    return Poly(-self.c)

  def __sub__(self, o):
    return self + (-o if isinstance(o, Poly) else Poly.const(-np.asarray(o, float)))

  def __rsub__(self, o):
    return (-self) + o

  def __mul__(self, o):
    if not isinstance(o, Poly):
      return Poly(self.c * np.asarray(o, dtype=float)[..., None, None, None])
    a, b = (self, o) if self.size <= o.size else (o, self)
    d = a.size + b.size - 1
    lead = np.broadcast_shapes(a.c.shape[:-3], b.c.shape[:-3])
    out = np.zeros(lead + (d, d, d))
    s = b.size
    for i, j, k in itertools.product(range(a.size), repeat=3):
      aijk = a.c[..., i, j, k]
      if np.any(aijk):
        out[..., i:i + s, j:j + s, k:k + s] += aijk[..., None, None, None] * b.c
    return Poly(out).trim()

  __rmul__ = __mul__

  def trim(self):
    c = self.c
    idx = np.indices(c.shape[-3:]).sum(0)
    nz = np.abs(c).reshape(-1, *c.shape[-3:]).max(0) > 0
    deg = int(idx[nz].max()) if nz.any() else 0
    return Poly(c[..., :deg + 1, :deg + 1, :deg + 1])

  def d(self, axis):
    """d/dx (axis 0), d/dy (1), d/dz (2)."""
    ax = self.c.ndim - 3 + axis
    n = self.size
    if n == 1:
      return Poly(np.zeros_like(self.c))
    sl = [slice(None)] * self.c.ndim
    sl[ax] = slice(1, None)
    shape = [1] * self.c.ndim
    shape[ax] = n - 1
    out = self.c[tuple(sl)] * np.arange(1, n).reshape(shape)
    pad = [(0, 0)] * self.c.ndim
    pad[ax] = (0, 1)
    return Poly(np.pad(out, pad))

  def euler(self):
    """(x d/dx + y d/dy + z d/dz) p: multiplies each monomial by its degree."""
    return Poly(self.c * np.indices(self.c.shape[-3:]).sum(0))

  def __getitem__(self, idx):
    """Index the leading (level) axes."""
    return Poly(self.c[idx])

  def __call__(self, pts):
    """Values at pts[..., 3] -> [levels..., *pts.shape[:-1]]."""
    n = self.size
    flat = np.asarray(pts, dtype=float).reshape(-1, 3)
    pw = [flat[:, a][None, :] ** np.arange(n)[:, None] for a in range(3)]       # [n, P]
    t = np.einsum('...ijk,kP->...ijP', self.c, pw[2])
    t = np.einsum('...ijP,jP->...iP', t, pw[1])
    t = np.einsum('...iP,iP->...P', t, pw[0])
    return t.reshape(self.c.shape[:-3] + pts.shape[:-1])

  @staticmethod
  def const(v):
    return Poly(np.asarray(v, dtype=float)[..., None, None, None])

  @staticmethod
  def coord(axis):
    c = np.zeros((2, 2, 2))
    c[tuple(1 if a == axis else 0 for a in range(3))] = 1.0
    return Poly(c)

  @staticmethod
  def stack(ps):
    d = max(p.size for p in ps)
    return Poly(np.stack([p._pad(d) for p in ps], axis=0))

  @staticmethod
  def random(rng, deg, levels, amp=1.0):
    """Random polynomials of total degree <= deg, [levels]; amplitude ~ amp on the unit sphere."""
    c = rng.standard_normal((levels, deg + 1, deg + 1, deg + 1))
    c *= np.indices((deg + 1,) * 3).sum(0) <= deg
    nm = (deg + 1) * (deg + 2) * (deg + 3) / 6
    return Poly(c * amp / np.sqrt(nm))


X, Y, Z = (Poly.coord(a) for a in range(3))
XYZ = (X, Y, Z)


def vec_dot(a, b):
  return a[0] * b[0] + a[1] * b[1] + a[2] * b[2]


def vec_cross(a, b):
  return (a[1] * b[2] - a[2] * b[1], a[2] * b[0] - a[0] * b[2], a[0] * b[1] - a[1] * b[0])


def grad(f):
  return tuple(f.d(a) for a in range(3))


def grad_s(f):
  """Tangential gradient on the unit sphere (exact at |x| = 1 for every polynomial extension)."""
  e = f.euler()
  return tuple(f.d(a) - XYZ[a] * e for a in range(3))


def lap_s(f):
  """Laplace-Beltrami operator: lap - E^2 - E at |x| = 1."""
  e = f.euler()
  return f.d(0).d(0) + f.d(1).d(1) + f.d(2).d(2) - e.euler() - e


def div_s(a):
  """Surface divergence of a field that is tangent on the sphere: div a - x.(E a)."""
  return a[0].d(0) + a[1].d(1) + a[2].d(2) - vec_dot(XYZ, tuple(c.euler() for c in a))


def curl_n(a):
  """x . curl a (needs tangential derivatives only)."""
  return vec_dot(XYZ, (a[2].d(1) - a[1].d(2), a[0].d(2) - a[2].d(0), a[1].d(0) - a[0].d(1)))


def nodal_points(grid):
  """[nlon, nlat, 3] Cartesian coordinates of the nodal mesh of a real Grid."""
  lon, sin_lat = grid.nodal_mesh
  lon, sin_lat = np.asarray(lon, dtype=float), np.asarray(sin_lat, dtype=float)
  cos_lat = np.sqrt(1 - sin_lat ** 2)
  return np.stack([cos_lat * np.cos(lon), cos_lat * np.sin(lon), sin_lat], axis=-1)


# ----------------------------------------------------------------------------------------------
# the oracle


def vertical_tables(boundaries, R):
  """Layer thickness, centre distances, Durran's alpha and the hydrostatic weights, from the docstrings."""
  b = np.asarray(boundaries, dtype=float)
  n = len(b) - 1
  ds = np.diff(b)
  centers = (b[1:] + b[:-1]) / 2
  ctc = np.diff(centers)
  lc = np.log(centers)
  alpha = np.empty(n)
  alpha[:-1] = (lc[1:] - lc[:-1]) / 2
  alpha[-1] = -lc[-1]
  gw = np.zeros((n, n))
  for j in range(n):
    gw[j, j] = alpha[j]
    for k in range(j + 1, n):
      gw[j, k] = alpha[k] + alpha[k - 1]
  return ds, ctc, alpha, R * gw


def sphere_oracle(cls, boundaries, phys, tref, fields, tracers, pts):
  """Pointwise tendencies of the continuous equations (see the module docstring).

  phys: dict(radius, omega, g, R, Rv, Cpv, kappa); fields: dict(psi, chi, T, pi, h) of `Poly`
  (psi, chi, T with a level axis of length n; pi, h with a level axis of length 1); tracers: name -> Poly [n];
  pts [..., 3] points of the unit sphere.
  Returns (tend, state): name -> array [levels, *pts.shape[:-1]]; `state` holds the exact nodal values of
  vorticity and divergence of the input.
  """
  a, omega, g, R, Rv, cpv, kappa = (phys[k] for k in ('radius', 'omega', 'g', 'R', 'Rv', 'Cpv', 'kappa'))
  n = len(boundaries) - 1
  ds, ctc, alpha, gw = vertical_tables(boundaries, R)
  tref = np.asarray(tref, dtype=float)
  psi, chi, temp, pi, oro = (fields[k] for k in ('psi', 'chi', 'T', 'pi', 'h'))
  eps = Rv / R - 1
  cratio = cpv / (R / kappa)
  sig = np.cumsum(ds)
  lev = lambda w: Poly.const(np.asarray(w, dtype=float))     # one number per level

  zeta = lap_s(psi) * (1 / a ** 2)
  delta = lap_s(chi) * (1 / a ** 2)
  gchi, gpsi = grad_s(chi), grad(psi)
  v = tuple((gc + kx) * (1 / a) for gc, kx in zip(gchi, vec_cross(XYZ, gpsi)))   # x × grad_s psi = x × grad psi
  gpi = tuple(c[0] * (1 / a) for c in grad_s(pi))
  adv = lambda f: vec_dot(v, grad(f)) * (1 / a)               # v . grad_s f = v . grad f  (x . v = 0)
  vgpi = vec_dot(v, gpi)
  big_g = delta + vgpi
  cum = Poly(np.cumsum((big_g * ds).c, axis=0))               # F_k
  f_n = cum[-1]
  sdot = (lev(sig) * f_n - cum)[:-1]                          # interior boundaries
  af = lev(alpha) * cum
  af_up = Poly(np.concatenate([np.zeros_like(af.c[:1]), af.c[:-1]], axis=0))
  omp = vgpi - (af + af_up) * (1 / ds)

  def vadv(x):
    """-(sigma-dot dx/dsigma) at the centres: average of the two adjacent boundaries, zero at sigma = 0, 1."""
    if n == 1:
      return x * 0.0
    wd = sdot * ((x[1:] - x[:-1]) * (1 / ctc))
    z = np.zeros_like(wd.c[:1])
    wd = np.concatenate([z, wd.c, z], axis=0)
    return Poly(-0.5 * (wd[1:] + wd[:-1]))

  moist = cls in ('moist', 'cloud')
  q = tracers[Q_KEY] if moist else None
  tv = temp * (1 + eps * q) if moist else temp
  tv_pg = tv
  if cls == 'cloud':
    tv_pg = tv - (temp - lev(tref)) * (tracers[QL_KEY] + tracers[QI_KEY])
  phi = Poly(np.einsum('ab,b...->a...', gw, tv._pad(tv.size))) + oro[0] * g
  energy = vec_dot(v, v) * 0.5 + phi
  kxv = vec_cross(XYZ, v)
  absvort = zeta + Z * (2 * omega)
  flux = tuple(absvort * kxv[c] - vadv(v[c]) + (tv_pg * R) * gpi[c] for c in range(3))

  ev = lambda p: p(pts) if p.c.ndim == 4 else p(pts)[None]
  t_omp = ev(temp * omp)
  if moist:
    qn = ev(q)
    kap = kappa * (1 + eps * qn) / (1 + (cratio - 1) * qn)
  else:
    kap = kappa
  tend = dict(
      vorticity=ev(curl_n(flux) * (-1 / a)),
      divergence=ev(div_s(flux) * (-1 / a) - lap_s(energy) * (1 / a ** 2)),
      temperature_variation=ev(vadv(temp) - adv(temp)) + kap * t_omp,
      log_surface_pressure=ev(-f_n),
  )
  for k, x in tracers.items():
    tend['tr:' + k] = ev(vadv(x) - adv(x))
  return tend, dict(vorticity=ev(zeta), divergence=ev(delta))


def shallow_water_oracle(radius, omega, densities, ref_potential, fields, pts):
  """Pointwise tendencies of the continuous layered shallow-water equations for polynomial states.

    d zeta/dt = -div((zeta + f) v)       d delta/dt = k.curl((zeta + f) v) - lap(p + v.v/2)
    d Phi/dt  = -div(Phi v) - Phi_ref delta,
    p_k = Phi_k + sum_{j != k} min(rho_j / rho_k, 1) Phi_j + orography      (hydrostatic stack of layers)

  fields: dict(psi, chi, phi: Poly [layers]; h: Poly [1] or None).  Returns (tend, state) of nodal values.
  """
  a = radius
  rho = np.asarray(densities, dtype=float)
  n = len(rho)
  psi, chi, phi = fields['psi'], fields['chi'], fields['phi']
  zeta = lap_s(psi) * (1 / a ** 2)
  delta = lap_s(chi) * (1 / a ** 2)
  v = tuple((gc + kx) * (1 / a) for gc, kx in zip(grad_s(chi), vec_cross(XYZ, grad(psi))))
  absvort = zeta + Z * (2 * omega)
  flux = tuple(absvort * c for c in v)
  w = np.array([[1.0 if i == j else min(rho[j] / rho[i], 1.0) for j in range(n)] for i in range(n)])
  press = Poly(np.einsum('ab,b...->a...', w, phi.c))
  if fields.get('h') is not None:
    press = press + fields['h'][0]
  energy = press + vec_dot(v, v) * 0.5
  pflux = tuple(phi * c for c in v)
  ev = lambda p: p(pts)
  tend = dict(vorticity=ev(div_s(flux) * (-1 / a)),
              divergence=ev(curl_n(flux) * (1 / a) - lap_s(energy) * (1 / a ** 2)),
              potential=ev(div_s(pflux) * (-1 / a) - Poly.const(np.asarray(ref_potential, float)) * delta))
  return tend, dict(vorticity=ev(zeta), divergence=ev(delta), potential=ev(phi))


# ----------------------------------------------------------------------------------------------
# the real classes


class Env:
  """Modules of the real code and a cache of grids (JAX compiles per shape: reuse objects)."""

  def __init__(self):
    import jax
    import jax.numpy as jnp
    from dinosaur import coordinate_systems, primitive_equations, scales, sigma_coordinates, spherical_harmonic
    self.jax, self.jnp, self.pe, self.sh, self.sc, self.cs, self.scales = (
        jax, jnp, primitive_equations, spherical_harmonic, sigma_coordinates, coordinate_systems, scales)
    pe = primitive_equations
    self.CL = dict(dry=pe.PrimitiveEquations, time=pe.PrimitiveEquationsWithTime, moist=pe.MoistPrimitiveEquations,
                   cloud=pe.MoistPrimitiveEquationsWithCloudMoisture)
    self._grids = {}

  def grid(self, wn, spacing='gauss', impl='real', radius=1.0, dealiasing='quadratic'):
    key = (wn, spacing, impl, float(radius), dealiasing)
    if key not in self._grids:
      cls = self.sh.RealSphericalHarmonics if impl == 'real' else self.sh.FastSphericalHarmonics
      self._grids[key] = self.sh.Grid.with_wavenumbers(wn, dealiasing=dealiasing, latitude_spacing=spacing,
                                                       spherical_harmonics_impl=cls, radius=radius)
    return self._grids[key]

  def specs(self, rng, radius, si=False):
    pe = self.pe
    if si:
      return pe.PrimitiveEquationsSpecs.from_si()
    R = float(rng.uniform(0.5, 3.0))
    return pe.PrimitiveEquationsSpecs(
        radius=float(radius), angular_velocity=float(rng.uniform(0.3, 1.5)),
        gravity_acceleration=float(rng.uniform(0.5, 2.0)), ideal_gas_constant=R,
        water_vapor_gas_constant=R * float(rng.uniform(1.2, 2.0)),
        water_vapor_isobaric_heat_capacity=R * float(rng.uniform(3.0, 9.0)),
        kappa=float(rng.choice([2 / 7, rng.uniform(0.1, 0.5)])), scale=self.scales.DEFAULT_SCALE)

  def total(self, cls, tref, oro, coords, specs, state_kw):
    """explicit + implicit of the real class -> dict name -> modal array (tracers as 'tr:<name>')."""
    jnp, pe = self.jnp, self.pe
    eq = self.CL[cls](np.asarray(tref, float), jnp.asarray(oro), coords, specs)
    kw = {k: (jnp.asarray(v) if k != 'tracers' else {a: jnp.asarray(b) for a, b in v.items()})
          for k, v in state_kw.items()}
    s = pe.State(**kw) if cls == 'dry' else pe.StateWithTime(sim_time=0.25, **kw)
    e, i = eq.explicit_terms(s), eq.implicit_terms(s)
    out = {f: np.asarray(getattr(e, f)) + np.asarray(getattr(i, f))
           for f in ('vorticity', 'divergence', 'temperature_variation', 'log_surface_pressure')}
    out.update({'tr:' + k: np.asarray(e.tracers[k]) + np.asarray(i.tracers[k]) for k in e.tracers})
    out['parts'] = (e, i)
    if cls != 'dry':
      out['sim_time'] = float(e.sim_time) + float(i.sim_time)
    return out


def phys_of(specs):
  return dict(radius=specs.radius, omega=specs.angular_velocity, g=specs.g, R=specs.R, Rv=specs.R_vapor,
              Cpv=specs.Cp_vapor, kappa=specs.kappa)


def amax(x):
  x = np.asarray(x, dtype=float)
  return float(np.abs(x).max()) if x.size else 0.0
