"""Encoding of the `Dynamics` line protocol (`dyn F <op> <cfg…> <args…>`, lean/Dino/DynamicsDrv.lean).

Shared by the properties that are stated over `Dino.Dynamics` (C04, C05, C10, C11, C12, C20-drag).
The horizontal linear operators of the real `spherical_harmonic.Grid` are extracted as explicit
matrices by applying each of them to the unit vectors; the model evaluates its (nonlinear)
tendencies with these matrices.
"""
from __future__ import annotations

import numpy as np

from common import fvec, fbits, fmat, unfvec, unfmat, unfbits

Q_KEY = 'specific_humidity'
QL_KEY = 'specific_cloud_liquid_water_content'
QI_KEY = 'specific_cloud_ice_water_content'


def _rows(x):
  """[levels, ...] array -> 2-D [levels, rest]; also for zero levels (sigma_dot of a one-layer column)."""
  x = np.asarray(x)
  return x.reshape(x.shape[0], int(np.prod(x.shape[1:])))


def op_matrix(f, in_shape, out_size):
  """Matrix (out_size x in_size) of the linear map `f` acting on arrays [..., *in_shape]."""
  n_in = int(np.prod(in_shape))
  eye = np.eye(n_in).reshape((n_in,) + tuple(in_shape))
  out = np.asarray(f(eye)).reshape(n_in, out_size)
  return out.T.copy()


class DynCfg:
  """The 19 configuration tokens for one (grid, vertical, specs, T_ref, orography) object."""

  def __init__(self, grid, vertical, specs, tref, orography, include_vertical_advection=True):
    import jax.numpy as jnp
    self.grid, self.vertical, self.specs = grid, vertical, specs
    ms, ns = grid.modal_shape, grid.nodal_shape
    self.ms, self.ns = ms, ns
    self.nm, self.nn, self.nl = int(np.prod(ms)), int(np.prod(ns)), int(ms[1])
    self.layers = vertical.layers
    J = jnp.asarray
    mats = [
        op_matrix(lambda x: grid.to_nodal(J(x)), ms, self.nn),
        op_matrix(lambda z: grid.to_modal(J(z)), ns, self.nm),
        op_matrix(lambda x: grid.d_dlon(J(x)), ms, self.nm),
        op_matrix(lambda x: grid.cos_lat_d_dlat(J(x)), ms, self.nm),
        op_matrix(lambda x: grid.sec_lat_d_dlat_cos2(J(x)), ms, self.nm),
        op_matrix(lambda x: grid.laplacian(J(x)), ms, self.nm),
        op_matrix(lambda x: grid.inverse_laplacian(J(x)), ms, self.nm),
        op_matrix(lambda x: grid.clip_wavenumbers(J(x)), ms, self.nm),
    ]
    self.mats = dict(zip(['to_nodal', 'to_modal', 'd_dlon', 'cos_lat_d_dlat', 'sec_lat_d_dlat_cos2',
                          'laplacian', 'inverse_laplacian', 'clip'], mats))
    lidx = np.tile(np.arange(ms[1]), ms[0])
    _, sin_lat = grid.nodal_mesh
    tables = [np.broadcast_to(np.asarray(grid.cos_lat), ns).ravel(),
              np.broadcast_to(np.asarray(grid.sec2_lat), ns).ravel(),
              np.broadcast_to(np.asarray(sin_lat), ns).ravel()]
    from dinosaur import primitive_equations as pe
    one_modal = np.zeros(ms)
    one_modal[0, 0] = pe._CONSTANT_NORMALIZATION_FACTOR
    consts = [grid.radius, specs.angular_velocity, specs.g, specs.R, specs.R_vapor, specs.Cp_vapor, specs.kappa]
    self.tokens = ' '.join(
        [f'{self.nm},{self.nn},{self.nl}'] + [fmat(m) for m in mats] +
        [','.join(str(int(i)) for i in lidx), fmat(tables), fvec(one_modal.ravel()), fvec(consts),
         fvec(grid.laplacian_eigenvalues), fvec(vertical.boundaries), fvec(np.log(vertical.centers)),
         fvec(np.asarray(tref)), fvec(np.asarray(orography).ravel()), '1' if include_vertical_advection else '0'])

  # ---- encoders ----
  def col(self, x):
    """[levels, a, b] array -> matrix token (rows = levels)."""
    x = np.asarray(x)
    return fmat(_rows(x))

  def tracers(self, tr):
    if not tr:
      return '_'
    return '&'.join(f'{k}={self.col(v)}' for k, v in tr.items())

  def state(self, s, sim_time=0.0):
    return '|'.join([self.col(s.vorticity), self.col(s.divergence), self.col(s.temperature_variation),
                     fvec(np.asarray(s.log_surface_pressure).ravel()), fbits(sim_time), self.tracers(s.tracers)])

  def diag(self, a):
    return '|'.join([self.col(a.vorticity), self.col(a.divergence), self.col(a.temperature_variation),
                     self.col(a.cos_lat_u[0]), self.col(a.cos_lat_u[1]), self.col(a.sigma_dot_explicit),
                     self.col(a.sigma_dot_full), fvec(np.asarray(a.cos_lat_grad_log_sp[0]).ravel()),
                     fvec(np.asarray(a.cos_lat_grad_log_sp[1]).ravel()), self.col(a.u_dot_grad_log_sp),
                     self.tracers(a.tracers)])

  def line(self, op, *args):
    return f'dyn F {op} {self.tokens} ' + ' '.join(args)

  # ---- decoders ----
  @staticmethod
  def un_col(s):
    return np.asarray(unfmat(s), dtype=float) if s != '_' else np.zeros((0, 0))

  @staticmethod
  def un_tracers(s):
    if s == '_':
      return {}
    out = {}
    for kv in s.split('&'):
      k, v = kv.split('=')
      out[k] = DynCfg.un_col(v)
    return out

  @staticmethod
  def un_state(s):
    z, d, t, p, tm, tr = s.split('|')
    return dict(vorticity=DynCfg.un_col(z), divergence=DynCfg.un_col(d), temperature_variation=DynCfg.un_col(t),
                log_surface_pressure=np.asarray(unfvec(p)), sim_time=unfbits(tm), tracers=DynCfg.un_tracers(tr))

  @staticmethod
  def un_diag(s):
    z, d, t, u, v, sde, sdf, gu, gv, udg, tr = s.split('|')
    U = DynCfg.un_col
    return dict(vorticity=U(z), divergence=U(d), temperature_variation=U(t), u=U(u), v=U(v),
                sigma_dot_explicit=U(sde), sigma_dot_full=U(sdf), gu=np.asarray(unfvec(gu)),
                gv=np.asarray(unfvec(gv)), u_dot_grad_log_sp=U(udg), tracers=DynCfg.un_tracers(tr))


def flat_state(s, sim_time=None):
  """Real `State`/`StateWithTime` -> dict of 2-D arrays comparable with `un_state`."""
  f = _rows
  out = dict(vorticity=f(s.vorticity), divergence=f(s.divergence), temperature_variation=f(s.temperature_variation),
             log_surface_pressure=np.asarray(s.log_surface_pressure).ravel(),
             tracers={k: f(v) for k, v in s.tracers.items()})
  st = getattr(s, 'sim_time', sim_time)
  if st is not None:
    out['sim_time'] = float(st)
  return out


def flat_diag(a):
  f = _rows
  return dict(vorticity=f(a.vorticity), divergence=f(a.divergence), temperature_variation=f(a.temperature_variation),
              u=f(a.cos_lat_u[0]), v=f(a.cos_lat_u[1]), sigma_dot_explicit=f(a.sigma_dot_explicit),
              sigma_dot_full=f(a.sigma_dot_full), gu=np.asarray(a.cos_lat_grad_log_sp[0]).ravel(),
              gv=np.asarray(a.cos_lat_grad_log_sp[1]).ravel(), u_dot_grad_log_sp=f(a.u_dot_grad_log_sp),
              tracers={k: f(v) for k, v in a.tracers.items()})


def compare_struct(ctx, op, inp, impl, model, rtol=1e-9, fields=None):
  """Field-by-field `corr_float` of two dicts produced by flat_* / un_*."""
  ok = True
  for k, v in impl.items():
    if fields is not None and k not in fields:
      continue
    if k == 'tracers':
      if sorted(v) != sorted(model.get('tracers', {})):
        ctx.corr_mismatch(op + '.tracers', inp, sorted(v), sorted(model.get('tracers', {})), 'keys')
        ok = False
        continue
      for name, arr in v.items():
        ok &= ctx.corr_float(f'{op}.tracers[{name}]', inp, arr, model['tracers'][name], rtol=rtol)
    elif k == 'sim_time':
      ok &= ctx.corr_float(f'{op}.sim_time', inp, [v], [model[k]], rtol=rtol)
    else:
      ok &= ctx.corr_float(f'{op}.{k}', inp, v, model[k], rtol=rtol)
  return ok
