"""C09 — the two spherical-harmonic implementations are observationally equivalent.

Lean: DinoProofs/Properties/C09.lean over the models Dino/SH.lean, Dino/Fourier.lean and
Dino/SHEquiv.lean (the re-indexing iota between the two coefficient layouts).
Tie: both model implementations (real layout, fast layout unstacked and stacked) are run on the basis
arrays and inputs of the real classes (float64, 1e-9) for a table of configurations; the layout
arithmetic (shapes, paddings, masks, axes, defaults) is compared exactly.
Sentinel probes evaluate the property itself on the real code: every public `Grid` method (and, in
the thorough tier, the equation classes) with the implementation switched and each option toggled
must agree after iota.
"""
import functools
import itertools

import numpy as np

import common
from common import fvec, fbits, fmat, unfvec, unfmat, ivec, univec
import dinoutil

TOL = 1e-10
RULE = ('grids: (M, L, nlon, nlat) from a table with M 1..8, L = M..M+3, nlon >= 2M-1, three latitude '
        'spacings, longitude offset 0 / 0.3, radius None / 1 / 2.5 / 6.37e6; fast layout with '
        'base_shape_multiple None,1,2,3,4,8, stacked_fourier_transforms None/True/False, '
        'reverse_einsum_arg_order None/True/False, transform_precision tensorfloat32/float32/highest, '
        'and a single-device spmd mesh; spectra: every kind of unit spectrum (m=0, +m, -m, top l), random '
        'masked and unmasked spectra, leading axes (), (3,), (2,2); a case is non-trivial when the fast '
        'layout differs from the real one by more than the inserted row (padding) or an option is not '
        'the default, or the spectrum has >= 2 non-zero coefficients; distinct = distinct '
        '(configuration, input) hashes')

# (M, L, nlon, nlat)
SMALL = [(1, 1, 1, 1), (1, 2, 2, 2), (2, 2, 3, 2), (2, 3, 5, 3), (3, 4, 8, 4), (3, 6, 7, 5), (4, 5, 12, 6),
         (5, 6, 16, 8), (4, 7, 9, 7)]
LARGE = [(8, 9, 24, 12), (6, 9, 20, 10), (11, 12, 32, 16), (16, 17, 48, 24), (22, 23, 64, 32)]
SPACINGS = ['gauss', 'equiangular', 'equiangular_with_poles']


def tstr(t):
  """3-D array -> matrices separated by |"""
  t = np.asarray(t)
  return '|'.join(fmat(m) for m in t) if t.shape[0] else '_'


def untstr(s):
  return [] if s == '_' else [unfmat(m) for m in s.split('|')]


def bmat(s):
  return [] if s == '_' else [[] if r == '_' else [int(v) for v in r.split(',')] for r in s.split(';')]


class Pair:
  """A real grid and a fast grid over the same truncation."""

  def __init__(self, sh, dims, spacing='gauss', offset=0.0, radius=None, base=None, stacked=None,
               reverse=None, precision=None, mesh=None):
    M, L, N, J = dims
    self.dims, self.spacing, self.offset, self.radius = dims, spacing, offset, radius
    self.opts = dict(base=base, stacked=stacked, reverse=reverse, precision=precision, mesh=mesh is not None)
    kw = {}
    if base is not None:
      kw['base_shape_multiple'] = base
    if stacked is not None:
      kw['stacked_fourier_transforms'] = stacked
    if reverse is not None:
      kw['reverse_einsum_arg_order'] = reverse
    if precision is not None:
      kw['transform_precision'] = precision
    impl = functools.partial(sh.FastSphericalHarmonics, **kw) if kw else sh.FastSphericalHarmonics
    g = dict(longitude_wavenumbers=M, total_wavenumbers=L, longitude_nodes=N, latitude_nodes=J,
             latitude_spacing=spacing, longitude_offset=offset, radius=radius)
    self.gr = sh.Grid(**g)
    self.gf = sh.Grid(**g, spherical_harmonics_impl=impl, spmd_mesh=mesh)
    self.R, self.Lw = self.gf.modal_shape
    self.Nn, self.Jn = self.gf.nodal_shape
    self.pr, self.pc = self.gf.modal_padding
    self.pn, self.pj = self.gf.nodal_padding

  def desc(self):
    return dict(dims=list(self.dims), spacing=self.spacing, offset=self.offset, radius=self.radius, **self.opts)

  def key(self):
    return repr(sorted(self.desc().items()))

  def nontrivial(self):
    o = self.opts
    return bool(self.pr or self.pc or self.pn or self.pj or o['stacked'] is not None or o['reverse'] is not None
                or o['precision'] is not None or o['mesh'])

  # ---- the re-indexing, on arrays with any leading axes
  def iota(self, x):
    x = np.asarray(x)
    M, L, _, _ = self.dims
    out = np.zeros(x.shape[:-2] + (self.R, self.Lw), dtype=x.dtype)
    out[..., 0, :L] = x[..., 0, :]
    out[..., 2:2 * M, :L] = x[..., 1:, :]
    return out

  def uniota(self, y):
    y = np.asarray(y)
    M, L, _, _ = self.dims
    return np.concatenate([y[..., 0:1, :L], y[..., 2:2 * M, :L]], axis=-2)

  def padn(self, z):
    z = np.asarray(z)
    _, _, N, J = self.dims
    out = np.zeros(z.shape[:-2] + (self.Nn, self.Jn), dtype=z.dtype)
    out[..., :N, :J] = z
    return out

  def unpadn(self, z):
    _, _, N, J = self.dims
    return np.asarray(z)[..., :N, :J]

  def modal_padding_mask(self, leak_col=False):
    """True where a fast modal array must be exactly zero."""
    M, L, _, _ = self.dims
    m = np.zeros((self.R, self.Lw), dtype=bool)
    m[1, :] = True
    m[2 * M:, :] = True
    m[:, L:] = True
    if leak_col and self.pc:
      m[:2 * M, L] = False
    return m

  def nodal_padding_mask(self):
    _, _, N, J = self.dims
    m = np.ones((self.Nn, self.Jn), dtype=bool)
    m[:N, :J] = False
    return m


def make_mesh(jax):
  devs = np.array(jax.devices()[:1]).reshape(1, 1, 1)
  return jax.sharding.Mesh(devs, ('z', 'x', 'y'))


def pair_stream(ctx, sh, jax, n, table, with_mesh=True):
  """Corner configurations first, then random ones."""
  rng = ctx.rng
  fixed = [
      dict(dims=(1, 1, 1, 1)), dict(dims=(1, 2, 2, 2), base=3), dict(dims=(2, 2, 3, 2), base=2, stacked=True),
      dict(dims=(2, 3, 5, 3), base=4, stacked=False), dict(dims=(3, 4, 8, 4), base=8, stacked=True, radius=2.5),
      dict(dims=(5, 6, 16, 8), base=8, stacked=False, spacing='equiangular', offset=0.3),
      dict(dims=(4, 5, 12, 6), base=3, stacked=True, reverse=True, precision='highest',
           spacing='equiangular_with_poles', radius=6.37e6),
      dict(dims=(3, 6, 7, 5), base=1, stacked=None, reverse=False, precision='float32'),
      dict(dims=(4, 7, 9, 7), base=None, stacked=True),
  ]
  if with_mesh:
    fixed.append(dict(dims=(3, 4, 8, 4), base=2, stacked=True, reverse=True, mesh=True))
    fixed.append(dict(dims=(4, 5, 12, 6), base=3, stacked=False, reverse=False, mesh=True))
  out = []
  for i in range(n):
    if i < len(fixed):
      c = dict(fixed[i])
    else:
      c = dict(dims=table[int(rng.integers(len(table)))],
               spacing=str(rng.choice(SPACINGS)),
               offset=float(rng.choice([0.0, 0.3])),
               radius=[None, 1.0, 2.5, 6.37e6][int(rng.integers(4))],
               base=[None, 1, 2, 3, 4, 8][int(rng.integers(6))],
               stacked=[None, True, False][int(rng.integers(3))],
               reverse=[None, True, False][int(rng.integers(3))],
               precision=[None, 'tensorfloat32', 'float32', 'highest'][int(rng.integers(4))],
               mesh=bool(with_mesh and rng.random() < 0.15))
    if c.pop('mesh', False):
      c['mesh'] = make_mesh(jax)
    out.append(Pair(sh, **c))
  return out


def spectra(rng, pair, kinds=None):
  """Structured spectra in the real layout: (name, array)."""
  M, L, _, _ = pair.dims
  R = 2 * M - 1
  mask = pair.gr.mask
  out = []

  def unit(r, l):
    x = np.zeros((R, L))
    x[r, l] = 1.0
    return x
  out.append(('unit-00', unit(0, 0)))
  out.append(('unit-0top', unit(0, L - 1)))
  if M >= 2:
    out.append(('unit-cos1', unit(1, min(1, L - 1))))
    out.append(('unit-sin-top', unit(R - 1, L - 1)))
    out.append(('unit-cos-top-diag', unit(R - 2, M - 1)))
  out.append(('random-masked', rng.standard_normal((R, L)) * mask))
  out.append(('random-unmasked', rng.standard_normal((R, L))))
  out.append(('random-batch3', rng.standard_normal((3, R, L)) * mask))
  out.append(('random-batch22', rng.standard_normal((2, 2, R, L)) * mask))
  if kinds is not None:
    out = [o for o in out if o[0] in kinds]
  return out


def run(ctx: common.Ctx):
  jax = common.setup_jax()
  import jax.numpy as jnp
  from dinosaur import spherical_harmonic as sh
  from dinosaur import associated_legendre as al
  from dinosaur import fourier

  ctx.lean('DinoProofs.Properties.C09', 'C09.txt',
           extra_files=['DinoProofs/Lemmas/SHEquiv.lean', 'DinoProofs/Lemmas/SH.lean', 'DinoProofs/Lemmas/Lin.lean',
                        'Dino/SHEquiv.lean', 'Dino/SHEquivDrv.lean', 'Dino/SH.lean', 'Dino/Fourier.lean',
                        'Dino/Lin.lean'])

  rng = ctx.rng
  lines, checks = [], []   # checks: (op, inp, impl_value, kind)

  def add(line, op, inp, impl, kind='mat'):
    lines.append(line)
    checks.append((op, inp, impl, kind))

  correspondence(ctx, jax, jnp, sh, al, fourier, add)

  outs = ctx.model(lines)
  for (op, inp, impl, kind), o in zip(checks, outs):
    if o == 'bad-op':
      ctx.corr_mismatch(op, inp, impl, o, 'model rejected the operation')
      continue
    if kind == 'str':
      ctx.corr_exact(op, inp, impl, o)
    elif kind == 'str-ok':
      ctx.corr_exact(op, inp, 'ok', 'value-error' if o == 'value-error' else 'ok')
    elif kind == 'ints':
      ctx.corr_exact(op, inp, [int(v) for v in impl], univec(o))
    elif kind == 'bmat':
      ctx.corr_exact(op, inp, [[int(v) for v in r] for r in np.asarray(impl).tolist()], bmat(o))
    elif kind == 'exactmat':
      if o == 'value-error':
        ctx.corr_mismatch(op, inp, impl, o, 'model raised')
      else:
        got = np.asarray(unfmat(o), dtype=float)
        ctx.corr_exact(op, inp, np.asarray(impl, dtype=float).tolist(), got.reshape(np.asarray(impl).shape).tolist()
                       if got.size == np.asarray(impl).size else got.tolist())
    elif kind == 'ten':
      if o == 'value-error':
        ctx.corr_mismatch(op, inp, impl, o, 'model raised')
      else:
        ctx.corr_float(op, inp, np.asarray(impl), np.asarray(untstr(o), dtype=float))
    elif kind == 'vec':
      ctx.corr_float(op, inp, np.asarray(impl), np.asarray(unfvec(o), dtype=float))
    else:
      if o == 'value-error':
        ctx.corr_mismatch(op, inp, impl, o, 'model raised')
      else:
        ctx.corr_float(op, inp, np.asarray(impl), np.asarray(unfmat(o), dtype=float))

  probes_grid(ctx, jax, jnp, sh)
  if not ctx.quick:
    probes_equations(ctx, jax, jnp, sh)
    ctx.leanchecker(['DinoProofs.Properties.C09'])
  return ctx.finish(RULE, 'theorems are about the Lean models Dino.SH / Dino.Fourier / Dino.SHEquiv over any '
                    'commutative ring (fields for the eigenvalue operations); sin, cos, sqrt and the Legendre '
                    'table are external (any table of the right shape); float rounding, XLA and the precision '
                    'hint are outside the theorems (tolerance 1e-9 in the correspondence, 1e-10 in the probes); '
                    'sharded meshes with more than one device belong to C07')


# ---------------------------------------------------------------------------- correspondence


def correspondence(ctx, jax, jnp, sh, al, fourier, add):
  rng = ctx.rng
  # --- layout arithmetic (exact), including sizes far beyond the transform table
  shape_cases = [(1, 1, 1, 1), (1, 2, 2, 2), (2, 2, 3, 2), (5, 6, 16, 8), (22, 23, 64, 32), (43, 44, 128, 64),
                 (128, 129, 384, 192), (129, 130, 388, 194), (256, 257, 768, 384), (257, 258, 772, 386),
                 (512, 513, 1536, 768), (171, 172, 512, 256)]
  nshape = ctx.n(60, 600)
  for si in range(nshape):
    if si < len(shape_cases):
      M, L, N, J = shape_cases[si]
    else:
      M = int(rng.integers(1, 400))
      L = M + int(rng.integers(0, 4))
      N = int(rng.integers(max(1, M), 4 * M + 2))
      J = int(rng.integers(1, 2 * M + 2))
    base = [None, 0, 1, 2, 3, 4, 5, 8, 16, 128][si % 10]
    kw = {} if base is None else dict(base_shape_multiple=base)
    with ctx.impl('shape-exception', dict(M=M, L=L, N=N, J=J, base=base)):
      f = sh.FastSphericalHarmonics(longitude_wavenumbers=M, total_wavenumbers=L, longitude_nodes=N,
                                    latitude_nodes=J, **kw)
      r = sh.RealSphericalHarmonics(longitude_wavenumbers=M, total_wavenumbers=L, longitude_nodes=N,
                                    latitude_nodes=J)
      inp = dict(M=M, L=L, N=N, J=J, base=base)
      ctx.case(('shape', M, L, N, J, base), nontrivial=base not in (None, 0, 1))
      ctx.dist[f'shape:base={base}'] += 1
      add(f'sh9 S shape {M} {L} {N} {J} {base or 0} 1 1', 'FastSphericalHarmonics.modal_shape/nodal_shape/paddings',
          inp, list(f.modal_shape) + list(f.nodal_shape) + list(f.modal_padding) + list(f.nodal_padding), 'ints')
      add(f'sh9 S realshape {M} {L}', 'RealSphericalHarmonics.modal_shape', inp, list(r.modal_shape), 'ints')
      add(f'sh9 S stackdefault {M}', 'FastSphericalHarmonics.__post_init__ stacked default', inp,
          '1' if f.stacked_fourier_transforms else '0', 'str')
      # the property: padded shapes are the smallest admissible multiples
      b = base or 1
      ms, ns = f.modal_shape, f.nodal_shape
      ok = (ms[0] % (2 * b) == 0 and ms[1] % b == 0 and ns[0] % b == 0 and ns[1] % b == 0 and
            0 <= ms[0] - 2 * M < 2 * b and 0 <= ms[1] - L < b and 0 <= ns[0] - N < b and 0 <= ns[1] - J < b)
      ctx.expect(ok, 'padding-minimal', f'padded shapes {ms} {ns} are not the least multiples of {b}', inp)
      if si < 24 and M <= 64:
        pr, pc = f.modal_padding
        add(f'sh9 S maskR {M} {L}', 'RealSphericalHarmonics.mask', inp, r.mask, 'bmat')
        add(f'sh9 S maskF {M} {L} {pr} {pc}', 'FastSphericalHarmonics.mask', inp, f.mask, 'bmat')
        add(f'sh9 S maskIota {M} {L} {pr} {pc}', 'FastSphericalHarmonics.mask = iota(real mask)', inp, f.mask, 'bmat')
        add(f'sh9 S mvalsR {M}', 'RealSphericalHarmonics.modal_axes[0]', inp, r.modal_axes[0], 'ints')
        add(f'sh9 S mvalsF {M} {pr}', 'FastSphericalHarmonics.modal_axes[0]', inp, f.modal_axes[0], 'ints')
        add(f'sh9 S lvals {L} {pc}', 'FastSphericalHarmonics.modal_axes[1]', inp, f.modal_axes[1], 'ints')
        add(f'sh9 S lvals {L} 0', 'RealSphericalHarmonics.modal_axes[1]', inp, r.modal_axes[1], 'ints')
  for x, m in [(0, 1), (1, 1), (7, 1), (7, 2), (8, 2), (9, 4), (16, 16), (17, 16), (1, 128), (300, 7)]:
    add(f'sh9 S roundto {x} {m}', '_round_to_multiple', dict(x=x, m=m), str(sh._round_to_multiple(x, m)), 'str')

  # --- transforms, derivative and index-wise operations on the small grids
  npairs = ctx.n(14, 120)
  pairs = pair_stream(ctx, sh, jax, npairs, SMALL, with_mesh=False)
  for pi, pair in enumerate(pairs):
    M, L, N, J = pair.dims
    gr, gf = pair.gr, pair.gf
    inp0 = pair.desc()
    for k, v in inp0.items():
      if k != 'dims':
        ctx.dist[f'corr:{k}={v}'] += 1
    ctx.dist[f'corr:dims={pair.dims}'] += 1
    with ctx.impl('corr-exception', inp0):
      br, bf = gr.spherical_harmonics.basis, gf.spherical_harmonics.basis
      stacked = bool(gf.spherical_harmonics.stacked_fourier_transforms)
      ff = np.asarray(bf.f)
      if stacked:
        add(f'sh9 F fbasisF {M} {N} {pair.pn} {pair.pr} s0', 'FastSphericalHarmonics.basis.f[:,0,:] (stacked)', inp0,
            ff[:, 0, :])
        add(f'sh9 F fbasisF {M} {N} {pair.pn} {pair.pr} s1', 'FastSphericalHarmonics.basis.f[:,1,:] (stacked)', inp0,
            ff[:, 1, :])
        ff = np.reshape(ff, (ff.shape[0], -1), order='F')
      else:
        add(f'sh9 F fbasisF {M} {N} {pair.pn} {pair.pr} all', 'FastSphericalHarmonics.basis.f', inp0, ff)
      add(f'sh9 F fbasisR {M} {N}', 'RealSphericalHarmonics.basis.f', inp0, br.f)
      x_nodes, _ = sh.get_latitude_nodes(J, pair.spacing)
      P = al.evaluate(n_m=M, n_l=L, x=x_nodes)
      add(f'sh9 F pbasisR {tstr(P)}', 'RealSphericalHarmonics.basis.p', inp0, br.p, 'ten')
      add(f'sh9 F pbasisF {pair.pr} {pair.pj} {pair.pc} {J} {L} {tstr(P)}', 'FastSphericalHarmonics.basis.p', inp0,
          bf.p, 'ten')
      add(f'sh9 F wbasisF {pair.pj} {fvec(br.w)}', 'FastSphericalHarmonics.basis.w', inp0, bf.w, 'vec')
      bR = f'{fmat(br.f)} {tstr(br.p)} {fvec(br.w)}'
      bF = f'{fmat(ff)} {tstr(bf.p)} {fvec(bf.w)}'
      fk = 'FS' if stacked else 'F'
      r2 = float(gr.radius) ** 2
      for name, x in spectra(rng, pair, kinds=('unit-00', 'unit-sin-top', 'unit-cos-top-diag', 'random-masked',
                                               'random-unmasked') if pi >= 4 or not ctx.quick else None):
        if x.ndim != 2:
          continue
        xf = pair.iota(x)
        x2, xf2 = x, xf
        inp = dict(inp0, spectrum=name, x=x.tolist())
        ctx.case((pair.key(), name, x.tobytes()), nontrivial=pair.nontrivial() or np.count_nonzero(x) >= 2,
                 sample=dict(inp0, spectrum=name))
        ctx.dist[f'corr:spectrum={name}'] += 1
        add(f'sh9 F iota {L} {pair.pr} {pair.pc} {fmat(x)}', 'iota (harness re-indexing)', inp, xf, 'exactmat')
        add(f'sh9 F uniota {2 * M} {L} {fmat(xf)}', 'uniota (harness re-indexing)', inp, x, 'exactmat')
        zr = np.asarray(gr.to_nodal(jnp.asarray(x)))
        zf = np.asarray(gf.to_nodal(jnp.asarray(xf)))
        add(f'sh9 F synth R {bR} {fmat(x)}', 'RealSphericalHarmonics.inverse_transform', inp, zr)
        add(f'sh9 F synth {fk} {bF} {fmat(xf)}', f'FastSphericalHarmonics.inverse_transform[{fk}]', inp, zf)
        # the other contraction order of the model on the same data (T9.4 at Float)
        add(f'sh9 F synth {"F" if stacked else "FS"} {bF} {fmat(xf)}',
            f'FastSphericalHarmonics.inverse_transform[{fk}] vs the other model path', inp, zf)
        z = zr if name.startswith('unit') else rng.standard_normal((N, J))
        zp = pair.padn(z)
        add(f'sh9 F padn {pair.pn} {pair.pj} {J} {fmat(z)}', 'pad (harness re-indexing)', inp, zp, 'exactmat')
        add(f'sh9 F unpadn {N} {J} {fmat(zp)}', 'unpad (harness re-indexing)', inp, z, 'exactmat')
        yr = np.asarray(gr.to_modal(jnp.asarray(z)))
        yf = np.asarray(gf.to_modal(jnp.asarray(zp)))
        inz = dict(inp0, z=z.tolist())
        add(f'sh9 F ana R {L} {bR} {fmat(z)}', 'RealSphericalHarmonics.transform', inz, yr)
        add(f'sh9 F ana {fk} {pair.Lw} {bF} {fmat(zp)}', f'FastSphericalHarmonics.transform[{fk}]', inz, yf)
        add(f'sh9 F ana {"F" if stacked else "FS"} {pair.Lw} {bF} {fmat(zp)}',
            f'FastSphericalHarmonics.transform[{fk}] vs the other model path', inz, yf)
        add(f'sh9 F ddlon R {fmat(x)}', 'real_basis_derivative', inp, np.asarray(gr.d_dlon(jnp.asarray(x))))
        add(f'sh9 F ddlon F {fmat(xf)}', 'real_basis_derivative_with_zero_imag', inp,
            np.asarray(gf.d_dlon(jnp.asarray(xf))))
        add(f'sh9 F lap {fbits(r2)} {L} 0 {fmat(x)}', 'Grid.laplacian[real]', inp,
            np.asarray(gr.laplacian(jnp.asarray(x))))
        add(f'sh9 F lap {fbits(r2)} {L} {pair.pc} {fmat(xf)}', 'Grid.laplacian[fast]', inp,
            np.asarray(gf.laplacian(jnp.asarray(xf))))
        add(f'sh9 F invlap {fbits(r2)} {L} 0 {fmat(x)}', 'Grid.inverse_laplacian[real]', inp,
            np.asarray(gr.inverse_laplacian(jnp.asarray(x))))
        add(f'sh9 F invlap {fbits(r2)} {L} {pair.pc} {fmat(xf)}', 'Grid.inverse_laplacian[fast]', inp,
            np.asarray(gf.inverse_laplacian(jnp.asarray(xf))))
        for n in (1, 2, L, L + 2):
          add(f'sh9 F clip {L} 0 {n} {fmat(x)}', 'Grid.clip_wavenumbers[real]', dict(inp, n=n),
              np.asarray(gr.clip_wavenumbers(jnp.asarray(x), n)))
          add(f'sh9 F clip {L} {pair.pc} {n} {fmat(xf)}', 'Grid.clip_wavenumbers[fast]', dict(inp, n=n),
              np.asarray(gf.clip_wavenumbers(jnp.asarray(xf), n)))
        for op, fn in (('cos', 'cos_lat_d_dlat'), ('sec', 'sec_lat_d_dlat_cos2')):
          add(f'sh9 F dlat R {op} {M} {L} 0 0 {fmat(x)}', f'Grid.{fn}[real]', inp,
              np.asarray(getattr(gr, fn)(jnp.asarray(x))))
          add(f'sh9 F dlat F {op} {M} {L} {pair.pr} {pair.pc} {fmat(xf)}', f'Grid.{fn}[fast]', inp,
              np.asarray(getattr(gf, fn)(jnp.asarray(xf))))
      add(f'sh9 F eig {fbits(r2)} {L} 0', 'Grid.laplacian_eigenvalues[real]', inp0, gr.laplacian_eigenvalues, 'vec')
      add(f'sh9 F eig {fbits(r2)} {L} {pair.pc}', 'Grid.laplacian_eigenvalues[fast]', inp0, gf.laplacian_eigenvalues,
          'vec')
      for sel, idx in (('a', 0), ('b', 1)):
        add(f'sh9 F weights R {sel} {M} {L} 0 0', f'Grid._derivative_recurrence_weights[{sel}][real]', inp0,
            gr._derivative_recurrence_weights[idx])
        add(f'sh9 F weights F {sel} {M} {L} {pair.pr} {pair.pc}', f'Grid._derivative_recurrence_weights[{sel}][fast]',
            inp0, gf._derivative_recurrence_weights[idx])
      # validation of clip_wavenumbers and of the derivative's parity check
      for n in (0, -1):
        for g, pc, xx, nm in ((gr, 0, x2, 'real'), (gf, pair.pc, xf2, 'fast')):
          try:
            g.clip_wavenumbers(jnp.asarray(xx), n)
            res = 'ok'
          except ValueError:
            res = 'value-error'
          lines_res = 'value-error' if res == 'value-error' else 'ok'
          add(f'sh9 F clip {L} {pc} {n} {fmat(xx)}', f'Grid.clip_wavenumbers[{nm}] validation', dict(inp0, n=n),
              lines_res, 'str' if res == 'value-error' else 'str-ok')
      for kind, good, bad in (('R', x2, xf2[:2 * M]), ('F', xf2[:2 * M], x2)):
        for arr, expect_ok in ((good, True), (bad, False)):
          fnd = fourier.real_basis_derivative if kind == 'R' else fourier.real_basis_derivative_with_zero_imag
          try:
            fnd(jnp.asarray(arr), -2)
            res = 'ok'
          except ValueError:
            res = 'value-error'
          add(f'sh9 F ddlon {kind} {fmat(arr)}', f'fourier derivative parity validation [{kind}]',
              dict(inp0, rows=int(arr.shape[0])), res, 'str' if res == 'value-error' else 'str-ok')


def probes_grid(ctx, jax, jnp, sh):
  pass


def probes_equations(ctx, jax, jnp, sh):
  pass
