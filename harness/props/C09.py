"""C09 — the two spherical-harmonic implementations are observationally equivalent.

Lean: DinoProofs/Properties/C09.lean over the models Dino/SH.lean, Dino/Fourier.lean and
Dino/SHEquiv.lean (the re-indexing iota between the two coefficient layouts).
Tie: both model implementations (real layout, fast layout unstacked and stacked) are run on the basis
arrays and inputs of the real classes (float64, 1e-9) for a table of configurations; the layout
arithmetic (shapes, paddings, masks, axes, defaults) is compared exactly.
Sentinel probes evaluate the property itself on the real code: every public `Grid` method (and, in
the thorough tier, the equation classes) with the implementation switched and each option toggled
must agree after iota.
"""
import functools
import itertools

import numpy as np

import common
from common import fvec, fbits, fmat, unfvec, unfmat, ivec, univec
import dinoutil

TOL = 1e-10
RULE = ('grids: (M, L, nlon, nlat) from a table with M 1..8, L = M..M+3, nlon >= 2M-1, three latitude '
        'spacings, longitude offset 0 / 0.3, radius None / 1 / 2.5 / 6.37e6; fast layout with '
        'base_shape_multiple None,1,2,3,4,8, stacked_fourier_transforms None/True/False, '
        'reverse_einsum_arg_order None/True/False, transform_precision tensorfloat32/float32/highest, '
        'and a single-device spmd mesh; spectra: every kind of unit spectrum (m=0, +m, -m, top l), random '
        'masked and unmasked spectra, leading axes (), (3,), (2,2); a case is non-trivial when the fast '
        'layout differs from the real one by more than the inserted row (padding) or an option is not '
        'the default, or the spectrum has >= 2 non-zero coefficients; distinct = distinct '
        '(configuration, input) hashes')

# (M, L, nlon, nlat)
SMALL = [(1, 1, 1, 1), (1, 2, 2, 2), (2, 2, 3, 2), (2, 3, 5, 3), (3, 4, 8, 4), (3, 6, 7, 5), (4, 5, 12, 6),
         (5, 6, 16, 8), (4, 7, 9, 7), (3, 4, 4, 4), (5, 6, 8, 6)]
LARGE = [(9, 10, 16, 12), (8, 9, 24, 12), (6, 9, 20, 10), (11, 12, 32, 16), (16, 17, 48, 24), (22, 23, 64, 32)]
SPACINGS = ['gauss', 'equiangular', 'equiangular_with_poles']


def tstr(t):
  """3-D array -> matrices separated by |"""
  t = np.asarray(t)
  return '|'.join(fmat(m) for m in t) if t.shape[0] else '_'


def untstr(s):
  return [] if s == '_' else [unfmat(m) for m in s.split('|')]


def bmat(s):
  return [] if s == '_' else [[] if r == '_' else [int(v) for v in r.split(',')] for r in s.split(';')]


class Pair:
  """A real grid and a fast grid over the same truncation."""

  def __init__(self, sh, dims, spacing='gauss', offset=0.0, radius=None, base=None, stacked=None,
               reverse=None, precision=None, mesh=None):
    M, L, N, J = dims
    self.dims, self.spacing, self.offset, self.radius = dims, spacing, offset, radius
    self.opts = dict(base=base, stacked=stacked, reverse=reverse, precision=precision, mesh=mesh is not None)
    kw = {}
    if base is not None:
      kw['base_shape_multiple'] = base
    if stacked is not None:
      kw['stacked_fourier_transforms'] = stacked
    if reverse is not None:
      kw['reverse_einsum_arg_order'] = reverse
    if precision is not None:
      kw['transform_precision'] = precision
    impl = functools.partial(sh.FastSphericalHarmonics, **kw) if kw else sh.FastSphericalHarmonics
    g = dict(longitude_wavenumbers=M, total_wavenumbers=L, longitude_nodes=N, latitude_nodes=J,
             latitude_spacing=spacing, longitude_offset=offset, radius=radius)
    self.gr = sh.Grid(**g)
    self.gf = sh.Grid(**g, spherical_harmonics_impl=impl, spmd_mesh=mesh)
    self.R, self.Lw = self.gf.modal_shape
    self.Nn, self.Jn = self.gf.nodal_shape
    self.pr, self.pc = self.gf.modal_padding
    self.pn, self.pj = self.gf.nodal_padding

  def desc(self):
    return dict(dims=list(self.dims), spacing=self.spacing, offset=self.offset, radius=self.radius, **self.opts)

  def key(self):
    return repr(sorted(self.desc().items()))

  def nontrivial(self):
    o = self.opts
    return bool(self.pr or self.pc or self.pn or self.pj or o['stacked'] is not None or o['reverse'] is not None
                or o['precision'] is not None or o['mesh'])

  # ---- the re-indexing, on arrays with any leading axes
  def iota(self, x):
    x = np.asarray(x)
    M, L, _, _ = self.dims
    out = np.zeros(x.shape[:-2] + (self.R, self.Lw), dtype=x.dtype)
    out[..., 0, :L] = x[..., 0, :]
    out[..., 2:2 * M, :L] = x[..., 1:, :]
    return out

  def uniota(self, y):
    y = np.asarray(y)
    M, L, _, _ = self.dims
    return np.concatenate([y[..., 0:1, :L], y[..., 2:2 * M, :L]], axis=-2)

  def padn(self, z):
    z = np.asarray(z)
    _, _, N, J = self.dims
    out = np.zeros(z.shape[:-2] + (self.Nn, self.Jn), dtype=z.dtype)
    out[..., :N, :J] = z
    return out

  def unpadn(self, z):
    _, _, N, J = self.dims
    return np.asarray(z)[..., :N, :J]

  def modal_padding_mask(self, leak_col=False):
    """True where a fast modal array must be exactly zero."""
    M, L, _, _ = self.dims
    m = np.zeros((self.R, self.Lw), dtype=bool)
    m[1, :] = True
    m[2 * M:, :] = True
    m[:, L:] = True
    if leak_col and self.pc:
      m[:2 * M, L] = False
    return m

  def nodal_padding_mask(self):
    _, _, N, J = self.dims
    m = np.ones((self.Nn, self.Jn), dtype=bool)
    m[:N, :J] = False
    return m


def make_mesh(jax):
  devs = np.array(jax.devices()[:1]).reshape(1, 1, 1)
  return jax.sharding.Mesh(devs, ('z', 'x', 'y'))


def pair_stream(ctx, sh, jax, n, table, with_mesh=True):
  """Corner configurations first, then random ones."""
  rng = ctx.rng
  fixed = [
      dict(dims=(1, 1, 1, 1)), dict(dims=(1, 2, 2, 2), base=3), dict(dims=(2, 2, 3, 2), base=2, stacked=True),
      # Nyquist corner: an even number of longitudes with M - 1 == N / 2 (the top cosine column is the alternating vector,
      # the top sine column vanishes): both implementations must still agree under the re-indexing
      dict(dims=(3, 4, 4, 4), base=2, stacked=False), dict(dims=(5, 6, 8, 6), base=None, stacked=True, radius=2.5),
      dict(dims=(2, 3, 5, 3), base=4, stacked=False), dict(dims=(3, 4, 8, 4), base=8, stacked=True, radius=2.5),
      dict(dims=(5, 6, 16, 8), base=8, stacked=False, spacing='equiangular', offset=0.3),
      dict(dims=(4, 5, 12, 6), base=3, stacked=True, reverse=True, precision='highest',
           spacing='equiangular_with_poles', radius=6.37e6),
      dict(dims=(3, 6, 7, 5), base=1, stacked=None, reverse=False, precision='float32'),
      dict(dims=(4, 7, 9, 7), base=None, stacked=True),
  ]
  if with_mesh:
    fixed.append(dict(dims=(3, 4, 8, 4), base=2, stacked=True, reverse=True, mesh=True))
    fixed.append(dict(dims=(4, 5, 12, 6), base=3, stacked=False, reverse=False, mesh=True))
  out = []
  for i in range(n):
    if i < len(fixed):
      c = dict(fixed[i])
    else:
      c = dict(dims=table[int(rng.integers(len(table)))],
               spacing=str(rng.choice(SPACINGS)),
               offset=float(rng.choice([0.0, 0.3])),
               radius=[None, 1.0, 2.5, 6.37e6][int(rng.integers(4))],
               base=[None, 1, 2, 3, 4, 8][int(rng.integers(6))],
               stacked=[None, True, False][int(rng.integers(3))],
               reverse=[None, True, False][int(rng.integers(3))],
               precision=[None, 'tensorfloat32', 'float32', 'highest'][int(rng.integers(4))],
               mesh=bool(with_mesh and rng.random() < 0.15))
    if c.pop('mesh', False):
      c['mesh'] = make_mesh(jax)
    out.append(Pair(sh, **c))
  return out


def spectra(rng, pair, kinds=None):
  """Structured spectra in the real layout: (name, array)."""
  M, L, _, _ = pair.dims
  R = 2 * M - 1
  mask = pair.gr.mask
  out = []

  def unit(r, l):
    x = np.zeros((R, L))
    x[r, l] = 1.0
    return x
  out.append(('unit-00', unit(0, 0)))
  out.append(('unit-0top', unit(0, L - 1)))
  if M >= 2:
    out.append(('unit-cos1', unit(1, min(1, L - 1))))
    out.append(('unit-sin-top', unit(R - 1, L - 1)))
    out.append(('unit-cos-top-diag', unit(R - 2, M - 1)))
  out.append(('random-masked', rng.standard_normal((R, L)) * mask))
  out.append(('random-unmasked', rng.standard_normal((R, L))))
  out.append(('random-batch3', rng.standard_normal((3, R, L)) * mask))
  # domain statement: with an spmd_mesh the stack / unstack / derivative helpers of FastSphericalHarmonics accept only
  # (m, l) or (level, m, l) arrays (`assert x.ndim in {2, 3}`: the shard_map specs name exactly the z, x, y axes), so a
  # field with two leading axes is rejected loudly there (AssertionError) and is outside the comparison; without a mesh
  # any number of leading axes is accepted and compared
  if not pair.opts.get('mesh'):
    out.append(('random-batch22', rng.standard_normal((2, 2, R, L)) * mask))
  else:
    out.append(('random-batch5', rng.standard_normal((5, R, L)) * mask))
  if kinds is not None:
    out = [o for o in out if o[0] in kinds]
  return out


def run(ctx: common.Ctx):
  jax = common.setup_jax()
  import jax.numpy as jnp
  from dinosaur import spherical_harmonic as sh
  from dinosaur import associated_legendre as al
  from dinosaur import fourier

  ctx.lean('DinoProofs.Properties.C09', 'C09.txt',
           extra_files=['DinoProofs/Lemmas/SHEquiv.lean', 'DinoProofs/Lemmas/SHEquivLat.lean',
            'DinoProofs/Lemmas/SHFastBlock.lean', 'DinoProofs/Lemmas/SH.lean', 'DinoProofs/Lemmas/Lin.lean',
            'Dino/SHEquiv.lean', 'Dino/SHEquivDrv.lean', 'Dino/SH.lean', 'Dino/Fourier.lean',
            'Dino/Lin.lean'])

  rng = ctx.rng
  lines, checks = [], []   # checks: (op, inp, impl_value, kind)

  def add(line, op, inp, impl, kind='mat'):
    lines.append(line)
    checks.append((op, inp, impl, kind))

  correspondence(ctx, jax, jnp, sh, al, fourier, add)
  outs = ctx.model(lines)
  for (op, inp, impl, kind), o in zip(checks, outs):
    if o == 'bad-op':
      ctx.corr_mismatch(op, inp, impl, o, 'model rejected the operation')
      continue
    if kind == 'str':
      ctx.corr_exact(op, inp, impl, o)
    elif kind == 'str-ok':
      ctx.corr_exact(op, inp, 'ok', 'value-error' if o == 'value-error' else 'ok')
    elif kind == 'ints':
      ctx.corr_exact(op, inp, [int(v) for v in impl], univec(o))
    elif kind == 'bmat':
      ctx.corr_exact(op, inp, [[int(v) for v in r] for r in np.asarray(impl).tolist()], bmat(o))
    elif kind == 'exactmat':
      if o == 'value-error':
        ctx.corr_mismatch(op, inp, impl, o, 'model raised')
      else:
        got = np.asarray(unfmat(o), dtype=float)
        ctx.corr_exact(op, inp, np.asarray(impl, dtype=float).tolist(), got.reshape(np.asarray(impl).shape).tolist()
                       if got.size == np.asarray(impl).size else got.tolist())
    elif kind == 'ten':
      if o == 'value-error':
        ctx.corr_mismatch(op, inp, impl, o, 'model raised')
      else:
        ctx.corr_float(op, inp, np.asarray(impl), np.asarray(untstr(o), dtype=float))
    elif kind == 'vec':
      ctx.corr_float(op, inp, np.asarray(impl), np.asarray(unfvec(o), dtype=float))
    elif kind == 'scalar':   # impl = (value, magnitude of the summands): sums with cancellation are compared at that scale
      ctx.corr_float(op, inp, np.asarray([float(impl[0])]), np.asarray(unfvec(o), dtype=float),
                     atol=1e-9 * (float(impl[1]) + abs(float(impl[0]))))
    else:
      if o == 'value-error':
        ctx.corr_mismatch(op, inp, impl, o, 'model raised')
      else:
        ctx.corr_float(op, inp, np.asarray(impl), np.asarray(unfmat(o), dtype=float))

  probes_grid(ctx, jax, jnp, sh)
  probes_equations(ctx, jax, jnp, sh, n_configs=ctx.n(1, 12), steps=ctx.n(0, 3))
  if not ctx.quick:
    ctx.leanchecker(['DinoProofs.Properties.C09'])
  return ctx.finish(RULE, 'theorems are about the Lean models Dino.SH / Dino.Fourier / Dino.SHEquiv over any '
                    'commutative ring (fields for the eigenvalue operations); sin, cos, sqrt and the Legendre '
                    'table are external (any table of the right shape); float rounding, XLA and the precision '
                    'hint are outside the theorems (tolerance 1e-9 in the correspondence, 1e-10 in the probes); '
                    'sharded meshes with more than one device belong to C07')


# ---------------------------------------------------------------------------- correspondence


def corr_bundle(g, L):
  def f(x, y, z):
    out = dict(to_nodal=g.to_nodal(x), to_modal=g.to_modal(z), d_dlon=g.d_dlon(x), laplacian=g.laplacian(x),
               inverse_laplacian=g.inverse_laplacian(x), cos_lat_d_dlat=g.cos_lat_d_dlat(x),
               sec_lat_d_dlat_cos2=g.sec_lat_d_dlat_cos2(x))
    for n in (1, 2, L, L + 2):
      out[f'clip{n}'] = g.clip_wavenumbers(x, n)
    for clip in (True, False):
      out[f'grad{int(clip)}'] = jnp_stack(g.cos_lat_grad(x, clip=clip))
      out[f'div{int(clip)}'] = g.div_cos_lat((x, y), clip=clip)
      out[f'curl{int(clip)}'] = g.curl_cos_lat((x, y), clip=clip)
    out['kcross'] = jnp_stack(g.k_cross((x, y)))
    out['integrate'] = g.integrate(z)
    return out
  return f


def jnp_stack(t):
  import jax.numpy as jnp
  return jnp.stack(list(t))


def correspondence(ctx, jax, jnp, sh, al, fourier, add):
  rng = ctx.rng
  # --- layout arithmetic (exact), including sizes far beyond the transform table
  shape_cases = [(1, 1, 1, 1), (1, 2, 2, 2), (2, 2, 3, 2), (5, 6, 16, 8), (22, 23, 64, 32), (43, 44, 128, 64),
                 (128, 129, 384, 192), (129, 130, 388, 194), (256, 257, 768, 384), (257, 258, 772, 386),
                 (512, 513, 1536, 768), (171, 172, 512, 256)]
  nshape = ctx.n(60, 600)
  for si in range(nshape):
    if si < len(shape_cases):
      M, L, N, J = shape_cases[si]
    else:
      M = int(rng.integers(1, 400))
      L = M + int(rng.integers(0, 4))
      N = int(rng.integers(max(1, M), 4 * M + 2))
      J = int(rng.integers(1, 2 * M + 2))
    base = [None, 0, 1, 2, 3, 4, 5, 8, 16, 128][si % 10]
    kw = {} if base is None else dict(base_shape_multiple=base)
    with ctx.impl('shape-exception', dict(M=M, L=L, N=N, J=J, base=base)):
      f = sh.FastSphericalHarmonics(longitude_wavenumbers=M, total_wavenumbers=L, longitude_nodes=N,
                                    latitude_nodes=J, **kw)
      r = sh.RealSphericalHarmonics(longitude_wavenumbers=M, total_wavenumbers=L, longitude_nodes=N,
                                    latitude_nodes=J)
      inp = dict(M=M, L=L, N=N, J=J, base=base)
      ctx.case(('shape', M, L, N, J, base), nontrivial=base not in (None, 0, 1))
      ctx.dist[f'shape:base={base}'] += 1
      add(f'sh9 S shape {M} {L} {N} {J} {base or 0} 1 1', 'FastSphericalHarmonics.modal_shape/nodal_shape/paddings',
          inp, list(f.modal_shape) + list(f.nodal_shape) + list(f.modal_padding) + list(f.nodal_padding), 'ints')
      add(f'sh9 S realshape {M} {L}', 'RealSphericalHarmonics.modal_shape', inp, list(r.modal_shape), 'ints')
      add(f'sh9 S stackdefault {M}', 'FastSphericalHarmonics.__post_init__ stacked default', inp,
          '1' if f.stacked_fourier_transforms else '0', 'str')
      # the property: padded shapes are the smallest admissible multiples
      b = base or 1
      ms, ns = f.modal_shape, f.nodal_shape
      ok = (ms[0] % (2 * b) == 0 and ms[1] % b == 0 and ns[0] % b == 0 and ns[1] % b == 0 and
            0 <= ms[0] - 2 * M < 2 * b and 0 <= ms[1] - L < b and 0 <= ns[0] - N < b and 0 <= ns[1] - J < b)
      ctx.expect(ok, 'padding-minimal', f'padded shapes {ms} {ns} are not the least multiples of {b}', inp)
      if si < 24 and M <= 64:
        pr, pc = f.modal_padding
        add(f'sh9 S maskR {M} {L}', 'RealSphericalHarmonics.mask', inp, r.mask, 'bmat')
        add(f'sh9 S maskF {M} {L} {pr} {pc}', 'FastSphericalHarmonics.mask', inp, f.mask, 'bmat')
        add(f'sh9 S maskIota {M} {L} {pr} {pc}', 'FastSphericalHarmonics.mask = iota(real mask)', inp, f.mask, 'bmat')
        add(f'sh9 S mvalsR {M}', 'RealSphericalHarmonics.modal_axes[0]', inp, r.modal_axes[0], 'ints')
        add(f'sh9 S mvalsF {M} {pr}', 'FastSphericalHarmonics.modal_axes[0]', inp, f.modal_axes[0], 'ints')
        add(f'sh9 S lvals {L} {pc}', 'FastSphericalHarmonics.modal_axes[1]', inp, f.modal_axes[1], 'ints')
        add(f'sh9 S lvals {L} 0', 'RealSphericalHarmonics.modal_axes[1]', inp, r.modal_axes[1], 'ints')
  for x, m in [(0, 1), (1, 1), (7, 1), (7, 2), (8, 2), (9, 4), (16, 16), (17, 16), (1, 128), (300, 7)]:
    add(f'sh9 S roundto {x} {m}', '_round_to_multiple', dict(x=x, m=m), str(sh._round_to_multiple(x, m)), 'str')

  # --- transforms, derivative and index-wise operations on the small grids
  npairs = ctx.n(14, 120)
  pairs = pair_stream(ctx, sh, jax, npairs, SMALL, with_mesh=False)
  for pi, pair in enumerate(pairs):
    M, L, N, J = pair.dims
    gr, gf = pair.gr, pair.gf
    inp0 = pair.desc()
    for k, v in inp0.items():
      if k != 'dims':
        ctx.dist[f'corr:{k}={v}'] += 1
    ctx.dist[f'corr:dims={pair.dims}'] += 1
    with ctx.impl('corr-exception', inp0):
      br, bf = gr.spherical_harmonics.basis, gf.spherical_harmonics.basis
      stacked = bool(gf.spherical_harmonics.stacked_fourier_transforms)
      ff = np.asarray(bf.f)
      if stacked:
        add(f'sh9 F fbasisF {M} {N} {pair.pn} {pair.pr} s0', 'FastSphericalHarmonics.basis.f[:,0,:] (stacked)', inp0,
            ff[:, 0, :])
        add(f'sh9 F fbasisF {M} {N} {pair.pn} {pair.pr} s1', 'FastSphericalHarmonics.basis.f[:,1,:] (stacked)', inp0,
            ff[:, 1, :])
        ff = np.reshape(ff, (ff.shape[0], -1), order='F')
      else:
        add(f'sh9 F fbasisF {M} {N} {pair.pn} {pair.pr} all', 'FastSphericalHarmonics.basis.f', inp0, ff)
      add(f'sh9 F fbasisR {M} {N}', 'RealSphericalHarmonics.basis.f', inp0, br.f)
      x_nodes, _ = sh.get_latitude_nodes(J, pair.spacing)
      P = al.evaluate(n_m=M, n_l=L, x=x_nodes)
      add(f'sh9 F pbasisR {tstr(P)}', 'RealSphericalHarmonics.basis.p', inp0, br.p, 'ten')
      add(f'sh9 F pbasisF {pair.pr} {pair.pj} {pair.pc} {J} {L} {tstr(P)}', 'FastSphericalHarmonics.basis.p', inp0,
          bf.p, 'ten')
      add(f'sh9 F wbasisF {pair.pj} {fvec(br.w)}', 'FastSphericalHarmonics.basis.w', inp0, bf.w, 'vec')
      bR = f'{fmat(br.f)} {tstr(br.p)} {fvec(br.w)}'
      bF = f'{fmat(ff)} {tstr(bf.p)} {fvec(bf.w)}'
      fk = 'FS' if stacked else 'F'
      r2 = float(gr.radius) ** 2
      jr, jf = jax.jit(corr_bundle(gr, L)), jax.jit(corr_bundle(gf, L))
      for name, x in spectra(rng, pair, kinds=('unit-00', 'unit-sin-top', 'unit-cos-top-diag', 'random-masked',
                                               'random-unmasked') if pi >= 4 or not ctx.quick else None):
        if x.ndim != 2:
          continue
        xf = pair.iota(x)
        x2, xf2 = x, xf
        inp = dict(inp0, spectrum=name, x=x.tolist())
        ctx.case((pair.key(), name, x.tobytes()), nontrivial=pair.nontrivial() or np.count_nonzero(x) >= 2,
                 sample=dict(inp0, spectrum=name))
        ctx.dist[f'corr:spectrum={name}'] += 1
        add(f'sh9 F iota {L} {pair.pr} {pair.pc} {fmat(x)}', 'iota (harness re-indexing)', inp, xf, 'exactmat')
        add(f'sh9 F uniota {2 * M} {L} {fmat(xf)}', 'uniota (harness re-indexing)', inp, x, 'exactmat')
        z = rng.standard_normal((N, J))
        if name.startswith('unit'):
          z = np.asarray(gr.to_nodal(jnp.asarray(x)))
        zp = pair.padn(z)
        y2 = rng.standard_normal(x.shape) * gr.mask    # second field of the vector operators
        y2f = pair.iota(y2)
        outr = {k: np.asarray(v) for k, v in jr(jnp.asarray(x), jnp.asarray(y2), jnp.asarray(z)).items()}
        outf = {k: np.asarray(v) for k, v in jf(jnp.asarray(xf), jnp.asarray(y2f), jnp.asarray(zp)).items()}
        zr, zf = outr['to_nodal'], outf['to_nodal']
        add(f'sh9 F synth R {bR} {fmat(x)}', 'RealSphericalHarmonics.inverse_transform', inp, zr)
        add(f'sh9 F synth {fk} {bF} {fmat(xf)}', f'FastSphericalHarmonics.inverse_transform[{fk}]', inp, zf)
        # the other contraction orders of the model on the same data (T9.4 / T9.5 at Float)
        for alt in ('F', 'FS', 'FR', 'FSR'):
          if alt != fk:
            add(f'sh9 F synth {alt} {bF} {fmat(xf)}',
                f'FastSphericalHarmonics.inverse_transform[{fk}] vs model path {alt}', inp, zf)
        add(f'sh9 F padn {pair.pn} {pair.pj} {J} {fmat(z)}', 'pad (harness re-indexing)', inp, zp, 'exactmat')
        add(f'sh9 F unpadn {N} {J} {fmat(zp)}', 'unpad (harness re-indexing)', inp, z, 'exactmat')
        yr, yf = outr['to_modal'], outf['to_modal']
        inz = dict(inp0, z=z.tolist())
        add(f'sh9 F ana R {L} {bR} {fmat(z)}', 'RealSphericalHarmonics.transform', inz, yr)
        add(f'sh9 F ana {fk} {pair.Lw} {bF} {fmat(zp)}', f'FastSphericalHarmonics.transform[{fk}]', inz, yf)
        for alt in ('F', 'FS', 'FR', 'FSR'):
          if alt != fk:
            add(f'sh9 F ana {alt} {pair.Lw} {bF} {fmat(zp)}',
                f'FastSphericalHarmonics.transform[{fk}] vs model path {alt}', inz, yf)
        add(f'sh9 F ddlon R {fmat(x)}', 'real_basis_derivative', inp, outr['d_dlon'])
        add(f'sh9 F ddlon F {fmat(xf)}', 'real_basis_derivative_with_zero_imag', inp, outf['d_dlon'])
        add(f'sh9 F lap {fbits(r2)} {L} 0 {fmat(x)}', 'Grid.laplacian[real]', inp, outr['laplacian'])
        add(f'sh9 F lap {fbits(r2)} {L} {pair.pc} {fmat(xf)}', 'Grid.laplacian[fast]', inp, outf['laplacian'])
        add(f'sh9 F invlap {fbits(r2)} {L} 0 {fmat(x)}', 'Grid.inverse_laplacian[real]', inp,
            outr['inverse_laplacian'])
        add(f'sh9 F invlap {fbits(r2)} {L} {pair.pc} {fmat(xf)}', 'Grid.inverse_laplacian[fast]', inp,
            outf['inverse_laplacian'])
        for n in (1, 2, L, L + 2):
          add(f'sh9 F clip {L} 0 {n} {fmat(x)}', 'Grid.clip_wavenumbers[real]', dict(inp, n=n), outr[f'clip{n}'])
          add(f'sh9 F clip {L} {pair.pc} {n} {fmat(xf)}', 'Grid.clip_wavenumbers[fast]', dict(inp, n=n),
              outf[f'clip{n}'])
        for op, fn in (('cos', 'cos_lat_d_dlat'), ('sec', 'sec_lat_d_dlat_cos2')):
          add(f'sh9 F dlat R {op} {M} {L} 0 0 {fmat(x)}', f'Grid.{fn}[real]', inp, outr[fn])
          add(f'sh9 F dlat F {op} {M} {L} {pair.pr} {pair.pc} {fmat(xf)}', f'Grid.{fn}[fast]', inp, outf[fn])
        # grad / div / curl (clip on and off), k_cross, integrate: both layouts against the model of that layout
        rad = fbits(float(gr.radius))
        inpv = dict(inp, y=y2.tolist())
        for c in (1, 0):
          add(f'sh9 F grad R {M} {L} 0 0 {rad} {c} {fmat(x)}', f'Grid.cos_lat_grad[real,clip={bool(c)}]', inp,
              outr[f'grad{c}'], 'ten')
          add(f'sh9 F grad F {M} {L} {pair.pr} {pair.pc} {rad} {c} {fmat(xf)}',
              f'Grid.cos_lat_grad[fast,clip={bool(c)}]', inp, outf[f'grad{c}'], 'ten')
          for opn, fn in (('div', 'div_cos_lat'), ('curl', 'curl_cos_lat')):
            add(f'sh9 F {opn} R {M} {L} 0 0 {rad} {c} {fmat(x)} {fmat(y2)}', f'Grid.{fn}[real,clip={bool(c)}]', inpv,
                outr[f'{opn}{c}'])
            add(f'sh9 F {opn} F {M} {L} {pair.pr} {pair.pc} {rad} {c} {fmat(xf)} {fmat(y2f)}',
                f'Grid.{fn}[fast,clip={bool(c)}]', inpv, outf[f'{opn}{c}'])
        add(f'sh9 F kcross {fmat(x)} {fmat(y2)}', 'Grid.k_cross[real]', inpv, outr['kcross'], 'ten')
        add(f'sh9 F kcross {fmat(xf)} {fmat(y2f)}', 'Grid.k_cross[fast]', inpv, outf['kcross'], 'ten')
        mag = r2 * float(np.abs(np.asarray(br.w)).max()) * float(np.abs(z).sum())
        add(f'sh9 F integrate {fbits(r2)} {fvec(br.w)} {fmat(z)}', 'Grid.integrate[real]', inz,
            (outr['integrate'], mag), 'scalar')
        add(f'sh9 F integrate {fbits(r2)} {fvec(bf.w)} {fmat(zp)}', 'Grid.integrate[fast]', inz,
            (outf['integrate'], mag), 'scalar')
      # N-C09-b: the block-locality / EqOff theorems (fastCosLatGrad_block, fastDivCosLat_block, fastCurlCosLat_block,
      # zeroImagDerivative_block, fastDD_block, ..._congr_eqOff) quantify over EVERY array of the fast shape, so the fast
      # model operations are tied to the code also on arrays that are NOT iota-images: random values everywhere,
      # including row 1, the padding rows and the padding columns
      ju, jv = rng.standard_normal((pair.R, pair.Lw)), rng.standard_normal((pair.R, pair.Lw))
      inj = dict(inp0, spectrum='junk-fast-array', x=ju.tolist(), y=jv.tolist())
      ctx.case((pair.key(), 'junk-fast-array', ju.tobytes()), nontrivial=True,
               sample=dict(inp0, spectrum='junk-fast-array'))
      ctx.dist['corr:spectrum=junk-fast-array'] += 1
      outj = {k: np.asarray(v) for k, v in
              jf(jnp.asarray(ju), jnp.asarray(jv), jnp.asarray(pair.padn(np.zeros((N, J))))).items()}
      radj = fbits(float(gr.radius))
      add(f'sh9 F ddlon F {fmat(ju)}', 'real_basis_derivative_with_zero_imag[junk fast array]', inj, outj['d_dlon'])
      for op, fn in (('cos', 'cos_lat_d_dlat'), ('sec', 'sec_lat_d_dlat_cos2')):
        add(f'sh9 F dlat F {op} {M} {L} {pair.pr} {pair.pc} {fmat(ju)}', f'Grid.{fn}[fast, junk fast array]', inj,
            outj[fn])
      for c in (1, 0):
        add(f'sh9 F grad F {M} {L} {pair.pr} {pair.pc} {radj} {c} {fmat(ju)}',
            f'Grid.cos_lat_grad[fast,clip={bool(c)}, junk fast array]', inj, outj[f'grad{c}'], 'ten')
        for opn, fn in (('div', 'div_cos_lat'), ('curl', 'curl_cos_lat')):
          add(f'sh9 F {opn} F {M} {L} {pair.pr} {pair.pc} {radj} {c} {fmat(ju)} {fmat(jv)}',
              f'Grid.{fn}[fast,clip={bool(c)}, junk fast array]', inj, outj[f'{opn}{c}'])
      add(f'sh9 F eig {fbits(r2)} {L} 0', 'Grid.laplacian_eigenvalues[real]', inp0, gr.laplacian_eigenvalues, 'vec')
      add(f'sh9 F eig {fbits(r2)} {L} {pair.pc}', 'Grid.laplacian_eigenvalues[fast]', inp0, gf.laplacian_eigenvalues,
          'vec')
      for sel, idx in (('a', 0), ('b', 1)):
        add(f'sh9 F weights R {sel} {M} {L} 0 0', f'Grid._derivative_recurrence_weights[{sel}][real]', inp0,
            gr._derivative_recurrence_weights[idx])
        add(f'sh9 F weights F {sel} {M} {L} {pair.pr} {pair.pc}', f'Grid._derivative_recurrence_weights[{sel}][fast]',
            inp0, gf._derivative_recurrence_weights[idx])
      # validation of clip_wavenumbers and of the derivative's parity check
      for n in (0, -1):
        for g, pc, xx, nm in ((gr, 0, x2, 'real'), (gf, pair.pc, xf2, 'fast')):
          try:
            g.clip_wavenumbers(jnp.asarray(xx), n)
            res = 'ok'
          except ValueError:
            res = 'value-error'
          lines_res = 'value-error' if res == 'value-error' else 'ok'
          add(f'sh9 F clip {L} {pc} {n} {fmat(xx)}', f'Grid.clip_wavenumbers[{nm}] validation', dict(inp0, n=n),
              lines_res, 'str' if res == 'value-error' else 'str-ok')
      for kind, good, bad in (('R', x2, xf2[:2 * M]), ('F', xf2[:2 * M], x2)):
        for arr, expect_ok in ((good, True), (bad, False)):
          fnd = fourier.real_basis_derivative if kind == 'R' else fourier.real_basis_derivative_with_zero_imag
          try:
            fnd(jnp.asarray(arr), -2)
            res = 'ok'
          except ValueError:
            res = 'value-error'
          add(f'sh9 F ddlon {kind} {fmat(arr)}', f'fourier derivative parity validation [{kind}]',
              dict(inp0, rows=int(arr.shape[0])), res, 'str' if res == 'value-error' else 'str-ok')



# ---------------------------------------------------------------------------- probes on the real code


def bundle(sh, g, heavy, poles):
  """All public Grid operations on (x, y modal; z, z2 nodal) as one function (jitted by the caller)."""
  def f(x, y, z, z2):
    out = dict(
        to_nodal=g.to_nodal(x), to_modal=g.to_modal(z), d_dlon=g.d_dlon(x), laplacian=g.laplacian(x),
        inverse_laplacian=g.inverse_laplacian(x), clip1=g.clip_wavenumbers(x, 1), clip2=g.clip_wavenumbers(x, 2),
        cos_lat_d_dlat=g.cos_lat_d_dlat(x), sec_lat_d_dlat_cos2=g.sec_lat_d_dlat_cos2(x),
        k_cross=g.k_cross((x, y)), integrate=g.integrate(z))
    for clip in (True, False):
      out[f'cos_lat_grad[clip={clip}]'] = g.cos_lat_grad(x, clip=clip)
      out[f'div_cos_lat[clip={clip}]'] = g.div_cos_lat((x, y), clip=clip)
      out[f'curl_cos_lat[clip={clip}]'] = g.curl_cos_lat((x, y), clip=clip)
      if heavy:
        out[f'get_cos_lat_vector[clip={clip}]'] = sh.get_cos_lat_vector(x, y, g, clip=clip)
        if not poles:
          out[f'vor_div_to_uv_nodal[clip={clip}]'] = sh.vor_div_to_uv_nodal(g, x, y, clip=clip)
          out[f'uv_nodal_to_vor_div_modal[clip={clip}]'] = sh.uv_nodal_to_vor_div_modal(g, z, z2, clip=clip)
    return out
  return f


def cmp_modal(ctx, pair, yf, yr, key, inp, leak=False):
  """fast result == iota(real result): unpadded block to TOL, row 1 and padding exactly zero."""
  yf, yr = np.asarray(yf), np.asarray(yr)
  ctx.evaluations += 1
  if yf.shape != yr.shape[:-2] + (pair.R, pair.Lw):
    ctx.fail(key + ':shape', f'{key}: fast result has shape {yf.shape}, real {yr.shape}', inp)
    return
  err = dinoutil.relerr(pair.uniota(yf), yr)
  ctx.expect(err <= TOL, key, f'{key}: fast and real results differ after iota (rel. {err:.3e})', inp)
  pm = pair.modal_padding_mask(leak_col=leak)
  bad = yf[..., pm] != 0
  ctx.expect(not bad.any(), key + ':padding',
             f'{key}: row 1 / padding of the fast result is not exactly zero (max {np.abs(yf[..., pm]).max() if pm.any() else 0:.3e})',
             inp)
  if leak and pair.pc:
    M, L, _, _ = pair.dims
    ctx.dist['dlat-leak-into-padding-column-L:' + ('nonzero' if np.any(yf[..., :2 * M, L] != 0) else 'zero')] += 1


def cmp_nodal(ctx, pair, zf, zr, key, inp):
  zf, zr = np.asarray(zf), np.asarray(zr)
  ctx.evaluations += 1
  if zf.shape != zr.shape[:-2] + (pair.Nn, pair.Jn):
    ctx.fail(key + ':shape', f'{key}: fast result has shape {zf.shape}, real {zr.shape}', inp)
    return
  err = dinoutil.relerr(pair.unpadn(zf), zr)
  ctx.expect(err <= TOL, key, f'{key}: fast and real results differ after unpadding (rel. {err:.3e})', inp)
  pm = pair.nodal_padding_mask()
  ctx.expect(not (zf[..., pm] != 0).any(), key + ':padding', f'{key}: nodal padding of the fast result is not exactly zero', inp)


LEAK = dict(n=0, nonzero=0, max=0.0, oracle=0)


def leak_probes(ctx, jnp, sh, pair, x, y, outf, inp, rng):
  """C09-1 on the real code: what the raw latitude derivatives of the fast layout leave in padding column L
  (theorems fastDD_iota_colL / fastDD_iota_padding_zero), that every following operation discards it
  (clip_fastDD_iota, laplacian_fastDD_iota, inverseLaplacian_fastDD_iota, fastSynth_fastDD_iota) and that it can
  never reach a resolved coefficient through a further latitude derivative (fastDD_block), nor through cos_lat_grad /
  div_cos_lat / curl_cos_lat with either clip flag (N-C09-b: the ..._block and ..._congr_eqOff theorems)."""
  M, L, N, J = pair.dims
  gr, gf = pair.gr, pair.gf
  J_ = jnp.asarray
  xf, yf = pair.iota(x), pair.iota(y)
  raw_ops = (('cos_lat_d_dlat', gr.cos_lat_d_dlat, gf.cos_lat_d_dlat),
             ('sec_lat_d_dlat_cos2', gr.sec_lat_d_dlat_cos2, gf.sec_lat_d_dlat_cos2))
  if pair.pc:
    m = np.abs(np.asarray(gf.modal_axes[0]))[:2 * M].astype(float)
    rows = np.ones(2 * M, bool)
    rows[1] = False
    wgt = np.sqrt(np.where((m <= L - 1) & rows, (L ** 2 - m ** 2) / (4.0 * L ** 2 - 1), 0.0))
    rad = float(gr.radius)
    cos_x = -(L - 1) * wgt * xf[..., :2 * M, L - 1]
    sec_x = -(L + 1) * wgt * xf[..., :2 * M, L - 1]
    sec_y = -(L + 1) * wgt * yf[..., :2 * M, L - 1]
    g0, g1 = outf['cos_lat_grad[clip=False]']
    table = [('cos_lat_d_dlat', outf['cos_lat_d_dlat'], cos_x), ('sec_lat_d_dlat_cos2', outf['sec_lat_d_dlat_cos2'], sec_x),
             ('cos_lat_grad[clip=False].lon', g0, 0.0 * cos_x), ('cos_lat_grad[clip=False].lat', g1, cos_x / rad),
             ('div_cos_lat[clip=False]', outf['div_cos_lat[clip=False]'], sec_y / rad),
             ('curl_cos_lat[clip=False]', outf['curl_cos_lat[clip=False]'], -sec_x / rad)]
    for name, got, pred in table:
      got = np.asarray(got)[..., :2 * M, L]
      ctx.evaluations += 1
      scale = max(1.0, float(np.abs(pred).max()))
      err = float(np.abs(got - pred).max())
      ctx.expect(err <= TOL * scale, 'grid.leak-column-L:' + name,
                 f'{name}: padding column L of the fast result is not the characterised value '
                 f'(-(L-1) resp. -(L+1)) * sqrt((L^2-m^2)/(4L^2-1)) * x[m, L-1] (abs. {err:.3e})', inp)
      LEAK['n'] += 1
      LEAK['nonzero'] += int(np.any(got != 0))
      LEAK['max'] = max(LEAK['max'], float(np.abs(got).max()))
    # independent oracle: the leaked value is the exact l = L coefficient of the derivative, i.e. column L of the REAL
    # layout with one more total wavenumber applied to x extended by a zero column
    if x.ndim == 2:
      g1big = sh.Grid(longitude_wavenumbers=M, total_wavenumbers=L + 1, longitude_nodes=N, latitude_nodes=J,
                      latitude_spacing=pair.spacing, longitude_offset=pair.offset, radius=pair.radius)
      xbig = np.concatenate([x, np.zeros(x.shape[:-1] + (1,))], axis=-1)
      for name, _, ff in raw_ops:
        big = np.asarray(getattr(g1big, name)(J_(xbig)))
        got = np.asarray(ff(J_(xf)))
        ctx.evaluations += 1
        colf = np.concatenate([got[0:1, L], got[2:2 * M, L]])
        err = float(np.abs(colf - big[:, L]).max())
        ctx.expect(err <= TOL * max(1.0, float(np.abs(big[:, L]).max())), 'grid.leak-column-L:oracle-L+1:' + name,
                   f'{name}: padding column L differs from the l = L coefficient computed by the real layout with '
                   f'total_wavenumbers = L + 1 (abs. {err:.3e})', inp)
        LEAK['oracle'] += 1
  else:
    ctx.dist['dlat-leak:no-column-padding (exact commutation required)'] += 1
  for name, fr_, ff_ in raw_ops:
    rawr, rawf = fr_(J_(x)), ff_(J_(xf))
    # every following masked operation / the synthesis discards column L: exact iota images
    cmp_modal(ctx, pair, gf.clip_wavenumbers(rawf), gr.clip_wavenumbers(rawr), f'grid.clip_wavenumbers({name})', inp)
    cmp_modal(ctx, pair, gf.laplacian(rawf), gr.laplacian(rawr), f'grid.laplacian({name})', inp)
    cmp_modal(ctx, pair, gf.inverse_laplacian(rawf), gr.inverse_laplacian(rawr), f'grid.inverse_laplacian({name})', inp)
    cmp_nodal(ctx, pair, gf.to_nodal(rawf), gr.to_nodal(rawr), f'grid.to_nodal({name})', inp)
    # a further latitude derivative of the unclipped result: the resolved block is unaffected by column L
    for name2, fr2, ff2 in raw_ops:
      cmp_modal(ctx, pair, ff2(rawf), fr2(rawr), f'grid.{name2}({name})', inp, leak=True)
    cmp_modal(ctx, pair, gf.d_dlon(rawf), gr.d_dlon(rawr), f'grid.d_dlon({name})', inp, leak=True)
    # block locality: junk in row 1 and in ALL padding (column L included) of the input does not reach the block
    junk = xf + pair.modal_padding_mask() * rng.standard_normal(xf.shape)
    ctx.evaluations += 1
    e = dinoutil.relerr(pair.uniota(np.asarray(ff_(J_(junk)))), np.asarray(rawr))
    ctx.expect(e <= TOL, f'grid.{name}:junk-in-padding',
               f'{name}: values in row 1 / padding of the input change the unpadded block (rel. {e:.3e})', inp)
  # N-C09-b on the real code.  (1) two operators in a row with every combination of the clip flags: the output of an
  # unclipped operator is not an iota-image (column L), yet the next operator must agree with the reference on the
  # block, be zero in row 1 / the padding, and leave at most column L non-zero when it is itself unclipped
  # (fastDivCosLat_fastCosLatGrad_iota, ..._iota_eqOff, eqOff_iota_padding_zero; curl o k_cross o grad instead of
  # curl o grad, which is identically zero)
  for c1 in (False, True):
    g_r, g_f = gr.cos_lat_grad(J_(x), clip=c1), gf.cos_lat_grad(J_(xf), clip=c1)
    for c2 in (False, True):
      cmp_modal(ctx, pair, gf.div_cos_lat(g_f, clip=c2), gr.div_cos_lat(g_r, clip=c2),
                f'grid.div_cos_lat[clip={c2}](cos_lat_grad[clip={c1}])', inp, leak=not c2)
      cmp_modal(ctx, pair, gf.curl_cos_lat(gf.k_cross(g_f), clip=c2), gr.curl_cos_lat(gr.k_cross(g_r), clip=c2),
                f'grid.curl_cos_lat[clip={c2}](k_cross(cos_lat_grad[clip={c1}]))', inp, leak=not c2)
  # (2) block locality of grad / div / curl / d_dlon for arrays that are not iota-images: junk in row 1 and in ALL
  # padding of both arguments does not reach the unpadded block (fastCosLatGrad_block, fastDivCosLat_block,
  # fastCurlCosLat_block, zeroImagDerivative_block)
  pm = pair.modal_padding_mask()
  jx, jy = xf + pm * rng.standard_normal(xf.shape), yf + pm * rng.standard_normal(yf.shape)

  def block(key, got, ref):
    ctx.evaluations += 1
    e = dinoutil.relerr(pair.uniota(np.asarray(got)), np.asarray(ref))
    ctx.expect(e <= TOL, f'grid.{key}:junk-in-padding',
               f'{key}: values in row 1 / padding of the input change the unpadded block (rel. {e:.3e})', inp)
  block('d_dlon', gf.d_dlon(J_(jx)), gr.d_dlon(J_(x)))
  for c in (False, True):
    g_f, g_r = gf.cos_lat_grad(J_(jx), clip=c), gr.cos_lat_grad(J_(x), clip=c)
    block(f'cos_lat_grad[clip={c}].lon', g_f[0], g_r[0])
    block(f'cos_lat_grad[clip={c}].lat', g_f[1], g_r[1])
    block(f'div_cos_lat[clip={c}]', gf.div_cos_lat((J_(jx), J_(jy)), clip=c), gr.div_cos_lat((J_(x), J_(y)), clip=c))
    block(f'curl_cos_lat[clip={c}]', gf.curl_cos_lat((J_(jx), J_(jy)), clip=c),
          gr.curl_cos_lat((J_(x), J_(y)), clip=c))
    # and through a second unclipped operator
    block(f'div_cos_lat[clip=False](cos_lat_grad[clip={c}])', gf.div_cos_lat(g_f, clip=False),
          gr.div_cos_lat(g_r, clip=False))


def probe_pair(ctx, jax, jnp, sh, pair, rng, batch=True, heavy=True):
  """Every public Grid method on one (real, fast) pair."""
  M, L, N, J = pair.dims
  gr, gf = pair.gr, pair.gf
  inp0 = pair.desc()
  poles = pair.spacing == 'equiangular_with_poles'
  J_ = jnp.asarray

  # ---- static attributes
  with ctx.impl('grid.attributes', inp0):
    ctx.evaluations += 1
    ctx.expect(gf.modal_shape == (pair.R, pair.Lw) and pair.R % 2 == 0 and pair.R >= 2 * M and pair.Lw >= L,
               'grid.modal_shape', f'fast modal shape {gf.modal_shape} cannot hold the real layout', inp0)
    ctx.expect(np.array_equal(gf.mask, pair.iota(gr.mask)), 'grid.mask', 'fast mask != iota(real mask)', inp0)
    mf, lf = gf.modal_axes
    mr, lr = gr.modal_axes
    ctx.expect(np.array_equal(mf, np.concatenate([mr[:1], [0], mr[1:], np.zeros(pair.pr, int)])) and
               np.array_equal(lf, np.concatenate([lr, np.zeros(pair.pc, int)])),
               'grid.modal_axes', 'fast modal axes != iota(real modal axes)', inp0)
    ctx.expect(np.array_equal(gf.laplacian_eigenvalues, np.concatenate([gr.laplacian_eigenvalues, np.zeros(pair.pc)])),
               'grid.laplacian_eigenvalues', 'fast eigenvalues != padded real eigenvalues', inp0)
    for k in (0, 1):
      ctx.expect(np.array_equal(np.asarray(gf.nodal_axes[k])[:(N, J)[k]], np.asarray(gr.nodal_axes[k])),
                 'grid.nodal_axes', 'nodal axes differ on the unpadded nodes', inp0)
    ctx.expect(np.array_equal(np.asarray(gf.cos_lat)[:J], np.asarray(gr.cos_lat)), 'grid.cos_lat', 'cos_lat differs', inp0)
    with np.errstate(divide='ignore'):
      ctx.expect(np.array_equal(np.asarray(gf.sec2_lat)[:J], np.asarray(gr.sec2_lat)), 'grid.sec2_lat',
                 'sec2_lat differs', inp0)
    qf, qr = np.asarray(gf.quadrature_weights), np.asarray(gr.quadrature_weights)
    ctx.expect(np.array_equal(qf[:N, :J], qr) and not qf[:, J:].any(), 'grid.quadrature_weights',
               'quadrature weights differ or padding weights are not zero', inp0)
    ctx.expect(gf.radius == gr.radius, 'grid.radius', 'radius differs', inp0)

  jitted = {}
  kinds = None if batch else ('unit-00', 'unit-0top', 'unit-cos1', 'unit-sin-top', 'unit-cos-top-diag',
                              'random-masked', 'random-unmasked')
  for name, x in spectra(rng, pair, kinds):
    lead = x.shape[:-2]
    y = rng.standard_normal(x.shape) * gr.mask     # a second field for the vector operators
    z = rng.standard_normal(lead + (N, J))
    z2 = rng.standard_normal(lead + (N, J))
    xf, yf, zf, z2f = pair.iota(x), pair.iota(y), pair.padn(z), pair.padn(z2)
    inp = dict(inp0, spectrum=name, x=x.tolist()) if x.size <= 64 else dict(inp0, spectrum=name, seed_note='large input omitted')
    ctx.case((pair.key(), 'probe', name, x.tobytes()), nontrivial=pair.nontrivial() or np.count_nonzero(x) >= 2,
             sample=dict(inp0, spectrum=name))
    ctx.dist[f'probe:spectrum={name}'] += 1
    with ctx.impl('grid.exception', inp):
      if lead not in jitted:
        jitted[lead] = (jax.jit(bundle(sh, gr, heavy, poles)), jax.jit(bundle(sh, gf, heavy, poles)))
      fr_, ff_ = jitted[lead]
      outr = fr_(J_(x), J_(y), J_(z), J_(z2))
      outf = ff_(J_(xf), J_(yf), J_(zf), J_(z2f))
      nodal_ops = ('to_nodal', 'vor_div_to_uv_nodal[clip=True]', 'vor_div_to_uv_nodal[clip=False]')
      leaky = ('cos_lat_d_dlat', 'sec_lat_d_dlat_cos2')
      for opn in outr:
        a, b = outf[opn], outr[opn]
        comps = list(zip(a, b)) if isinstance(a, tuple) else [(a, b)]
        for fa, ra in comps:
          if opn == 'integrate':
            ctx.evaluations += 1
            if_, ir = np.asarray(fa), np.asarray(ra)
            ctx.expect(dinoutil.relerr(if_, ir) <= TOL or
                       np.abs(if_ - ir).max() <= TOL * np.abs(z).sum() * float(gr.radius) ** 2,
                       'grid.integrate', 'integrals differ', inp)
          elif opn in nodal_ops:
            cmp_nodal(ctx, pair, fa, ra, 'grid.' + opn, inp)
          else:
            # the raw latitude derivatives write into padding column L (b[:, -1] = 0 hits the padded column)
            key = 'grid.clip_wavenumbers' if opn in ('clip1', 'clip2') else 'grid.' + opn
            cmp_modal(ctx, pair, fa, ra, key, inp, leak=opn in leaky or opn.endswith('[clip=False]'))
      leak_probes(ctx, jnp, sh, pair, x, y, outf, inp, rng)
      # T9.1 strong form on the real code: row 1 and the padding of the input are ignored
      junk = xf + pair.modal_padding_mask() * rng.standard_normal(xf.shape)
      ctx.evaluations += 1
      e = dinoutil.relerr(np.asarray(gf.to_nodal(J_(junk))), np.asarray(gf.to_nodal(J_(xf))))
      ctx.expect(e <= TOL, 'grid.to_nodal:junk-in-padding',
                 f'values in row 1 / padding of the input change the synthesis (rel. {e:.3e})', inp)
      # nodal padding of the input is ignored by the analysis
      zj = zf + pair.nodal_padding_mask() * rng.standard_normal(zf.shape)
      ctx.evaluations += 1
      e = dinoutil.relerr(np.asarray(gf.to_modal(J_(zj))), np.asarray(gf.to_modal(J_(zf))))
      ctx.expect(e <= TOL, 'grid.to_modal:junk-in-padding',
                 f'values in the nodal padding change the analysis (rel. {e:.3e})', inp)


def toggle_probe(ctx, jax, jnp, sh, rng, dims, spacing):
  """Each tuning option toggled on its own against a fixed baseline: results must not change."""
  M, L, N, J = dims
  base = dict(base=2, stacked=False, reverse=False, precision='tensorfloat32')
  variants = [('stacked', dict(stacked=True)), ('reverse', dict(reverse=True)), ('precision', dict(precision='highest')),
              ('precision', dict(precision='float32')), ('base', dict(base=5)), ('base', dict(base=1)),
              ('defaults', dict(base=None, stacked=None, reverse=None, precision=None)),
              ('mesh', dict(mesh=make_mesh(jax))), ('mesh+reverse', dict(mesh=make_mesh(jax), reverse=True)),
              ('mesh+reverse+stacked', dict(mesh=make_mesh(jax), reverse=True, stacked=True))]
  p0 = Pair(sh, dims, spacing=spacing, radius=2.5, **base)
  x = rng.standard_normal((2, 2 * M - 1, L)) * p0.gr.mask
  z = rng.standard_normal((2, N, J))
  ref_n = p0.unpadn(p0.gf.to_nodal(jnp.asarray(p0.iota(x))))
  ref_m = p0.uniota(p0.gf.to_modal(jnp.asarray(p0.padn(z))))
  for name, ch in variants:
    inp = dict(dims=list(dims), spacing=spacing, baseline=base, toggled={k: (v if k != 'mesh' else True) for k, v in ch.items()})
    ctx.case(('toggle', dims, spacing, name, repr(sorted(inp['toggled'].items()))), nontrivial=True)
    ctx.dist[f'toggle:{name}'] += 1
    with ctx.impl('toggle.exception', inp):
      p1 = Pair(sh, dims, spacing=spacing, radius=2.5, **dict(base, **ch))
      got_n = p1.unpadn(p1.gf.to_nodal(jnp.asarray(p1.iota(x))))
      got_m = p1.uniota(p1.gf.to_modal(jnp.asarray(p1.padn(z))))
      e1, e2 = dinoutil.relerr(got_n, ref_n), dinoutil.relerr(got_m, ref_m)
      ctx.evaluations += 2
      ctx.expect(e1 <= TOL, f'toggle.{name}:to_nodal', f'toggling {name} changes inverse_transform (rel. {e1:.3e})', inp)
      ctx.expect(e2 <= TOL, f'toggle.{name}:to_modal', f'toggling {name} changes transform (rel. {e2:.3e})', inp)
      full = np.asarray(p1.gf.to_modal(jnp.asarray(p1.padn(z))))
      ctx.expect(not (full[..., p1.modal_padding_mask()] != 0).any(), f'toggle.{name}:padding',
                 f'toggling {name}: row 1 / padding of the transform is not exactly zero', inp)


def probes_grid(ctx, jax, jnp, sh):
  rng = ctx.rng
  n = ctx.n(9, 60)
  pairs = pair_stream(ctx, sh, jax, n, SMALL + LARGE[:2] if ctx.quick else SMALL + LARGE, with_mesh=True)
  for pi, pair in enumerate(pairs):
    for k, v in pair.desc().items():
      ctx.dist[f'probe:{k}={v}'] += 1
    probe_pair(ctx, jax, jnp, sh, pair, rng, batch=(pi % 3 == 0) or not ctx.quick, heavy=(pi % 2 == 0) or not ctx.quick)
  for dims, spacing in ([((3, 4, 8, 4), 'gauss')] if ctx.quick else
                        [((3, 4, 8, 4), 'gauss'), ((5, 6, 16, 8), 'equiangular'), ((8, 9, 24, 12), 'gauss'),
                         ((4, 7, 9, 7), 'equiangular_with_poles')]):
    toggle_probe(ctx, jax, jnp, sh, rng, dims, spacing)
  # factory grids: the layouts of the named constructors
  for fac in (['T21'] if ctx.quick else ['T21', 'T31', 'TL31', 'T42', 'TL47']):
    with ctx.impl('factory.exception', dict(factory=fac)):
      gr = getattr(sh.Grid, fac)()
      M, L, N, J = gr.longitude_wavenumbers, gr.total_wavenumbers, gr.longitude_nodes, gr.latitude_nodes
      pair = Pair(sh, (M, L, N, J), base=8, stacked=None)
      x = rng.standard_normal((2, 2 * M - 1, L)) * gr.mask
      inp = dict(factory=fac, base=8)
      ctx.case(('factory', fac, x.tobytes()), nontrivial=True)
      ctx.dist[f'probe:factory={fac}'] += 1
      cmp_nodal(ctx, pair, pair.gf.to_nodal(jnp.asarray(pair.iota(x))), pair.gr.to_nodal(jnp.asarray(x)),
                'grid.to_nodal', inp)
      z = rng.standard_normal((2, N, J))
      cmp_modal(ctx, pair, pair.gf.to_modal(jnp.asarray(pair.padn(z))), pair.gr.to_modal(jnp.asarray(z)),
                'grid.to_modal', inp)
  ctx.notes.append(dict(domain_statement=(
      'padding column L of the fast layout: Grid._derivative_recurrence_weights sets b[:, -1] = 0 on the last PADDED '
      'column, so with modal_padding[1] >= 1 column L-1 of b keeps sqrt((L^2-m^2)/(4L^2-1)) and cos_lat_d_dlat / '
      'sec_lat_d_dlat_cos2 (hence cos_lat_grad / div_cos_lat / curl_cos_lat with clip=False) write '
      '-(L-1) resp. -(L+1) times that weight times x[m, L-1] into padding column L (the exact l = L coefficient of the '
      'derivative, for which the real layout has no column). "Row 1 and all padding exactly zero" therefore does NOT hold for '
      'the raw latitude derivatives; it holds for every other operation and after clip_wavenumbers. Proved: '
      'Dino.C09.fastDD_iota_entries / fastDD_iota_colL (value), fastDD_iota_padding_zero (everything else is zero), '
      'fastDD_iota_unIota (resolved block equal), clip_/laplacian_/inverseLaplacian_/fastSynth_fastDD_iota (discarded by every '
      'following operation), fastDD_block (never reaches a resolved coefficient through a further derivative). Not a defect: '
      'no operation of the code moves column L back into the columns l < L (a[:, L] is masked to 0, the padded Legendre '
      'columns are 0, all other operators are diagonal in l).'),
      measured=dict(column_L_checks=LEAK['n'], with_nonzero_value=LEAK['nonzero'], max_abs_value=LEAK['max'],
                    agreement_with_real_layout_L_plus_1=LEAK['oracle'], tolerance=TOL)))


def _wn(M):
  """the node counts of Grid.with_wavenumbers(M) (quadratic de-aliasing)"""
  n = 3 * M + 1
  return (M, M + 1, n, -(-n // 2))


def cmp_state(ctx, pair, sf, sr, key, inp, tol=TOL):
  """Pytrees of modal arrays (and scalars) must agree leaf by leaf after iota."""
  import jax
  lf, lr = jax.tree_util.tree_leaves(sf), jax.tree_util.tree_leaves(sr)
  if len(lf) != len(lr):
    ctx.fail(key + ':structure', f'{key}: results have different structure', inp)
    return
  for k, (a, b) in enumerate(zip(lf, lr)):
    a, b = np.asarray(a), np.asarray(b)
    if b.ndim < 2:
      ctx.evaluations += 1
      ctx.expect(dinoutil.relerr(a, b) <= tol, key, f'{key}: scalar leaf {k} differs', inp)
      continue
    yf, yr = a, b
    ctx.evaluations += 1
    if yf.shape != yr.shape[:-2] + (pair.R, pair.Lw):
      ctx.fail(key + ':shape', f'{key}: leaf {k} has shape {yf.shape}, real {yr.shape}', inp)
      continue
    err = dinoutil.relerr(pair.uniota(yf), yr)
    ctx.expect(err <= tol, key, f'{key}: leaf {k}: fast and real results differ after iota (rel. {err:.3e})', inp)
    pm = pair.modal_padding_mask()
    ctx.expect(not (yf[..., pm] != 0).any(), key + ':padding',
               f'{key}: leaf {k}: row 1 / padding not exactly zero (max {np.abs(yf[..., pm]).max() if pm.any() else 0:.3e})',
               inp)


def probes_equations(ctx, jax, jnp, sh, n_configs, steps):
  """explicit / implicit terms, implicit inverse and a short trajectory of the equation classes with the
  implementation switched and the options toggled."""
  from dinosaur import coordinate_systems as cs
  from dinosaur import primitive_equations as pe
  from dinosaur import scales
  from dinosaur import shallow_water as sw
  from dinosaur import sigma_coordinates as sc
  from dinosaur import time_integration as ti
  rng = ctx.rng
  fixed = [dict(dims=_wn(4), base=8, stacked=True), dict(dims=_wn(5), base=3, stacked=False, reverse=True, precision='highest'),
           dict(dims=_wn(6), base=None, stacked=None), dict(dims=(6, 8, 19, 10), base=4, stacked=True, spacing='equiangular'),
           dict(dims=_wn(8), base=5, stacked=False, precision='float32')]
  for ci in range(n_configs):
    if ci < len(fixed):
      c = dict(fixed[ci])
    else:
      c = dict(dims=_wn(int(rng.integers(3, 11))), base=[None, 1, 2, 3, 4, 8][int(rng.integers(6))],
               stacked=[None, True, False][int(rng.integers(3))], reverse=[None, True, False][int(rng.integers(3))],
               precision=[None, 'float32', 'highest'][int(rng.integers(3))],
               spacing=str(rng.choice(['gauss', 'equiangular'])))
    c.setdefault('radius', 1.0)
    pair = Pair(sh, **c)
    M, L, N, J = pair.dims
    layers = int(rng.choice([1, 2, 3, 5]))
    b, _ = dinoutil.random_boundaries(rng, layers, 'uneven' if layers > 1 else 'equidistant')
    inp = dict(pair.desc(), layers=layers)
    for k, v in pair.desc().items():
      ctx.dist[f'eq:{k}={v}'] += 1
    ctx.dist[f'eq:layers={layers}'] += 1
    mask = pair.gr.mask

    def rnd(*lead, amp=1.0):
      return amp * rng.standard_normal(tuple(lead) + (2 * M - 1, L)) * mask

    # ---------------- primitive equations (dry, with a tracer)
    with ctx.impl('primitive.exception', inp):
      tref = 250.0 + 30.0 * rng.random(layers)
      oro = rnd(amp=0.1)
      specs = pe.PrimitiveEquationsSpecs(radius=1.0, angular_velocity=1.0, gravity_acceleration=0.98,
                                         ideal_gas_constant=1.3, water_vapor_gas_constant=2.1,
                                         water_vapor_isobaric_heat_capacity=5.2, kappa=2.0 / 7, scale=scales.DEFAULT_SCALE)
      eqs, states = [], []
      raw = dict(vorticity=rnd(layers, amp=0.3), divergence=rnd(layers, amp=0.1), temperature_variation=rnd(layers, amp=3.0),
                 log_surface_pressure=rnd(1, amp=0.05), q=rnd(layers, amp=0.01))
      for g, conv in ((pair.gr, lambda a: a), (pair.gf, pair.iota)):
        coords = cs.CoordinateSystem(horizontal=g, vertical=sc.SigmaCoordinates(b))
        eqs.append(pe.PrimitiveEquations(tref, conv(oro), coords, specs))
        states.append(pe.State(vorticity=jnp.asarray(conv(raw['vorticity'])), divergence=jnp.asarray(conv(raw['divergence'])),
                               temperature_variation=jnp.asarray(conv(raw['temperature_variation'])),
                               log_surface_pressure=jnp.asarray(conv(raw['log_surface_pressure'])),
                               tracers={'q': jnp.asarray(conv(raw['q']))}))
      ctx.case(('primitive', pair.key(), layers, raw['vorticity'].tobytes()), nontrivial=True,
               sample=dict(inp, equation='PrimitiveEquations'))
      eta = float(rng.choice([0.01, 0.1, 1.0]))
      res = []
      for eq, st in zip(eqs, states):
        res.append((jax.jit(eq.explicit_terms)(st), jax.jit(eq.implicit_terms)(st),
                    jax.jit(lambda s, e=eq: e.implicit_inverse(s, eta))(st)))
      cmp_state(ctx, pair, res[1][0], res[0][0], 'PrimitiveEquations.explicit_terms', inp)
      cmp_state(ctx, pair, res[1][1], res[0][1], 'PrimitiveEquations.implicit_terms', inp)
      cmp_state(ctx, pair, res[1][2], res[0][2], 'PrimitiveEquations.implicit_inverse', dict(inp, eta=eta), tol=1e-9)
      if steps:
        dt = 1e-3
        outs = []
        for eq, st in zip(eqs, states):
          step = jax.jit(ti.repeated(ti.imex_rk_sil3(eq, dt), steps))
          outs.append(step(st))
        cmp_state(ctx, pair, outs[1], outs[0], 'PrimitiveEquations.trajectory', dict(inp, steps=steps, dt=dt), tol=1e-8)

    # ---------------- shallow water
    with ctx.impl('shallow-water.exception', inp):
      dens = np.sort(rng.uniform(0.5, 2.0, layers))
      phi = rng.uniform(0.5, 5.0, layers)
      swspecs = sw.ShallowWaterSpecs(densities=dens, radius=1.0, angular_velocity=0.5, gravity_acceleration=1.0,
                                     scale=scales.DEFAULT_SCALE)
      oro = rnd(amp=0.1)
      raw = [rnd(layers, amp=0.3), rnd(layers, amp=0.1), rnd(layers, amp=0.5)]
      res = []
      for g, conv in ((pair.gr, lambda a: a), (pair.gf, pair.iota)):
        coords = cs.CoordinateSystem(horizontal=g, vertical=sc.SigmaCoordinates.equidistant(layers))
        eq = sw.ShallowWaterEquations(coords, swspecs, conv(oro), phi)
        st = sw.State(*[jnp.asarray(conv(a)) for a in raw])
        r = [jax.jit(eq.explicit_terms)(st), jax.jit(eq.implicit_terms)(st),
             jax.jit(lambda s, e=eq: e.implicit_inverse(s, 0.05))(st)]
        if steps:
          r.append(jax.jit(ti.repeated(ti.imex_rk_sil3(eq, 1e-3), steps))(st))
        res.append(r)
      ctx.case(('shallow-water', pair.key(), layers, raw[0].tobytes()), nontrivial=True,
               sample=dict(inp, equation='ShallowWaterEquations'))
      names = ['explicit_terms', 'implicit_terms', 'implicit_inverse', 'trajectory']
      for k in range(len(res[0])):
        cmp_state(ctx, pair, res[1][k], res[0][k], f'ShallowWaterEquations.{names[k]}', inp,
                  tol=TOL if k < 2 else 1e-8)
