"""C12 helper — static pass over dinosaur/*.py: where does a value computed under DEFAULT_SCALE enter?

A number that was non-dimensionalised under `scales.DEFAULT_SCALE` at import time is invisible as long as the
default scale is in use, and wrong under every other scale.  The pass lists, as stable strings,

* `const  <module>.<NAME>`                     module-level names whose value depends on DEFAULT_SCALE /
                                               ATMOSPHERIC_SCALE (directly, through `.nondimensionalize`, or
                                               through another such name),
* `default <module>.<func>(<param>=<expr>)`    default arguments that refer to such a name (or to the default scale
                                               object itself),
* `body   <module>.<func> uses <NAME>`         function bodies that read such a name,
* `call   <module>.<caller> -> <callee>(<param>)`  call sites inside dinosaur that rely on such a default,
* `literal <module>.<func>(<param>=<number>)`  numeric defaults of parameters that carry a dimension (time scales),
* `call   … -> <callee>(<param>)`              … and the call sites that rely on them,
* `si     <module>.<func> uses <expr>`         function bodies that take the bare SI magnitude of a constant of
                                               `scales` (they assume SI data).

Pure `ast`; nothing is imported from the scanned tree.
"""
from __future__ import annotations

import ast
import glob
import os

SCALE_OBJECTS = {'DEFAULT_SCALE', 'ATMOSPHERIC_SCALE'}
DIMENSIONAL_PARAMS = {'tau', 'timescale', 'time_scale'}


def _names(node):
  """All dotted names loaded in `node` ('scales.DEFAULT_SCALE' -> {'scales.DEFAULT_SCALE', 'DEFAULT_SCALE'})."""
  out = set()
  for n in ast.walk(node):
    if isinstance(n, ast.Name):
      out.add(n.id)
    elif isinstance(n, ast.Attribute):
      out.add(n.attr)
      try:
        out.add(ast.unparse(n))
      except Exception:  # pylint: disable=broad-except
        pass
  return out


def _src(node):
  return ast.unparse(node).replace('\n', ' ')


def scan(repo):
  files = sorted(f for f in glob.glob(os.path.join(repo, 'dinosaur', '*.py')) if not f.endswith('_test.py'))
  trees = {}
  for f in files:
    mod = os.path.basename(f)[:-3]
    with open(f) as fh:
      trees[mod] = ast.parse(fh.read(), filename=f)

  # ---- 1. module-level names bound to the default scale (fixed point, also across modules as `mod.NAME`)
  bound = {}          # module -> set of names
  changed = True
  for mod in trees:
    bound[mod] = set()
  while changed:
    changed = False
    for mod, tree in trees.items():
      for st in tree.body:
        targets, value = [], None
        if isinstance(st, ast.Assign):
          targets, value = [t for t in st.targets if isinstance(t, ast.Name)], st.value
        elif isinstance(st, ast.AnnAssign) and isinstance(st.target, ast.Name) and st.value is not None:
          targets, value = [st.target], st.value
        if not targets:
          continue
        used = _names(value)
        hit = bool(used & SCALE_OBJECTS) and mod != 'scales'
        hit = hit or bool(used & bound[mod])
        for other, names in bound.items():
          if other != mod and any(f'{other}.{n}' in used for n in names):
            hit = True
        if mod == 'scales' and any(t.id in SCALE_OBJECTS for t in targets):
          hit = True
        if hit:
          for t in targets:
            if t.id not in bound[mod]:
              bound[mod].add(t.id)
              changed = True

  entries = []
  for mod in sorted(bound):
    for n in sorted(bound[mod]):
      entries.append(f'const {mod}.{n}')

  def refers(mod, node):
    """Does the expression refer to a scale-bound value?  Returns the text of the reference or None."""
    used = _names(node)
    for n in bound[mod]:
      if n in used and (mod != 'scales' or True):
        # a bare name of this module
        for x in ast.walk(node):
          if isinstance(x, ast.Name) and x.id == n:
            return n
    for other, names in bound.items():
      for n in names:
        if f'{other}.{n}' in used:
          return f'{other}.{n}'
    if used & SCALE_OBJECTS and mod == 'scales':
      return None
    return None

  # ---- 2./5. defaults; 3. bodies; 7. SI magnitudes
  funcs = {}          # (module, qualified name) -> dict(params=[...], flagged={param: kind}, simple=name)

  def visit_funcs(mod, body, prefix):
    for st in body:
      if isinstance(st, ast.ClassDef):
        visit_funcs(mod, st.body, prefix + st.name + '.')
      elif isinstance(st, (ast.FunctionDef, ast.AsyncFunctionDef)):
        q = prefix + st.name
        a = st.args
        pos = [x.arg for x in a.posonlyargs + a.args]
        defaults = dict(zip(pos[len(pos) - len(a.defaults):], a.defaults))
        defaults.update({k.arg: d for k, d in zip(a.kwonlyargs, a.kw_defaults) if d is not None})
        flagged = {}
        for prm, d in defaults.items():
          r = refers(mod, d)
          if r is not None:
            entries.append(f'default {mod}.{q}({prm}={_src(d)})')
            flagged[prm] = 'default'
          elif (prm in DIMENSIONAL_PARAMS and isinstance(d, ast.Constant) and isinstance(d.value, (int, float))
                and not isinstance(d.value, bool) and d.value != 0):
            entries.append(f'literal {mod}.{q}({prm}={_src(d)})')
            flagged[prm] = 'literal'
        funcs[(mod, q)] = dict(params=pos + [k.arg for k in a.kwonlyargs], npos=len(pos), flagged=flagged,
                               simple=st.name, is_method=bool(prefix))
        seen = set()
        for inner in st.body:
          for x in ast.walk(inner):
            if isinstance(x, ast.Name) and x.id in bound[mod] and isinstance(x.ctx, ast.Load):
              seen.add(x.id)
            elif isinstance(x, ast.Attribute):
              txt = _src(x)
              for other, names in bound.items():
                for n in names:
                  if txt == f'{other}.{n}' and other != mod:
                    seen.add(txt)
              if x.attr in ('magnitude', 'm') and _src(x.value).startswith('scales.') and \
                  _src(x.value).split('.')[1].isupper():
                entries.append(f'si {mod}.{q} uses {txt}')
        for n in sorted(seen):
          entries.append(f'body {mod}.{q} uses {n}')
        visit_funcs(mod, [s for s in st.body if isinstance(s, (ast.FunctionDef, ast.AsyncFunctionDef, ast.ClassDef))],
                    q + '.')

  for mod, tree in trees.items():
    visit_funcs(mod, tree.body, '')

  # ---- 4./6. call sites that rely on a flagged default
  by_simple = {}
  for (mod, q), info in funcs.items():
    if info['flagged']:
      by_simple.setdefault(info['simple'], []).append((mod, q, info))

  def enclosing(mod, tree):
    """yield (qualified function name, call node) for every call in the module."""
    def rec(body, prefix):
      for st in body:
        if isinstance(st, ast.ClassDef):
          yield from rec(st.body, prefix + st.name + '.')
        elif isinstance(st, (ast.FunctionDef, ast.AsyncFunctionDef)):
          q = prefix + st.name
          for x in ast.walk(st):
            if isinstance(x, ast.Call):
              yield q, x
        else:
          for x in ast.walk(st):
            if isinstance(x, ast.Call):
              yield prefix + '<module>', x
    yield from rec(tree.body, '')

  seen_calls = set()
  for mod, tree in trees.items():
    for caller, call in enclosing(mod, tree):
      f = call.func
      name = f.id if isinstance(f, ast.Name) else f.attr if isinstance(f, ast.Attribute) else None
      if name not in by_simple:
        continue
      for (cmod, q, info) in by_simple[name]:
        # a bare name must be defined in the calling module; an attribute must mention the defining module or be
        # a classmethod / method access
        if isinstance(f, ast.Name) and cmod != mod:
          continue
        if isinstance(f, ast.Attribute) and not info['is_method'] and _src(f.value).split('.')[-1] != cmod:
          continue
        if any(isinstance(a, ast.Starred) for a in call.args) or any(k.arg is None for k in call.keywords):
          continue          # *args / **kwargs: cannot tell
        npos = len(call.args) + (1 if info['is_method'] and info['params'][:1] in (['self'], ['cls']) else 0)
        given = set(info['params'][:npos]) | {k.arg for k in call.keywords}
        for prm in info['flagged']:
          if prm not in given:
            key = f'call {mod}.{caller} -> {cmod}.{q}({prm})'
            if key not in seen_calls:
              seen_calls.add(key)
              entries.append(key)
  return sorted(set(entries))
