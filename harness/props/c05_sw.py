"""Encoding of the `DynamicsSW` line protocol (`sw F <op> <cfg…> <args…>`, lean/Dino/DynamicsSWDrv.lean).

Shared by the properties stated over `Dino.DynamicsSW` (C05; C10/C11 for the shallow-water part).
The horizontal linear operators of the real `spherical_harmonic.Grid` are extracted as explicit
matrices (helper `c04_dyn.op_matrix`); the model evaluates the shallow-water tendencies and the
initial-state factories with these matrices.
"""
from __future__ import annotations

import numpy as np

from common import fvec, fbits, fmat, unfvec, unfmat
from props.c04_dyn import op_matrix

OPS = ['to_nodal', 'to_modal', 'd_dlon', 'cos_lat_d_dlat', 'sec_lat_d_dlat_cos2', 'laplacian',
       'inverse_laplacian', 'clip']


def grid_matrices(grid):
  """name -> matrix of each horizontal linear operator of `grid` (flattened modal / nodal vectors)."""
  import jax.numpy as jnp
  ms, ns = grid.modal_shape, grid.nodal_shape
  nm, nn = int(np.prod(ms)), int(np.prod(ns))
  J = jnp.asarray
  return dict(
      to_nodal=op_matrix(lambda x: grid.to_nodal(J(x)), ms, nn),
      to_modal=op_matrix(lambda z: grid.to_modal(J(z)), ns, nm),
      d_dlon=op_matrix(lambda x: grid.d_dlon(J(x)), ms, nm),
      cos_lat_d_dlat=op_matrix(lambda x: grid.cos_lat_d_dlat(J(x)), ms, nm),
      sec_lat_d_dlat_cos2=op_matrix(lambda x: grid.sec_lat_d_dlat_cos2(J(x)), ms, nm),
      laplacian=op_matrix(lambda x: grid.laplacian(J(x)), ms, nm),
      inverse_laplacian=op_matrix(lambda x: grid.inverse_laplacian(J(x)), ms, nm),
      clip=op_matrix(lambda x: grid.clip_wavenumbers(J(x)), ms, nm),
  )


class SWCfg:
  """The 18 configuration tokens for one (grid, specs, reference potential, orography) object."""

  def __init__(self, grid, densities, angular_velocity, ref_potential, orography=None, g=1.0, mats=None):
    from dinosaur import primitive_equations as pe
    self.grid = grid
    ms, ns = grid.modal_shape, grid.nodal_shape
    self.ms, self.ns = ms, ns
    self.nm, self.nn, self.nl = int(np.prod(ms)), int(np.prod(ns)), int(ms[1])
    self.mats = mats if mats is not None else grid_matrices(grid)
    lidx = np.tile(np.arange(ms[1]), ms[0])
    _, sin_lat = grid.nodal_mesh
    tables = [np.broadcast_to(np.asarray(grid.cos_lat), ns).ravel(),
              np.broadcast_to(np.asarray(grid.sec2_lat), ns).ravel(),
              np.broadcast_to(np.asarray(sin_lat), ns).ravel()]
    one_modal = np.zeros(ms)
    one_modal[0, 0] = pe._CONSTANT_NORMALIZATION_FACTOR
    self.head = ' '.join(
        [f'{self.nm},{self.nn},{self.nl}'] + [fmat(self.mats[k]) for k in OPS] +
        [','.join(str(int(i)) for i in lidx), fmat(tables), fvec(one_modal.ravel())])
    self.eigs = fvec(np.asarray(grid.laplacian_eigenvalues))
    self.set(densities, angular_velocity, ref_potential, orography, g)

  def set(self, densities, angular_velocity, ref_potential, orography=None, g=1.0):
    """(Re)build the physics part of the configuration (the operator matrices are kept)."""
    consts = [self.grid.radius, angular_velocity, g]
    oro = 'none' if orography is None else fvec(np.asarray(orography).ravel())
    self.tokens = ' '.join([self.head, fvec(consts), self.eigs, fvec(np.asarray(densities, float)),
                            fvec(np.asarray(ref_potential, float)), oro])
    return self

  # ---- encoders ----
  @staticmethod
  def col(x):
    x = np.asarray(x)
    return fmat(x.reshape(x.shape[0], -1))

  def state(self, s):
    return '|'.join([self.col(s.vorticity), self.col(s.divergence), self.col(s.potential)])

  def line(self, op, *args):
    return f'sw F {op} {self.tokens} ' + ' '.join(args)

  # ---- decoders ----
  @staticmethod
  def un_col(s):
    return np.asarray(unfmat(s), dtype=float) if s != '_' else np.zeros((0, 0))

  @staticmethod
  def un_state(s):
    z, d, p = s.split('|')
    return dict(vorticity=SWCfg.un_col(z), divergence=SWCfg.un_col(d), potential=SWCfg.un_col(p))

  @staticmethod
  def un_layer(s):
    z, d, p = s.split('|')
    return dict(vorticity=np.asarray(unfvec(z)), divergence=np.asarray(unfvec(d)), potential=np.asarray(unfvec(p)))


def flat_state(s):
  f = lambda x: np.asarray(x).reshape(np.asarray(x).shape[0], -1)
  return dict(vorticity=f(s.vorticity), divergence=f(s.divergence), potential=f(s.potential))


def flat_layer(s):
  f = lambda x: np.asarray(x).ravel()
  return dict(vorticity=f(s.vorticity), divergence=f(s.divergence), potential=f(s.potential))


def compare(ctx, op, inp, impl, model, rtol=1e-9, atol=1e-12):
  ok = True
  for k, v in impl.items():
    ok &= ctx.corr_float(f'{op}.{k}', inp, v, model[k], rtol=rtol, atol=atol)
  return ok
