"""C19 — persistence and restructuring round trips lose nothing.

Lean: DinoProofs/Properties/C19.lean over the model Dino/Tree.lean.
Tie: every model operation (`tree <op> …` of Dino/TreeDrv.lean) is run on the inputs given to the real
functions of pytree_utils / coordinate_systems / xarray_utils and compared exactly (keys, order,
error kinds, integers).  Sentinel probes evaluate the round trips themselves on the real code
(bit-identical read back through xarray, coordinate-system attrs, up/down-sampling).
"""
import itertools
import os
import tempfile

import numpy as np

import common

RULE = ('nested dictionaries: depth 0..4, 0..4 entries per level, keys drawn from an alphabet with shared '
        'prefixes (a, ab, ac, abc), the empty string, unicode (é λ 雪 🙂), spaces and punctuation; empty '
        'sub-dictionaries at every depth; one-character separators & / . | λ (model correspondence); multi-character '
        'separators :: -- /. ab aa && .:. aba λ雪 (real code only: keys sharing no character with the separator must '
        'round-trip; keys built from parts of the separator, e.g. a: with ::, are measured and a wrong round trip is '
        'reported as multichar-separator-overlap, fixed corner cases first); a separate stream of keys containing the '
        'separator, of multi-dicts (duplicate keys through a dict subclass) and of arbitrary flat inputs '
        'for unflatten (conflicting paths in both orders); keys with NUL characters (a\\x00, \\x00) are ordinary keys.  '
        'pytrees: 0..5 leaves, ranks 1..4, sizes 0..4 along the axis, off-axis sizes 1..3 (now and then 0), every axis '
        'position (positive and negative); the model gets every leaf as off-axis shape + slices.  About 30% of the '
        'multi-leaf pack / stack / concat cases hold one deviating leaf (any position, the first included): one off-axis '
        'size + 1, the same sizes permuted (equal product), another rank with equal product, another rank, each also with '
        'no slice along the axis or with no slice in any leaf; fixed corner cases first (e.g. shapes (2,2,3) / (2,3,2), '
        '(2,6) / (2,3,2), (0,2,3) / (2,3,2)); concat_along_axis on 1..3 trees of one structure, 40% single-slice trees '
        '(split_axis of the concatenation must give the trees back); split_axis with keep_dims True / False on '
        'same-rank trees, on fixed corner trees with a non-leading axis (axis >= 1, negative axes, leaves of ranks 1..4 '
        'in one tree) and on random mixed-rank trees: the number of pieces, every piece against np.take along the axis '
        '(singleton kept at the position of the axis) and the concat / stack round trip.  spectral: pairs of small grids '
        '(both transform implementations, equal / larger / mixed truncations, different verticals).  '
        'dims: layers 1..5, time / sample / realization / user coordinates incl. collisions with the level axis and '
        'grids whose nodal shape equals the modal shape (fixed corner case M=5, L=7, 10x7 nodes, fast layout in every '
        'run; wrong names are measured on the real code and reported as modal-equals-nodal-shape).  xarray: random '
        'coordinate systems (3 spacings, offsets, radii, sigma / layer / pressure verticals), tracer sets '
        'with random names, NaN / -0.0 / inf / denormal payloads.  A case is non-trivial when the structure '
        'has >= 2 entries or an empty branch, or when it is a validation case; distinct = distinct '
        '(op, input) hashes')

ALPHABET = ['a', 'b', 'ab', 'ac', 'abc', '', 'x', 'y', 'é', 'λ', '雪', '🙂', ' ', 'a b', '.', ',', '=', 'K', 'L1',
            'tracers', 'a.b', '_', 'Z9', 'a\x00', '\x00']
SEPS = ['&', '&', '&', '/', '.', '|', 'λ']


# ----------------------------------------------------------------------------- encodings


def enc_key(k: str) -> str:
  return 'K' + '.'.join(str(ord(c)) for c in k)


def dec_key(t: str) -> str:
  assert t[0] == 'K'
  return ''.join(chr(int(x)) for x in t[1:].split('.')) if len(t) > 1 else ''


def items_of(d):
  return list(d.items())


def enc_dict(d) -> str:
  """prefix notation; `d` may be a MultiDict (duplicate keys through .items())."""
  toks = []

  def val(v):
    if isinstance(v, dict):
      its = items_of(v)
      toks.append(f'D{len(its)}')
      for k, x in its:
        toks.append(enc_key(k))
        val(x)
    else:
      toks.append(f'L{int(v)}')

  val(d)
  return ' '.join(toks)


def enc_items(flat) -> str:
  return ','.join(f'{enc_key(k)}={int(v)}' for k, v in flat.items()) if flat else '_'


def enc_keys(ks) -> str:
  ks = list(ks)
  return ','.join(enc_key(k) for k in ks) if ks else '_'


def plain(d):
  """nested plain-dict copy (MultiDict -> last value wins, like dict(items))."""
  if isinstance(d, dict):
    return {k: plain(v) for k, v in items_of(d)}
  return d


def ref_flatten(d, sep, prefix=None):
  """independent oracle for flatten_dict on well-formed input (no validation)."""
  flat, empties = {}, []
  for k, v in d.items():
    nk = k if prefix is None else prefix + sep + k
    if isinstance(v, dict):
      if v:
        f2, e2 = ref_flatten(v, sep, nk)
        flat.update(f2)
        empties += e2
      else:
        empties.append(nk)
    else:
      flat[nk] = v
  return flat, empties


def ref_unflatten(flat, empties, sep):
  out = {}
  for key, value in list(flat.items()) + [(k, {}) for k in empties]:
    path = key.split(sep)
    cur = out
    for seg in path[:-1]:
      cur = cur.setdefault(seg, {})
    cur[path[-1]] = value
  return out


class MultiDict(dict):
  """A dict whose .items() may repeat keys: drives the duplicate checks of flatten_dict."""

  def __init__(self, pairs):
    super().__init__(pairs)
    self._pairs = list(pairs)

  def items(self):
    return list(self._pairs)


def errkind(e: Exception) -> str:
  m = str(e)
  if isinstance(e, ValueError):
    if 'contains sep' in m:
      return 'err:sep'
    if 'duplicate keys' in m:
      return 'err:dup'
    if 'not present in' in m:
      return 'err:unused'
    if 'leaves for PyTreeDef' in m or 'pytree structure error' in m or 'Custom node type mismatch' in m \
        or 'Dict key mismatch' in m or 'Tuple arity mismatch' in m or 'List arity mismatch' in m:
      return 'err:tree'
    if 'must have the same shape' in m or 'Cannot stack arrays with different numbers of dimensions' in m:
      return 'err:shape'
    return 'err:value'
  if isinstance(e, IndexError):
    return 'err:index'
  if isinstance(e, ZeroDivisionError):
    return 'err:zerodiv'
  if isinstance(e, TypeError):
    if 'Cannot concatenate' in m:
      return 'err:shape'
    if 'tree_map() missing' in m:
      return 'err:notrees'
    return 'err:type'
  return 'err:other:' + type(e).__name__


# ----------------------------------------------------------------------------- generators


class Counter:
  def __init__(self):
    self.n = 0

  def next(self):
    self.n += 1
    return self.n


def gen_dict(rng, sep, depth=0, cnt=None, max_depth=4, bad_sep=False, alphabet=None):
  cnt = cnt or Counter()
  n = int(rng.choice([0, 1, 2, 2, 3, 4])) if depth else int(rng.choice([0, 1, 2, 3, 3, 4, 5]))
  given = alphabet
  alphabet = [k for k in (ALPHABET if given is None else given) if sep not in k]
  keys = []
  for _ in range(n):
    k = str(rng.choice(alphabet))
    if rng.random() < 0.15:
      k = k + str(rng.choice(alphabet))
    if k not in keys and sep not in k:   # a concatenation may contain a multi-character separator
      keys.append(k)
  d = {}
  for k in keys:
    r = rng.random()
    if depth < max_depth and r < 0.35:
      d[k] = gen_dict(rng, sep, depth + 1, cnt, max_depth, alphabet=given)
    elif r < 0.5:
      d[k] = {}
    else:
      d[k] = cnt.next()
  return d


def inject_sep(rng, d, sep):
  """rename one key (at a random level) so that it contains the separator."""
  levels = []

  def walk(x):
    if isinstance(x, dict):
      if x:
        levels.append(x)
      for v in x.values():
        walk(v)

  walk(d)
  if not levels:
    d[sep] = 1
    return d
  lvl = levels[int(rng.integers(len(levels)))]
  k = list(lvl.keys())[int(rng.integers(len(lvl)))]
  newk = str(rng.choice([sep, k + sep, sep + k, k + sep + 'z']))
  items = [(newk if kk == k else kk, v) for kk, v in lvl.items()]
  lvl.clear()
  lvl.update(items)
  return d


CORNER_DICTS = [
    {}, {'': {}}, {'ab': {}, 'ac': {}}, {'': {'a': 1}}, {'': {'': {'': {}}}}, {'a': 1, '': {'a': 2}},
    {'': 1}, {'': {'': 1}, 'a': {'': {}}}, {'a': {'b': {'c': {'d': 1}}}}, {'a': {}, 'b': 1},
    {'ab': {}, 'ac': {}, '': {'a': 1, '': {}}, 'a': 2, 'x': {'y': {'z': 3}}},
    {'雪': {'🙂': {}, 'é': 4}, 'λx': {}}, {'a': {'b': {}}, 'a b': {' ': {}}},
]


def nontrivial_dict(d):
  n_entries = 0
  has_empty = False

  def walk(x):
    nonlocal n_entries, has_empty
    for v in items_of(x):
      n_entries += 1
      if isinstance(v[1], dict):
        if not items_of(v[1]):
          has_empty = True
        walk(v[1])

  walk(d)
  return n_entries >= 2 or has_empty


# ----------------------------------------------------------------------------- arrays


def to_slices(x, axis):
  x = np.asarray(x)
  y = np.moveaxis(x, axis, 0)
  return y.reshape(y.shape[0], int(np.prod(y.shape[1:])))


def off_shape(x, axis):
  """the shape without the working axis: what jnp.concatenate compares."""
  shp = [int(v) for v in np.asarray(x).shape]
  ax = axis % len(shp)
  return shp[:ax] + shp[ax + 1:]


def enc_shape(shp) -> str:
  shp = [int(v) for v in shp]
  return 'x'.join(str(v) for v in shp) if shp else '_'


def enc_rows(rows) -> str:
  """plain block `row;row;…` (`e` = no row; an empty row is the empty string)."""
  rows = [list(r) for r in rows]
  if not rows:
    return 'e'
  return ';'.join(','.join(str(int(v)) for v in r) for r in rows)


def enc_leaf(x, axis) -> str:
  """axis-major view of an array: `off:row;row;…` (Dino.Tree.Leaf)."""
  return enc_shape(off_shape(x, axis)) + ':' + enc_rows(to_slices(x, axis))


def enc_leaves(leaves, axis) -> str:
  leaves = list(leaves)
  return '|'.join(enc_leaf(l, axis) for l in leaves) if leaves else 'E'


def enc_trees(trees, axis) -> str:
  trees = list(trees)
  return '/'.join(enc_leaves(t, axis) for t in trees) if trees else 'N'


def enc_arr(x) -> str:
  """a whole array `shape:v,v,…` (Dino.Tree.Arr)."""
  x = np.asarray(x)
  return enc_shape(x.shape) + ':' + ','.join(str(int(v)) for v in x.ravel())


def enc_arrs(xs) -> str:
  xs = list(xs)
  return '|'.join(enc_arr(x) for x in xs) if xs else 'E'


def deviate(rng, off, kind):
  """an off-axis shape that differs from `off` (None when this kind is impossible for `off`)."""
  off = [int(v) for v in off]
  prod = int(np.prod(off))
  if kind == 'bump':
    if not off:
      return None
    j = int(rng.integers(len(off)))
    return off[:j] + [off[j] + 1] + off[j + 1:]
  if kind == 'eqprod-perm':       # same rank, same product, other sizes
    perms = sorted({p for p in itertools.permutations(off) if list(p) != off})
    return list(perms[int(rng.integers(len(perms)))]) if perms else None
  if kind == 'eqprod-rank':       # same product (same flattened slice width), other rank
    cands = [[1] + off, off + [1]] + ([[prod]] if len(off) >= 2 else [])
    return cands[int(rng.integers(len(cands)))]
  if kind == 'rank':              # other rank, other product
    cands = [off + [2], [3] + off] + ([off[1:]] if off and off[0] != 1 else [])
    return cands[int(rng.integers(len(cands)))]
  raise ValueError(kind)


DEVIATIONS = ['bump', 'eqprod-perm', 'eqprod-rank', 'rank']


TREE_KINDS = ['list', 'tuple', 'dict', 'nested']


def random_tree_of(rng, leaves, kind=None):
  """arrange `leaves` in a nested container whose jax flattening order is the list order."""
  import jax
  leaves = list(leaves)
  kind = rng.choice(TREE_KINDS) if kind is None else kind
  if kind == 'list':
    t = list(leaves)
  elif kind == 'tuple':
    t = tuple(leaves)
  elif kind == 'dict':
    t = {f'k{i:02d}': l for i, l in enumerate(leaves)}
  else:
    h = len(leaves) // 2
    t = {'a': list(leaves[:h]), 'b': {'c': tuple(leaves[h:])}}
  got = jax.tree_util.tree_leaves(t)
  assert len(got) == len(leaves) and all(a is b for a, b in zip(got, leaves))
  return t


# ----------------------------------------------------------------------------- main


def run(ctx: common.Ctx):
  jax = common.setup_jax()
  import jax.numpy as jnp
  import xarray
  from dinosaur import pytree_utils as pu
  from dinosaur import coordinate_systems as cs
  from dinosaur import xarray_utils as xu
  from dinosaur import spherical_harmonic as sh
  from dinosaur import sigma_coordinates as sc
  from dinosaur import layer_coordinates as lc
  from dinosaur import vertical_interpolation as vi
  from dinosaur import primitive_equations as pe
  from dinosaur import shallow_water as sw

  ctx.lean('DinoProofs.Properties.C19', 'C19.txt',
           extra_files=['DinoProofs/Lemmas/Tree.lean', 'DinoProofs/Lemmas/TreeDict.lean',
                        'DinoProofs/Lemmas/TreeFlat.lean', 'DinoProofs/Lemmas/TreeRound.lean',
                        'DinoProofs/Lemmas/TreeEq.lean', 'DinoProofs/Lemmas/TreeReplace.lean',
                        'DinoProofs/Lemmas/TreeArr.lean', 'DinoProofs/Lemmas/TreeLeaf.lean',
                        'DinoProofs/Lemmas/TreeMore.lean', 'Dino/Tree.lean'])

  import time as _time
  _t0 = _time.time()
  def _mark(name):
    ctx.notes.append(f'timing {name}: {_time.time() - _t0:.1f}s')
  _mark('lean')
  rng = ctx.rng
  lines, checks = [], []   # checks: (op, inp, impl_string)

  def add(line, op, inp, impl):
    lines.append(line)
    checks.append((op, inp, impl))

  def real(fn):
    """run the real code: ('ok', value) or ('err:…', None)."""
    try:
      return 'ok', fn()
    except Exception as e:  # pylint: disable=broad-except
      return errkind(e), None

  # ================================================================== A. nested dictionaries
  def flatten_case(d, sep, tag):
    inp = dict(d=plain(d) if not isinstance(d, MultiDict) else repr(d.items()), sep=sep, stream=tag)
    st, val = real(lambda: pu.flatten_dict(d, sep=sep))
    ctx.dist[f'flatten:{tag}:{st}'] += 1
    ctx.case(('flatten', enc_dict(d), sep), nontrivial=nontrivial_dict(d) or tag != 'valid',
             sample=dict(op='flatten_dict', d=inp['d'], sep=sep))
    impl = f'ok {enc_items(val[0])} {enc_keys(val[1])}' if st == 'ok' else st
    add(f'tree flatten {ord(sep)} {enc_dict(d)}', 'flatten_dict', inp, impl)
    return st, val

  def dict_cases(d, sep, tag):
    st, val = flatten_case(d, sep, tag)
    inp = dict(d=plain(d), sep=sep, stream=tag)
    if st != 'ok':
      return
    flat, empties = val
    st2, back = real(lambda: pu.unflatten_dict(flat, empties, sep=sep))
    impl2 = f'ok {enc_dict(back)}' if st2 == 'ok' else st2
    add(f'tree unflatten {ord(sep)} {enc_items(flat)} {enc_keys(empties)}', 'unflatten_dict',
        dict(flat=flat, empties=list(empties), sep=sep), impl2)
    if tag == 'valid':
      # the property itself on the real code
      ctx.expect(st2 == 'ok' and back == d, 'flatten-roundtrip',
                 f'unflatten_dict(*flatten_dict(d)) != d: got {back!r} ({st2})', inp)
      add(f'tree roundtrip {ord(sep)} {enc_dict(d)}', 'unflatten∘flatten', inp,
          f'ok 1 {enc_dict(back)}' if st2 == 'ok' else st2)
      # keys never collide, flatten is injective on the structure
      ctx.expect(len(set(flat.keys()) | set(empties)) == len(flat) + len(empties), 'flatten-keys-distinct',
                 'flattened keys collide', inp)
      rf, re_ = ref_flatten(d, sep)
      ctx.expect(flat == rf and sorted(empties) == sorted(re_), 'flatten-oracle',
                 f'flatten_dict differs from the independent oracle: {flat!r} {empties!r}', inp)

  ndict = ctx.n(220, 2500)
  for i in range(ndict):
    sep = '&' if i < len(CORNER_DICTS) else str(rng.choice(SEPS))
    d = CORNER_DICTS[i] if i < len(CORNER_DICTS) else gen_dict(rng, sep, max_depth=int(rng.choice([1, 2, 3, 4])))
    dict_cases(d, sep, 'valid')
  # rejection path: a key containing the separator
  for i in range(ctx.n(40, 400)):
    sep = str(rng.choice(SEPS))
    d = inject_sep(rng, gen_dict(rng, sep, max_depth=3), sep)
    st, _ = flatten_case(d, sep, 'sep-in-key')
    ctx.expect(st == 'err:sep', 'flatten-rejects-sep', f'key containing the separator not rejected ({st})',
               dict(d=d, sep=sep))
  # duplicate checks: multi-dicts
  for i in range(ctx.n(40, 400)):
    sep = '&'
    base = gen_dict(rng, sep, max_depth=2)
    pairs = list(base.items())
    mode = ['dup-leaf', 'dup-empty', 'leaf-and-empty', 'nested-dup', 'dup-with-shared-initial'][i % 5]
    if mode == 'dup-leaf':
      pairs += [('q', 901), ('q', 902)]
    elif mode == 'dup-empty':
      pairs += [('q', {}), ('r', 5), ('q', {})]
    elif mode == 'leaf-and-empty':
      pairs += [('q', {}), ('q', 903)]
    elif mode == 'nested-dup':
      pairs += [('n', MultiDict([('u', 1), ('v', {}), ('u', 2)]))]
    else:
      pairs += [('qa', {}), ('qb', {}), ('', {})]
    rng.shuffle(pairs)
    flatten_case(MultiDict(pairs), sep, 'multi:' + mode)
  # unflatten on arbitrary flat input (conflicts, overwrites, type errors)
  for i in range(ctx.n(80, 800)):
    sep = str(rng.choice(['&', '&', '/']))
    segs = ['a', 'b', '', 'ab', 'c']
    nk = int(rng.integers(0, 6))
    flat = {}
    for j in range(nk):
      path = [str(rng.choice(segs)) for _ in range(int(rng.integers(1, 4)))]
      flat[sep.join(path)] = 100 + j
    empties = tuple(sep.join(str(rng.choice(segs)) for _ in range(int(rng.integers(1, 4))))
                    for _ in range(int(rng.integers(0, 4))))
    if i == 0:
      flat, empties = {'a': 1, 'a&b': 2}, ()
      sep = '&'
    elif i == 1:
      flat, empties, sep = {'a&b': 2, 'a': 1}, (), '&'
    elif i == 2:
      flat, empties, sep = {'a': 1}, ('a&b', 'a'), '&'
    elif i == 3:
      flat, empties, sep = {'a&b&c': 2, 'a': 1}, ('a&b',), '&'
    st, back = real(lambda: pu.unflatten_dict(flat, empties, sep=sep))
    ctx.dist[f'unflatten:arbitrary:{st}'] += 1
    ctx.case(('unflatten', enc_items(flat), enc_keys(empties), sep), nontrivial=True)
    add(f'tree unflatten {ord(sep)} {enc_items(flat)} {enc_keys(empties)}', 'unflatten_dict',
        dict(flat=flat, empties=list(empties), sep=sep), f'ok {enc_dict(back)}' if st == 'ok' else st)
  # str.split
  for i in range(ctx.n(40, 300)):
    sep = str(rng.choice(SEPS))
    s = ''.join(str(rng.choice(['a', 'b', sep, sep, '', 'é', '雪'])) for _ in range(int(rng.integers(0, 8))))
    ctx.case(('split', s, sep), nontrivial=sep in s)
    add(f'tree split {ord(sep)} {enc_key(s)}', 'str.split', dict(s=s, sep=sep), enc_keys(s.split(sep)))
  # replace_with_matching_or_default
  for i in range(ctx.n(80, 800)):
    x = gen_dict(rng, '&', max_depth=3)
    fx, ex = ref_flatten(x, '&')
    keys = list(fx.keys())
    mode = ['subset', 'all', 'none', 'extra', 'extra-unchecked', 'dict-at-leaf', 'sep-in-replace'][i % 7]
    chosen = [k for k in keys if rng.random() < 0.5] if mode in ('subset', 'extra', 'extra-unchecked') else \
        (keys if mode in ('all', 'dict-at-leaf') else [])
    repl_flat = {k: 1000 + j for j, k in enumerate(chosen)}
    if mode in ('extra', 'extra-unchecked'):
      repl_flat['not&there'] = 7
    repl = ref_unflatten(repl_flat, [], '&')
    if mode == 'dict-at-leaf' and keys:
      repl = ref_unflatten({keys[0] + '&deeper': 5}, [], '&')
    if mode == 'sep-in-replace':
      repl = {'a&b': 1}
    check = mode != 'extra-unchecked'
    default = -1
    inp = dict(x=x, replace=repl, default=default, check=check, mode=mode)
    st, res = real(lambda: pu.replace_with_matching_or_default(x, repl, default, check))
    ctx.dist[f'replace:{mode}:{st}'] += 1
    ctx.case(('replace', enc_dict(x), enc_dict(repl), check), nontrivial=nontrivial_dict(x))
    add(f'tree replace {int(check)} {default} {enc_dict(x)} {enc_dict(repl)}',
        'replace_with_matching_or_default', inp, f'ok {enc_dict(res)}' if st == 'ok' else st)
    if st == 'ok':
      fr, er = ref_flatten(res, '&')
      ctx.expect(set(fr) == set(fx) and set(er) == set(ex), 'replace-structure',
                 'replace_with_matching_or_default changed the structure', inp)
      ctx.expect(all(fr[k] == repl_flat.get(k, default) for k in fr) if mode in ('subset', 'all', 'none', 'extra-unchecked') else True,
                 'replace-values', 'replace_with_matching_or_default: wrong leaf values', inp)
  # negative witnesses of the two repaired defects, replayed on the implementation
  w1 = {'ab': {}, 'ac': {}}
  st, val = real(lambda: pu.flatten_dict(w1))
  ctx.expect(st == 'ok' and val == ({}, ('ab', 'ac')) and real(lambda: pu.unflatten_dict(*val))[1] == w1, 'flatten-shared-initial',
             f"flatten_dict({w1}) -> {st} {val}: distinct empty sub-dictionaries sharing a first letter", dict(d=w1))
  add('tree flattenold 38 ' + enc_dict(w1), 'model of the pre-fix flatten_dict (shared initial)', dict(d=w1), 'err:dup')
  w2 = {'': {}}
  st, val = real(lambda: pu.flatten_dict(w2))
  ctx.expect(st == 'ok' and val == ({}, ('',)) and real(lambda: pu.unflatten_dict(*val))[1] == w2, 'flatten-empty-key',
             f"flatten_dict({w2}) -> {st} {val}", dict(d=w2))
  add('tree flattenold 38 ' + enc_dict(w2), 'model of the pre-fix flatten_dict (empty key)', dict(d=w2), 'err:index')
  w3 = {'': {'a': 1}}
  st, val = real(lambda: pu.flatten_dict(w3))
  ctx.expect(st == 'ok' and val == ({'&a': 1}, ()) and real(lambda: pu.unflatten_dict(*val))[1] == w3, 'flatten-empty-prefix',
             f"flatten_dict({w3}) -> {st} {val}: sub-dictionary under the empty key merged into its parent", dict(d=w3))
  add('tree flattenold 38 ' + enc_dict(w3), 'model of the pre-fix flatten_dict (empty prefix)', dict(d=w3),
      f"ok {enc_items({'a': 1})} _")
  # ---- multi-character separators (`sep: str` of the API; the theorems are about a one-character separator, so
  # there is no model line here: the real code is compared with the independent oracle and the round trip is
  # evaluated directly).
  #  * keys that share no character with sep: the joined string splits back uniquely (a match of sep can only start
  #    inside an inserted separator, and the leftmost scan of str.split finds the inserted ones one after the other),
  #    so the round trip is expected (ordinary keys);
  #  * keys that avoid sep as a substring but share characters with it (a key ending / starting with a part of sep,
  #    'a:' with '::'): flatten_dict accepts them and the joined string may split elsewhere.  Whenever the real
  #    code then returns a different dictionary (or unflatten_dict raises) the failure is reported under the
  #    structural key `multichar-separator-overlap` (known finding); nothing is reported when the real code
  #    round-trips or refuses the input in flatten_dict.
  def all_keys(d):
    out = []
    for k, v in d.items():
      out.append(k)
      if isinstance(v, dict):
        out += all_keys(v)
    return out

  def multichar_case(d, sep, tag):
    keys = all_keys(d)
    assert len(sep) >= 2 and all(sep not in k for k in keys)
    disjoint = not any(set(k) & set(sep) for k in keys)
    inp = dict(d=d, sep=sep, stream='multichar:' + tag, keys_share_characters_with_sep=not disjoint)
    ctx.case(('flatten-multichar', enc_dict(d), sep), nontrivial=nontrivial_dict(d) or not disjoint,
             sample=dict(op='flatten_dict (multi-character sep)', d=d, sep=sep))
    st, val = real(lambda: pu.flatten_dict(d, sep=sep))
    ctx.dist[f'flatten:multichar:{"disjoint" if disjoint else "overlap"}:{st}'] += 1
    if disjoint:
      ctx.expect(st == 'ok', 'flatten-multichar-accepts', f'flatten_dict raised ({st}) although no key shares a '
                 'character with the separator', inp)
    if st != 'ok':
      # overlap stream only (a disjoint input that is refused was reported just above): flatten_dict may refuse such an
      # input only because two different paths flatten to the same key ('duplicate keys', e.g. {'a:': {'b': 1},
      # 'a': {':b': 2}} with '::'); the oracle must show that collision, anything else is a failure
      if not disjoint:
        rkeys = []

        def walk(x, pre):
          for k, v in x.items():
            nk = k if pre is None else pre + sep + k
            if isinstance(v, dict) and v:
              walk(v, nk)
            else:
              rkeys.append((nk, isinstance(v, dict)))
        walk(d, None)
        leafk = [k for k, e in rkeys if not e]
        emptk = [k for k, e in rkeys if e]
        collide = len(set(leafk)) < len(leafk) or len(set(emptk)) < len(emptk)
        ctx.dist[f'flatten:multichar:overlap:refused:{st}'] += 1
        ctx.notes.append(f'multichar overlap input refused by flatten_dict ({st}): d={d!r} sep={sep!r}')
        ctx.expect(st == 'err:dup' and collide, 'flatten-multichar-refusal',
                   f'flatten_dict refused ({st}) an input without separator in any key whose flattened keys '
                   f'{"collide" if collide else "do not collide"}', inp)
      return
    flat, empties = val
    rf, re_ = ref_flatten(d, sep)
    ctx.expect(flat == rf and sorted(empties) == sorted(re_), 'flatten-oracle',
               f'flatten_dict differs from the independent oracle: {flat!r} {empties!r}', inp)
    st2, back = real(lambda: pu.unflatten_dict(flat, empties, sep=sep))
    same = st2 == 'ok' and back == d
    if disjoint:
      ctx.expect(same, 'flatten-roundtrip-multichar',
                 f'unflatten_dict(*flatten_dict(d, sep), sep) != d although no key shares a character with sep: '
                 f'flat={flat!r} empties={empties!r} got {back!r} ({st2})', inp)
    elif not same:
      ctx.dist['flatten:multichar:overlap:roundtrip-fails'] += 1
      ctx.fail('multichar-separator-overlap',
               f'flatten_dict({d!r}, sep={sep!r}) = ({flat!r}, {tuple(empties)!r}); unflatten_dict(…, sep={sep!r}) '
               + (f'returns {back!r} != d' if st2 == 'ok' else f'raises ({st2})') +
               ': no key contains the separator, but a key ends / starts with a part of it', inp)
    else:
      ctx.dist['flatten:multichar:overlap:roundtrip-holds'] += 1

  MSEPS = ['::', '--', '/.', 'ab', 'aa', '&&', '.:.', 'aba', 'λ雪', '::', '&&']
  # fixed corner cases first: the review's input is reported in every run as long as the real code mislabels
  for d, sep in [({'a:': {'b': 1}}, '::'), ({'a': {':b': 1}}, '::'), ({'a': {'b': 1}}, 'aa'), ({'x': {'-': {}}}, '--'),
                 ({'a:': {}}, '::'), ({'/': {'.': 1, '': 2}}, '/.'), ({'λ': {'雪': {}, 'x': 1}}, 'λ雪'),
                 # two paths with one flattened key: refused as 'duplicate keys' (checked, not skipped)
                 ({'a:': {'b': 1}, 'a': {':b': 2}}, '::'), ({'a:': {'b': {}}, 'a': {':b': {}}}, '::')]:
    multichar_case(d, sep, 'overlap-corner')
  for d, sep in [({'a': {'b': 1, '': {}}, '': {'c': {}, '': {'': 3}}}, '::'), ({}, '--'), ({'': {}}, 'ab'),
                 ({'x': {'y': {'z': 1}}, 'xy': {'z': 2}, 'x y': {}}, 'aa'), ({'雪': {'🙂': {}, 'é': 4}}, '/.')]:
    multichar_case(d, sep, 'disjoint-corner')
  for i in range(ctx.n(80, 800)):
    sep = str(rng.choice(MSEPS))
    if i % 2 == 0:   # keys sharing no character with sep
      alpha = [k for k in ALPHABET if not (set(k) & set(sep))]
      multichar_case(gen_dict(rng, sep, max_depth=int(rng.choice([1, 2, 3])), alphabet=alpha), sep, 'disjoint')
    else:            # keys built from parts of sep (never sep itself as a substring)
      parts = sorted({sep[:j] for j in range(1, len(sep))} | {sep[j:] for j in range(1, len(sep))})
      alpha = parts + ['x' + q for q in parts] + [q + 'y' for q in parts] + ['', 'x', 'y', 'xy']
      multichar_case(gen_dict(rng, sep, max_depth=int(rng.choice([1, 2, 3])), alphabet=alpha), sep, 'overlap')
  # NUL-suffixed keys (repaired defect, /repo commit 0ddc902: np.unique on a numpy unicode array dropped trailing NULs, so
  # distinct keys looked like duplicates).  Keys with NULs are ordinary keys of the claim (ALPHABET holds 'a\x00' and
  # '\x00'): flatten_dict must accept them and the round trip must hold; a regression is a failure with this input
  for dnul in ({'a': 1, 'a\x00': 2}, {'b': {'c\x00': {}, 'c': {}}, 'b\x00': {'c': 3}}, {'\x00': {'': 1}, '': {'\x00': 1}}):
    dict_cases(dnul, '&', 'valid')   # also compared with the model (exact key comparison) and the oracle
    inp = dict(d=repr(dnul), sep='&')
    with ctx.impl('nul-suffixed-keys', inp, 'flatten_dict / unflatten_dict raised on keys differing by trailing NULs'):
      flat, empty = pu.flatten_dict(dnul)
      ctx.case(('nul-keys', repr(dnul)), nontrivial=True)
      ctx.expect(pu.unflatten_dict(flat, empty) == dnul, 'nul-suffixed-keys',
                 'unflatten_dict(flatten_dict(d)) != d for keys differing by trailing NUL characters', inp)

  _mark('A dictionaries')
  # ================================================================== B. pytrees of arrays
  cnt = Counter()

  def arr(shape):
    n = int(np.prod(shape))
    a = (np.arange(n, dtype=np.float64) + cnt.n * 1000).reshape(shape)
    cnt.n += 1
    return a

  def rand_rest(k):
    return tuple(int(v) for v in rng.choice([1, 2, 3], size=k))

  def rand_off(k):
    """off-axis sizes: mostly 1..3, now and then a zero-size axis."""
    r = list(rand_rest(k))
    if k and rng.random() < 0.08:
      r[int(rng.integers(k))] = 0
    return r

  def with_axis(off, pos, size):
    off = list(off)
    return tuple(off[:pos]) + (int(size),) + tuple(off[pos:])

  def same_arrays(xs, ys):
    xs, ys = list(xs), list(ys)
    return len(xs) == len(ys) and all(np.asarray(x).shape == np.asarray(y).shape and
                                      np.asarray(x).tobytes() == np.asarray(y).tobytes() for x, y in zip(xs, ys))

  # ---- pack / unpack.  The leaves are described by (off-axis shape, size along the axis); `pos` is the position of
  # the working axis in every leaf (the position jnp.concatenate derives from the rank of the FIRST leaf, also for a
  # negative axis).  Deviating leaves: another off-axis size (bump), the same sizes permuted (equal product), another
  # rank with the same / another product, each also with no slice along the axis.
  PACK_CORNERS = [  # (shapes, axis)
      ([], 0), ([(2, 3)], 0), ([(1, 2), (0, 2), (3, 2)], 0),
      ([(2, 2, 3), (2, 3, 2)], 0),        # review2 F / C19 N2: equal product, TypeError
      ([(2, 6), (2, 3, 2)], 0),           # rank mismatch, equal slice width
      ([(2, 3, 2), (2, 6)], 0),
      ([(0, 2, 3), (2, 3, 2)], 0),        # the deviating leaf is the one without slices
      ([(2, 2, 3), (0, 3, 2)], 0),
      ([(0, 2, 3), (0, 3, 2)], 0),        # no leaf has a slice
      ([(0, 2, 3), (2, 2, 3)], 0),        # consistent, first leaf empty
      ([(2, 3), (4, 2, 3)], -1),          # negative axis, ranks differ: the axis of the first leaf counts
      ([(2, 3, 1), (2, 1, 3)], 1),
      ([(2, 0), (3, 0)], 0),              # zero-size off-axis dimension, consistent
      ([(2, 0, 2), (1, 2, 0)], 0),        # products 0 == 0, sizes differ
      ([(3,), (0,), (2,)], 0), ([(3,), (2, 1)], 0),
  ]
  ntree = ctx.n(90, 900)
  for i in range(ntree):
    if i < len(PACK_CORNERS):
      shapes, axis = PACK_CORNERS[i]
      kind = 'corner'
      pos = axis % len(shapes[0]) if shapes else 0
    else:
      nleaves = int(rng.choice([0, 1, 2, 3, 4, 5]))
      off = rand_off(int(rng.integers(0, 4)))            # off-axis dims of the consistent leaves (rank 1..4)
      sizes = [int(rng.choice([0, 1, 1, 2, 3, 4])) for _ in range(nleaves)]
      offs = [list(off) for _ in range(nleaves)]
      kind = 'consistent'
      if nleaves >= 2 and rng.random() < 0.3:
        kind = str(rng.choice(DEVIATIONS))
        dev = deviate(rng, off, kind)
        if dev is None:
          kind, dev = 'bump', (deviate(rng, off, 'bump') or [2])
        j = int(rng.integers(nleaves))                    # the deviating leaf (the first one included)
        offs[j] = dev
        if rng.random() < 0.35:
          sizes[j] = 0
          kind += '+empty-leaf'
        if rng.random() < 0.15:
          sizes = [0] * nleaves
          kind += '+all-empty'
      pos = int(rng.integers(0, min(len(o) for o in offs) + 1)) if offs else 0
      shapes = [with_axis(o, pos, z) for o, z in zip(offs, sizes)]
      axis = pos - len(shapes[0]) if (shapes and rng.random() < 0.5) else pos
    leaves = [arr(shp) for shp in shapes]
    nleaves = len(leaves)
    sizes = [int(shp[pos]) for shp in shapes]
    consistent = len({tuple(off_shape(l, pos)) for l in leaves}) <= 1
    tree = random_tree_of(rng, leaves)
    inp = dict(shapes=[list(l.shape) for l in leaves], axis=axis, stream=kind)
    ctx.dist[f'pack:leaves={nleaves}'] += 1
    ctx.dist[f'pack:stream:{kind}'] += 1
    ctx.dist[f'axis={"neg" if axis < 0 else "pos"}'] += 1
    ctx.case(('pack', repr(inp)), nontrivial=nleaves >= 2, sample=dict(op='pack/unpack', **inp))
    st, packed = real(lambda: pu.pack_pytree(tree, axis))
    if st == 'ok':
      impl = 'none' if packed is None else f'ok {enc_leaf(packed, pos)}'
    else:
      impl = st
    add(f'tree pack {enc_leaves(leaves, pos)}', 'pack_pytree', inp, impl)
    ctx.dist[f'pack:{st if st != "ok" else ("none" if packed is None else "ok")}'] += 1
    # acceptance, evaluated on the real code (theorem pack_ok_iff): an array exactly for >= 1 leaves whose shapes agree
    # off the axis, size by size
    ctx.expect((st == 'ok' and (packed is not None) == (nleaves > 0)) if consistent else st == 'err:shape',
               'pack-acceptance', f'pack_pytree: {st} on leaves whose off-axis shapes '
               f'{"agree" if consistent else "differ"}', inp)
    if st == 'ok' and packed is not None:
      shapes_t = jax.tree_util.tree_map(lambda x: np.asarray(x.shape), tree)
      st2, back = real(lambda: pu.unpack_to_pytree(packed, shapes_t, axis))
      bl = jax.tree_util.tree_leaves(back) if st2 == 'ok' else None
      add(f'tree unpack {enc_leaf(packed, pos)} {common.ivec(sizes)}', 'unpack_to_pytree', inp,
          f'ok {enc_leaves(bl, pos)}' if st2 == 'ok' else st2)
      ok = st2 == 'ok' and jax.tree_util.tree_structure(back) == jax.tree_util.tree_structure(tree) and \
          same_arrays(bl, leaves)
      ctx.expect(ok, 'pack-unpack-roundtrip', f'unpack_to_pytree(pack_pytree(x)) != x ({st2})', inp)
      # arbitrary (dishonest) sizes: correspondence of the clipping semantics, and pack(unpack(a, sizes)) == a
      fake = [int(rng.integers(0, 5)) for _ in range(int(rng.integers(0, 4)))]
      off0 = off_shape(packed, pos)
      fshapes = [np.asarray(with_axis(off0, pos, z)) for z in fake]
      st3, back3 = real(lambda: pu.unpack_to_pytree(packed, fshapes, axis))
      add(f'tree unpack {enc_leaf(packed, pos)} {common.ivec(fake)}', 'unpack_to_pytree (arbitrary sizes)',
          dict(packed_shape=list(packed.shape), sizes=fake, axis=axis),
          f'ok {enc_leaves(back3, pos)}' if st3 == 'ok' else st3)
      if st3 == 'ok':
        st4, re3 = real(lambda: pu.pack_pytree(list(back3), axis))
        ctx.expect(st4 == 'ok' and re3 is not None and same_arrays([re3], [packed]), 'unpack-pack-roundtrip',
                   f'pack_pytree(unpack_to_pytree(array, sizes)) != array ({st4})',
                   dict(sizes=fake, axis=axis, shape=list(packed.shape)))

  # ---- stack / unstack
  STACK_CORNERS = [  # (shapes, axis)
      ([], 0), ([(2, 3)], 1), ([(2, 3), (2, 3)], -1),
      ([(2, 3), (3, 2)], 0),              # equal number of entries, ValueError
      ([(6,), (3, 2)], 0),                # rank mismatch
      ([(3, 2), (6,)], 0),
      ([(0, 2), (0, 3)], 1), ([(0, 2), (2, 0)], 1), ([(0, 2), (0, 2)], 1),   # no entries at all
      ([(2,), (2,), (2,)], 1),
  ]
  for i in range(ctx.n(60, 600)):
    if i < len(STACK_CORNERS):
      shapes, axis = STACK_CORNERS[i]
      kind = 'corner'
    else:
      nleaves = int(rng.choice([0, 1, 2, 3, 4]))
      shape = rand_off(int(rng.integers(1, 4)))
      shapes = [tuple(shape) for _ in range(nleaves)]
      kind = 'consistent'
      if nleaves >= 2 and rng.random() < 0.3:
        kind = str(rng.choice(DEVIATIONS))
        dev = deviate(rng, shape, kind)
        if dev is None:
          kind, dev = 'bump', deviate(rng, shape, 'bump')
        shapes[int(rng.integers(nleaves))] = tuple(dev)
      nd = (len(shapes[0]) if shapes else len(shape)) + 1
      axis = int(rng.integers(-nd, nd))
    leaves = [arr(shp) for shp in shapes]
    nleaves = len(leaves)
    consistent = len({l.shape for l in leaves}) <= 1
    tree = random_tree_of(rng, leaves)
    inp = dict(shapes=[list(l.shape) for l in leaves], axis=axis, stream=kind)
    ctx.case(('stack', repr(inp)), nontrivial=nleaves >= 2)
    ctx.dist[f'stack:stream:{kind}'] += 1
    st, stacked = real(lambda: pu.stack_pytree(tree, axis))
    if st == 'ok':
      impl = 'none' if stacked is None else f'ok {enc_leaf(stacked, axis)}'
    else:
      impl = st
    ctx.dist[f'stack:{st if st != "ok" else ("none" if stacked is None else "ok")}'] += 1
    add(f'tree stack {enc_arrs(leaves)}', 'stack_pytree', inp, impl)
    ctx.expect((st == 'ok' and (stacked is not None) == (nleaves > 0)) if consistent else st == 'err:shape',
               'stack-acceptance', f'stack_pytree: {st} on leaves whose shapes {"agree" if consistent else "differ"}', inp)
    if st == 'ok' and stacked is not None:
      shapes_t = jax.tree_util.tree_map(lambda x: np.asarray(x.shape), tree)
      st2, back = real(lambda: pu.unstack_to_pytree(stacked, shapes_t, axis))
      bl = jax.tree_util.tree_leaves(back) if st2 == 'ok' else None
      add(f'tree unstack {enc_leaf(stacked, axis)} {nleaves}', 'unstack_to_pytree', inp,
          f'ok {enc_arrs(bl)}' if st2 == 'ok' else st2)
      ctx.expect(st2 == 'ok' and same_arrays(bl, leaves), 'stack-unstack-roundtrip',
                 f'unstack_to_pytree(stack_pytree(x)) != x ({st2})', inp)
      # the converse law (theorem stack_unstack): stacking what unstack returned gives the array back
      if st2 == 'ok':
        st4, re4 = real(lambda: pu.stack_pytree(back, axis))
        ctx.expect(st4 == 'ok' and re4 is not None and same_arrays([re4], [stacked]), 'unstack-stack-roundtrip',
                   f'stack_pytree(unstack_to_pytree(a)) != a ({st4})', inp)
      # wrong number of leaves in the template
      wrong = nleaves + int(rng.choice([-1, 1, 2]))
      if wrong >= 0:
        tmpl = [np.asarray(leaves[0].shape)] * wrong
        st3, back3 = real(lambda: pu.unstack_to_pytree(stacked, tmpl, axis))
        add(f'tree unstack {enc_leaf(stacked, axis)} {wrong}', 'unstack_to_pytree (wrong template)',
            dict(**inp, template_leaves=wrong), f'ok {enc_arrs(back3)}' if st3 == 'ok' else st3)
  st, _ = real(lambda: pu.unstack_to_pytree(np.zeros((0, 3)), [], 0))
  add('tree unstack 3:e 0', 'unstack_to_pytree (size 0)', dict(shape=[0, 3]), st)

  # ---- split_along_axis / concat_along_axis / slice guards
  for i in range(ctx.n(60, 600)):
    nleaves = int(rng.choice([0, 1, 2, 3]))
    axis = int(rng.integers(0, 3))
    same = rng.random() < 0.5
    leaves = []
    nd0 = int(rng.integers(axis + 1, axis + 3))
    for j in range(nleaves):
      nd = nd0 if same else int(rng.integers(axis + 1, axis + 4))
      shp = list(rand_rest(nd))
      shp[axis] = int(rng.choice([0, 1, 2, 3, 4]))
      leaves.append(arr(tuple(shp)))
    tree = random_tree_of(rng, leaves)
    idx = int(rng.choice([-6, -2, -1, 0, 1, 2, 3, 4, 9]))
    inp = dict(shapes=[list(l.shape) for l in leaves], axis=axis, idx=idx)
    ctx.case(('split', repr(inp)), nontrivial=nleaves >= 1)
    st, res = real(lambda: pu.split_along_axis(tree, idx, axis, False))
    if st == 'ok':
      a, b = (jax.tree_util.tree_leaves(t) for t in res)
      impl = f'ok {enc_leaves(a, axis)} {enc_leaves(b, axis)}'
    else:
      impl = st
    add(f'tree splitalong {enc_leaves(leaves, axis)} {idx}', 'split_along_axis', inp, impl)
    if st == 'ok':
      st2, cat = real(lambda: pu.concat_along_axis([res[0], res[1]], axis))
      cl = jax.tree_util.tree_leaves(cat) if st2 == 'ok' else None
      add(f'tree concat {enc_trees([a, b], axis)}', 'concat_along_axis', inp,
          f'ok {enc_leaves(cl, axis)}' if st2 == 'ok' else st2)
      ctx.expect(st2 == 'ok' and same_arrays(cl, leaves), 'split-concat-roundtrip',
                 f'concat_along_axis(split_along_axis(x)) != x ({st2})', inp)
    # guards
    gaxis = int(rng.choice([-2, -1, 0, 1, 2, 3]))
    gexp = bool(rng.random() < 0.5)
    stg, _ = real(lambda: pu.split_along_axis(tree, 1, gaxis, gexp))
    ctx.dist[f'sliceguard:{stg}'] += 1
    add(f'tree sliceguard {common.ivec([l.ndim for l in leaves])} {gaxis} {int(gexp)}', 'slice_along_axis guards',
        dict(ndims=[l.ndim for l in leaves], axis=gaxis, expect_same_dims=gexp), stg)
  st, _ = real(lambda: pu.concat_along_axis([], 0))
  add('tree concat N', 'concat_along_axis (no trees)', {}, st)
  st, _ = real(lambda: pu.concat_along_axis([[np.zeros((1, 2))], [np.zeros((1, 2)), np.zeros((1, 2))]], 0))
  add('tree concat 2:0,0/2:0,0|2:0,0', 'concat_along_axis (different structures)', {}, st)

  # ---- concat_along_axis on arbitrary lists of trees (1..3 trees of one structure; leaf positions with their own
  # ranks and off-axis shapes; a deviating leaf in any tree, the first one included), and the converse law
  # split_axis(concat_along_axis(trees)) == trees on single-slice trees (theorem splitAxis_concat)
  CONCAT_CORNERS = [  # (per tree: list of leaf shapes, axis)
      ([[(2, 2, 3)], [(2, 3, 2)]], 0), ([[(2, 6)], [(2, 3, 2)]], 0), ([[(0, 2, 3)], [(2, 3, 2)]], 0),
      ([[(0, 2, 3), (1, 4)], [(2, 2, 3), (1, 4)]], 0), ([[(1, 2)], [(2, 2)], [(1, 3)]], 0),
      ([[(1, 2), (1,)], [(1, 2), (1,)], [(1, 2), (1,)]], 0), ([[], []], 0), ([[(3, 1, 2)]], 1),
  ]
  for i in range(ctx.n(60, 600)):
    if i < len(CONCAT_CORNERS):
      tshapes, axis = CONCAT_CORNERS[i]
      kind = 'corner'
    else:
      ntrees = int(rng.choice([1, 2, 2, 3]))
      nleaves = int(rng.choice([0, 1, 2, 3]))
      axis = int(rng.integers(0, 3))
      single = rng.random() < 0.4          # every leaf has exactly one slice: the trees that split_axis produces
      offs = [rand_off(int(rng.integers(axis, axis + 3))) for _ in range(nleaves)]
      toffs = [[list(o) for o in offs] for _ in range(ntrees)]
      kind = 'single-slice' if single else 'consistent'
      if ntrees >= 2 and nleaves >= 1 and rng.random() < 0.3:
        kind = str(rng.choice(DEVIATIONS))
        j = int(rng.integers(nleaves))
        dev = deviate(rng, offs[j], kind)
        if dev is None or len(dev) < axis:
          kind, dev = 'rank', offs[j] + [2]
        toffs[int(rng.integers(ntrees))][j] = dev
      tshapes = [[with_axis(o, axis, 1 if single else int(rng.choice([0, 1, 2, 3]))) for o in to] for to in toffs]
    tkind = str(rng.choice(TREE_KINDS))
    tleaves = [[arr(shp) for shp in ts_] for ts_ in tshapes]
    trees = [random_tree_of(rng, ls, tkind) for ls in tleaves]
    nleaves = len(tleaves[0])
    consistent = all(len({tuple(off_shape(t[j], axis)) for t in tleaves}) == 1 for j in range(nleaves))
    inp = dict(shapes=[[list(l.shape) for l in t] for t in tleaves], axis=axis, stream=kind)
    ctx.case(('concat', repr(inp)), nontrivial=len(trees) >= 2 and nleaves >= 1)
    ctx.dist[f'concat:stream:{kind}'] += 1
    st, cat = real(lambda: pu.concat_along_axis(trees, axis))
    ctx.dist[f'concat:{st}'] += 1
    cl = jax.tree_util.tree_leaves(cat) if st == 'ok' else None
    add(f'tree concat {enc_trees(tleaves, axis)}', 'concat_along_axis (lists of trees)', inp,
        f'ok {enc_leaves(cl, axis)}' if st == 'ok' else st)
    ctx.expect(st == 'ok' if consistent else st == 'err:shape', 'concat-acceptance',
               f'concat_along_axis: {st} on trees whose leaves {"agree" if consistent else "differ"} off the axis', inp)
    if st == 'ok' and nleaves >= 1 and all(l.shape[axis] == 1 for t in tleaves for l in t):
      st2, res = real(lambda: pu.split_axis(cat, axis, True))
      rl = [jax.tree_util.tree_leaves(t) for t in res] if st2 == 'ok' else None
      add(f'tree splitaxis 1 {enc_leaves(cl, axis)}', 'split_axis (of a concatenation)', inp,
          f'ok {enc_trees(rl, axis)}' if st2 == 'ok' else st2)
      ok = st2 == 'ok' and len(rl) == len(tleaves) and all(same_arrays(x, y) for x, y in zip(rl, tleaves)) and \
          all(jax.tree_util.tree_structure(x) == jax.tree_util.tree_structure(y) for x, y in zip(res, trees))
      ctx.expect(ok, 'concat-split-axis-roundtrip',
                 f'split_axis(concat_along_axis(trees), keep_dims=True) != trees ({st2})', inp)

  # ---- split_axis
  def split_axis_case(leaves, axis, keep, stream):
    """one call of split_axis: correspondence with the model, every piece against an independent oracle
    (np.take along the axis: the piece i of leaf j is leaf[..., i, ...] with the axis kept as a singleton AT ITS
    POSITION for keep_dims=True, removed otherwise), the number of pieces, and the round trip."""
    nleaves = len(leaves)
    n = int(leaves[0].shape[axis]) if nleaves else 0
    tree = random_tree_of(rng, leaves)
    inp = dict(shapes=[list(l.shape) for l in leaves], axis=axis, keep_dims=keep, stream=stream)
    ctx.case(('split_axis', repr(inp)), nontrivial=nleaves >= 1 and n >= 2)
    st, res = real(lambda: pu.split_axis(tree, axis, keep))
    ctx.dist[f'split_axis:{st}'] += 1
    ctx.dist[f'split_axis:stream:{stream}'] += 1
    if nleaves:
      ranks = {l.ndim for l in leaves}
      pos = {axis % l.ndim for l in leaves}
      ctx.dist[f'split_axis:keep_dims={keep}:axis={"leading" if pos == {0} else "non-leading"}'
               f'{":negative" if axis < 0 else ""}{":mixed-ranks" if len(ranks) > 1 else ""}'] += 1
    trees = None
    if st == 'ok':
      try:
        trees = [jax.tree_util.tree_leaves(t) for t in res]
        if keep:
          impl = f'ok {enc_trees(trees, axis)}'
        else:
          impl = 'ok ' + ('/'.join(enc_arrs(t) for t in trees) if trees else 'N')
      except Exception as e:  # pylint: disable=broad-except
        impl = f'ok unencodable pieces: {type(e).__name__}'
    else:
      impl = st
    add(f'tree splitaxis {int(keep)} {enc_leaves(leaves, axis)}', 'split_axis', inp, impl)
    if st != 'ok' or trees is None:
      return st
    equal_sized = nleaves >= 1 and len({int(l.shape[axis]) for l in leaves}) == 1
    if equal_sized:
      ctx.expect(len(trees) == n, 'split-axis-count',
                 f'split_axis returns {len(trees)} pieces for an axis of size {n}', inp)
      bad = None
      for i, (piece, t) in enumerate(zip(res, trees)):
        if jax.tree_util.tree_structure(piece) != jax.tree_util.tree_structure(tree) or len(t) != nleaves:
          bad = f'piece {i}: tree structure differs from the input'
          break
        for j, (got, leaf) in enumerate(zip(t, leaves)):
          want = np.take(leaf, [i] if keep else i, axis=axis)
          got = np.asarray(got)
          if got.shape != want.shape:
            bad = (f'piece {i}, leaf {j}: shape {list(got.shape)}, expected {list(want.shape)} '
                   f'({"singleton kept at the position of the axis" if keep else "axis removed"})')
          elif got.tobytes() != np.ascontiguousarray(want).tobytes():
            bad = f'piece {i}, leaf {j}: values differ from leaf[..., {i}, ...]'
          if bad:
            break
        if bad:
          break
      ctx.expect(bad is None, 'split-axis-piece', f'split_axis(keep_dims={keep}): {bad}', inp)
    # round trip: concat_along_axis for keep_dims=True, np.stack along the axis otherwise
    if keep:
      st2, cat = real(lambda: pu.concat_along_axis(list(res), axis))
      cl = jax.tree_util.tree_leaves(cat) if st2 == 'ok' else []
    else:
      try:
        cl = [np.stack([np.asarray(t[j]) for t in trees], axis) for j in range(nleaves)]
        st2 = 'ok'
      except Exception as e:  # pylint: disable=broad-except
        st2, cl = f'cannot re-stack the pieces: {type(e).__name__}: {e}', []
    ctx.expect(st2 == 'ok' and same_arrays(cl, leaves), 'split-axis-roundtrip',
               f're-assembling split_axis(x) does not give x ({st2}; shapes '
               f'{[list(np.asarray(c).shape) for c in cl]})', inp)
    return st

  for i in range(ctx.n(40, 400)):
    nleaves = int(rng.choice([0, 1, 2, 3])) if i >= 2 else i
    nd = int(rng.integers(1, 4))
    axis = int(rng.integers(-nd, nd))
    n = int(rng.choice([0, 1, 2, 3, 4]))
    unequal = nleaves >= 2 and rng.random() < 0.15
    leaves = []
    for j in range(nleaves):
      shp = list(rand_rest(nd))
      shp[axis] = n + (1 if unequal and j == 1 else 0)
      leaves.append(arr(tuple(shp)))
    keep = bool(rng.random() < 0.5)
    split_axis_case(leaves, axis, keep, 'unequal' if unequal else 'same-rank')

  # keep_dims=True (and False) with a NON-LEADING axis: axis >= 1 and negative axes, leaves of several ranks in one tree
  # (the singleton must stay at position `axis` of every leaf; concat_along_axis along the same axis restores the tree)
  SPLIT_AXIS_CORNERS = [  # (leaf shapes, axis)
      ([(3, 5)], 1), ([(2, 4, 3, 2), (2, 4, 1, 2)], 1), ([(3, 5), (2, 5), (1, 5, 2)], 1),
      ([(2, 3, 4), (1, 2, 4, 2)], 2), ([(2, 3, 4), (5, 1, 4)], -1), ([(2, 3, 4), (5, 3, 1)], -2),
      ([(2, 3), (3,)], -1), ([(3, 2), (2, 3, 2), (1, 2, 3, 2)], -2), ([(3, 1, 2)], 1), ([(2, 1)], -1),
      ([(4,)], -1), ([(2, 3, 2)], -3), ([(2, 2), (3, 2, 1)], 1), ([(1, 3), (2, 3)], 1),
  ]
  for shapes, axis in SPLIT_AXIS_CORNERS:
    for keep in (True, False):
      split_axis_case([arr(shp) for shp in shapes], axis, keep, 'corner-non-leading')
  for i in range(ctx.n(30, 300)):
    nleaves = int(rng.choice([1, 2, 3]))
    axis = int(rng.choice([1, 2, -1, -2, -3])) if i % 5 else int(rng.choice([0, -1]))
    need = axis + 1 if axis >= 0 else -axis
    n = int(rng.choice([1, 2, 3, 4]))
    leaves = []
    for j in range(nleaves):
      nd = need + int(rng.integers(0, 3))
      shp = list(rand_rest(nd))
      shp[axis] = n
      leaves.append(arr(tuple(shp)))
    split_axis_case(leaves, axis, bool(i % 3 != 2), 'mixed-ranks')

  _mark('B pytrees')
  # ================================================================== C. spectral resampling
  impls = [sh.RealSphericalHarmonics, sh.FastSphericalHarmonics]

  def small_grid(M, L, impl, nlon=None, nlat=None):
    return sh.Grid(longitude_wavenumbers=M, total_wavenumbers=L, longitude_nodes=nlon or (3 * M + 1),
                   latitude_nodes=nlat or ((3 * M + 2) // 2), spherical_harmonics_impl=impl)

  def horiz(c):
    return (f'{c.horizontal.longitude_wavenumbers},{c.horizontal.total_wavenumbers},'
            f'{c.horizontal.modal_shape[0]},{c.horizontal.modal_shape[1]}')

  for i in range(ctx.n(60, 500)):
    with ctx.impl('spectral-exception', dict(iteration=i, seed=ctx.seed)):
      impl = impls[i % 2]
      M1, M2 = int(rng.integers(1, 6)), int(rng.integers(1, 6))
      L1, L2 = M1 + int(rng.integers(0, 3)), M2 + int(rng.integers(0, 3))
      if i < 4:
        M2, L2 = M1 + 1, L1 + 2            # proper up-sampling pairs first
      nlayers1 = int(rng.choice([1, 2, 3]))
      same_vertical = rng.random() < 0.8
      v1 = sc.SigmaCoordinates.equidistant(nlayers1)
      v2 = v1 if same_vertical else sc.SigmaCoordinates.equidistant(nlayers1 + 1)
      c1 = cs.CoordinateSystem(small_grid(M1, L1, impl), v1)
      c2 = cs.CoordinateSystem(small_grid(M2, L2, impl), v2)
      es = bool(rng.random() < 0.8)
      m1 = c1.horizontal.modal_shape
      state = {'x': arr((nlayers1,) + m1), 's': arr((1,) + m1), 'f2': arr(m1), 't': np.float64(3.5)}
      inp = dict(src=dict(M=M1, L=L1, modal=list(m1)), dst=dict(M=M2, L=L2, modal=list(c2.horizontal.modal_shape)),
                 impl=impl.__name__, same_vertical=bool(same_vertical), expect_same_vertical=es)
      ctx.case(('resample', repr(inp)), nontrivial=(M1, L1) != (M2, L2), sample=dict(op='spectral resample', **inp))
      for kind, fn in (('up', cs.get_spectral_upsample_fn), ('down', cs.get_spectral_downsample_fn),
                       ('interp', cs.get_spectral_interpolate_fn)):
        st, out = real(lambda: fn(c1, c2, es)(state))
        ctx.dist[f'resample:{kind}:{st}'] += 1
        blocks = [('x', j) for j in range(nlayers1)] + [('s', 0), ('f2', None)]
        for name, j in blocks:
          src = state[name] if j is None else state[name][j]
          if st == 'ok':
            o = np.asarray(out[name] if j is None else out[name][j])
            # which direction was taken is visible from the result
            impl_s = enc_rows(o)
          line = f'tree resample {kind} {horiz(c1)} {horiz(c2)} {int(same_vertical)} {int(es)} {enc_rows(src)}'
          lines.append(line)
          checks.append((f'get_spectral_{kind}', inp, ('ANY ' + impl_s) if st == 'ok' else st))
        if st == 'ok':
          ctx.expect(np.asarray(out['t']) == state['t'], 'resample-scalar', 'scalar leaf changed by resampling', inp)
      # the property: up then down is the identity, bit for bit, and up has the fine shape
      stu, up = real(lambda: cs.get_spectral_upsample_fn(c1, c2, es)(state))
      if stu == 'ok':
        std, down = real(lambda: cs.get_spectral_downsample_fn(c2, c1, es)(up))
        if std == 'ok':
          ok = all(np.asarray(down[k]).shape == np.asarray(state[k]).shape and
                   np.asarray(down[k]).tobytes() == np.asarray(state[k]).tobytes() for k in state)
          ctx.expect(ok, 'upsample-downsample-roundtrip', 'downsample(upsample(x)) != x', inp)
          ctx.expect(np.asarray(up['x']).shape == (nlayers1,) + c2.horizontal.modal_shape, 'upsample-shape',
                     'upsampled array does not have the fine modal shape', inp)
        else:
          # upsample accepted the pair: the way back may only be refused when a truncation shrinks
          ctx.expect(M2 < M1 or L2 < L1, 'downsample-after-upsample',
                     f'get_spectral_downsample_fn(fine, coarse) refused ({std}) although upsampling was accepted', inp)
  # same function on a shared nodal grid (synthesis of the padded coefficients)
  for i in range(ctx.n(12, 100)):
    with ctx.impl('spectral-exception', dict(iteration=i, seed=ctx.seed)):
      impl = impls[i % 2]
      M1 = int(rng.integers(2, 5)); L1 = M1 + 1
      M2 = M1 + int(rng.integers(1, 3)); L2 = M2 + 1
      nlon, nlat = 3 * M2 + 1, (3 * M2 + 2) // 2
      g1, g2 = small_grid(M1, L1, impl, nlon, nlat), small_grid(M2, L2, impl, nlon, nlat)
      v = sc.SigmaCoordinates.equidistant(2)
      c1, c2 = cs.CoordinateSystem(g1, v), cs.CoordinateSystem(g2, v)
      if g1.nodal_shape != g2.nodal_shape:
        continue
      nodal = rng.standard_normal((2,) + g1.nodal_shape)
      x = np.asarray(g1.to_modal(jnp.asarray(nodal)))
      inp = dict(M1=M1, L1=L1, M2=M2, L2=L2, impl=impl.__name__)
      ctx.case(('same-function', repr(inp), x.tobytes()), nontrivial=True)
      with ctx.impl('upsample-same-function', inp):
        up = cs.get_spectral_upsample_fn(c1, c2)({'x': jnp.asarray(x)})['x']
        f1 = np.asarray(g1.to_nodal(jnp.asarray(x)))
        f2 = np.asarray(g2.to_nodal(up))
        scale = np.abs(f1).max() + 1e-300
        ctx.expect(np.abs(f1 - f2).max() <= 1e-10 * scale, 'upsample-same-function',
                   f'upsampled coefficients synthesise a different field (err {np.abs(f1 - f2).max() / scale:.2e})', inp)

    _mark('C spectral')
  # ================================================================== D. shape -> dims
  def cfg_line(coords, addl, times, samples):
    m, n = coords.horizontal.modal_shape, coords.horizontal.nodal_shape
    a = ','.join(f'{k}:{len(v)}' for k, v in addl.items()) if addl else '_'
    return (f'{coords.vertical.layers} {m[0]},{m[1]} {n[0]},{n[1]} {a} '
            f'{"_" if times is None else len(times)} {"_" if samples is None else len(samples)}')

  def table_str(t):
    return {tuple(k): tuple(v) for k, v in t.items()}

  for i in range(ctx.n(80, 800)):
    with ctx.impl('dims-exception', dict(iteration=i, seed=ctx.seed)):
      impl = impls[int(rng.integers(2))]
      M = int(rng.integers(2, 5))
      grid = small_grid(M, M + 1, impl)
      if i % 8 == 7:   # nodal shape == modal shape: the names of one of the two are overwritten
        grid = small_grid(M, M + 1, impl, *grid.modal_shape)
        ctx.dist['dims:modal==nodal'] += 1
      layers = int(rng.choice([1, 1, 2, 3, 5]))
      coords = cs.CoordinateSystem(grid, sc.SigmaCoordinates.equidistant(layers))
      times = None if rng.random() < 0.3 else np.arange(int(rng.integers(1, 4)))
      samples = None if rng.random() < 0.6 else np.arange(int(rng.integers(1, 4)))
      addl = {}
      for name in ['ens', 'surface', 'realization', 'member', 'lvl2']:
        if rng.random() < 0.3:
          ln = 1 if name == 'realization' else int(rng.choice([1, 2, 3, 4, 5, 7]))
          addl[name] = np.arange(ln, dtype=float)
      mode = 'collide-level' if any(len(v) == layers and k != 'realization' for k, v in addl.items()) else 'ok'
      inp = dict(layers=layers, modal=list(grid.modal_shape), nodal=list(grid.nodal_shape),
                 additional={k: len(v) for k, v in addl.items()},
                 times=None if times is None else len(times), samples=None if samples is None else len(samples))
      ctx.case(('dimstable', repr(inp)), nontrivial=True, sample=dict(op='_infer_dims_shape_and_coords', **inp))
      st, res = real(lambda: xu._infer_dims_shape_and_coords(coords, times, samples, dict(addl)))
      ctx.dist[f'dims:{mode}:{st}'] += 1
      if st == 'ok':
        impl_s = 'TABLE ' + repr(sorted(table_str(res[1]).items()))
      else:
        impl_s = st
      add(f'tree dimstable 0 {cfg_line(coords, addl, times, samples)}', '_infer_dims_shape_and_coords', inp, impl_s)

  MODAL_NAMES, NODAL_NAMES = ('longitudinal_mode', 'total_wavenumber'), ('lon', 'lat')

  def want_dims(kind, layers, pn):
    """the intended names of a variable of this kind (None: no claim)."""
    return {'modal3d': pn + ('level',) + MODAL_NAMES, 'nodal3d': pn + ('level',) + NODAL_NAMES,
            'surf_modal': pn + ('level' if layers == 1 else 'surface',) + MODAL_NAMES,
            'surf_nodal': pn + ('surface',) + NODAL_NAMES, 'nodal2d': pn + NODAL_NAMES, 'modal2d': pn + MODAL_NAMES,
            'scalar': pn, 'ens_nodal': pn + ('ens',) + NODAL_NAMES}.get(kind)

  def grid_args(g):
    return (f'Grid(longitude_wavenumbers={g.longitude_wavenumbers}, total_wavenumbers={g.total_wavenumbers}, '
            f'longitude_nodes={g.longitude_nodes}, latitude_nodes={g.latitude_nodes}, '
            f'latitude_spacing={g.latitude_spacing!r}, spherical_harmonics_impl={g.spherical_harmonics_impl.__name__})')

  def modal_eq_nodal_msg(g, layers, kind, shape, got, want, st):
    return (f'modal_shape == nodal_shape == {tuple(g.modal_shape)} for {grid_args(g)}, layers={layers}: data_to_xarray '
            f'gives {kind} (array shape {tuple(shape)}) ' +
            (f'the dimension names {got}' if got is not None else f'no dataset ({st})') + f', expected {want} '
            '(axes are matched by shape, the later table entry wins)')

  # data_to_xarray: names of every kind of variable (model `dims` includes the default `surface` coordinate)
  single_layer_hit = []
  modal_eq_nodal_hit = []
  for i in range(ctx.n(50, 500)):
    with ctx.impl('dims-exception', dict(iteration=i, seed=ctx.seed)):
      impl = impls[int(rng.integers(2))]
      M = int(rng.integers(2, 5))
      grid = small_grid(M, M + 1, impl)
      if i % 6 == 5:   # nodal shape == modal shape (characterised by inferDims_modal_eq_nodal_collision)
        grid = small_grid(M, M + 1, impl, *grid.modal_shape)
      layers = int(rng.choice([1, 2, 3])) if i >= 3 else [1, 2, 1][i]
      if i == 3:       # fixed corner case, tried in every run: M=5, L=7 on 10 x 7 nodes, fast layout, two layers
        grid, layers = sh.Grid(longitude_wavenumbers=5, total_wavenumbers=7, longitude_nodes=10, latitude_nodes=7,
                               spherical_harmonics_impl=sh.FastSphericalHarmonics), 2
      ambiguous = grid.modal_shape == grid.nodal_shape
      if ambiguous:
        ctx.dist['data_to_xarray:modal==nodal'] += 1
      coords = cs.CoordinateSystem(grid, sc.SigmaCoordinates.equidistant(layers))
      times = None if rng.random() < 0.3 else np.arange(int(rng.integers(1, 4)))
      samples = None if rng.random() < 0.7 else np.arange(int(rng.integers(1, 3)))
      addl = {}
      if rng.random() < 0.25:
        ln = int(rng.choice([4, 6]))
        if ln != layers:
          # the NAME varies between calls with equal lengths (state carried between calls, seeded C19-6)
          addl[['ens', 'soil_level', 'member'][int(rng.integers(3))]] = np.arange(ln, dtype=float)
      pre = (() if samples is None else (len(samples),)) + (() if times is None else (len(times),))
      pnames_d = (() if samples is None else ('sample',)) + (() if times is None else ('time',))
      m, n = grid.modal_shape, grid.nodal_shape
      kinds = {'modal3d': (layers,) + m, 'nodal3d': (layers,) + n, 'surf_modal': (1,) + m, 'surf_nodal': (1,) + n,
               'nodal2d': n, 'modal2d': m, 'scalar': (), 'unknown': (layers + 7,) + n}
      addl_name = next(iter(addl), None)
      if addl_name is not None:
        kinds['ens_nodal'] = (len(addl[addl_name]),) + n
      for kind, shp in kinds.items():
        full = pre + shp
        data = {'v': arr(full) if full else np.float64(2.5)}
        inp = dict(kind=kind, shape=list(full), layers=layers, modal=list(m), nodal=list(n),
                   times=None if times is None else len(times), samples=None if samples is None else len(samples),
                   additional={k: len(v) for k, v in addl.items()})
        st, ds = real(lambda: xu.data_to_xarray(data, coords=coords, times=times, sample_ids=samples,
                                                additional_coords=dict(addl)))
        ctx.case(('dims', repr(inp)), nontrivial=True)
        ctx.dist[f'data_to_xarray:{kind}:{st}'] += 1
        impl_s = ('DIMS ' + ','.join(ds['v'].dims) if ds['v'].dims else 'DIMS _') if st == 'ok' else 'REJECT'
        add(f'tree dims {cfg_line(coords, addl, times, samples)} {common.ivec(full)}', 'data_to_xarray dims',
            dict(**inp, ndim=len(full)), impl_s)
        if kind == 'nodal3d' and layers == 1 and st != 'ok':
          single_layer_hit.append(inp)
        # the property itself: the right dimension names for every kind of variable
        want = want_dims(kind, layers, pnames_d)
        if kind == 'ens_nodal':
          want = pnames_d + (addl_name,) + NODAL_NAMES
        if want is not None and not (layers == 1 and kind in ('nodal3d', 'surf_nodal')):
          got = tuple(ds['v'].dims) if st == 'ok' else None
          if ambiguous:
            # modal_shape == nodal_shape: measured, reported as the known finding when the real code mislabels
            if got != want:
              modal_eq_nodal_hit.append((kind, got))
              ctx.fail('modal-equals-nodal-shape', modal_eq_nodal_msg(grid, layers, f'{kind} data', full, got, want, st), inp)
          else:
            ctx.expect(got == want, 'xarray-dims', f'data_to_xarray labels {kind} data of shape {list(full)} '
                       f'{got} ({st}), expected {want}', inp)
  # two datasets written in one process with equally long, differently named additional coordinates (every run)
  with ctx.impl('dims-sequence-exception', dict(seed=ctx.seed)):
    gseq = small_grid(3, 4, impls[0])
    cseq = cs.CoordinateSystem(gseq, sc.SigmaCoordinates.equidistant(2))
    for order in (('ens', 'soil_level'), ('soil_level', 'ens'), ('member', 'ens')):
      for nm in order:
        dat = {'v': arr((2, 4) + tuple(gseq.nodal_shape))}
        inp = dict(sequence=list(order), this=nm, length=4, nodal=list(gseq.nodal_shape))
        ds = xu.data_to_xarray(dat, coords=cseq, times=np.arange(2), additional_coords={nm: np.arange(4.0)})
        ctx.case(('dims-seq', repr(inp)), nontrivial=True)
        ctx.expect(tuple(ds['v'].dims) == ('time', nm) + NODAL_NAMES and nm in ds.coords, 'xarray-dims-sequence',
                   f'after writing datasets with additional coordinates {list(order)} in this order, the variable along '
                   f'{nm!r} is labelled {tuple(ds["v"].dims)} (coords {sorted(map(str, ds.coords))})', inp)
  if single_layer_hit:
    ctx.fail('single-layer-nodal-3d',
             'data_to_xarray raises ValueError for 3-d nodal data (1, lon, lat) of a single-layer coordinate system: '
             'the shape collides with the surface shape and is given the two names (lon, lat)', single_layer_hit[0])

  _mark('D dims')
  # ---------------------------------------------------------------- run the model and compare
  outs = ctx.model(lines)
  for (op, inp, impl), o, line in zip(checks, outs, lines):
    if o == 'bad-op':
      ctx.corr_mismatch(op, inp, impl, o, 'model did not understand: ' + line[:200])
      continue
    if impl.startswith('ANY '):
      # resample: the model tells the direction, the implementation only the array
      parts = o.split(' ')
      ctx.corr_exact(op, inp, impl[4:], parts[1] if len(parts) == 2 and parts[0] in ('up', 'down') else o)
    elif impl.startswith('TABLE '):
      if o.startswith('ok'):
        body = o[3:]
        t = {}
        for ent in (body.split(';') if body else []):
          k, v = ent.split('=')
          t[tuple(common.univec(k))] = tuple(v.split(',')) if v != '_' else ()
        ctx.corr_exact(op, inp, impl[6:], repr(sorted(t.items())))
      else:
        ctx.corr_exact(op, inp, impl, o)
    elif impl.startswith('DIMS ') or impl == 'REJECT':
      # the model returns the names; xarray rejects names whose count differs from the rank
      if o.startswith('ok '):
        names = [] if o[3:] == '_' else o[3:].split(',')
        pred = ('DIMS ' + (','.join(names) if names else '_')) if len(names) == inp['ndim'] else 'REJECT'
      elif o in ('none', 'err:value'):
        pred = 'REJECT'
      else:
        pred = o
      ctx.corr_exact(op, inp, impl, pred)
    else:
      ctx.corr_exact(op, inp, impl, o)

  _mark('model+compare')
  # ================================================================== E. real persistence round trips
  spacings = ['gauss', 'equiangular', 'equiangular_with_poles']

  def random_coords(i):
    impl = impls[int(rng.integers(2))]
    M = int(rng.integers(2, 6))
    L = M + int(rng.integers(0, 3))
    grid = sh.Grid(longitude_wavenumbers=M, total_wavenumbers=L,
                   longitude_nodes=int(rng.integers(2 * M, 4 * M + 2)), latitude_nodes=int(rng.integers(M + 1, 3 * M + 2)),
                   latitude_spacing=spacings[i % 3], longitude_offset=float(rng.choice([0.0, 0.1, rng.uniform(0, 1)])),
                   radius=float(rng.choice([1.0, 6.371e6, rng.uniform(0.5, 3)])) if rng.random() < 0.8 else None,
                   spherical_harmonics_impl=impl)
    vk = ['sigma', 'sigma-uneven', 'layer', 'pressure'][int(rng.integers(4))]
    nl = int(rng.choice([1, 2, 3, 5]))
    if vk == 'sigma':
      v = sc.SigmaCoordinates.equidistant(nl)
    elif vk == 'sigma-uneven':
      dz = rng.uniform(0.5, 1.5, nl)
      b = np.concatenate([[0], np.cumsum(dz) / dz.sum()]); b[-1] = 1.0
      v = sc.SigmaCoordinates(b)
    elif vk == 'layer':
      v = lc.LayerCoordinates(nl)
    else:
      v = vi.PressureCoordinates(np.sort(rng.uniform(10, 1000, nl)) + np.arange(nl))
    return cs.CoordinateSystem(grid, v), vk

  H_FIELDS = ['longitude_wavenumbers', 'total_wavenumbers', 'longitude_nodes', 'latitude_nodes', 'latitude_spacing',
              'longitude_offset', 'radius']

  def same_discretisation(a, b):
    for f in H_FIELDS:
      if getattr(a.horizontal, f) != getattr(b.horizontal, f):
        return f'horizontal.{f}: {getattr(a.horizontal, f)!r} != {getattr(b.horizontal, f)!r}'
    if type(a.vertical) is not type(b.vertical):
      return f'vertical type {type(a.vertical).__name__} != {type(b.vertical).__name__}'
    if a.vertical.layers != b.vertical.layers:
      return 'vertical.layers'
    for f in ('boundaries', 'centers'):
      if hasattr(a.vertical, f):
        x, y = np.asarray(getattr(a.vertical, f)), np.asarray(getattr(b.vertical, f))
        # value equality: NetCDF hands attributes back big-endian
        if x.shape != y.shape or not np.array_equal(x.astype(np.float64), y.astype(np.float64)):
          return f'vertical.{f}'
    if a.horizontal.nodal_shape != b.horizontal.nodal_shape:
      return 'nodal_shape'
    return None

  def special(a):
    a = np.array(a, dtype=np.float64)
    flat = a.reshape(-1)
    if flat.size >= 5:
      flat[:5] = [np.nan, -0.0, np.inf, 5e-324, -np.inf]
    return a

  def same_bits(a, b):
    a, b = np.asarray(a), np.asarray(b)
    return a.shape == b.shape and a.dtype == b.dtype and a.tobytes() == b.tobytes()

  def modal_eq_nodal_probe(coords, inp):
    """modal_shape == nodal_shape: what the real code does with a modal state and with nodal data.  Wrong names are
    reported under `modal-equals-nodal-shape` (only when the real code really gives them); the values must still
    read back bit-identical (the readers of primitive-equation states do not use the names)."""
    g, layers = coords.horizontal, coords.vertical.layers
    shp = tuple(g.modal_shape)
    assert shp == tuple(g.nodal_shape)
    times2 = np.arange(2) * 0.5
    pinp = dict(**inp, grid=grid_args(g), modal_shape=list(shp), nodal_shape=list(g.nodal_shape))
    ctx.case(('modal==nodal', repr(pinp)), nontrivial=True,
             sample=dict(op='data_to_xarray on modal_shape == nodal_shape', grid=grid_args(g), layers=layers))
    # (a) a modal primitive-equation state
    state = pe.State(vorticity=special(arr((2, layers) + shp)), divergence=arr((2, layers) + shp),
                     temperature_variation=arr((2, layers) + shp), log_surface_pressure=special(arr((2, 1) + shp)),
                     tracers={'q': arr((2, layers) + shp)})
    data = state.asdict()
    want3 = ('time', 'level') + MODAL_NAMES
    wants = ('time', 'level' if layers == 1 else 'surface') + MODAL_NAMES
    st, ds = real(lambda: xu.data_to_xarray(data, coords=coords, times=times2))
    if st != 'ok':
      ctx.fail('modal-equals-nodal-shape',
               modal_eq_nodal_msg(g, layers, 'a modal primitive_equations.State (vorticity, …, log_surface_pressure)', (2, layers) + shp,
                                  None, want3, st), pinp)
    else:
      got = {k: tuple(ds[k].dims) for k in ds}
      wrong = {k: v for k, v in got.items() if v != (wants if k == 'log_surface_pressure' else want3)}
      ctx.dist[f'coords:modal==nodal:modal-state:{"mislabelled" if wrong else "right names"}'] += 1
      if wrong:
        k0 = 'vorticity' if 'vorticity' in wrong else sorted(wrong)[0]
        ctx.fail('modal-equals-nodal-shape',
                 modal_eq_nodal_msg(g, layers, f'the modal field {k0!r} of a primitive_equations.State',
                                    np.shape(data[k0]), wrong[k0], wants if k0 == 'log_surface_pressure' else want3, st)
                 + f'; all wrong names: {wrong}', pinp)
      with ctx.impl('xarray-roundtrip', pinp):
        back = xu.xarray_to_primitive_eq_data(ds, tracers_to_include=['q'])
        ok = all(same_bits(back[k], data[k]) for k in ['vorticity', 'divergence', 'temperature_variation',
                                                        'log_surface_pressure']) and same_bits(back['tracers']['q'], data['tracers']['q'])
        ctx.expect(ok, 'xarray-roundtrip', 'state read back from the dataset is not bit-identical '
                   '(modal_shape == nodal_shape)', pinp)
        why = same_discretisation(coords, xu.coordinate_system_from_attrs(ds.attrs))
        ctx.expect(why is None, 'attrs-roundtrip', f'coordinate system from dataset attrs differs: {why}', pinp)
    # (b) nodal data: a surface field (time, lon, lat) and, when layers != 1, a 3-d field
    dd = {'sp': special(arr((2,) + shp))}
    wantd = {'sp': ('time',) + NODAL_NAMES}
    if layers != 1:   # (layers == 1: the 3-d nodal field is the other known finding)
      dd['u'] = special(arr((2, layers) + shp))
      wantd['u'] = ('time', 'level') + NODAL_NAMES
    st, ds5 = real(lambda: xu.data_to_xarray(dd, coords=coords, times=times2))
    if st != 'ok':
      ctx.fail('modal-equals-nodal-shape',
               modal_eq_nodal_msg(g, layers, 'nodal surface data (time, lon, lat)', (2,) + shp, None, wantd['sp'], st),
               pinp)
    else:
      wrong = {k: tuple(ds5[k].dims) for k in dd if tuple(ds5[k].dims) != wantd[k]}
      ctx.dist[f'coords:modal==nodal:nodal-data:{"mislabelled" if wrong else "right names"}'] += 1
      if wrong:
        k0 = sorted(wrong)[0]
        st6, _ = real(lambda: xu.xarray_to_data_dict(ds5))
        ctx.fail('modal-equals-nodal-shape',
                 modal_eq_nodal_msg(g, layers, f'the nodal field {k0!r}', np.shape(dd[k0]), wrong[k0], wantd[k0], st)
                 + f'; xarray_to_data_dict of that dataset: {st6}', pinp)
      else:
        with ctx.impl('xarray-roundtrip', pinp):
          b5 = xu.xarray_to_data_dict(ds5)
          ctx.expect(same_bits(b5['sp'], dd['sp'][:, None]) and ('u' not in dd or same_bits(b5['u'], dd['u'])),
                     'xarray-roundtrip', 'xarray_to_data_dict(data_to_xarray(d)) differs from d', pinp)

  # fixed corner case, tried in every run (review C19.2): M=5, L=7 on 10 x 7 nodes, fast layout, two sigma layers
  g57 = sh.Grid(longitude_wavenumbers=5, total_wavenumbers=7, longitude_nodes=10, latitude_nodes=7,
                spherical_harmonics_impl=sh.FastSphericalHarmonics)
  if g57.modal_shape == g57.nodal_shape:
    for nl in (2, 1):
      modal_eq_nodal_probe(cs.CoordinateSystem(g57, sc.SigmaCoordinates.equidistant(nl)),
                           dict(horizontal={f: getattr(g57, f) for f in H_FIELDS},
                                impl='FastSphericalHarmonics', vertical='sigma', layers=nl))
  else:
    ctx.notes.append(f'modal==nodal corner case: Grid(5, 7, 10, 7, fast) now has modal_shape {g57.modal_shape} != '
                     f'nodal_shape {g57.nodal_shape}')

  names_pool = ['q', 'specific_humidity', 'cloud', 'tr_1', 'Ω', 'a b', 'x.y', 'level_', 'o3']
  tmpdir = tempfile.mkdtemp(prefix='c19_', dir=common.WORK)
  for i in range(ctx.n(60, 600)):
    with ctx.impl('persistence-exception', dict(iteration=i, seed=ctx.seed)):
      coords, vk = random_coords(i)
      layers = coords.vertical.layers
      inp = dict(horizontal={f: getattr(coords.horizontal, f) for f in H_FIELDS},
                 impl=coords.horizontal.spherical_harmonics_impl.__name__, vertical=vk, layers=layers,
                 vertical_attrs=coords.vertical.asdict())
      ctx.dist[f'coords:{vk}:layers={layers}'] += 1
      ctx.case(('attrs', repr(inp)), nontrivial=True, sample=dict(op='coordinate system round trip', **{k: inp[k] for k in ('vertical', 'layers', 'impl')}))
      # (1) asdict -> from attrs
      with ctx.impl('attrs-roundtrip', inp):
        back = xu.coordinate_system_from_attrs(coords.asdict())
        why = same_discretisation(coords, back)
        ctx.expect(why is None, 'attrs-roundtrip', f'coordinate_system_from_attrs(coords.asdict()) differs: {why}', inp)
      # (1b) reconstruction does not depend on what was reconstructed before: a second coordinate system with the
      #      same sizes and spacing but another longitude offset / radius, right after the first one, then the first
      #      one again (deterministic in every run, not left to a chance collision of two random grids)
      if i < 12 or i % 5 == 0:
        h = coords.horizontal
        twin_h = sh.Grid(**{**{f: getattr(h, f) for f in H_FIELDS},
                            'longitude_offset': h.longitude_offset + 0.05, 'radius': 2.5 * h.radius},
                         spherical_harmonics_impl=h.spherical_harmonics_impl)
        twin = cs.CoordinateSystem(twin_h, coords.vertical)
        tinp = dict(**inp, twin=dict(longitude_offset=twin_h.longitude_offset, radius=twin_h.radius))
        with ctx.impl('attrs-roundtrip', tinp):
          why2 = same_discretisation(twin, xu.coordinate_system_from_attrs(twin.asdict()))
          why3 = same_discretisation(coords, xu.coordinate_system_from_attrs(coords.asdict()))
          ctx.expect(why2 is None and why3 is None, 'attrs-roundtrip',
                     'coordinate_system_from_attrs depends on the coordinate systems reconstructed before (same sizes, '
                     f'other offset / radius): twin: {why2}; first one again: {why3}', tinp)
      if coords.horizontal.modal_shape == coords.horizontal.nodal_shape:
        # axes are matched by shape, so with modal_shape == nodal_shape one basis takes the names of the other
        # (theorem inferDims_modal_eq_nodal_collision, correspondence in D): measured on the real code and reported
        # as the known finding `modal-equals-nodal-shape` whenever the names are wrong
        ctx.dist['coords:modal==nodal'] += 1
        modal_eq_nodal_probe(coords, inp)
        continue
      # (2) model state -> dataset -> state
      nt = int(rng.integers(1, 4))
      times = np.arange(nt) * 0.5
      samples = None if rng.random() < 0.6 else np.arange(int(rng.integers(1, 3)))
      pre = (() if samples is None else (len(samples),)) + (nt,)
      basis = 'modal' if rng.random() < 0.6 else 'nodal'
      hshape = coords.horizontal.modal_shape if basis == 'modal' else coords.horizontal.nodal_shape
      tracer_names = [str(x) for x in rng.choice(names_pool, size=int(rng.integers(0, 4)), replace=False)]
      hnames = ('longitudinal_mode', 'total_wavenumber') if basis == 'modal' else ('lon', 'lat')
      pnames = (() if samples is None else ('sample',)) + ('time',)
      sinp = dict(**inp, basis=basis, tracers=tracer_names, times=nt, samples=None if samples is None else len(samples))
      if basis == 'nodal' and layers == 1:
        # known finding: re-confirmed here on random coordinate systems as well
        st, _ = real(lambda: xu.data_to_xarray({'u': np.zeros(pre + (1,) + hshape)}, coords=coords, times=times,
                                               sample_ids=samples))
        if st != 'ok':
          ctx.fail('single-layer-nodal-3d', f'data_to_xarray rejects 3-d nodal data when layers == 1 ({st})', sinp)
        continue
      surf_name = 'level' if layers == 1 else 'surface'
      state = pe.State(
          vorticity=special(arr(pre + (layers,) + hshape)), divergence=special(arr(pre + (layers,) + hshape)),
          temperature_variation=arr(pre + (layers,) + hshape), log_surface_pressure=special(arr(pre + (1,) + hshape)),
          tracers={k: special(arr(pre + (layers,) + hshape)) for k in tracer_names})
      data = state.asdict()
      ctx.case(('state', repr(sinp)), nontrivial=True)
      with ctx.impl('xarray-roundtrip', sinp):
        ds = xu.data_to_xarray(data, coords=coords, times=times, sample_ids=samples, attrs={'note': 'c19'})
        want3 = pnames + ('level',) + hnames
        wants = pnames + (surf_name,) + hnames
        names_ok = all(ds[k].dims == want3 for k in ['vorticity', 'divergence', 'temperature_variation'] + tracer_names) \
            and ds['log_surface_pressure'].dims == wants
        ctx.expect(names_ok, 'xarray-dims', 'data_to_xarray gave unexpected dimension names: ' +
                   repr({k: ds[k].dims for k in ds}), sinp)
        back = xu.xarray_to_primitive_eq_data(ds, tracers_to_include=tracer_names)
        ok = all(same_bits(back[k], data[k]) for k in ['vorticity', 'divergence', 'temperature_variation', 'log_surface_pressure']) \
            and set(back['tracers']) == set(tracer_names) and all(same_bits(back['tracers'][k], data['tracers'][k]) for k in tracer_names)
        ctx.expect(ok, 'xarray-roundtrip', 'state read back from the dataset is not bit-identical', sinp)
        why = same_discretisation(coords, xu.coordinate_system_from_attrs(ds.attrs))
        ctx.expect(why is None, 'attrs-roundtrip', f'coordinate system from dataset attrs differs: {why}', sinp)
        ctx.expect(ds.attrs.get('note') == 'c19', 'attrs-roundtrip', 'user attribute lost', sinp)
        # with time
        swt = pe.StateWithTime(**{k: v for k, v in data.items() if k != 'tracers'}, tracers=data['tracers'],
                               sim_time=special(arr(pre)))
        dwt = swt.asdict()
        ds2 = xu.data_to_xarray(dwt, coords=coords, times=times, sample_ids=samples)
        ctx.expect(ds2['sim_time'].dims == pnames, 'xarray-dims', f'sim_time dims {ds2["sim_time"].dims}', sinp)
        b2 = xu.xarray_to_primitive_equations_with_time_data(ds2, tracers_to_include=tracer_names)
        ctx.expect(same_bits(b2['sim_time'], dwt['sim_time']) and same_bits(b2['vorticity'], dwt['vorticity']),
                   'xarray-roundtrip', 'StateWithTime not bit-identical after the round trip', sinp)
        # shallow water
        sws = sw.State(vorticity=data['vorticity'], divergence=data['divergence'],
                       potential=data['temperature_variation']).asdict()
        ds3 = xu.data_to_xarray(sws, coords=coords, times=times, sample_ids=samples)
        b3 = xu.xarray_to_shallow_water_eq_data(ds3)
        ctx.expect(all(same_bits(b3[k], sws[k]) for k in ('vorticity', 'divergence', 'potential')),
                   'xarray-roundtrip', 'shallow-water state not bit-identical after the round trip', sinp)
        # through a NetCDF file (only sigma / pressure / layer attrs that NetCDF can hold)
        if i % 4 == 0 or (vk == 'pressure' and layers == 1):
          path = os.path.join(tmpdir, f'ds_{i}.nc')
          saved = False
          with ctx.impl('netcdf-roundtrip', sinp, what='save_netcdf raised'):
            try:
              xu.save_netcdf(ds, path)
              saved = True
            except UnicodeEncodeError as e:
              # external (xarray's scipy NetCDF-3 writer encodes variable names as latin-1 / ascii): only possible for a
              # non-ASCII tracer name; skipped and noted, any other exception is a failure of the property
              ctx.dist['netcdf-skipped:UnicodeEncodeError'] += 1
              ctx.notes.append(f'save_netcdf skipped (UnicodeEncodeError: {str(e)[:80]}) for tracers {tracer_names}')
              ctx.expect(any(not t.isascii() for t in tracer_names), 'netcdf-roundtrip',
                         f'save_netcdf raised UnicodeEncodeError although all names are ASCII: {e}', sinp)
          if saved:
            # NetCDF hands a 1-element attribute back as a scalar: single pressure level (repaired in 55ef2a8)
            nkey = 'netcdf-single-pressure-level' if (vk == 'pressure' and layers == 1) else 'netcdf-roundtrip'
            with ctx.impl(nkey, sinp, what='reading the state / coordinate system back from NetCDF raised'):
              ds4 = xu.open_netcdf(path)
              b4 = xu.xarray_to_primitive_eq_data(ds4, tracers_to_include=tracer_names)
              ctx.expect(all(same_bits(b4[k], data[k]) for k in ['vorticity', 'divergence', 'temperature_variation',
                                                                'log_surface_pressure']),
                         'netcdf-roundtrip', 'state read back from NetCDF is not bit-identical', sinp)
              why = same_discretisation(coords, xu.coordinate_system_from_attrs(ds4.attrs))
              ctx.expect(why is None, nkey, f'coordinate system from NetCDF attrs differs: {why}', sinp)
              ctx.dist[nkey] += 1
            if os.path.exists(path):
              os.remove(path)
      # (3) nodal data dictionaries: xarray_to_data_dict adds the singleton level of surface fields
      if layers != 1:
        n = coords.horizontal.nodal_shape
        dd = {'u': special(arr((nt, layers) + n)), 'sp': special(arr((nt,) + n))}
        with ctx.impl('xarray-roundtrip', sinp):
          ds5 = xu.data_to_xarray(dd, coords=coords, times=times)
          b5 = xu.xarray_to_data_dict(ds5)
          ctx.expect(same_bits(b5['u'], dd['u']) and same_bits(b5['sp'], dd['sp'][:, None]), 'xarray-roundtrip',
                     'xarray_to_data_dict(data_to_xarray(d)) differs from d (surface fields with singleton level)', sinp)
  # deterministic probe of the repaired defect 55ef2a8: one pressure level through a NetCDF file
  for nl in (1, 2):
    g0 = sh.Grid(longitude_wavenumbers=2, total_wavenumbers=3, longitude_nodes=7, latitude_nodes=3,
                 latitude_spacing='equiangular')
    c0 = cs.CoordinateSystem(g0, vi.PressureCoordinates(np.array([530.67, 600.0][:nl])))
    pinp = dict(vertical='pressure', centers=[530.67, 600.0][:nl], grid='M=2 L=3 nlon=7 nlat=3 equiangular')
    ctx.case(('netcdf-pressure', nl), nontrivial=True)
    path = os.path.join(tmpdir, f'single_{nl}.nc')
    with ctx.impl('netcdf-single-pressure-level' if nl == 1 else 'netcdf-roundtrip', pinp,
                  what='coordinate system with pressure levels written to / read from NetCDF raised'):
      u0 = special(arr((2, nl) + g0.modal_shape))
      ds0 = xu.data_to_xarray({'u': u0}, coords=c0, times=np.arange(2))
      xu.save_netcdf(ds0, path)
      ds1 = xu.open_netcdf(path)
      why = same_discretisation(c0, xu.coordinate_system_from_attrs(ds1.attrs))
      ctx.expect(why is None and same_bits(ds1['u'].values, u0),
                 'netcdf-single-pressure-level' if nl == 1 else 'netcdf-roundtrip',
                 f'coordinate system / data from NetCDF differ: {why}', pinp)
    if os.path.exists(path):
      os.remove(path)
  try:
    os.rmdir(tmpdir)
  except OSError:
    pass

  _mark('E persistence')
  if not ctx.quick:
    ctx.leanchecker(['DinoProofs.Properties.C19'])
  return ctx.finish(RULE, 'theorems are about the Lean model Dino.Tree (keys = lists of characters, one-character '
                    'separator, arrays in the axis-major view); jax tree_flatten/tree_unflatten, jnp.split/concatenate/'
                    'stack/pad, xarray and NetCDF are executed, not modelled; dictionary equality is Python == '
                    '(proved equivalent to equality of path lookups on duplicate-free dictionaries)')
