"""C07 — sharded (model-parallel) execution equals single-device execution.

Lean: DinoProofs/Properties/C07.lean over the model Dino/Shard.lean (+ Dino/SH.lean, Dino/Sigma.lean,
Dino/Filters.lean): the two hand-written two-way collective matmul schedules (every even axis size, and
the finite quantifier 1,2,4,6,8 by kernel evaluation of the symbolic schedule), the parallel prefix sum,
_round_to_multiple / padded shapes, vertical pad/crop, _stack_m/_unstack_m, the per-shard frequency
offset, zero-padded bases, step filters on padded layouts.

Tie (8 virtual CPU devices):
 (i)   schedule trace: the real _allgather_matmul_twoway / _matmul_reducescatter_twoway run under
       shard_map on 2, 4, 8 devices with one-hot lhs chunks and device-coded rhs; the multiset of
       (chunk, source device) products every device accumulated is decoded and compared with the
       model's schedule;
 (ii)  model-vs-code correspondence: numeric collectives, parallel cumsum, _round_to_multiple, padded
       shapes / paddings / default base, vertical pad/crop, per-shard derivative (frequency offsets),
       _unstack_m/_stack_m, clip mask, inverse Laplacian factors, padded bases, padded transforms;
 (iii) sentinel differential (the property itself): every op sharded vs unsharded on (z,x,y) meshes.

 (v)   (rev. D) sharded_einsum itself on two 2-D operands over a one-axis mesh against the model's plan + shard_map blocks +
       dynamic_slice chunks + collective (driver op `semat`, Lean: shardedEinsum_matrix_partial); the padded transforms on
       inputs with garbage on the padding, model vs code (Lean: fast*_padded_any).  No part of the tie is conditional on the
       presence of a Lean file or a driver operation: a missing file or a `bad-op` answer is a failure.

 (iv)  (rev. B) the collectives on 2-D blocks of unsharded matrices (model: rowChunk / colChunk / splitEvery, Lean:
       allgatherMatmul_unsharded / matmulReducescatter_unsharded); the string / index logic of sharded_einsum
       (props/c07_einsum.py, model Dino/ShardEinsum.lean) on every pattern the transforms use and on a malformed
       stream; 6-device meshes and vertical-only meshes on 3, 5, 7 devices in the differential; meshes with an odd
       x / y axis must be rejected with ValueError (part_odd_rejected); the first-padding-column artifact of the raw
       latitude derivatives is asserted to be confined and never to reach resolved values (RAW_OPS); one whole
       filtered IMEX step per quick run.

PARTIAL by design: XLA's SPMD partitioner, shard_map, the collectives, jnp.einsum / jax.eval_shape and
with_sharding_constraint are executed by (i) and (iii), not modelled; the sharded implicit operators, filters and whole
steps are covered by the differential only; the composition plan -> block layout -> collective -> einsum is a theorem for
the 2-D matrix pattern on a one-axis mesh only (shardedEinsum_matrix_partial), for the batched transform patterns on the
3-axis mesh it is by schedule trace + differential.
"""
import dataclasses
import functools
import itertools
import os

import numpy as np

import common
from common import fvec, fmat, fbits, unfvec, unfmat, unfbits, ivec, univec
import dinoutil
from props import c07_einsum

TOL = 1e-10
NDEV = 8
RULE = ('meshes: all 20 (z,x,y) factorisations of 1,2,4,8 devices, the 5 factorisations of 6 devices with x, y in {1, even} '
        'and the vertical-only meshes on 3, 5, 7 devices (quick: a seed-rotated subset of the multi-axis ones, every '
        'single-axis power-of-two mesh, 2x2x2 and all five 6-device meshes always); every mesh with an odd x or y axis '
        '> 1 must be rejected with ValueError; grids with_wavenumbers(4..6) in the '
        'FastSphericalHarmonics layout, base_shape_multiple in {default 8, 1, 2, 3}, both einsum argument '
        'orders, stacked and unstacked Fourier step, gather and scatter strategy; level counts 1, 3, 5 '
        '(not divisible by z) for Grid ops, multiples of z with equidistant and uneven sigma for '
        'PrimitiveEquations; fields: standard normal spectra inside the mask, zero (and separately '
        'garbage) on the padding; a case is non-trivial when the mesh has >1 device or the layout is padded; '
        'distinct = distinct (op bundle, mesh, options, data) hashes')


def all_meshes():
  out = []
  for n in (1, 2, 4, 8):
    for z in (1, 2, 4, 8):
      for x in (1, 2, 4, 8):
        for y in (1, 2, 4, 8):
          if z * x * y == n:
            out.append((z, x, y))
  return out


# 6 of the 8 virtual devices: every (z,x,y) with z*x*y = 6 whose x and y are 1 or even
MESHES6 = [(6, 1, 1), (3, 2, 1), (3, 1, 2), (1, 6, 1), (1, 1, 6)]
# the vertical axis may have any size (no two-way collective runs over z)
MESHES_ZODD = [(3, 1, 1), (5, 1, 1), (7, 1, 1)]
# an odd x or y axis > 1 is outside the domain: the transforms must raise ValueError('axis_size must be 1 or even')
MESHES_ODD_XY = [(1, 3, 1), (1, 1, 3), (2, 3, 1), (2, 1, 3), (1, 3, 2), (1, 2, 3), (1, 5, 1), (1, 1, 5), (1, 7, 1), (1, 1, 7)]


def mesh_key(m):
  return 'none' if m is None else 'x'.join(str(v) for v in m)


class Env:
  """Lazily built JAX objects shared by all parts of the check."""

  def __init__(self, ctx):
    self.ctx = ctx
    jax = common.setup_jax(devices=NDEV)
    if not os.environ.get('C07_NO_JAX_CACHE'):
      try:
        cdir = os.path.join(common.WORK, 'jaxcache_C07')
        os.makedirs(cdir, exist_ok=True)
        jax.config.update('jax_compilation_cache_dir', cdir)
        jax.config.update('jax_persistent_cache_min_entry_size_bytes', -1)
        jax.config.update('jax_persistent_cache_min_compile_time_secs', 0.3)
      except Exception:  # pylint: disable=broad-except
        pass  # only an optimisation
    import jax.numpy as jnp
    from jax.experimental import shard_map
    from dinosaur import spherical_harmonic as sh
    from dinosaur import coordinate_systems as cs
    from dinosaur import sigma_coordinates as sc
    from dinosaur import jax_numpy_utils as jnu
    from dinosaur import primitive_equations as pe
    from dinosaur import time_integration as ti
    from dinosaur import filtering
    from dinosaur import scales
    from dinosaur import fourier
    self.jax, self.jnp, self.shard_map = jax, jnp, shard_map.shard_map
    self.sh, self.cs, self.sc, self.jnu, self.pe, self.ti = sh, cs, sc, jnu, pe, ti
    self.filtering, self.scales, self.fourier = filtering, scales, fourier
    self.P = jax.sharding.PartitionSpec
    if len(jax.devices()) < NDEV:
      raise common.Infra(f'need {NDEV} virtual CPU devices, got {len(jax.devices())}')

  def mesh(self, zxy):
    if zxy is None:
      return None
    z, x, y = zxy
    devs = np.array(self.jax.devices()[:z * x * y]).reshape((z, x, y))
    return self.jax.sharding.Mesh(devs, axis_names=['z', 'x', 'y'])

  def mesh1(self, n, name='x'):
    return self.jax.sharding.Mesh(np.array(self.jax.devices()[:n]), axis_names=[name])

  def grid(self, M, zxy=None, base=None, rev=None, stacked=None, radius=None):
    impl = functools.partial(self.sh.FastSphericalHarmonics, base_shape_multiple=base,
                             reverse_einsum_arg_order=rev, stacked_fourier_transforms=stacked)
    g = self.sh.Grid.with_wavenumbers(longitude_wavenumbers=M, spherical_harmonics_impl=impl, radius=radius)
    if zxy is not None:
      g = dataclasses.replace(g, spmd_mesh=self.mesh(zxy))
    return g


def pad_to(a, shape2):
  """zero-pad the last two axes of `a` to `shape2` (pad_state of the integration test)."""
  a = np.asarray(a)
  pad = [(0, 0)] * (a.ndim - 2) + [(0, t - s) for s, t in zip(a.shape[-2:], shape2)]
  return np.pad(a, pad)


def crop_to(a, shape2):
  a = np.asarray(a)
  return a[..., :shape2[0], :shape2[1]]


def pad_mass(a, shape2):
  """largest |entry| outside the leading block of the last two axes."""
  a = np.abs(np.asarray(a, dtype=float)).copy()
  a[..., :shape2[0], :shape2[1]] = 0
  return float(a.max()) if a.size else 0.0


# ----------------------------------------------------------------------------- (i) schedule trace


def real_trace(env, kind, n, reverse_arg_order):
  """Run the real two-way collective on n devices with one-hot lhs chunks and device-coded rhs and
  decode, per device, the sorted list of (chunk, source) products it accumulated."""
  jax, jnp, P = env.jax, env.jnp, env.P
  B = 16.0
  mesh = env.mesh1(n)
  rhs = jnp.asarray(B ** np.arange(n))          # shard of device s is [16^s]
  if kind == 'ag':
    lhs = jnp.asarray(np.eye(n))                # chunk c of every device's block is the column e_c
    def f(lhs, rhs):
      out = env.jnu._allgather_matmul_twoway('oc,c->o', lhs, rhs, split_axis=1, axis_name='x',
                                              reverse_arg_order=reverse_arg_order, precision='float32')
      return out[None, :]
    g = env.shard_map(f, mesh=mesh, in_specs=(P(None, None), P('x')), out_specs=P('x', None), check_rep=False)
    out = np.asarray(jax.jit(g)(lhs, rhs))      # row a: result of device a, entry o: sum over (c=o, s) of 16^s
  else:
    # lhs2[c*n + j, s] = delta(j, c): device s holds column s; chunk c (rows c*n..c*n+n-1) is e_c
    lhs2 = np.zeros((n * n, n))
    for c in range(n):
      lhs2[c * n + c, :] = 1.0
    lhs2 = jnp.asarray(lhs2)
    def f(lhs, rhs):
      return env.jnu._matmul_reducescatter_twoway('oc,c->o', lhs, rhs, scatter_axis=0, axis_name='x',
                                                  reverse_arg_order=reverse_arg_order, precision='float32')
    g = env.shard_map(f, mesh=mesh, in_specs=(P(None, 'x'), P('x')), out_specs=P('x'), check_rep=False)
    out = np.asarray(jax.jit(g)(lhs2, rhs)).reshape(n, n)   # row a: device a, entry j: sum over (c=j, s)
  res = []
  for a in range(n):
    items = []
    for c in range(n):
      v = out[a, c]
      if not (np.isfinite(v) and v >= 0 and v == int(v)):
        return None
      v = int(v)
      s = 0
      while v:
        items += [(c, s)] * (v % int(B))
        v //= int(B)
        s += 1
    res.append(sorted(items))
  return res


def model_trace(line_out):
  if line_out == 'value-error':
    return None
  res = []
  for dev in line_out.split(';'):
    items = []
    if dev != '_':
      for it in dev.split(','):
        a, c, s = (int(t) for t in it.split('.'))
        items.append((a, c, s))
    res.append(items)
  return res


def part_trace(ctx, env):
  lines = [f'shard ag {n}' for n in (1, 2, 3, 4, 5, 6, 8)] + [f'shard rs {n}' for n in (1, 2, 3, 4, 5, 6, 8)]
  outs = dict(zip(lines, ctx.model(lines)))
  for kind in ('ag', 'rs'):
    for n in (1, 2, 3, 4, 5, 6, 8):
      ctx.dist[f'trace:{kind}:n={n}'] += 1
      if outs[f'shard {kind} {n}'] == 'bad-op':
        # the driver operation must exist: its absence is a break of the correspondence, never a skip
        ctx.corr_mismatch(f'trace[{kind}]', dict(n=n), 'runs / raises', 'bad-op', 'model rejected the operation')
        continue
      mt = model_trace(outs[f'shard {kind} {n}'])
      if n in (3, 5):
        # odd axis sizes: the real function raises ValueError, the model rejects
        raised = False
        try:
          real_trace(env, kind, n, False)
        except ValueError:
          raised = True
        except Exception:  # pylint: disable=broad-except
          raised = None
        ctx.case(('trace', kind, n), nontrivial=True)
        ctx.corr_exact(f'trace[{kind}] odd axis rejected', dict(kind=kind, n=n), raised, mt is None)
        continue
      if n == 6:
        # only 1, 2, 4, 8 of the 8 virtual devices factor; 6 devices form a valid 1-D mesh as well
        pass
      if mt is None:
        ctx.corr_mismatch(f'trace[{kind}]', dict(n=n), 'runs', 'model rejected')
        continue
      # the model's own expectation (proved in Lean): device a holds each (c, c) / (a-th chunk, s) once
      for rev in ((False, True) if n in (2, 4, 8) else (False,)):
        inp = dict(kind=kind, n=n, reverse_arg_order=rev)
        ctx.case(('trace', kind, n, rev), nontrivial=n > 1)
        with ctx.impl(f'trace-exception:{kind}', inp):
          rt = real_trace(env, kind, n, rev)
          if rt is None:
            ctx.corr_mismatch(f'trace[{kind}]', inp, 'undecodable output', 'trace')
            ctx.fail(f'trace:{kind}:n={n}', 'collective returned a value that is not a sum of coded products', inp)
            continue
          mset = [sorted((c, s) for (_, c, s) in dev) for dev in mt]
          dev_ok = all(all(a == i for (a, _, _) in dev) for i, dev in enumerate(mt))
          ok = ctx.corr_exact(f'trace[{kind}] (chunk, source) products per device', inp, rt, mset) and dev_ok
          # sentinel: the property itself on the decoded trace
          if kind == 'ag':
            want = [[(c, c) for c in range(n)] for _ in range(n)]
          else:
            want = [[(a, s) for s in range(n)] for a in range(n)]
          ctx.expect(rt == want, f'trace:{kind}:n={n}',
                     f'{kind} schedule on {n} devices: accumulated products {rt} != {want}', inp)


# ----------------------------------------------------------------------------- (ii) correspondence


def part_corr(ctx, env):
  jax, jnp, P, sh, jnu = env.jax, env.jnp, env.P, env.sh, env.jnu
  rng = ctx.rng
  lines, checks = [], []

  def add(line, op, inp, impl, kind):
    lines.append(line)
    checks.append((op, inp, impl, kind))

  # --- numeric collectives: per-device lhs blocks, scalar chunks
  for n in (1, 2, 4, 8):
    mesh = env.mesh1(n)
    for rep in range(ctx.n(1, 4)):
      for rev in (False, True):
        lhs = rng.standard_normal((n, n))
        rhs = rng.standard_normal(n)
        inp = dict(n=n, lhs=lhs.tolist(), rhs=rhs.tolist(), reverse_arg_order=rev)
        ctx.case(('agmm', n, lhs.tobytes(), rhs.tobytes(), rev), nontrivial=n > 1)
        with ctx.impl('collective-exception', inp):
          f = functools.partial(jnu._allgather_matmul_twoway, 'ac,c->a', split_axis=1, axis_name='x',
                                reverse_arg_order=rev, precision='float32')
          g = env.shard_map(f, mesh=mesh, in_specs=(P('x', None), P('x')), out_specs=P('x'), check_rep=False)
          out = np.asarray(jax.jit(g)(jnp.asarray(lhs), jnp.asarray(rhs)))
          add(f'shard F agmm {fmat(lhs)} {fvec(rhs)}', '_allgather_matmul_twoway', inp, out, 'vec')
          ctx.expect(dinoutil.relerr(out, lhs @ rhs) < TOL, f'allgather-matmul:n={n}',
                     'all-gather matmul != lhs @ rhs', inp)
          f = functools.partial(jnu._matmul_reducescatter_twoway, 'oc,c->o', scatter_axis=0, axis_name='x',
                                reverse_arg_order=rev, precision='float32')
          g = env.shard_map(f, mesh=mesh, in_specs=(P(None, 'x'), P('x')), out_specs=P('x'), check_rep=False)
          out = np.asarray(jax.jit(g)(jnp.asarray(lhs), jnp.asarray(rhs)))
          # model: block of device s, chunk c = lhs[c, s]
          add(f'shard F rsmm {fmat(lhs.T)} {fvec(rhs)}', '_matmul_reducescatter_twoway', inp, out, 'vec')
          ctx.expect(dinoutil.relerr(out, lhs @ rhs) < TOL, f'reducescatter-matmul:n={n}',
                     'reduce-scatter matmul != lhs @ rhs', inp)

  # --- the collectives on 2-D operands (chunk sizes > 1): blocks of unsharded matrices A (n r x n k), B (n k x w)
  for n in (1, 2, 4, 6, 8):
    mesh = env.mesh1(n)
    for rep in range(ctx.n(1, 3)):
      k, r, w = (int(v) for v in rng.integers(1, 4, 3))
      rev = bool(rng.integers(0, 2))
      A = rng.standard_normal((n * r, n * k))
      B = rng.standard_normal((n * k, w))
      inp = dict(n=n, k=k, r=r, w=w, A=A.tolist(), B=B.tolist(), reverse_arg_order=rev)
      ctx.case(('agmat', n, k, r, w, A.tobytes(), B.tobytes(), rev), nontrivial=n > 1)
      ctx.dist[f'matrix-collectives:n={n}'] += 1
      with ctx.impl('collective-exception', inp):
        f = functools.partial(jnu._allgather_matmul_twoway, 'ik,kj->ij', split_axis=1, axis_name='x',
                              reverse_arg_order=rev, precision='float32')
        g = env.shard_map(f, mesh=mesh, in_specs=(P('x', None), P('x', None)), out_specs=P('x', None), check_rep=False)
        out = np.asarray(jax.jit(g)(jnp.asarray(A), jnp.asarray(B)))
        add(f'shard F agmat {n} {k} {r} {w} {fmat(A)} {fmat(B)}', '_allgather_matmul_twoway [matrix blocks]', inp, out, 'devmats')
        ctx.expect(dinoutil.relerr(out, A @ B) < TOL, f'allgather-matmul:n={n}',
                   'all-gather matmul on matrix blocks != rows of A @ B', inp)
        f = functools.partial(jnu._matmul_reducescatter_twoway, 'ik,kj->ij', scatter_axis=0, axis_name='x',
                              reverse_arg_order=rev, precision='float32')
        g = env.shard_map(f, mesh=mesh, in_specs=(P(None, 'x'), P('x', None)), out_specs=P('x', None), check_rep=False)
        out = np.asarray(jax.jit(g)(jnp.asarray(A), jnp.asarray(B)))
        add(f'shard F rsmat {n} {k} {r} {w} {fmat(A)} {fmat(B)}', '_matmul_reducescatter_twoway [matrix blocks]', inp, out, 'devmats')
        ctx.expect(dinoutil.relerr(out, A @ B) < TOL, f'reducescatter-matmul:n={n}',
                   'reduce-scatter matmul on matrix blocks != rows of A @ B', inp)

  # --- sharded_einsum itself on two 2-D operands over a one-axis mesh (Lean: shardedEinsum_matrix_partial; model
  #     Dino.ShardEinsum.shardedEinsumMat = plan, then the shard_map blocks and dynamic_slice chunks it induces, then the
  #     collective it selects): every strategy (explicit gather / scatter, default by data volume), both argument orders
  import time as _time
  t_semat = _time.time()
  for n in (1, 2, 4, 6, 8):
    mesh = env.mesh1(n)
    for rep in range(ctx.n(1, 3)):
      k, r = (int(v) for v in rng.integers(1, 4, 2))
      w = int(rng.choice([1, 2, 3, n * k * 2 + 1]))     # a wide rhs flips the default strategy to scatter
      sub = ['ik,kj->ij', 'ab,bc->ac', 'oc,cz->oz', 'mX,Xn->mn'][int(rng.integers(0, 4))]
      A = rng.standard_normal((n * r, n * k))
      B = rng.standard_normal((n * k, w))
      for gather in (None, True, False):
        rev = bool(rng.integers(0, 2))
        inp = dict(n=n, k=k, r=r, w=w, subscripts=sub, gather_inputs=gather, reverse_arg_order=rev, A=A.tolist(), B=B.tolist())
        ctx.case(('semat', n, k, r, w, sub, gather, rev, A.tobytes(), B.tobytes()), nontrivial=n > 1)
        ctx.dist[f'sharded-einsum-matrix:n={n} gather_inputs={gather}'] += 1
        with ctx.impl('einsum-exception:matrix', inp):
          out = np.asarray(jnu.sharded_einsum(sub, A, jnp.asarray(B), gather_inputs=gather, reverse_arg_order=rev,
                                              precision='float32', mesh=mesh, rhs_spec=P('x', None), out_spec=P('x', None)))
          gs = 'n' if gather is None else str(int(gather))
          add(f'shard F semat {c07_einsum.chars(sub)} {n} {gs} x,- x,- {fmat(A)} {fmat(B)}',
              'sharded_einsum [2-D operands, one mesh axis]', inp, out, 'devmats')
          ctx.expect(out.shape == (n * r, w) and dinoutil.relerr(out, A @ B) < TOL, 'diff:sharded_einsum',
                     f'sharded_einsum {sub} (gather_inputs={gather}, reverse={rev}) on {n} devices != A @ B', inp)

  if os.environ.get('C07_TIMING'):
    print(f'TIMING corr/sharded-einsum-matrix={_time.time() - t_semat:.0f}s', flush=True)

  # --- ppermute tables
  for n in (1, 2, 4, 6, 8):
    add(f'shard permfwd {n}', 'perm_fwd', dict(n=n), [(j + 1) % n for j in range(n)], 'ivec')
    add(f'shard permbwd {n}', 'perm_bwd', dict(n=n), [(j - 1) % n for j in range(n)], 'ivec')
  for n in (2, 4, 8):
    mesh = env.mesh1(n)
    for name, perm in (('fwd', [(j, (j + 1) % n) for j in range(n)]), ('bwd', [(j, (j - 1) % n) for j in range(n)]),
                       ('partial', [(0, n - 1)])):
      xs = (np.arange(n) + 1) * 10
      with ctx.impl('ppermute-exception', dict(n=n, perm=perm)):
        g = env.shard_map(lambda v: jax.lax.ppermute(v, 'x', perm=perm), mesh=mesh, in_specs=(P('x'),),
                          out_specs=P('x'), check_rep=False)
        out = [int(v) for v in np.asarray(jax.jit(g)(jnp.asarray(xs)))]
        if name == 'partial':
          # model op takes one destination per source; a partial permutation is sent as the full table
          # with unused sources pointed at a non-existing device
          dst = [n - 1] + [n + 7] * (n - 1)
        else:
          dst = [d for (_, d) in perm]
        ctx.case(('ppermute', n, name), nontrivial=True)
        add(f'shard ppermute {ivec(dst)} {ivec(xs)}', f'lax.ppermute[{name}]', dict(n=n, perm=perm), out, 'ivec')

  # --- parallel prefix sums under shard_map
  for z in (2, 4, 8):
    mesh = env.mesh((z, 1, 1))
    sharding = jax.sharding.NamedSharding(mesh, P('z', 'x', 'y'))
    for s in ((1, 2) if ctx.quick else (1, 2, 3)):
      x = rng.standard_normal((z * s, 2, 1))
      for rev in (False, True):
        inp = dict(z=z, shard_len=s, reverse=rev, x=x.tolist())
        ctx.case(('pcumsum', z, s, rev, x.tobytes()), nontrivial=True)
        with ctx.impl('cumsum-exception', inp):
          out = np.asarray(jnu._dot_cumsum(jnp.asarray(x), 0, sharding=sharding, reverse=rev))
          for (idx, col), (_, ocol) in zip(dinoutil.columns(x, 0), dinoutil.columns(out, 0)):
            add(f'shard F pcumsum {int(rev)} {fmat(col.reshape(z, s))}', '_parallel_dot_cumsum',
                dict(inp, column=list(idx)), ocol.reshape(z, s), 'mat')
          ref = np.flip(np.cumsum(np.flip(x, 0), 0), 0) if rev else np.cumsum(x, 0)
          ctx.expect(dinoutil.relerr(out, ref) < TOL, f'cumsum:z={z}', 'sharded dot cumsum != cumsum', inp)
    # an axis that is not divisible by the mesh is rejected (ValueError) by the code and by the model
    x = rng.standard_normal((z + 1, 1, 1))
    try:
      jnu._dot_cumsum(jnp.asarray(x), 0, sharding=sharding)
      res = 'ok'
    except ValueError:
      res = 'value-error'
    uneven = [x[:, 0, 0][i * 1:(i + 1) * 1].tolist() for i in range(z - 1)] + [x[z - 1:, 0, 0].tolist()]
    ctx.case(('pcumsum-uneven', z), nontrivial=True)
    add('shard F pcumsum 0 ' + ';'.join(fvec(u) for u in uneven), '_dot_cumsum[indivisible axis]',
        dict(z=z, n=z + 1), res, 'str')

  # --- _round_to_multiple
  cases = [(0, 1), (1, 1), (0, 8), (1, 8), (7, 8), (8, 8), (9, 8), (16, 8), (17, 16), (37, 2), (37, 4), (37, 8),
           (5, 0), (0, 0), (12, 32), (64, 128)]
  for _ in range(ctx.n(60, 600)):
    cases.append((int(rng.integers(0, 400)), int(rng.choice([1, 2, 3, 4, 6, 8, 16, 24, 32, 64, 128, 7, 0]))))
  # the model is the exact integer ceiling; Python divides in binary64: equal for x < 2^53 (Lean:
  # roundToMultiple_float_agrees), so the correspondence is run up to that bound
  cases += [(2 ** 53 - 1, 1), (2 ** 53 - 1, 2), (2 ** 53 - 2, 2 ** 52 - 1), (2 ** 52 + 1, 2 ** 26), (2 ** 53 - 1, 2 ** 53 - 1),
            (2 ** 53 - 1, 3), (10 ** 15 + 1, 10 ** 15), (10 ** 15 + 1, 7)]
  for _ in range(ctx.n(40, 400)):
    e = int(rng.integers(20, 53))
    xv = int(rng.integers(2 ** (e - 1), 2 ** e))
    mv = int(rng.choice([1, 2, 3, 7, 8, 96, 2 ** 20 + 1, max(1, xv // 3), max(1, xv - 1), xv, xv + 1]))
    cases.append((xv, mv))
  # beyond the bound the code itself is no longer the least multiple >= x (domain note, not compared)
  big = sh._round_to_multiple(2 ** 53 + 1, 1)
  ctx.dist['rtm:beyond-2^53 float quotient loses the last bit'] += int(big != 2 ** 53 + 1)
  for (xv, mv) in cases:
    try:
      impl = str(sh._round_to_multiple(xv, mv))
    except ZeroDivisionError:
      impl = 'zero-division'
    ctx.case(('rtm', xv, mv), nontrivial=mv > 1 and xv % max(mv, 1) != 0)
    ctx.dist['rtm:' + ('zero' if mv == 0 else 'multiple' if xv % mv == 0 else 'rounds-up')] += 1
    add(f'shard rtm {xv} {mv}', '_round_to_multiple', dict(x=xv, multiple=mv), impl, 'str')
    if mv > 0:
      r = int(impl)
      ctx.expect(r >= xv and r % mv == 0 and r - xv < mv, 'round-to-multiple',
                 f'_round_to_multiple({xv},{mv})={r} is not the least multiple >= x', dict(x=xv, multiple=mv))

  # --- padded shapes, paddings, default base
  meshes = [None] + all_meshes() + MESHES6 + MESHES_ZODD + MESHES_ODD_XY[:6]
  shape_cases = []
  for mk in meshes:
    for base in (None, 0, 1, 2, 3, 8):
      shape_cases.append((mk, base, 6, 7, 19, 10))
  for _ in range(ctx.n(40, 400)):
    M = int(rng.integers(1, 48))
    L = M + int(rng.integers(0, 3))
    nlon = int(rng.integers(M, 4 * M + 2))
    nlat = int(rng.integers(1, 2 * M + 2))
    shape_cases.append((meshes[int(rng.integers(0, len(meshes)))], rng.choice([None, 0, 1, 2, 3, 4, 8, 16]), M, L, nlon, nlat))
  for (mk, base, M, L, nlon, nlat) in shape_cases:
    base = None if base is None else int(base)
    obj = sh.FastSphericalHarmonics(longitude_wavenumbers=M, total_wavenumbers=L, longitude_nodes=nlon,
                                    latitude_nodes=nlat, spmd_mesh=env.mesh(mk), base_shape_multiple=base)
    ms = '_' if mk is None else ivec(mk)
    inp = dict(mesh=mk, base=base, M=M, L=L, nlon=nlon, nlat=nlat)
    ctx.case(('shapes', mk, base, M, L, nlon, nlat), nontrivial=mk not in (None, (1, 1, 1)) or (base or 1) > 1)
    ctx.dist[f'shapes:mesh={mesh_key(mk)}'] += 1
    if base is None:
      add(f'shard defbase {ms}', 'base_shape_multiple default', inp, str(obj.base_shape_multiple), 'str')
    eff = obj.base_shape_multiple
    impl = list(obj.nodal_shape) + list(obj.modal_shape) + list(obj.nodal_padding) + list(obj.modal_padding)
    add(f'shard shapes {eff} {ms} {nlon} {nlat} {M} {L}', 'nodal/modal shape and padding', inp, impl, 'ivec')
    xs, ys = (1, 1) if mk is None else (mk[1], mk[2])
    ctx.expect(obj.nodal_shape[0] % xs == 0 and obj.nodal_shape[1] % ys == 0 and obj.modal_shape[0] % (2 * xs) == 0
               and obj.modal_shape[1] % ys == 0 and min(impl[4:]) >= 0, 'padded-shapes',
               'padded shape not divisible by the mesh (or rows per x-shard odd)', inp)

  # --- vertical pad / crop
  for zm in (None, 1, 2, 4, 8):
    for nlev in (1, 2, 3, 5, 8, 37):
      mk = None if zm is None else (zm, 1, 1)
      fld = np.arange(1, nlev + 1, dtype=float)[:, None, None] * np.ones((1, 2, 2))
      padded, padding = sh._vertical_pad(jnp.asarray(fld), env.mesh(mk))
      lev = [int(v) for v in np.asarray(padded)[:, 0, 0]]
      ctx.case(('vpad', zm, nlev), nontrivial=zm not in (None, 1) and nlev % zm != 0)
      add(f'shard vpad {"_" if zm is None else zm} {nlev}', '_vertical_pad', dict(z=zm, levels=nlev),
          f'{ivec(lev)} {"none" if padding is None else int(padding)}', 'str')
      cropped = sh._vertical_crop(padded, padding)
      add(f'shard vcrop {"none" if padding is None else int(padding)} {len(lev)}', '_vertical_crop',
          dict(z=zm, levels=nlev), list(range(1, np.asarray(cropped).shape[0] + 1)), 'ivec')
      ctx.expect(np.array_equal(np.asarray(cropped), fld), 'vertical-pad-crop', 'crop(pad(x)) != x',
                 dict(z=zm, levels=nlev))

  # --- frequency offsets, per-shard derivative, stack/unstack, masks on real padded grids
  grid_cases = [((1, 2, 1), None), ((1, 4, 1), None), ((1, 8, 1), None), ((1, 2, 2), 1), ((1, 4, 2), 3), ((2, 2, 1), 2)]
  grid_cases += [((1, 6, 1), 1)]
  if not ctx.quick:
    grid_cases += [((1, 2, 4), 1), ((1, 8, 1), 1), ((2, 4, 1), 3), ((1, 6, 1), None), ((3, 2, 1), 2)]
  for (mk, base) in grid_cases:
    M = int(rng.choice([4, 5, 6]))
    g0 = env.grid(M)
    g = env.grid(M, mk, base=base)
    R, Lp = g.modal_shape
    xs = mk[1]
    srows = R // xs
    x = pad_to(rng.standard_normal(g0.modal_shape) * g0.mask, g.modal_shape)
    x = x + 0.0  # padded with zeros
    inp = dict(mesh=mk, base=base, M=M, modal_shape=[R, Lp])
    ctx.case(('rows', mk, base, M, x.tobytes()), nontrivial=True)
    ctx.dist[f'rows:mesh={mesh_key(mk)}'] += 1
    for a in range(xs):
      add(f'shard freqoff {srows} {a}', 'frequency_offset', dict(inp, axis_index=a), str(srows // 2 * a), 'str')
    with ctx.impl('dlon-exception', inp):
      out = np.asarray(g.d_dlon(jnp.asarray(x)))
      add(f'shard F dlon {srows} {Lp} {fmat(x)}', 'd_dlon (per-shard frequency offset)', inp, out, 'mat')
      un = np.asarray(sh._unstack_m(jnp.asarray(x), g.spmd_mesh))
      st = np.asarray(sh._stack_m(jnp.asarray(un), g.spmd_mesh))
      for l in (1, 2):
        add(f'shard F unstack {srows} {fvec(x[:, l])}', '_unstack_m', dict(inp, column=l), un[:, :, l], 'mat')
        add(f'shard F stack {srows // 2} {fvec(un[0, :, l])} {fvec(un[1, :, l])}', '_stack_m', dict(inp, column=l),
            st[:, l], 'vec')
      ctx.expect(np.array_equal(st, x), 'stack-unstack', '_stack_m(_unstack_m(x)) != x', inp)
    for nclip in (1, 2):
      mask = np.asarray(g.clip_wavenumbers(jnp.ones(g.modal_shape), n=nclip))[0]
      add(f'shard F clipmask {Lp} {nclip} {g.modal_padding[1]}', 'clip_wavenumbers mask', dict(inp, n=nclip), mask, 'vec')
    inv = np.asarray(g.inverse_laplacian(jnp.ones(g.modal_shape)))[0]
    add(f'shard F inveig {g.total_wavenumbers} {fvec(g.laplacian_eigenvalues)}', 'inverse_laplacian factors', inp, inv, 'vec')

  # --- an odd number of modal rows: fourier.real_basis_derivative_with_zero_imag raises ValueError, and so does the
  #     model of the per-shard call (padded_shapes never produces such shards: T7.7)
  for (rows, srows) in ((3, 3), (6, 3), (5, 5), (4, 2), (10, 5)):
    x = rng.standard_normal((rows, 2))
    res = []
    for a in range(rows // srows):
      try:
        np.asarray(env.fourier.real_basis_derivative_with_zero_imag(jnp.asarray(x[a * srows:(a + 1) * srows]), -2, srows // 2 * a))
        res.append('ok')
      except ValueError:
        res.append('value-error')
    impl = 'value-error' if 'value-error' in res else 'ok'
    ctx.case(('dlon-odd', rows, srows), nontrivial=True)
    ctx.dist[f'rows:odd-shard-rows {impl}'] += 1
    lines.append(f'shard F dlon {srows} 2 {fmat(x)}')
    checks.append(('real_basis_derivative_with_zero_imag [odd rows rejected]', dict(rows=rows, shard_rows=srows), impl, 'errtag'))

  # --- zero-padded bases and the padded transforms (small grids: everything travels on the wire)
  basis_cases = [(3, None, 2, False), (3, (1, 2, 1), 1, False), (3, (1, 1, 2), 2, True), (4, (1, 2, 2), 1, True)]
  if not ctx.quick:
    basis_cases += [(4, None, 3, False), (3, (1, 2, 2), 3, True), (4, (2, 2, 1), 1, False), (5, (1, 2, 1), 2, True)]
  for (M, mk, base, stacked) in basis_cases:
    g0 = env.grid(M, stacked=False)
    g = env.grid(M, mk, base=base, stacked=stacked)
    b0 = g0.spherical_harmonics.basis
    bp = g.spherical_harmonics.basis
    R, L = g0.modal_shape
    N, J = g0.nodal_shape
    npx, npy = g.nodal_padding
    mpx, mpy = g.modal_padding
    inp = dict(M=M, mesh=mk, base=base, stacked=stacked, paddings=[npx, npy, mpx, mpy])
    ctx.case(('basis', M, mk, base, stacked), nontrivial=True)
    ctx.dist[f'basis:mesh={mesh_key(mk)}'] += 1
    fp = np.asarray(bp.f)
    if stacked:
      fp = np.reshape(fp, (fp.shape[0], -1), order='F')     # undo reshape(f, (-1, 2, R/2), order='F')
    add(f'shard F padmat {R} {npx} {mpx} {fmat(b0.f)}', 'basis.f padding', inp, fp, 'mat')
    ptab = '|'.join(fmat(pm) for pm in b0.p)
    add(f'shard F padtable {J} {L} {mpx // 2} {npy} {mpy} {ptab}', 'basis.p padding', inp, np.asarray(bp.p), 'tab')
    ctx.expect(np.array_equal(np.asarray(bp.w), np.pad(np.asarray(b0.w) * np.ones(J), [(0, npy)])), 'basis-w-padding',
               'basis.w is not the zero padded unpadded w', inp)
    w0 = np.asarray(b0.w) * np.ones(J)
    dims = ivec([R, J, L, npx, npy, mpx, mpy])
    xm = pad_to(rng.standard_normal(g0.modal_shape) * g0.mask, g.modal_shape)
    zn = pad_to(rng.standard_normal(g0.nodal_shape), g.nodal_shape)
    with ctx.impl('transform-exception', inp):
      syn = np.asarray(g.spherical_harmonics.inverse_transform(jnp.asarray(xm)))
      ana = np.asarray(g.spherical_harmonics.transform(jnp.asarray(zn)))
      add(f'shard F fsynth {int(stacked)} {dims} {fmat(b0.f)} {ptab} {fvec(w0)} {fmat(xm)}',
          'inverse_transform on the padded layout', inp, syn, 'mat')
      add(f'shard F fanal {int(stacked)} {dims} {fmat(b0.f)} {ptab} {fvec(w0)} {fmat(zn)}',
          'transform on the padded layout', inp, ana, 'mat')
      # ARBITRARY content on the padding of the input (Lean: fastSynth_padded_any / fastAnalysis_padded_any and the stacked
      # forms): the model and the code are run on the same garbage, and both must return the result of the zero-padded input
      gm = rng.standard_normal(xm.shape) * 1e3
      gm[:R, :L] = 0
      gn = rng.standard_normal(zn.shape) * 1e3
      gn[:N, :J] = 0
      if gm.any() or gn.any():
        ctx.dist['basis:garbage-on-the-padding'] += 1
      syn_g = np.asarray(g.spherical_harmonics.inverse_transform(jnp.asarray(xm + gm)))
      ana_g = np.asarray(g.spherical_harmonics.transform(jnp.asarray(zn + gn)))
      add(f'shard F fsynth {int(stacked)} {dims} {fmat(b0.f)} {ptab} {fvec(w0)} {fmat(xm + gm)}',
          'inverse_transform on the padded layout [garbage on the padding]', inp, syn_g, 'mat')
      add(f'shard F fanal {int(stacked)} {dims} {fmat(b0.f)} {ptab} {fvec(w0)} {fmat(zn + gn)}',
          'transform on the padded layout [garbage on the padding]', inp, ana_g, 'mat')
      ctx.expect(dinoutil.relerr(syn_g, syn) <= TOL and pad_mass(syn_g, (N, J)) <= TOL * max(1.0, float(np.abs(syn).max())),
                 'diff:to_nodal', 'inverse_transform depends on the content of the modal padding (or writes into the nodal '
                 'padding)', inp)
      ctx.expect(dinoutil.relerr(ana_g, ana) <= TOL and pad_mass(ana_g, (R, L)) <= TOL * max(1.0, float(np.abs(ana).max())),
                 'diff:to_modal', 'transform depends on the content of the nodal padding (or writes into the modal padding)', inp)

  outs = ctx.model(lines)
  for (op, inp, impl, kind), o in zip(checks, outs):
    if o == 'bad-op':
      ctx.corr_mismatch(op, inp, impl, o, 'model rejected the operation')
      continue
    if kind == 'str':
      ctx.corr_exact(op, inp, impl, o)
    elif kind == 'errtag':
      ctx.corr_exact(op, inp, impl, o if o == 'value-error' else 'ok')
    elif kind == 'devmats':
      if o == 'value-error':
        ctx.corr_mismatch(op, inp, 'runs', o, 'model raised')
      else:
        ctx.corr_float(op, inp, np.asarray(impl), np.concatenate([np.asarray(unfmat(t)) for t in o.split('|')], axis=0))
    elif kind == 'ivec':
      ctx.corr_exact(op, inp, [int(v) for v in impl], univec(o) if o not in ('value-error', 'zero-division') else o)
    elif o in ('value-error', 'zero-division'):
      ctx.corr_mismatch(op, inp, impl, o, 'model raised')
    elif kind == 'vec':
      ctx.corr_float(op, inp, impl, unfvec(o))
    elif kind == 'mat':
      ctx.corr_float(op, inp, np.asarray(impl), np.asarray(unfmat(o)))
    elif kind == 'tab':
      ctx.corr_float(op, inp, np.asarray(impl), np.asarray([unfmat(t) for t in o.split('|')]))


# ----------------------------------------------------------------------------- (iii) sentinel differential


def tree_err(env, out, ref, shape2_for):
  """max relative error over the leaves of two pytrees after cropping `out` to the shape of `ref`;
  also returns the largest |entry| of `out` outside that block and a finiteness flag."""
  lo = env.jax.tree_util.tree_leaves(out)
  lr = env.jax.tree_util.tree_leaves(ref)
  worst, mass, finite = 0.0, 0.0, True
  if len(lo) != len(lr):
    return np.inf, 0.0, False
  for o, r in zip(lo, lr):
    o = np.asarray(o, dtype=float)
    r = np.asarray(r, dtype=float)
    if not np.isfinite(o).all():
      finite = False
    if o.ndim != r.ndim:
      return np.inf, 0.0, finite
    if o.ndim >= 2:
      oc = crop_to(o, r.shape[-2:])
      scale = max(float(np.abs(r).max()) if r.size else 0.0, 1e-300)
      mass = max(mass, pad_mass(o, r.shape[-2:]) / scale)
    else:
      oc = o
    worst = max(worst, dinoutil.relerr(oc, r))
  return worst, mass, finite


# DOMAIN STATEMENT (padding column of the raw latitude derivatives).  `_derivative_recurrence_weights` zeroes `b[:, -1]`,
# the last column of the *padded* layout, so on a layout whose total-wavenumber axis is padded the raw (unclipped)
# `cos_lat_d_dlat` / `sec_lat_d_dlat_cos2` (and compositions that keep that column: a second raw derivative, d_dlon)
# write `-(l) b[l] x[l]` of the last resolved wavenumber into the FIRST padding column, where "padded = pad(unpadded)"
# would have 0.  This is asserted, not merely counted, to be harmless:
#   * the deviation is confined to that one column (rows of the resolved block): everything else on the padding is 0;
#   * the resolved block agrees with the unpadded layout (err <= TOL);
#   * it never reaches resolved coefficients: a = b = 0 on the padding, the padded Legendre basis, the Laplacian
#     eigenvalues and the inverse-Laplacian factors are 0 there, clip_wavenumbers zeroes it -- every consumer below
#     (clip, to_nodal, to_modal(to_nodal), laplacian, inverse_laplacian, a second derivative followed by clip) is compared
#     with the unpadded layout INCLUDING "padding exactly zero".
RAW_OPS = ('cos_lat_d_dlat', 'sec_lat_d_dlat_cos2', 'dlat_chain', 'dlat_then_dlon')


def artifact_split(out, ref):
  """(largest |entry| of `out` in the first padding column next to the resolved block, largest |entry| anywhere else
  outside the resolved block), both relative to the scale of `ref`; `out` and `ref` are single arrays."""
  o = np.abs(np.asarray(out, dtype=float)).copy()
  r = np.asarray(ref, dtype=float)
  R0, L0 = r.shape[-2:]
  scale = max(float(np.abs(r).max()) if r.size else 0.0, 1e-300)
  o[..., :R0, :L0] = 0
  col = 0.0
  if o.shape[-1] > L0:
    col = float(o[..., :R0, L0].max()) if o[..., :R0, L0].size else 0.0
    o[..., :R0, L0] = 0
  return col / scale, (float(o.max()) if o.size else 0.0) / scale


def grid_bundle(env, g):
  jax = env.jax

  def f(xm, xn, xm2, xn2, xg, ng):
    out = dict(
        to_nodal=g.to_nodal(xm), to_modal=g.to_modal(xn), d_dlon=g.d_dlon(xm), laplacian=g.laplacian(xm),
        inverse_laplacian=g.inverse_laplacian(xm), clip=g.clip_wavenumbers(xm), clip2=g.clip_wavenumbers(xm, n=2),
        cos_lat_d_dlat=g.cos_lat_d_dlat(xm), sec_lat_d_dlat_cos2=g.sec_lat_d_dlat_cos2(xm),
        cos_lat_grad=g.cos_lat_grad(xm), div_cos_lat=g.div_cos_lat((xm, xm[::-1])),
        curl_cos_lat=g.curl_cos_lat((xm, xm[::-1])), roundtrip=g.to_modal(g.to_nodal(xm)),
        to_nodal_2d=g.to_nodal(xm2), to_modal_2d=g.to_modal(xn2), d_dlon_2d=g.d_dlon(xm2),
        to_nodal_surface=g.to_nodal(xm[:1]), to_modal_surface=g.to_modal(xn[:1]),
        # the raw latitude derivatives leave an artifact in the first padding column (see RAW_OPS): every
        # consumer must ignore it
        dlat_then_nodal=g.to_nodal(g.cos_lat_d_dlat(xm)), dlat_chain=g.sec_lat_d_dlat_cos2(g.cos_lat_d_dlat(xm)),
        dlat_then_laplacian=g.laplacian(g.sec_lat_d_dlat_cos2(xm)), dlat_then_dlon=g.d_dlon(g.cos_lat_d_dlat(xm)),
        dlat_then_clip=g.clip_wavenumbers(g.cos_lat_d_dlat(xm)), dlat2_then_clip=g.clip_wavenumbers(g.sec_lat_d_dlat_cos2(xm)),
        dlat2_then_nodal=g.to_nodal(g.sec_lat_d_dlat_cos2(xm)),
        dlat_roundtrip=g.to_modal(g.to_nodal(g.cos_lat_d_dlat(xm))),
        dlat_then_inverse_laplacian=g.inverse_laplacian(g.cos_lat_d_dlat(xm)),
        dlat_chain_then_clip=g.clip_wavenumbers(g.sec_lat_d_dlat_cos2(g.cos_lat_d_dlat(xm))),
        dlat_chain_then_nodal=g.to_nodal(g.d_dlon(g.sec_lat_d_dlat_cos2(g.cos_lat_d_dlat(xm)))),
        dlat_masked=g.mask * g.cos_lat_d_dlat(xm),
        # garbage on the padding must not reach resolved values
        to_nodal_garbage=g.to_nodal(xg), to_modal_garbage=g.to_modal(ng))
    return out

  return jax.jit(f)


def part_grid_ops(ctx, env, meshes, toggles_for):
  jnp = env.jnp
  rng = ctx.rng
  refs = {}
  for mi, mk in enumerate(meshes):
    for (M, base, rev, stacked) in toggles_for(mi, mk):
      nl = int(rng.choice([3, 5]))
      key0 = (M, nl)
      if key0 not in refs:
        g0 = env.grid(M, stacked=False, rev=False)
        xm = rng.standard_normal((nl,) + g0.modal_shape) * g0.mask
        xn = rng.standard_normal((nl,) + g0.nodal_shape)
        args = (xm, xn, xm[0], xn[0], xm, xn)
        with ctx.impl('grid-ops-exception:unsharded', dict(M=M)):
          refs[key0] = (g0, args, grid_bundle(env, g0)(*[jnp.asarray(a) for a in args]))
      if key0 not in refs:
        continue
      g0, args, ref = refs[key0]
      g = env.grid(M, mk, base=base, rev=rev, stacked=stacked)
      inp = dict(mesh=mk, M=M, base=base, reverse_einsum_arg_order=rev, stacked_fourier_transforms=stacked,
                 levels=nl, modal_shape=list(g.modal_shape), nodal_shape=list(g.nodal_shape), seed=ctx.seed)
      padded = g.modal_shape != g0.modal_shape or g.nodal_shape != g0.nodal_shape
      ctx.case(('grid', mk, M, base, rev, stacked, nl), nontrivial=(mk is not None and mk != (1, 1, 1)) or padded,
               sample=inp)
      ctx.dist[f'grid-ops:mesh={mesh_key(mk)}'] += 1
      ctx.dist[f'grid-ops:base={base} rev={rev} stacked={stacked}'] += 1
      xm, xn = args[0], args[1]
      xg = pad_to(xm, g.modal_shape)
      garb = rng.standard_normal(xg.shape) * 1e3
      garb[..., :g0.modal_shape[0], :g0.modal_shape[1]] = 0
      ng = pad_to(xn, g.nodal_shape)
      garbn = rng.standard_normal(ng.shape) * 1e3
      garbn[..., :g0.nodal_shape[0], :g0.nodal_shape[1]] = 0
      pargs = (pad_to(xm, g.modal_shape), pad_to(xn, g.nodal_shape), pad_to(xm[0], g.modal_shape),
               pad_to(xn[0], g.nodal_shape), xg + garb, ng + garbn)
      with ctx.impl(f'grid-ops-exception:mesh={mesh_key(mk)}', inp):
        out = grid_bundle(env, g)(*[jnp.asarray(a) for a in pargs])
        for name in ref:
          err, mass, finite = tree_err(env, out[name], ref[name], None)
          rname = {'to_nodal_garbage': 'to_nodal', 'to_modal_garbage': 'to_modal'}.get(name, name)
          ctx.expect(finite, f'nonfinite:{rname}', f'{name} returns non-finite values on mesh {mk}', inp)
          ctx.expect(err <= TOL, f'diff:{rname}', f'{name} on mesh {mk} differs from unsharded by {err:.3e}', inp)
          if name in RAW_OPS:
            # resolved block already asserted equal (err <= TOL above); the deviation from pad(unpadded) must be
            # confined to the first padding column
            col, elsewhere = artifact_split(out[name], ref[name])
            if col > TOL:
              ctx.dist[f'raw-derivative-artifact-in-first-padding-column:{name}'] += 1
            ctx.expect(elsewhere <= TOL, f'padding-nonzero:{rname}',
                       f'{name} on mesh {mk} writes {elsewhere:.3e} (relative) into the padding outside the first padding '
                       'column', inp)
            ctx.expect(col <= TOL or g.modal_padding[1] > 0, f'padding-nonzero:{rname}',
                       f'{name} on mesh {mk}: artifact column without a padded total-wavenumber axis', inp)
            continue
          ctx.expect(mass <= TOL, f'padding-nonzero:{rname}',
                     f'{name} on mesh {mk} writes {mass:.3e} (relative) into the padding', inp)


def level_sets(env, rng, n, kind):
  b, _ = dinoutil.random_boundaries(rng, n, kind)
  return b


def make_eq(env, g, b, tref, mk, method, moist=False):
  pe, cs, sc = env.pe, env.cs, env.sc
  coords = cs.CoordinateSystem(horizontal=g, vertical=sc.SigmaCoordinates(b), spmd_mesh=env.mesh(mk))
  R, kappa = 2.87, 2 / 7
  specs = pe.PrimitiveEquationsSpecs(radius=1.0, angular_velocity=1.0, gravity_acceleration=0.98,
                                     ideal_gas_constant=R, water_vapor_gas_constant=R * 1.6,
                                     water_vapor_isobaric_heat_capacity=4 * R, kappa=kappa,
                                     scale=env.scales.DEFAULT_SCALE)
  oro = np.zeros(coords.horizontal.modal_shape)
  cls = pe.MoistPrimitiveEquations if moist else pe.PrimitiveEquations
  return coords, cls(np.asarray(tref), oro, coords, specs, vertical_matmul_method=method)


def part_primitive(ctx, env, meshes):
  jax, jnp, pe = env.jax, env.jnp, env.pe
  rng = ctx.rng
  M = 5
  g0 = env.grid(M)
  for mi, mk in enumerate(meshes):
    z = mk[0]
    kinds = ['uneven'] if ctx.quick and mi % 3 else ['uneven', 'equidistant']
    for kind in kinds:
      mult = 1 if (z >= 4 or ctx.quick) else int(rng.choice([1, 2]))
      n = max(2, z * mult)
      if n % z:
        n = z * (n // z + 1)
      b = level_sets(env, rng, n, kind)
      const_t = bool(rng.random() < 0.25)
      tref = np.full(n, 250.0) if const_t else rng.uniform(200, 300, n)
      shape = (n,) + g0.modal_shape
      mask = g0.mask
      st = dict(vorticity=rng.standard_normal(shape) * mask, divergence=rng.standard_normal(shape) * mask,
                temperature_variation=rng.standard_normal(shape) * mask,
                log_surface_pressure=rng.standard_normal((1,) + g0.modal_shape) * mask * 0.01,
                tracers={'q': rng.standard_normal(shape) * mask * 1e-3})
      eta = float(rng.choice([0.3, 0.05, 1.0]))
      methods = [None] if ctx.quick else [None, 'dense', 'sparse']
      inv_methods = ['split', 'blockwise'] if (not ctx.quick or mi % 2 == 0) else ['split']
      for method in methods:
        inp = dict(mesh=mk, layers=n, sigma=kind, boundaries=b.tolist(), tref=tref.tolist(), eta=eta,
                   vertical_matmul_method=method, seed=ctx.seed)
        ctx.case(('pe', mk, n, kind, method, b.tobytes()), nontrivial=mk != (1, 1, 1), sample=inp)
        ctx.dist[f'primitive:mesh={mesh_key(mk)}'] += 1
        ctx.dist[f'primitive:sigma={kind} layers={n} method={method}'] += 1

        def bundle(eq):
          def f(s):
            s = pe.State(**s)
            out = dict(explicit_terms=eq.explicit_terms(s), implicit_terms=eq.implicit_terms(s))
            for im in inv_methods:
              out[f'implicit_inverse[{im}]'] = eq.implicit_inverse(s, eta, method=im)
            return out
          return jax.jit(f)

        with ctx.impl('primitive-exception:unsharded', inp):
          _, e0 = make_eq(env, g0, b, tref, None, 'dense')
          ref = bundle(e0)(jax.tree_util.tree_map(jnp.asarray, st))
        with ctx.impl(f'primitive-exception:mesh={mesh_key(mk)}', inp):
          g = env.grid(M)
          c, e = make_eq(env, g, b, tref, mk, method)
          sp = jax.tree_util.tree_map(lambda a: jnp.asarray(pad_to(a, c.horizontal.modal_shape)), st)
          out = bundle(e)(sp)
          for name in ref:
            err, mass, finite = tree_err(env, out[name], ref[name], None)
            ctx.expect(finite, f'nonfinite:{name}', f'{name} returns non-finite values on mesh {mk}', inp)
            ctx.expect(err <= TOL, f'diff:{name}',
                       f'{name} on mesh {mk} ({kind} sigma, {n} layers, vertical method {method}) differs from '
                       f'the unsharded dense computation by {err:.3e}', inp)
            ctx.expect(mass <= TOL, f'padding-nonzero:{name}', f'{name} writes {mass:.3e} into the padding', inp)


def part_cumsum_einsum(ctx, env, meshes):
  jax, jnp, jnu, P = env.jax, env.jnp, env.jnu, env.P
  rng = ctx.rng
  for mk in meshes:
    z, xs, ys = mk
    mesh = env.mesh(mk)
    sharding = jax.sharding.NamedSharding(mesh, P('z', 'x', 'y'))
    x = rng.standard_normal((2 * z, 2 * xs, ys))
    inp = dict(mesh=mk, shape=list(x.shape), seed=ctx.seed)
    ctx.case(('cumsum', mk, x.tobytes()), nontrivial=mk != (1, 1, 1))
    ctx.dist[f'cumsum:mesh={mesh_key(mk)}'] += 1
    with ctx.impl(f'cumsum-exception:mesh={mesh_key(mk)}', inp):
      xj = jnp.asarray(x)
      for name, fn, ref in (('cumsum', jnu.cumsum, np.cumsum(x, 0)),
                            ('reverse_cumsum', jnu.reverse_cumsum, np.flip(np.cumsum(np.flip(x, 0), 0), 0))):
        out = np.asarray(fn(xj, 0, method='dot', sharding=sharding))
        ctx.expect(np.isfinite(out).all() and dinoutil.relerr(out, ref) <= TOL, f'diff:{name}',
                   f'{name} sharded over z={z} differs from the unsharded sum by {dinoutil.relerr(out, ref):.3e}', inp)
      # the summed, sharded axis need not be the leading one (repaired defect: the shard totals were gathered along
      # axis 0 whatever the summed axis, so e.g. a (3, 8, 2) array sharded along axis 1 came back wrong by O(10))
      if z > 1:
        for ax, shape, spec in ((1, (3, 2 * z, 2), P(None, 'z', None)), (2, (2, 3, 2 * z), P(None, None, 'z')),
                                (-2, (3, 2 * z, 2), P(None, 'z', None))):
          xa = rng.standard_normal(shape)
          sha = jax.sharding.NamedSharding(mesh, spec)
          for name, fn, ref in (('cumsum', jnu.cumsum, np.cumsum(xa, ax)),
                                ('reverse_cumsum', jnu.reverse_cumsum, np.flip(np.cumsum(np.flip(xa, ax), ax), ax))):
            out = np.asarray(fn(jnp.asarray(xa), ax, method='dot', sharding=sha))
            ctx.case(('cumsum-axis', mk, ax, name), nontrivial=True)
            ctx.expect(np.isfinite(out).all() and dinoutil.relerr(out, ref) <= TOL, f'diff:{name}:non-leading-axis',
                       f'{name} along axis {ax} sharded over z={z} differs from the unsharded sum by '
                       f'{dinoutil.relerr(out, ref):.3e}', dict(inp, axis=ax, shape=list(shape), x=xa.tolist()))
      # ONE sharding object reused for arrays of different rank and different summed axes, in sequence (state carried
      # between calls: a compiled prefix sum memoised per sharding must not remember the axis of the first call; seeded C07-5)
      if z > 1:
        shs = jax.sharding.NamedSharding(mesh, P(None, 'z'))
        seq = [(-1, (3, 2 * z)), (1, (2, 2 * z, 3)), (1, (3, 2 * z)), (-2, (2, 2 * z, 3)), (-1, (5, 2 * z))]
        for step, (ax, shape) in enumerate(seq):
          xa = rng.standard_normal(shape)
          for name, fn, ref in (('cumsum', jnu.cumsum, np.cumsum(xa, ax)),
                                ('reverse_cumsum', jnu.reverse_cumsum, np.flip(np.cumsum(np.flip(xa, ax), ax), ax))):
            out = np.asarray(fn(jnp.asarray(xa), ax, method='dot', sharding=shs))
            ctx.case(('cumsum-seq', mk, step, name), nontrivial=True)
            ctx.expect(out.shape == ref.shape and np.isfinite(out).all() and dinoutil.relerr(out, ref) <= TOL,
                       f'diff:{name}:reused-sharding',
                       f'{name} along axis {ax} of a {list(shape)} array (call {step + 1} of a sequence reusing one '
                       f'NamedSharding P(None, z), z={z}) differs from the unsharded sum',
                       dict(inp, sequence=[[a, list(sh_)] for a, sh_ in seq[:step + 1]], x=xa.tolist()))
    # the einsum patterns of the transforms and of the vertical products, both strategies, both orders
    k = 2
    m_, i_, j_, l_, g_ = k * xs, k * xs, k * ys, k * ys, k * z
    pats = [
        ('mjl,zsml->zsmj', (m_, j_, l_), (z, 2, m_, l_), P('z', None, 'x', 'y'), P('z', None, 'x', 'y'), ys),
        ('ism,zsmj->zij', (i_, 2, m_), (z, 2, m_, j_), P('z', None, 'x', 'y'), P('z', 'x', 'y'), xs),
        ('ism,zij->zsmj', (i_, 2, m_), (z, i_, j_), P('z', 'x', 'y'), P('z', None, 'x', 'y'), xs),
        ('mjl,zsmj->zsml', (m_, j_, l_), (z, 2, m_, j_), P('z', None, 'x', 'y'), P('z', None, 'x', 'y'), ys),
        ('im,zmj->zij', (i_, m_), (z, m_, j_), P('z', 'x', 'y'), P('z', 'x', 'y'), xs),
        ('gh,hml->gml', (g_, g_), (g_, m_, l_), P('z', 'x', 'y'), P('z', 'x', 'y'), z),
        ('lgh,hml->gml', (l_, g_, g_), (g_, m_, l_), P('z', 'x', 'y'), P('z', 'x', 'y'), z),
    ]
    for (sub, ls, rs, rspec, ospec, nred) in pats:
      if ctx.quick and nred == 1 and rng.random() < 0.6:
        continue
      lhs = rng.standard_normal(ls)
      rhs = rng.standard_normal(rs)
      ref = np.einsum(sub, lhs, rhs)
      for gather in (True, False, None):
        for rev in (False, True):
          if ctx.quick and (gather is None or (rev and nred == 1)):
            continue
          inp = dict(mesh=mk, subscripts=sub, lhs_shape=list(ls), rhs_shape=list(rs), gather_inputs=gather,
                     reverse_arg_order=rev, seed=ctx.seed)
          ctx.case(('einsum', mk, sub, gather, rev, lhs.tobytes()), nontrivial=nred > 1)
          ctx.dist[f'einsum:{sub}:reduce-axis-size={nred}'] += 1
          if nred > 1 and nred % 2:
            # an odd reduce axis is outside the domain (only reachable here through the vertical patterns, which the
            # library evaluates with jnp.einsum): the two-way collectives must reject it loudly
            try:
              jnu.sharded_einsum(sub, lhs, jnp.asarray(rhs), gather_inputs=gather, reverse_arg_order=rev,
                                 precision='float32', mesh=mesh, rhs_spec=rspec, out_spec=ospec)
              res = 'returned a value'
            except ValueError as e:
              res = 'value-error' if 'axis_size must be 1 or even' in str(e) else str(e)[:120]
            ctx.expect(res == 'value-error', 'odd-axis-not-rejected',
                       f'sharded_einsum {sub} over an axis of odd size {nred} should raise ValueError: {res}', inp)
            continue
          with ctx.impl(f'einsum-exception:{sub}', inp):
            out = np.asarray(jnu.sharded_einsum(sub, lhs, jnp.asarray(rhs), gather_inputs=gather,
                                                reverse_arg_order=rev, precision='float32', mesh=mesh,
                                                rhs_spec=rspec, out_spec=ospec))
            e = dinoutil.relerr(out, ref)
            ctx.expect(np.isfinite(out).all() and e <= TOL, 'diff:sharded_einsum',
                       f'sharded_einsum {sub} (gather_inputs={gather}, reverse={rev}) on mesh {mk} differs from '
                       f'einsum by {e:.3e}', inp)


def part_filters(ctx, env, layouts):
  jnp, ti, filtering = env.jnp, env.ti, env.filtering
  rng = ctx.rng
  for (mk, base) in layouts:
    M = int(rng.choice([4, 5, 6]))
    radius = float(rng.choice([1.0, 2.5]))
    g0 = env.grid(M, radius=radius)
    g = env.grid(M, mk, base=base, radius=radius)
    n = 3
    st0 = dict(a=rng.standard_normal((n,) + g0.modal_shape) * g0.mask, b=rng.standard_normal((1,) + g0.modal_shape),
               t=np.float64(0.5))
    stp = dict(a=pad_to(st0['a'], g.modal_shape), b=pad_to(st0['b'], g.modal_shape), t=np.float64(0.5))
    dt = float(rng.choice([0.01, 0.1]))
    tau = float(rng.choice([0.010938, 0.1, 1.0]))
    order = int(rng.choice([1, 2, 3]))
    cutoff = float(rng.choice([0.0, 0.3]))
    fl = [
        ('exponential_step_filter', lambda gg: (lambda s: ti.exponential_step_filter(gg, dt, tau, 18, cutoff)(s, s))),
        ('horizontal_diffusion_step_filter', lambda gg: (lambda s: ti.horizontal_diffusion_step_filter(gg, dt, tau, order)(s, s))),
        ('exponential_filter', lambda gg: filtering.exponential_filter(gg, 16, 18, cutoff)),
        ('horizontal_diffusion_filter', lambda gg: filtering.horizontal_diffusion_filter(gg, dt, order)),
    ]
    inp = dict(mesh=mk, base=base, M=M, radius=radius, dt=dt, tau=tau, order=order, cutoff=cutoff,
               modal_shape=list(g.modal_shape), modal_padding=list(g.modal_padding), seed=ctx.seed)
    ctx.case(('filters', mk, base, M, dt, tau, order, cutoff, st0['a'].tobytes()), nontrivial=g.modal_shape != g0.modal_shape,
             sample=inp)
    ctx.dist[f'filters:mesh={mesh_key(mk)} base={base}'] += 1
    for name, mkf in fl:
      with ctx.impl(f'filter-exception:{name}', inp):
        ref = mkf(g0)({k: jnp.asarray(v) for k, v in st0.items()})
        out = mkf(g)({k: jnp.asarray(v) for k, v in stp.items()})
        err, mass, finite = tree_err(env, out, ref, None)
        ctx.expect(finite, f'nonfinite:{name}', f'{name} returns non-finite values on the padded layout '
                   f'{g.modal_shape} (padding {g.modal_padding})', inp)
        ctx.expect(err <= TOL, f'diff:{name}', f'{name} on the padded layout differs from the unpadded filter by {err:.3e}', inp)
        ctx.expect(mass <= TOL, f'padding-nonzero:{name}', f'{name} writes {mass:.3e} into the padding', inp)
    # negative witness for the repaired normalisation: eigenvalues[-1] == 0 on this layout
    if g.modal_padding[1] > 0:
      ctx.dist['filters:old-normaliser-would-divide-by-zero'] += int(g.laplacian_eigenvalues[-1] == 0)


def part_odd_rejected(ctx, env, meshes):
  """DOMAIN STATEMENT: a mesh whose x or y axis has an odd size > 1 is outside the domain of the property; the code
  rejects it loudly (ValueError('axis_size must be 1 or even') from the two-way collectives, Lean:
  collectives_odd_rejected) instead of computing something else."""
  jnp, jnu, P = env.jnp, env.jnu, env.P
  rng = ctx.rng
  for mk in meshes:
    g = env.grid(4, mk)
    xm = rng.standard_normal((2 * mk[0],) + g.modal_shape)
    xn = rng.standard_normal((2 * mk[0],) + g.nodal_shape)
    for name, fn, arg in (('to_nodal', g.to_nodal, xm), ('to_modal', g.to_modal, xn)):
      inp = dict(mesh=mk, op=name, modal_shape=list(g.modal_shape))
      ctx.case(('odd-mesh', mk, name), nontrivial=True)
      ctx.dist[f'odd-axis:mesh={mesh_key(mk)}'] += 1
      res = 'returned a value'
      try:
        np.asarray(fn(jnp.asarray(arg)))
      except ValueError as e:
        res = 'value-error' if 'axis_size must be 1 or even' in str(e) else f'ValueError: {str(e)[:120]}'
      except Exception as e:  # pylint: disable=broad-except
        res = f'{type(e).__name__}: {str(e)[:120]}'
      ctx.expect(res == 'value-error', 'odd-axis-not-rejected',
                 f'{name} on mesh {mk} (odd x or y axis) should raise ValueError(axis_size must be 1 or even): {res}', inp)
    # the longitude derivative needs no collective: it must simply be right on an odd x axis
    if mk[1] > 1:
      g0 = env.grid(4)
      x0 = rng.standard_normal((1,) + g0.modal_shape) * g0.mask
      with ctx.impl(f'grid-ops-exception:mesh={mesh_key(mk)}', dict(mesh=mk, op='d_dlon')):
        out = np.asarray(g.d_dlon(jnp.asarray(pad_to(x0, g.modal_shape))))
        ref = np.asarray(g0.d_dlon(jnp.asarray(x0)))
        ctx.expect(dinoutil.relerr(crop_to(out, ref.shape[-2:]), ref) <= TOL and pad_mass(out, ref.shape[-2:]) <= TOL,
                   'diff:d_dlon', f'd_dlon on mesh {mk} differs from unsharded', dict(mesh=mk))


def part_time_step(ctx, env, meshes):
  """one whole IMEX step (moist or dry) with step filters, sharded vs unsharded (one mesh in quick, all in thorough)."""
  jax, jnp, pe, ti = env.jax, env.jnp, env.pe, env.ti
  rng = ctx.rng
  M = 5
  g0 = env.grid(M)
  for mi, mk in enumerate(meshes):
    z = mk[0]
    n = max(2, z)
    moist = bool(mi % 2 == 0)
    b = level_sets(env, rng, n, 'uneven')
    tref = rng.uniform(220, 300, n)
    shape = (n,) + g0.modal_shape
    mask = g0.mask
    st = dict(vorticity=rng.standard_normal(shape) * mask * 1e-2, divergence=rng.standard_normal(shape) * mask * 1e-2,
              temperature_variation=rng.standard_normal(shape) * mask,
              log_surface_pressure=rng.standard_normal((1,) + g0.modal_shape) * mask * 0.01,
              tracers={'specific_humidity': rng.standard_normal(shape) * mask * 1e-3})
    dt = 0.01
    inp = dict(mesh=mk, layers=n, moist=moist, boundaries=b.tolist(), tref=tref.tolist(), dt=dt, seed=ctx.seed)
    ctx.case(('step', mk, moist, b.tobytes()), nontrivial=True, sample=inp)
    ctx.dist[f'time-step:mesh={mesh_key(mk)} moist={moist}'] += 1

    def stepper(eq, grid):
      step = ti.imex_rk_sil3(eq, time_step=dt)
      filters = [ti.exponential_step_filter(grid, dt), ti.horizontal_diffusion_step_filter(grid, dt, tau=0.05, order=2)]
      step = ti.step_with_filters(step, filters)
      if moist:
        return jax.jit(lambda s: step(pe.StateWithTime(**s, sim_time=0.0)))
      return jax.jit(lambda s: step(pe.State(**s)))

    with ctx.impl('time-step-exception:unsharded', inp):
      c0, e0 = make_eq(env, g0, b, tref, None, None, moist)
      ref = stepper(e0, c0.horizontal)(jax.tree_util.tree_map(jnp.asarray, st))
    with ctx.impl(f'time-step-exception:mesh={mesh_key(mk)}', inp):
      c, e = make_eq(env, env.grid(M), b, tref, mk, None, moist)
      sp = jax.tree_util.tree_map(lambda a: jnp.asarray(pad_to(a, c.horizontal.modal_shape)), st)
      out = stepper(e, c.horizontal)(sp)
      err, mass, finite = tree_err(env, out, ref, None)
      ctx.expect(finite, 'nonfinite:time-step', f'one IMEX step returns non-finite values on mesh {mk}', inp)
      ctx.expect(err <= 1e-9, 'diff:time-step', f'one filtered IMEX step on mesh {mk} differs from unsharded by {err:.3e}', inp)
      ctx.expect(mass <= 1e-9, 'padding-nonzero:time-step', f'one IMEX step writes {mass:.3e} into the padding', inp)


# ----------------------------------------------------------------------------- driver


def run(ctx: common.Ctx):
  env = Env(ctx)
  # every file is required: a missing one is a failure of the check (FileNotFoundError in the source audit), not a skip
  extra = ['DinoProofs/Lemmas/Shard.lean', 'DinoProofs/Lemmas/ShardPad.lean', 'DinoProofs/Lemmas/ShardBasis.lean',
           'DinoProofs/Lemmas/ShardBlock.lean', 'DinoProofs/Lemmas/ShardEinsum.lean', 'DinoProofs/Lemmas/ShardGarbage.lean',
           'DinoProofs/Lemmas/ShardArrays.lean', 'DinoProofs/Lemmas/ShardEinsumMat.lean',
           'Dino/Shard.lean', 'Dino/ShardDrv.lean', 'Dino/ShardEinsum.lean', 'Dino/ShardEinsumMat.lean']
  ctx.lean('DinoProofs.Properties.C07', 'C07.txt', extra_files=extra)
  rng = ctx.rng
  meshes = all_meshes()
  multi = [m for m in meshes if sum(v > 1 for v in m) >= 2 and m != (2, 2, 2)]
  single = [m for m in meshes if sum(v > 1 for v in m) <= 1]
  if ctx.quick:
    pick = [multi[i] for i in rng.permutation(len(multi))[:4]]
    grid_meshes = single + [(2, 2, 2)] + pick + MESHES6 + [MESHES_ZODD[ctx.seed % 3]]
  else:
    grid_meshes = meshes + MESHES6 + MESHES_ZODD

  def toggles_for(mi, mk):
    M = [5, 4, 6][mi % 3]
    combos = [(None, None, None), (1, False, True), (2, True, False), (3, False, False), (None, True, True)]
    if ctx.quick:
      return [(M,) + combos[(mi + ctx.seed) % len(combos)]]
    return [(M,) + c for c in combos]

  import time
  tlog = []

  def timed(name, fn, *a):
    t0 = time.time()
    fn(*a)
    tlog.append(f'{name}={time.time() - t0:.0f}s')
    if os.environ.get('C07_TIMING'):
      print('TIMING', tlog[-1], flush=True)

  tlog.append(f'lean={time.time() - ctx.t0:.0f}s')
  timed('trace', part_trace, ctx, env)
  timed('corr', part_corr, ctx, env)
  timed('einsum-logic', c07_einsum.part_einsum_logic, ctx, env)
  timed('grid', part_grid_ops, ctx, env, grid_meshes, toggles_for)
  # padded layouts without any mesh: base_shape_multiple alone
  timed('grid-nomesh', part_grid_ops, ctx, env, [None], lambda mi, mk: [(5, 4, None, None)] + ([] if ctx.quick else [(4, 3, True, True), (6, 8, False, False)]))
  odd = MESHES_ODD_XY if not ctx.quick else [MESHES_ODD_XY[(ctx.seed + i) % len(MESHES_ODD_XY)] for i in (0, 3, 6)]
  timed('odd-axis', part_odd_rejected, ctx, env, odd)

  zmeshes = [m for m in meshes if m[0] > 1]
  if ctx.quick:
    keep = [(2, 1, 1), (4, 1, 1), (8, 1, 1), (2, 2, 2)]
    rest = [m for m in zmeshes if m not in keep]
    six = [MESHES6[(ctx.seed + i) % 5] for i in (0, 2)]
    pe_meshes = (keep + [rest[i] for i in rng.permutation(len(rest))[:2]]
                 + [[(1, 2, 2), (1, 4, 2), (1, 2, 4), (1, 8, 1), (1, 1, 8)][ctx.seed % 5]] + six)
  else:
    pe_meshes = [m for m in meshes if m != (1, 1, 1)] + MESHES6 + MESHES_ZODD
  timed('primitive', part_primitive, ctx, env, pe_meshes)

  timed('cumsum-einsum', part_cumsum_einsum, ctx, env, [(2, 1, 1), (1, 4, 1), (1, 1, 8), (2, 2, 2)]
        + ([MESHES6[(ctx.seed + 1) % 5], MESHES6[(ctx.seed + 3) % 5]] if ctx.quick else
           [(8, 1, 1), (4, 2, 1), (1, 8, 1), (1, 2, 4), (1, 1, 2), (1, 2, 1), (4, 1, 2), (1, 1, 1)] + MESHES6 + [(3, 1, 1)]))
  layouts = [((1, 1, 1), None), (None, 4), (None, 3), ((2, 1, 1), None), ((1, 2, 2), None), ((1, 1, 8), None), ((1, 4, 2), 1),
             ((1, 1, 6), None), ((3, 2, 1), 1)]
  if not ctx.quick:
    layouts += [(m, b) for m in meshes + MESHES6 for b in (None, 2)]
  timed('filters', part_filters, ctx, env, layouts)
  if ctx.quick:
    # the whole-step differential on one mesh per run (seed-rotated; one of them uses 6 devices)
    timed('time-step', part_time_step, ctx, env, [[(2, 2, 2), (3, 2, 1), (1, 2, 2), (2, 1, 2)][ctx.seed % 4]])
  else:
    timed('time-step', part_time_step, ctx, env, [m for m in meshes if m != (1, 1, 1)] + MESHES6 + [(3, 1, 1)])
    ctx.leanchecker(['DinoProofs.Properties.C07'])

  ctx.notes.append('timing: ' + ' '.join(tlog))
  ctx.assumptions.append('PARTIAL: XLA SPMD partitioner, shard_map, lax.ppermute/all_gather/psum, jnp.einsum / jax.eval_shape and '
                         'with_sharding_constraint are executed on 8 virtual CPU devices by the schedule trace and the '
                         'sharded-vs-unsharded differential, not modelled; the sharded forms of the implicit operators, filters '
                         'and whole steps have no theorem of their own beyond the scaling lists of T7.8: they are compared with '
                         'the unsharded computation by the differential (every tier; one whole filtered IMEX step per quick run); '
                         'the link from the plan of sharded_einsum (lhs_spec / split or scatter axis / reduce letter) to the block '
                         'layout of the operands assumed by the collective theorems is proved for two 2-D operands on a one-axis mesh '
                         'only (shardedEinsum_matrix_partial, tied by the driver op semat to the real sharded_einsum); for the einsum '
                         'patterns of the transforms (batch letters, 3-axis mesh) it is by schedule trace + differential, not by theorem')
  ctx.notes.append('domain: PrimitiveEquations with z > 1 needs a level count divisible by z (shard_map in _dot_cumsum '
                   'rejects other counts with ValueError; the model returns none there); Grid.to_nodal/to_modal/d_dlon '
                   'accept any level count through _with_vertical_padding')
  ctx.notes.append('domain: a mesh whose x or y axis has an odd size > 1 (3, 5, 7) is outside the property: to_nodal / to_modal / '
                   "sharded_einsum raise ValueError('axis_size must be 1 or even') (Lean: collectives_odd_rejected; checked on the "
                   'real code by part_odd_rejected, key odd-axis-not-rejected); d_dlon needs no collective and is checked to be '
                   'right there; the vertical axis may have any size (3, 5, 6, 7 are run); meshes covered by the differential: '
                   'every (z,x,y) with z*x*y in {1,2,4,8} and x, y in {1, even}, the five 6-device meshes (6,1,1) (3,2,1) (3,1,2) '
                   '(1,6,1) (1,1,6), and (3,1,1) (5,1,1) (7,1,1)')
  ctx.notes.append('domain: on a layout whose total-wavenumber axis is padded, the raw cos_lat_d_dlat / sec_lat_d_dlat_cos2 (and '
                   'a second raw derivative or d_dlon applied to them) are NOT pad(unpadded): b[:, -1] = 0 in '
                   '_derivative_recurrence_weights hits the padded last column, so the first padding column receives the '
                   '"numerical artifact" of the last resolved wavenumber. Asserted on every padded layout: the deviation is '
                   'confined to that column, the resolved block equals the unpadded result, and after clip_wavenumbers, to_nodal, '
                   'to_modal(to_nodal), laplacian, inverse_laplacian, mask the result equals the unpadded one with exactly zero '
                   'padding (keys diff:* and padding-nonzero:* of the dlat_* consumers); counted under '
                   'raw-derivative-artifact-in-first-padding-column')
  ctx.notes.append('domain: _round_to_multiple divides in binary64; the integer model agrees for x < 2^53 (Lean: '
                   'roundToMultiple_float_agrees; correspondence run up to 2^53 - 1); beyond it the code loses the last bit '
                   '(_round_to_multiple(2**53 + 1, 1) == 2**53), irrelevant for array shapes')
  ctx.notes.append('domain: sharded_einsum subscripts are ASCII in the model (the regular expression \\w also accepts non-ASCII '
                   'word characters, which jnp.einsum rejects later)')
  return ctx.finish(RULE, 'theorems are about the Lean models Dino.Shard / Dino.ShardEinsum; XLA/shard_map/collectives/jnp.einsum are '
                    'executed, not modelled; float rounding is outside the theorems (differential tolerance 1e-10, measured 1e-15)')
