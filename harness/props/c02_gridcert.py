"""Translator (C02): live `spherical_harmonic.Grid` arrays -> lean/DinoGen/GridCert/<G>.lean (+ umbrella DinoGen/GridCert.lean).

Run on every check of C02.  For a family of SMALL grids it asks the *real code* for every array that enters
`vor_div_to_uv_nodal` / `uv_nodal_to_vor_div_modal`:

  * `grid.radius`, `grid._derivative_recurrence_weights` (a, b), `grid.cos_lat`,
  * `grid.spherical_harmonics.basis.f / .p / .w` (Fourier matrix, Legendre tables, quadrature weights),

and writes them as exact integers with one common binary exponent per array (`x = n / 2^e`, every IEEE double is
of this form) into records `Dino.Grid.GCert`, together with the certificate theorems

  <g>_shape   : <g>.shapeOk = true                      (array shapes, radius != 0, cos(lat) != 0)
  <g>_hyp0_r<i> : <g>.rowOk false (1 / 2^DELTA_EXP) i = true   (clip=False: unit fields of Dom ly 1 in modal row i)
  <g>_hyp1_r<i> : <g>.rowOk true  (1 / 2^DELTA_EXP) i = true   (clip=True : unit fields of Dom ly 2 in modal row i)
  <g>_hyp0, <g>_hyp1 : <g>.hypOk false/true (1 / 2^DELTA_EXP) = true   (all rows, assembled from the row certificates)

the first three kinds proved by `decide +kernel`, i.e. by the Lean kernel evaluating the model's own operators in exact rational
arithmetic on the live arrays: the Hyp-A residual div(S(grad E)) - laplacian(E) and the Hyp-B residual
curl(S(grad E)) of every unit field E of the domain are <= 2^-DELTA_EXP * max|laplacian E| below the top
wavenumber.  `Dino.C02.roundtrip_of_gcert` (DinoProofs/Properties/C02.lean) turns the three certificates into the
round-trip bound for ALL fields of Dom (theorems `Dino.C02.roundtrip_h1` ...).

One module per grid (lake checks them in parallel; kernel time is a few seconds per row certificate: the kernel
evaluates `Rat` arithmetic by unfolding, which limits the certificates to SMALL grids).
Files are rewritten only when their content changes; because they are regenerated from the live `Grid` objects before
every build, the arrays the kernel checks ARE the arrays of the code under test (bit for bit).  `verify_on_disk`
re-reads the file and compares every integer with the live arrays again (belt and braces).
"""
from __future__ import annotations

import functools
import math
import os
import re
from fractions import Fraction

import numpy as np

import common

DELTA_EXP = 40        # delta = 2^-40 ~ 9.1e-13 per unit field

# (id, fast, M, L, nlon, nlat, spacing, radius, offset, fast kwargs)
GRIDS = [
    ('h1', 0, 3, 4, 8, 4, 'gauss', 1.0, 0.0, {}),                               # modal (5, 4), nodal (8, 4): 8 + 3 unit fields
    ('h2', 0, 2, 4, 5, 4, 'gauss', 6.37, 0.3, {}),                              # modal (3, 4), nodal (5, 4): 6 + 3, radius != 1
    ('h3', 1, 2, 3, 8, 4, 'gauss', 0.54, 0.0, dict(base_shape_multiple=4)),     # fast layout, padded column: modal (4, 4): 3 + 0
    ('h4', 0, 2, 3, 5, 6, 'equiangular', 2.0, 0.0, {}),                         # modal (3, 3), nodal (5, 6): 3 + 0
    ('h5', 1, 2, 4, 6, 4, 'gauss', 1.0, 0.7, dict(base_shape_multiple=2)),      # fast layout: modal (4, 4), nodal (6, 4): 6 + 3
]


class TranslatorError(Exception):
  pass


def make_grid(cfg):
  from dinosaur import spherical_harmonic as sh
  gid, fast, M, L, nlon, nlat, spacing, radius, offset, kw = cfg
  impl = functools.partial(sh.FastSphericalHarmonics, **kw) if fast else sh.RealSphericalHarmonics
  return sh.Grid(longitude_wavenumbers=M, total_wavenumbers=L, longitude_nodes=nlon, latitude_nodes=nlat,
                 latitude_spacing=spacing, radius=radius, longitude_offset=offset, spherical_harmonics_impl=impl)


def dyadic(x):
  x = float(x)
  if not math.isfinite(x):
    raise TranslatorError(f'non-finite entry {x!r}')
  fr = Fraction(x)
  e = fr.denominator.bit_length() - 1
  if (1 << e) != fr.denominator:
    raise TranslatorError('denominator of a double is not a power of two')
  return fr.numerator, e


def scaled(arr):
  """integer array with one common binary exponent: arr = ints / 2^E exactly"""
  arr = np.asarray(arr, dtype=np.float64)
  dy = [dyadic(v) for v in arr.ravel()]
  E = max([e for _, e in dy] + [0])
  ints = np.empty(len(dy), dtype=object)
  for k, (n, e) in enumerate(dy):
    ints[k] = n << (E - e)
  return ints.reshape(arr.shape), E


def ilit(n):
  n = int(n)
  return str(n) if n >= 0 else f'({n})'


def ivec(v):
  return '[' + ', '.join(ilit(x) for x in v) + ']'


def imat(a, ind='    '):
  return '[\n' + ',\n'.join(ind + ivec(r) for r in a) + ']'


def iten(a):
  return '[\n' + ',\n'.join('   ' + imat(m, '     ') for m in a) + ']'


def extract(cfg):
  gid, fast, M, L, nlon, nlat, spacing, radius, offset, kw = cfg
  g = make_grid(cfg)
  b = g.spherical_harmonics.basis
  f = np.asarray(b.f, dtype=np.float64)
  if f.ndim == 3:   # stacked Fourier step: `np.reshape(f, (-1, 2, R // 2), order='F')`, f3[i, s, m] = f[i, s + 2 m]
    n0, two, half = f.shape
    if two != 2:
      raise TranslatorError(f'{gid}: stacked f has shape {f.shape}')
    flat = np.zeros((n0, 2 * half))
    flat[:, 0::2] = f[:, 0, :]
    flat[:, 1::2] = f[:, 1, :]
    if not np.array_equal(np.reshape(flat, f.shape, order='F'), f):
      raise TranslatorError(f'{gid}: cannot undo the stacking reshape of f')
    f = flat
  p = np.asarray(b.p, dtype=np.float64)
  w = np.asarray(b.w, dtype=np.float64)
  a_w, b_w = (np.asarray(t, dtype=np.float64) for t in g._derivative_recurrence_weights)
  cosl = np.asarray(g.cos_lat, dtype=np.float64)
  (R, C), (N, J) = g.modal_shape, g.nodal_shape
  pr, pc = g.modal_padding
  if (g.longitude_wavenumbers, g.total_wavenumbers) != (M, L):
    raise TranslatorError(f'{gid}: wavenumbers changed')
  if R != (2 * M + pr if fast else 2 * M - 1) or C != L + pc:
    raise TranslatorError(f'{gid}: modal shape {(R, C)} does not match the layout M={M} L={L} padding {(pr, pc)}')
  if (f.shape != (N, R) or w.shape != (J,) or p.shape != ((R // 2 if fast else R), J, C) or a_w.shape != (R, C)
      or b_w.shape != (R, C) or cosl.shape != (J,)):
    raise TranslatorError(f'{gid}: unexpected shapes f{f.shape} p{p.shape} w{w.shape} a{a_w.shape} cos{cosl.shape} '
                          f'for modal {(R, C)} nodal {(N, J)}')
  if not np.all(cosl > 0):
    raise TranslatorError(f'{gid}: a node at a pole')
  return dict(cfg=cfg, grid=g, f=f, p=p, w=w, a=a_w, b=b_w, cosl=cosl, radius=float(g.radius), R=R, C=C, N=N, J=J,
              pr=int(pr), pc=int(pc))


FIELDS = ['a', 'b', 'f', 'p', 'w', 'cosl']


def render_grid(a):
  gid, fast, M, L, nlon, nlat, spacing, radius, offset, kw = a['cfg']
  o, names = [], []
  rn, re_ = dyadic(a['radius'])
  o.append(f'/-! ### {gid}: {"fast" if fast else "real"} M={M} L={L} nlon={nlon} nlat={nlat} {spacing} radius={radius} '
           f'offset={offset} {kw or ""}\n  modal shape ({a["R"]}, {a["C"]}), nodal shape ({a["N"]}, {a["J"]}) -/')
  o.append(f'def {gid} : Grid.GCert where')
  o.append(f'  ly := ⟨{"true" if fast else "false"}, {M}, {L}, {a["pr"]}, {a["pc"]}⟩')
  o.append(f'  N := {a["N"]}\n  J := {a["J"]}\n  rn := {ilit(rn)}\n  re := {re_}')
  for nm, en in (('a', 'ea'), ('b', 'eb'), ('f', 'ef'), ('p', 'ep'), ('w', 'ew'), ('cosl', 'ec')):
    ints, e = scaled(a[nm])
    lit = iten(ints) if ints.ndim == 3 else imat(ints) if ints.ndim == 2 else ivec(ints)
    o.append(f'  {nm} := {lit}\n  {en} := {e}')

  def thm(name, stmt):
    names.append(f'DinoGen.GridCert.{gid}_{name}')
    o.append(f'theorem {gid}_{name} : {stmt} = true := by decide +kernel')

  thm('shape', f'{gid}.shapeOk')
  R = a['R']
  for ci, cl in ((0, 'false'), (1, 'true')):
    for i in range(R):
      thm(f'hyp{ci}_r{i}', f'{gid}.rowOk {cl} (1 / 2 ^ {DELTA_EXP}) {i}')
    names.append(f'DinoGen.GridCert.{gid}_hyp{ci}')
    o.append(f'theorem {gid}_hyp{ci} : {gid}.hypOk {cl} (1 / 2 ^ {DELTA_EXP}) = true :=')
    o.append(f'  Grid.GCert.hypOk_of_rows {gid} {cl} _ {R} rfl (fun i hi => match i, hi with')
    for i in range(R):
      o.append(f'    | {i}, _ => {gid}_hyp{ci}_r{i}')
    o.append(f'    | n + {R}, h => absurd h (by omega))')
  o.append('')
  return '\n'.join(o), names


HEADER = ['/-! GENERATED on every run of C02 by harness/props/c02_gridcert.py from the arrays that a live',
          '`dinosaur.spherical_harmonic.Grid` object computes (radius, derivative recurrence weights, `basis.f`, `basis.p`,',
          '`basis.w`, `cos_lat`), as exact integers with a common binary exponent per array, with kernel-checked',
          'certificates of Hyp-A / Hyp-B on every unit field of the domain of the wind round trip.  Do not edit. -/']


def render(a):
  txt, names = render_grid(a)
  out = (['import Dino.GridCert'] + HEADER
         + ['set_option maxRecDepth 100000', 'namespace DinoGen.GridCert', 'open Dino', '', txt, 'end DinoGen.GridCert', ''])
  return '\n'.join(out), names


def module_of(gid):
  return f'DinoGen.GridCert.{gid.upper()}'


def file_of(gid):
  return os.path.join('DinoGen', 'GridCert', f'{gid.upper()}.lean')


def parse_back(txt):
  """{gid: {field: flat list of ints, exponent fields, ly}} read back from the generated Lean text"""
  res = {}
  for m in re.finditer(r'def (\w+) : Grid\.GCert where\n(.*?)\ntheorem ', txt, re.S):
    gid, body = m.group(1), m.group(2)
    d = {}
    parts = re.split(r'\n  (\w+) := ', '\n' + body)
    for k in range(1, len(parts) - 1, 2):
      d[parts[k]] = parts[k + 1]
    res[gid] = d
  return res


def ints_of(s):
  return [int(t) for t in re.findall(r'-?\d+', s)]


def verify_on_disk(arrs, lean_dir=None):
  """compare every number of the file on disk with the live arrays; returns a list of discrepancies"""
  lean_dir = lean_dir or common.LEAN
  bad = []
  for a in arrs:
    gid, fast, M, L = a['cfg'][0], a['cfg'][1], a['cfg'][2], a['cfg'][3]
    d = parse_back(open(os.path.join(lean_dir, file_of(gid))).read()).get(gid)
    if d is None:
      bad.append(f'{gid}: missing')
      continue
    if ints_of(d['ly']) != [M, L, a['pr'], a['pc']] or (('true' in d['ly']) != bool(fast)):
      bad.append(f'{gid}: layout {d["ly"]!r}')
    if [ints_of(d['N'])[0], ints_of(d['J'])[0]] != [a['N'], a['J']]:
      bad.append(f'{gid}: nodal shape')
    if Fraction(ints_of(d['rn'])[0], 1 << ints_of(d['re'])[0]) != Fraction(a['radius']):
      bad.append(f'{gid}: radius')
    for nm, en in (('a', 'ea'), ('b', 'eb'), ('f', 'ef'), ('p', 'ep'), ('w', 'ew'), ('cosl', 'ec')):
      e = ints_of(d[en])[0]
      live = np.asarray(a[nm], dtype=np.float64).ravel()
      got = ints_of(d[nm])
      if len(got) != live.size or any(Fraction(n, 1 << e) != Fraction(float(v)) for n, v in zip(got, live)):
        bad.append(f'{gid}: array {nm} differs from the live grid')
  return bad


def generate(lean_dir=None):
  """Regenerate DinoGen/GridCert/<G>.lean and the umbrella DinoGen/GridCert.lean.
  Returns dict(arrays, names=[certificate theorem names], modules=[lake targets], files=[paths relative to lean/], changed)."""
  lean_dir = lean_dir or common.LEAN
  arrs = [extract(c) for c in GRIDS]
  names, modules, files, changed = [], [], [], False
  os.makedirs(os.path.join(lean_dir, 'DinoGen', 'GridCert'), exist_ok=True)
  for a in arrs:
    gid = a['cfg'][0]
    txt, ns = render(a)
    changed = common.write_if_changed(os.path.join(lean_dir, file_of(gid)), txt) or changed
    names += ns
    modules.append(module_of(gid))
    files.append(file_of(gid))
  umbrella = '\n'.join([f'import {m}' for m in modules] + HEADER + [''])
  changed = common.write_if_changed(os.path.join(lean_dir, 'DinoGen', 'GridCert.lean'), umbrella) or changed
  modules.append('DinoGen.GridCert')
  files.append(os.path.join('DinoGen', 'GridCert.lean'))
  return dict(arrays=arrs, names=names, modules=modules, files=files, changed=changed)
