"""C05 — tendencies match the continuous equations; balanced states are exactly steady.

Lean: DinoProofs/Properties/C05.lean over the models Dino/Dynamics.lean (primitive equations, by C04)
and Dino/DynamicsSW.lean (layered shallow water + the factories of shallow_water_states).
Tie: (a) model correspondence of every shallow-water routine and of both factories (matrix-operator
instance, driver token `sw`) and of the rest-state construction (`dyn`); (b) validation of every
named law used as a theorem hypothesis on real grids; (c) sentinel probes on the real code:
rest states over orography (four classes), the analytic-oracle differential (a labelled *test*),
shallow-water jets through `one_layer` / `multi_layer`.

Known finding (keyed `sw-factory-units`): the factories hard-code radius = 1 and 2Ω = 1.
"""
import numpy as np

import common
from common import fvec, fbits, fmat, unfvec, unfmat, unfbits
import dinoutil
from props import c05_sw
from props.c05_sw import SWCfg

RULE = ('grids: Gaussian / equiangular (never equiangular_with_poles), both spherical-harmonics implementations, '
        'radius in {1, 2, 0.37, 6371.22}; level sets 1..8 layers equidistant / uneven / strongly uneven; '
        'shallow water 1..4 layers, strictly increasing random densities; jets u = cos(lat) p(sin lat), deg p <= 4; '
        'orography random band-limited; polynomial states of degree <= 3 in (x, y, z); a case is non-trivial when the '
        'state is not identically zero and (for columns) the level set has >= 2 layers; distinct = distinct '
        '(probe, configuration, data) hashes')

FINDING_KEY = 'sw-factory-units'


# ----------------------------------------------------------------------------------------------
# shallow water: helpers


def sw_grids(rng, quick):
  """Small grids for the matrix-operator correspondence: (label, kwargs)."""
  from dinosaur import spherical_harmonic as sh
  out = [
      ('T3-gauss-r1', dict(longitude_wavenumbers=4, total_wavenumbers=5, longitude_nodes=12, latitude_nodes=6)),
      ('T2-gauss-r2', dict(longitude_wavenumbers=3, total_wavenumbers=4, longitude_nodes=10, latitude_nodes=5,
                           radius=2.0)),
      ('T3-equiangular-offset-fast', dict(longitude_wavenumbers=4, total_wavenumbers=5, longitude_nodes=12,
                                         latitude_nodes=7, latitude_spacing='equiangular', longitude_offset=0.3,
                                         radius=0.37, spherical_harmonics_impl=sh.FastSphericalHarmonics)),
  ]
  return out if not quick else out


def random_densities(rng, n):
  """Strictly increasing positive densities, top first (ties are a separate corner case)."""
  d = np.cumsum(rng.uniform(0.05, 0.6, n)) + rng.uniform(0.1, 1.0)
  return d


def jet_profile(rng, deg=None):
  """Coefficients of p in u = cos(lat) * p(sin(lat))."""
  deg = int(rng.integers(0, 5)) if deg is None else deg
  return rng.uniform(-0.5, 0.5, deg + 1)


def jet(lat, coef):
  s = np.sin(lat)
  return np.cos(lat) * sum(c * s ** k for k, c in enumerate(coef))


def total_sw(eq, state):
  import jax
  e, i = eq.explicit_terms(state), eq.implicit_terms(state)
  return jax.tree.map(lambda a, b: np.asarray(a + b), e, i)


# ----------------------------------------------------------------------------------------------


def run_shallow_water(ctx):
  import jax
  import jax.numpy as jnp
  from dinosaur import spherical_harmonic as sh, shallow_water as sw, shallow_water_states as sws
  from dinosaur import coordinate_systems as cs, layer_coordinates as lc, scales
  rng = ctx.rng
  lines, checks = [], []

  def add(line, op, inp, impl, dec):
    lines.append(line)
    checks.append((op, inp, impl, dec))

  # ---- get_density_ratios / + eye : pure scalar routine, many cases
  for ci in range(ctx.n(40, 400)):
    n = [1, 2, 2, 3][ci] if ci < 4 else int(rng.integers(1, 7))
    d = random_densities(rng, n)
    mode = ['increasing', 'ties', 'decreasing', 'random'][ci % 4] if ci >= 4 else 'increasing'
    if mode == 'ties' and n >= 2:
      d[1] = d[0]
    elif mode == 'decreasing':
      d = d[::-1].copy()
    elif mode == 'random':
      d = rng.uniform(0.1, 3.0, n)
    ctx.dist[f'ratios:{mode}:n={n}'] += 1
    inp = dict(density=d.tolist())
    with ctx.impl('get_density_ratios-raised', inp):
      r = sw.get_density_ratios(d.copy())
      ctx.case(('ratios', d.tobytes()), nontrivial=n >= 2, sample=inp if ci < 2 else None)
      add(f'sw F ratios {fvec(d)}', 'get_density_ratios', inp, r, 'mat')
      add(f'sw F addeye {fmat(r)}', 'density_ratios+eye', inp, r + np.eye(n), 'mat')
      # the property behind T5.3-multi: independent oracle = hydrostatic pressure of a stack of layers
      # p_i / rho_i = sum_{j<i} (rho_j / rho_i) Phi_j + sum_{j>=i} Phi_j   (layers above weigh, layers below lift)
      if mode in ('increasing', 'ties'):
        oracle = np.array([[(d[j] / d[i] if j < i else 1.0) if i != j else 0.0 for j in range(n)] for i in range(n)])
        ctx.expect(np.abs(r - oracle).max() <= 1e-14, 'density-ratios-physical',
                   'get_density_ratios differs from the layered hydrostatic pressure weights', inp)

  # ---- equations and factories on small grids through the matrix-operator instance
  for label, kw in sw_grids(rng, ctx.quick):
    grid = sh.Grid(**kw)
    mats = c05_sw.grid_matrices(grid)
    ms, ns = grid.modal_shape, grid.nodal_shape
    mask = np.asarray(grid.mask, dtype=float)
    lat = np.arcsin(np.asarray(grid.nodal_axes[1]))
    for layers in ([1, 2, 3] if ctx.quick else [1, 2, 3, 4]):
      dens = random_densities(rng, layers)
      omega = float(rng.choice([0.5, 1.0, rng.uniform(0.1, 2.0)]))
      refpot = rng.uniform(0.05, 2.0, layers)
      with_oro = bool(rng.integers(0, 2)) or layers == 2
      oro = rng.standard_normal(ms) * mask * 0.3 if with_oro else None
      cfg = SWCfg(grid, dens, omega, refpot, oro, mats=mats)
      coords = cs.CoordinateSystem(grid, lc.LayerCoordinates(layers))
      specs = sw.ShallowWaterSpecs(dens, grid.radius, omega, 1.0, scales.DEFAULT_SCALE)
      eq = sw.ShallowWaterEquations(coords, specs, None if oro is None else jnp.asarray(oro), refpot)
      ctx.dist[f'sw-corr:{label}:layers={layers}:oro={with_oro}'] += 1
      st = sw.State(*(jnp.asarray(rng.standard_normal((layers,) + ms) * mask) for _ in range(3)))
      inp = dict(grid=label, layers=layers, densities=dens.tolist(), omega=omega, ref_potential=refpot.tolist(),
                 orography=with_oro, state_seed='ctx.rng')
      ctx.case(('sw-corr', label, layers, np.asarray(st.vorticity).tobytes()), nontrivial=True,
               sample=dict(grid=label, layers=layers, omega=omega))
      with ctx.impl('sw-terms-raised', inp):
        add(cfg.line('explicit', cfg.state(st)), 'ShallowWaterEquations.explicit_terms', inp,
            c05_sw.flat_state(eq.explicit_terms(st)), 'state')
        add(cfg.line('implicit', cfg.state(st)), 'ShallowWaterEquations.implicit_terms', inp,
            c05_sw.flat_state(eq.implicit_terms(st)), 'state')
        dt = float(rng.choice([0.01, -0.3, rng.uniform(0, 1)]))
        add(cfg.line('inverse', fbits(dt), cfg.state(st)), 'ShallowWaterEquations.implicit_inverse',
            dict(inp, step_size=dt), c05_sw.flat_state(eq.implicit_inverse(st, dt)), 'state')
        add(cfg.line('coriolis'), 'ShallowWaterEquations.coriolis_parameter', inp,
            np.broadcast_to(np.asarray(eq.coriolis_parameter), ns).ravel(), 'vec')
      # factories: arbitrary (not necessarily resolved) zonal profiles
      u = rng.standard_normal((layers, ns[1]))
      inpf = dict(grid=label, layers=layers, densities=dens.tolist(), u=u.tolist())
      with ctx.impl('sw-factory-raised', inpf):
        one = sws.one_layer(jnp.asarray(u[0]), grid)
        ufull = np.broadcast_to(u[:, None, :], (layers,) + ns)
        add(cfg.line('onelayer', fvec(ufull[0].ravel())), 'shallow_water_states.one_layer', inpf,
            c05_sw.flat_layer(one), 'layer')
        ml = sws.multi_layer(jnp.asarray(u), dens, coords)
        add(cfg.line('multilayer', fvec(dens), cfg.col(ufull)), 'shallow_water_states.multi_layer', inpf,
            c05_sw.flat_state(ml), 'state')
        # contract of the external solve
        dr = sw.get_density_ratios(dens.copy()) + np.eye(layers)
        onep = np.stack([np.asarray(sws.one_layer(jnp.asarray(u[k]), grid).potential) for k in range(layers)])
        res = np.einsum('ab,bml->aml', dr, np.asarray(ml.potential)) - onep
        ctx.expect(np.abs(res).max() <= 1e-11 * max(np.abs(onep).max(), 1e-300) * np.linalg.cond(dr),
                   'multi-layer-solve-contract', '(D + I) · multi_layer.potential != one_layer potentials', inpf)

  outs = ctx.model(lines)
  for (op, inp, impl, dec), o in zip(checks, outs):
    if o in ('bad-op', 'value-error'):
      ctx.corr_mismatch(op, inp, 'value', o, 'model rejected the operation')
      continue
    if dec == 'mat':
      ctx.corr_float(op, inp, np.asarray(impl), np.asarray(unfmat(o)))
    elif dec == 'vec':
      ctx.corr_float(op, inp, impl, unfvec(o))
    elif dec == 'state':
      c05_sw.compare(ctx, op, inp, impl, SWCfg.un_state(o))
    elif dec == 'layer':
      c05_sw.compare(ctx, op, inp, impl, SWCfg.un_layer(o))


def run(ctx: common.Ctx):
  common.setup_jax()
  run_shallow_water(ctx)
  return ctx.finish(RULE, 'theorems are about the Lean models Dino.Dynamics / Dino.DynamicsSW; the horizontal '
                    'operators are abstract (laws are hypotheses, validated numerically on real grids each run); '
                    'agreement with the continuous equations on general low-degree states is an analytic-oracle test')
