"""C05 — tendencies match the continuous equations; balanced states are exactly steady.

Lean: DinoProofs/Properties/C05.lean over the models Dino/Dynamics.lean (primitive equations, by C04)
and Dino/DynamicsSW.lean (layered shallow water + the factories of shallow_water_states).
Tie: (a) model correspondence of every shallow-water routine and of both factories (matrix-operator
instance, driver token `sw`) and of the rest-state construction (`dyn`); (b) validation of every
named law used as a theorem hypothesis on real grids; (c) sentinel probes on the real code:
rest states over orography (four classes), the analytic-oracle differential (a labelled *test*),
shallow-water jets through `one_layer` / `multi_layer`.

Known finding (keyed `sw-factory-units`): the factories hard-code radius = 1 and 2Ω = 1.
"""
import numpy as np

import common
from common import fvec, fbits, fmat, unfvec, unfmat, unfbits
import dinoutil
from props import c05_sw
from props.c05_sw import SWCfg

RULE = ('grids: Gaussian / equiangular (never equiangular_with_poles), both spherical-harmonics implementations, '
        'radius in {1, 2, 0.37, 6371.22}; level sets 1..8 layers equidistant / uneven / strongly uneven; '
        'shallow water 1..4 layers, strictly increasing random densities; jets u = cos(lat) p(sin lat), deg p <= 4; '
        'orography random band-limited; polynomial states of degree <= 3 in (x, y, z); a case is non-trivial when the '
        'state is not identically zero and (for columns) the level set has >= 2 layers; distinct = distinct '
        '(probe, configuration, data) hashes')

FINDING_KEY = 'sw-factory-units'


# ----------------------------------------------------------------------------------------------
# shallow water: helpers


def sw_grids(rng, quick):
  """Small grids for the matrix-operator correspondence: (label, kwargs)."""
  from dinosaur import spherical_harmonic as sh
  out = [
      ('T3-gauss-r1', dict(longitude_wavenumbers=4, total_wavenumbers=5, longitude_nodes=12, latitude_nodes=6)),
      ('T2-gauss-r2', dict(longitude_wavenumbers=3, total_wavenumbers=4, longitude_nodes=10, latitude_nodes=5,
                           radius=2.0)),
      ('T3-equiangular-offset-fast', dict(longitude_wavenumbers=4, total_wavenumbers=5, longitude_nodes=12,
                                         latitude_nodes=7, latitude_spacing='equiangular', longitude_offset=0.3,
                                         radius=0.37, spherical_harmonics_impl=sh.FastSphericalHarmonics)),
  ]
  return out if not quick else out


def random_densities(rng, n):
  """Strictly increasing positive densities, top first (ties are a separate corner case)."""
  d = np.cumsum(rng.uniform(0.05, 0.6, n)) + rng.uniform(0.1, 1.0)
  return d


def jet_profile(rng, deg=None):
  """Coefficients of p in u = cos(lat) * p(sin(lat))."""
  deg = int(rng.integers(0, 5)) if deg is None else deg
  return rng.uniform(-0.5, 0.5, deg + 1)


def jet(lat, coef):
  s = np.sin(lat)
  return np.cos(lat) * sum(c * s ** k for k, c in enumerate(coef))


def total_sw(eq, state):
  import jax
  e, i = eq.explicit_terms(state), eq.implicit_terms(state)
  return jax.tree.map(lambda a, b: np.asarray(a + b), e, i)


# ----------------------------------------------------------------------------------------------


def run_shallow_water(ctx):
  import jax
  import jax.numpy as jnp
  from dinosaur import spherical_harmonic as sh, shallow_water as sw, shallow_water_states as sws
  from dinosaur import coordinate_systems as cs, layer_coordinates as lc, scales
  rng = ctx.rng
  lines, checks = [], []

  def add(line, op, inp, impl, dec):
    lines.append(line)
    checks.append((op, inp, impl, dec))

  # ---- get_density_ratios / + eye : pure scalar routine, many cases
  for ci in range(ctx.n(40, 400)):
    n = [1, 2, 2, 3][ci] if ci < 4 else int(rng.integers(1, 7))
    d = random_densities(rng, n)
    mode = ['increasing', 'ties', 'decreasing', 'random'][ci % 4] if ci >= 4 else 'increasing'
    if mode == 'ties' and n >= 2:
      d[1] = d[0]
    elif mode == 'decreasing':
      d = d[::-1].copy()
    elif mode == 'random':
      d = rng.uniform(0.1, 3.0, n)
    ctx.dist[f'ratios:{mode}:n={n}'] += 1
    inp = dict(density=d.tolist())
    with ctx.impl('get_density_ratios-raised', inp):
      r = sw.get_density_ratios(d.copy())
      ctx.case(('ratios', d.tobytes()), nontrivial=n >= 2, sample=inp if ci < 2 else None)
      add(f'sw F ratios {fvec(d)}', 'get_density_ratios', inp, r, 'mat')
      add(f'sw F addeye {fmat(r)}', 'density_ratios+eye', inp, r + np.eye(n), 'mat')
      # the property behind T5.3-multi: independent oracle = hydrostatic pressure of a stack of layers
      # p_i / rho_i = sum_{j<i} (rho_j / rho_i) Phi_j + sum_{j>=i} Phi_j   (layers above weigh, layers below lift)
      if mode in ('increasing', 'ties'):
        oracle = np.array([[(d[j] / d[i] if j < i else 1.0) if i != j else 0.0 for j in range(n)] for i in range(n)])
        ctx.expect(np.abs(r - oracle).max() <= 1e-14, 'density-ratios-physical',
                   'get_density_ratios differs from the layered hydrostatic pressure weights', inp)

  # ---- equations and factories on small grids through the matrix-operator instance
  for label, kw in sw_grids(rng, ctx.quick):
    grid = sh.Grid(**kw)
    mats = c05_sw.grid_matrices(grid)
    ms, ns = grid.modal_shape, grid.nodal_shape
    mask = np.asarray(grid.mask, dtype=float)
    lat = np.arcsin(np.asarray(grid.nodal_axes[1]))
    for layers in ([1, 2, 3] if ctx.quick else [1, 2, 3, 4]):
      dens = random_densities(rng, layers)
      omega = float(rng.choice([0.5, 1.0, rng.uniform(0.1, 2.0)]))
      refpot = rng.uniform(0.05, 2.0, layers)
      with_oro = bool(rng.integers(0, 2)) or layers == 2
      oro = rng.standard_normal(ms) * mask * 0.3 if with_oro else None
      cfg = SWCfg(grid, dens, omega, refpot, oro, mats=mats)
      coords = cs.CoordinateSystem(grid, lc.LayerCoordinates(layers))
      specs = sw.ShallowWaterSpecs(dens, grid.radius, omega, 1.0, scales.DEFAULT_SCALE)
      eq = sw.ShallowWaterEquations(coords, specs, None if oro is None else jnp.asarray(oro), refpot)
      ctx.dist[f'sw-corr:{label}:layers={layers}:oro={with_oro}'] += 1
      st = sw.State(*(jnp.asarray(rng.standard_normal((layers,) + ms) * mask) for _ in range(3)))
      inp = dict(grid=label, layers=layers, densities=dens.tolist(), omega=omega, ref_potential=refpot.tolist(),
                 orography=with_oro, state_seed='ctx.rng')
      ctx.case(('sw-corr', label, layers, np.asarray(st.vorticity).tobytes()), nontrivial=True,
               sample=dict(grid=label, layers=layers, omega=omega))
      with ctx.impl('sw-terms-raised', inp):
        add(cfg.line('explicit', cfg.state(st)), 'ShallowWaterEquations.explicit_terms', inp,
            c05_sw.flat_state(eq.explicit_terms(st)), 'state')
        add(cfg.line('implicit', cfg.state(st)), 'ShallowWaterEquations.implicit_terms', inp,
            c05_sw.flat_state(eq.implicit_terms(st)), 'state')
        dt = float(rng.choice([0.01, -0.3, rng.uniform(0, 1)]))
        add(cfg.line('inverse', fbits(dt), cfg.state(st)), 'ShallowWaterEquations.implicit_inverse',
            dict(inp, step_size=dt), c05_sw.flat_state(eq.implicit_inverse(st, dt)), 'state')
        add(cfg.line('coriolis'), 'ShallowWaterEquations.coriolis_parameter', inp,
            np.broadcast_to(np.asarray(eq.coriolis_parameter), ns).ravel(), 'vec')
      # factories: arbitrary (not necessarily resolved) zonal profiles
      u = rng.standard_normal((layers, ns[1]))
      inpf = dict(grid=label, layers=layers, densities=dens.tolist(), u=u.tolist())
      with ctx.impl('sw-factory-raised', inpf):
        one = sws.one_layer(jnp.asarray(u[0]), grid)
        ufull = np.broadcast_to(u[:, None, :], (layers,) + ns)
        add(cfg.line('onelayer', fvec(ufull[0].ravel())), 'shallow_water_states.one_layer', inpf,
            c05_sw.flat_layer(one), 'layer')
        ml = sws.multi_layer(jnp.asarray(u), dens, coords)
        add(cfg.line('multilayer', fvec(dens), cfg.col(ufull)), 'shallow_water_states.multi_layer', inpf,
            c05_sw.flat_state(ml), 'state')
        # contract of the external solve
        dr = sw.get_density_ratios(dens.copy()) + np.eye(layers)
        onep = np.stack([np.asarray(sws.one_layer(jnp.asarray(u[k]), grid).potential) for k in range(layers)])
        res = np.einsum('ab,bml->aml', dr, np.asarray(ml.potential)) - onep
        ctx.expect(np.abs(res).max() <= 1e-11 * max(np.abs(onep).max(), 1e-300) * np.linalg.cond(dr),
                   'multi-layer-solve-contract', '(D + I) · multi_layer.potential != one_layer potentials', inpf)

  outs = ctx.model(lines)
  for (op, inp, impl, dec), o in zip(checks, outs):
    if o in ('bad-op', 'value-error'):
      ctx.corr_mismatch(op, inp, 'value', o, 'model rejected the operation')
      continue
    if dec == 'mat':
      ctx.corr_float(op, inp, np.asarray(impl), np.asarray(unfmat(o)))
    elif dec == 'vec':
      ctx.corr_float(op, inp, impl, unfvec(o))
    elif dec == 'state':
      c05_sw.compare(ctx, op, inp, impl, SWCfg.un_state(o))
    elif dec == 'layer':
      c05_sw.compare(ctx, op, inp, impl, SWCfg.un_layer(o))



# ----------------------------------------------------------------------------------------------
# validation of the named laws (hypotheses of the theorems) on real grids


def relmax(a, b=None):
  a = np.asarray(a, dtype=float)
  return float(np.abs(a if b is None else a - np.asarray(b, dtype=float)).max()) if a.size else 0.0


def validate_operator_laws(ctx, grid, label):
  """LinLaws, ConstLaws, FactoryLaws of DinoProofs/Lemmas/Balance*.lean on `grid` (random masked spectra)."""
  import jax.numpy as jnp
  from dinosaur import primitive_equations as pe
  rng = ctx.rng
  ms, ns = grid.modal_shape, grid.nodal_shape
  mask = np.asarray(grid.mask, dtype=float)
  J = jnp.asarray
  x, y = rng.standard_normal(ms) * mask, rng.standard_normal(ms) * mask
  zx, zy = rng.standard_normal(ns), rng.standard_normal(ns)
  a, b = rng.standard_normal(2)
  inp = dict(grid=label)
  ops = dict(to_nodal=(grid.to_nodal, x, y), to_modal=(grid.to_modal, zx, zy), d_dlon=(grid.d_dlon, x, y),
             cos_lat_d_dlat=(grid.cos_lat_d_dlat, x, y), sec_lat_d_dlat_cos2=(grid.sec_lat_d_dlat_cos2, x, y),
             laplacian=(grid.laplacian, x, y), inverse_laplacian=(grid.inverse_laplacian, x, y),
             clip=(grid.clip_wavenumbers, x, y))
  with ctx.impl('law-validation-raised', inp):
    for name, (f, u, v) in ops.items():
      lhs = np.asarray(f(J(a * u + b * v)))
      rhs = a * np.asarray(f(J(u))) + b * np.asarray(f(J(v)))
      ctx.expect(relmax(lhs, rhs) <= 1e-11 * max(relmax(rhs), 1e-300), f'law:linear:{name}',
                 f'{name} is not linear on {label}', inp)
    one = np.zeros(ms)
    one[0, 0] = pe._CONSTANT_NORMALIZATION_FACTOR
    ctx.expect(relmax(grid.laplacian(J(one))) == 0, 'law:lap_one', 'laplacian(one) != 0', inp)
    ctx.expect(relmax(grid.d_dlon(J(one))) <= 1e-14, 'law:dDlon_one', 'd_dlon(one) != 0', inp)
    ctx.expect(relmax(grid.cos_lat_d_dlat(J(one))) <= 1e-14, 'law:cosLatDDlat_one', 'cos_lat_d_dlat(one) != 0', inp)
    # `_CONSTANT_NORMALIZATION_FACTOR` is a 8-digit literal: to_nodal(one) = 1 to 2e-8
    ctx.expect(relmax(grid.to_nodal(J(one)), 1.0) <= 1e-7, 'law:toNodal_one', 'to_nodal(one) != 1', inp)
    ctx.expect(relmax(np.asarray(grid.to_modal(J(np.ones(ns)))), one) <= 1e-7 * one[0, 0], 'law:toModal_one',
               'to_modal(1) != one', inp)
    # FactoryLaws
    x0 = x.copy()
    x0[0, 0] = 0.0
    ctx.expect(relmax(grid.laplacian(J(x0)), grid.laplacian(J(x))) == 0, 'law:lap_zeroMean',
               'laplacian sees the (0,0) coefficient', inp)
    ctx.expect(relmax(grid.laplacian(grid.inverse_laplacian(J(x0))), x0) <= 1e-13 * relmax(x0), 'law:lap_invlap',
               'laplacian(inverse_laplacian(y)) != y on zero-mean y', inp)
    sx = np.asarray(grid.sec_lat_d_dlat_cos2(J(x)))
    ctx.expect(abs(sx[0, 0]) <= 1e-13 * relmax(sx), 'law:S_zeroMean',
               'sec_lat_d_dlat_cos2 produces a (0,0) coefficient', inp)
    cos = np.asarray(grid.cos_lat)
    ctx.expect(relmax(cos * (1 / cos), 1.0) <= 1e-15 and relmax(np.asarray(grid.sec2_lat) * cos * cos, 1.0) <= 1e-14,
               'law:tables', 'cos_lat / sec2_lat tables inconsistent', inp)
  ctx.case(('laws', label), nontrivial=True)


def validate_jet(ctx, grid, u_lat, pot_modal, inp):
  """`ZonalJet` of BalanceSW.lean for the zonal wind `u_lat` (1-D over latitude) on `grid`."""
  import jax.numpy as jnp
  from dinosaur import spherical_harmonic as sh
  J = jnp.asarray
  ns = grid.nodal_shape
  u = np.broadcast_to(np.asarray(u_lat)[None, :], ns)
  cos = np.broadcast_to(np.asarray(grid.cos_lat), ns)
  _, sin = grid.nodal_mesh
  sin = np.broadcast_to(np.asarray(sin), ns)
  S, T, Nd, clip = grid.sec_lat_d_dlat_cos2, grid.to_modal, grid.to_nodal, grid.clip_wavenumbers
  U = T(J(u / cos))
  zeta = -np.asarray(S(U))
  sc = max(relmax(u), 1e-300)
  curl = grid.curl_cos_lat((U, jnp.zeros_like(U)), clip=False)
  uv = sh.get_cos_lat_vector(curl, jnp.zeros_like(curl), grid, clip=True)
  ok = True
  ok &= ctx.expect(relmax(Nd(uv[0]), u * cos) <= 1e-11 * sc, 'law:jet:helmholtz',
                   'get_cos_lat_vector(curl_cos_lat(u)) != u cos(lat)', inp)
  zs = max(relmax(zeta), 1e-300)
  fields = dict(psi=grid.inverse_laplacian(J(zeta)), b1=T(J(u / cos) * Nd(J(zeta))), b2=T(J(u / cos * sin)),
                g=T(J(u / cos) * Nd(clip(J(pot_modal)))))
  for k, f in fields.items():
    ok &= ctx.expect(relmax(grid.d_dlon(f)) <= 1e-12 * max(relmax(f), 1e-300), f'law:jet:zonal_{k}',
                     f'd_dlon of the zonal field {k} is not zero', inp)
  x1 = S(T(J(u / cos) * Nd(J(zeta))))
  x2 = S(T(J(u / cos * sin)))
  x3 = grid.laplacian(T(J(u * u / 2)))
  for k, f in dict(vorticity=J(zeta), X1=x1, X2=x2, X3=x3).items():
    ok &= ctx.expect(relmax(clip(f), f) <= 1e-12 * max(relmax(f), zs, 1e-300), f'law:jet:clip_{k}',
                     f'clip_wavenumbers changes {k}: the jet is not resolved on this grid', inp)
  return ok, np.asarray(x2), np.asarray(x3)


# ----------------------------------------------------------------------------------------------
# sentinel probes: shallow-water jets through the factories


def probe_shallow_water(ctx):
  import jax
  import jax.numpy as jnp
  from dinosaur import spherical_harmonic as sh, shallow_water as sw, shallow_water_states as sws
  from dinosaur import coordinate_systems as cs, layer_coordinates as lc, scales
  rng = ctx.rng
  impls = [sh.RealSphericalHarmonics, sh.FastSphericalHarmonics]
  unit_cases = [(1.0, 0.5, 'factory-units')] * 3 + [(2.0, 0.5, 'radius-2'), (1.0, 1.0, 'omega-1'),
                                                   (6371.22, 7.292e-5 * 3600, 'km-hour'), (0.37, 0.81, 'other')]
  ncase = ctx.n(14, 120)
  for ci in range(ncase):
    radius, omega, ulabel = unit_cases[ci % len(unit_cases)]
    wn = int(rng.choice([15, 21] if ctx.quick else [15, 21, 31, 42]))
    impl = impls[ci % 2]
    spacing = 'gauss' if ci % 5 else 'equiangular'
    grid = sh.Grid.with_wavenumbers(wn, latitude_spacing=spacing, radius=radius, spherical_harmonics_impl=impl,
                                    dealiasing='cubic' if spacing == 'equiangular' else 'quadratic')
    layers = [1, 2, 3, 1, 4][ci % 5]
    dens = random_densities(rng, layers)
    coefs = [jet_profile(rng, deg=(0 if ci == 0 else None)) for _ in range(layers)]
    lat = np.arcsin(np.asarray(grid.nodal_axes[1]))
    u = np.stack([jet(lat, c) for c in coefs])
    refpot = rng.uniform(0.05, 2.0, layers)
    inp = dict(grid=f'T{wn}-{spacing}-{impl.__name__}', radius=radius, angular_velocity=omega, layers=layers,
               densities=dens.tolist(), jet_coefficients=[c.tolist() for c in coefs], ref_potential=refpot.tolist())
    ctx.dist[f'sw-probe:{ulabel}:layers={layers}:{spacing}'] += 1
    ctx.case(('sw-probe', ci, u.tobytes(), dens.tobytes()), nontrivial=relmax(u) > 0,
             sample=inp if ci in (0, 3) else None)
    with ctx.impl('sw-probe-raised', inp):
      coords = cs.CoordinateSystem(grid, lc.LayerCoordinates(layers))
      specs = sw.ShallowWaterSpecs(dens, radius, omega, 1.0, scales.DEFAULT_SCALE)
      eq = sw.ShallowWaterEquations(coords, specs, None, refpot)
      st = sws.multi_layer(jnp.asarray(u), dens, coords) if (layers > 1 or ci % 2) else \
          jax.tree.map(lambda a: a[None], sws.one_layer(jnp.asarray(u[0]), grid))
      tot = total_sw(eq, st)
      one_pots = np.stack([np.asarray(sws.one_layer(jnp.asarray(u[k]), grid).potential) for k in range(layers)])
      cond = float(np.linalg.cond(sw.get_density_ratios(dens.copy()) + np.eye(layers)))
      s_div = max(relmax(grid.laplacian(jnp.asarray(one_pots))), 1e-300)
      s_vor = max(relmax(st.vorticity), 1e-300)
      s_pot = max(relmax(st.potential), 1e-300)
      tol = 1e-11 * max(1.0, cond)
      # hypotheses of T5.3 on this input (per layer)
      pred = np.zeros_like(tot.divergence)
      hyp_ok = True
      for k in range(layers):
        ok, x2, x3 = validate_jet(ctx, grid, u[k], np.asarray(st.potential[k]), dict(inp, layer=k))
        hyp_ok &= ok
        pred[k] = (1 - radius ** 2) * x3 + (1 - 2 * omega) * x2
      # always: zero vorticity / potential tendency, and the divergence tendency is the predicted residual
      ctx.expect(relmax(tot.vorticity) <= tol * s_vor * s_vor * max(1, radius) and
                 relmax(tot.potential) <= tol * s_pot * s_vor * max(1, radius), 'sw-zonal-vort-pot',
                 'vorticity / potential tendency of a zonal factory state is not zero', inp)
      ctx.expect(relmax(tot.divergence, pred) <= tol * max(s_div, relmax(pred)), 'sw-residual-formula',
                 'divergence tendency differs from (1-r^2) lap(u^2/2) + (1-2 Omega) S(u tan(lat)) (theorem '
                 'one_layer_total)', inp)
      steady = relmax(tot.divergence) <= tol * s_div
      if ulabel == 'factory-units':
        ctx.expect(steady, 'sw-jet-steady', f'factory state not steady in its own units: '
                   f'residual {relmax(tot.divergence) / s_div:.2e} of |lap Phi|', inp)
      else:
        # the known finding: the factories ignore grid.radius and the angular velocity
        ctx.expect(steady, FINDING_KEY, f'one_layer/multi_layer state under radius={radius}, Omega={omega}: '
                   f'residual {relmax(tot.divergence) / s_div:.2e} of |lap Phi|', inp)
  # replay of the Lean negative witnesses on the real code: u = cos(lat)
  for radius, omega, expect_nodal, name in [(2.0, 0.5, lambda s: 0.75 * (1 - 3 * s * s), 'radius'),
                                            (1.0, 1.0, lambda s: -(1 - 3 * s * s), 'omega')]:
    grid = sh.Grid.with_wavenumbers(10, radius=radius)
    lat = np.arcsin(np.asarray(grid.nodal_axes[1]))
    inp = dict(witness=f'one_layer_not_steady_{name}', radius=radius, angular_velocity=omega)
    with ctx.impl('sw-witness-raised', inp):
      coords = cs.CoordinateSystem(grid, lc.LayerCoordinates(1))
      eq = sw.ShallowWaterEquations(coords, sw.ShallowWaterSpecs(np.ones(1), radius, omega, 1.0, scales.DEFAULT_SCALE),
                                    None, np.array([0.1]))
      st = jax.tree.map(lambda a: a[None], sws.one_layer(jnp.asarray(np.cos(lat)), grid))
      tot = total_sw(eq, st)
      _, sin = grid.nodal_mesh
      ctx.expect(relmax(grid.to_nodal(jnp.asarray(tot.divergence[0])), expect_nodal(np.asarray(sin))) <= 1e-12,
                 'sw-witness-replay', f'Lean negative witness ({name}) does not reproduce on the real code', inp)
      ctx.case(('sw-witness', name), nontrivial=True)

def run(ctx: common.Ctx):
  common.setup_jax()
  ctx.lean('DinoProofs.Properties.C05', 'C05.txt',
           extra_files=['DinoProofs/Lemmas/Balance.lean', 'DinoProofs/Lemmas/BalanceSW.lean', 'Dino/DynamicsSW.lean',
                        'Dino/Dynamics.lean'])
  run_shallow_water(ctx)
  probe_shallow_water(ctx)
  return ctx.finish(RULE, 'theorems are about the Lean models Dino.Dynamics / Dino.DynamicsSW; the horizontal '
                    'operators are abstract (laws are hypotheses, validated numerically on real grids each run); '
                    'agreement with the continuous equations on general low-degree states is an analytic-oracle test')
