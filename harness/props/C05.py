"""C05 — tendencies match the continuous equations; balanced states are exactly steady.

Lean: DinoProofs/Properties/C05.lean over the models Dino/Dynamics.lean (primitive equations, by C04)
and Dino/DynamicsSW.lean (layered shallow water + the factories of shallow_water_states).

Tie to the code, in the order executed by `run`:
1. `run_shallow_water`: model correspondence of every shallow-water routine and of both factories
   (matrix-operator instance, driver token `sw`), the physical meaning of `get_density_ratios`, the contract of
   `jnp.linalg.solve` inside `multi_layer`;
2. `validate_operator_laws`: the named laws (`LinLaws`, `ConstLaws`, `FactoryLaws`) on real grids;
3. `probe_shallow_water`: jets `u = cos(lat) p(sin lat)` through `one_layer` / `multi_layer` on the real
   equations — the hypotheses of T5.3 (`ZonalJet`, resolved layered pressure) are validated on every input, which
   the generator keeps inside the resolved, alias-free domain; an unresolved control jet shows that the validation
   discriminates; the Lean negative witnesses are replayed;
4. `probe_sw_polynomial`: layered shallow water on general low-degree polynomial states against a pointwise
   evaluation of the continuous equations (labelled TEST);
5. `probe_primitive`:
   * `rest_correspondence`: the states of T5.1 through the driver token `dyn` (explicit / implicit terms of the
     model = those of the four real classes; the model's total is zero);
   * `probe_rest_factory`: `isothermal_rest_atmosphere` (flat case, the only one claimed) is steady;
   * (a) `probe_rest`: resting isothermal atmosphere in hydrostatic balance over random band-limited orography,
     four classes, uniform humidity, uneven level sets: zero total tendency (variants: the theorem's state;
     unclipped orography = theorem `rest_total_dry`; `T_ref != T`);
   * (b) `probe_solid_body`: solid-body zonal rotation in gradient-wind balance with any per-layer temperatures,
     uniform humidity, zonal orography: steady (the balanced member of the analytic-oracle differential; the
     hypotheses of theorem `zonal_flow_steady` are validated on it);
   * (c) `probe_polynomial`: degree <= 3 polynomial states, explicit + implicit against a pointwise evaluation of
     the continuous sigma-coordinate equations with exact horizontal derivatives and the documented vertical
     finite differences (`c05_pe.sphere_oracle`, labelled TEST), 1e-9 relative.
Grids with poles (`equiangular_with_poles`) are excluded: `sec^2(lat)` is infinite there by construction.

Known finding (keyed `sw-factory-units`): the factories hard-code radius = 1 and 2 Omega = 1.

Tolerances (all measured on the unchanged tree, float64; `ctx.notes` in the evidence records the worst ratio
measured / allowed of the current run):
* hypothesis `clip f = f` of a resolved jet: in exact arithmetic the top total wavenumber of the four fields is
  zero; in floating point it carries rounding noise of 1e-14 (equiangular) .. 3e-12 (Gaussian T21/T42) of max|f|, so
  the validation uses 1e-10; the hypotheses are asserted only where they hold analytically (2 deg p + 2 <= L - 1
  and exact quadrature); the unresolved control jet leaves 3e-5 .. 4e-2 at the top wavenumber;
* resting atmosphere: 1e-12 (dry) / 1e-10 (moist, through a transform round trip) of |g lap h| (measured
  2e-16 .. 5e-14 and 3e-15 .. 2e-12); rotating states: 1e-11 L(L+1) of the natural scale (see BAL_TOL);
  shallow-water jets: max(1e-11, 1e-13 L(L+1)) cond(D + I) (measured 3e-13 at T15 .. 4e-12 at T42);
* analytic-oracle differentials: 1e-9 relative up to T21 (measured 1e-14 .. 3e-11), 1e-9 L(L+1)/500 beyond
  (measured 1.2e-10 at T42).
"""
import numpy as np

import common
from common import fvec, fbits, fmat, unfvec, unfmat, unfbits
import dinoutil
from props import c05_sw, c05_pe
from props.c05_sw import SWCfg
from props.c05_pe import Poly, Q_KEY, QL_KEY, QI_KEY

RULE = ('grids: Gaussian (quadratic truncation) / equiangular without poles (cubic truncation), T15 / T21 (thorough: '
        'T31, T42), both spherical-harmonics implementations, radius in {1, 2, 2.5, 0.37, 0.4, 6371.22}; level sets 1..8 '
        'layers equidistant / uneven / strongly uneven / refined bottom; physical constants random or from_si(); shallow '
        'water 1..5 layers, random densities (increasing, ties, decreasing); jets u = cos(lat) p(sin lat), deg p <= 4 '
        '(resolved: 2 deg + 2 <= L - 1); orography random band-limited (clipped and unclipped); solid-body rotation '
        'with random per-layer temperatures, either root of the balance, zonal orography; polynomial states of degree '
        '<= 3 in (x, y, z) with Rossby number 0.3 .. 3 (resolved: 3 deg + 2 <= L - 1, exact quadrature); a case is '
        'non-trivial when the state is not identically zero and (for columns) the level set has >= 2 layers; '
        'distinct = distinct (probe, configuration, data) hashes')

FINDING_KEY = 'sw-factory-units'
HYP_CLIP_TOL = 1e-10     # |clip f - f| / max|f| for a field whose top wavenumber is analytically zero
WORST = {}               # probe -> worst (measured / allowed) of this run, for the evidence


def margin(name, measured, allowed):
  if allowed > 0:
    WORST[name] = max(WORST.get(name, 0.0), measured / allowed)
  return measured <= allowed


# ----------------------------------------------------------------------------------------------
# shallow water: helpers


def sw_grids(rng, quick):
  """Small grids for the matrix-operator correspondence: (label, kwargs)."""
  from dinosaur import spherical_harmonic as sh
  out = [
      ('T3-gauss-r1', dict(longitude_wavenumbers=4, total_wavenumbers=5, longitude_nodes=12, latitude_nodes=6)),
      ('T2-gauss-r2', dict(longitude_wavenumbers=3, total_wavenumbers=4, longitude_nodes=10, latitude_nodes=5,
                           radius=2.0)),
      ('T3-equiangular-offset-fast', dict(longitude_wavenumbers=4, total_wavenumbers=5, longitude_nodes=12,
                                         latitude_nodes=7, latitude_spacing='equiangular', longitude_offset=0.3,
                                         radius=0.37, spherical_harmonics_impl=sh.FastSphericalHarmonics)),
  ]
  return out if not quick else out


def random_densities(rng, n):
  """Strictly increasing positive densities, top first (ties are a separate corner case)."""
  d = np.cumsum(rng.uniform(0.05, 0.6, n)) + rng.uniform(0.1, 1.0)
  return d


def jet_profile(rng, deg=None):
  """Coefficients of p in u = cos(lat) * p(sin(lat))."""
  deg = int(rng.integers(0, 5)) if deg is None else deg
  return rng.uniform(-0.5, 0.5, deg + 1)


def jet(lat, coef):
  s = np.sin(lat)
  return np.cos(lat) * sum(c * s ** k for k, c in enumerate(coef))


def total_sw(eq, state):
  import jax
  e, i = eq.explicit_terms(state), eq.implicit_terms(state)
  return jax.tree.map(lambda a, b: np.asarray(a + b), e, i)


# ----------------------------------------------------------------------------------------------


def run_shallow_water(ctx):
  import jax
  import jax.numpy as jnp
  from dinosaur import spherical_harmonic as sh, shallow_water as sw, shallow_water_states as sws
  from dinosaur import coordinate_systems as cs, layer_coordinates as lc, scales
  rng = ctx.rng
  lines, checks = [], []

  def add(line, op, inp, impl, dec):
    lines.append(line)
    checks.append((op, inp, impl, dec))

  # ---- get_density_ratios / + eye : pure scalar routine, many cases
  for ci in range(ctx.n(40, 400)):
    n = [1, 2, 2, 3][ci] if ci < 4 else int(rng.integers(1, 7))
    d = random_densities(rng, n)
    mode = ['increasing', 'ties', 'decreasing', 'random'][ci % 4] if ci >= 4 else 'increasing'
    if mode == 'ties' and n >= 2:
      d[1] = d[0]
    elif mode == 'decreasing':
      d = d[::-1].copy()
    elif mode == 'random':
      d = rng.uniform(0.1, 3.0, n)
    ctx.dist[f'ratios:{mode}:n={n}'] += 1
    inp = dict(density=d.tolist())
    with ctx.impl('get_density_ratios-raised', inp):
      r = sw.get_density_ratios(d.copy())
      ctx.case(('ratios', d.tobytes()), nontrivial=n >= 2, sample=inp if ci < 2 else None)
      add(f'sw F ratios {fvec(d)}', 'get_density_ratios', inp, r, 'mat')
      add(f'sw F addeye {fmat(r)}', 'density_ratios+eye', inp, r + np.eye(n), 'mat')
      # the property behind T5.3-multi: independent oracle = hydrostatic pressure of a stack of layers
      # p_i / rho_i = sum_{j<i} (rho_j / rho_i) Phi_j + sum_{j>=i} Phi_j   (layers above weigh, layers below lift)
      if mode in ('increasing', 'ties'):
        oracle = np.array([[(d[j] / d[i] if j < i else 1.0) if i != j else 0.0 for j in range(n)] for i in range(n)])
        ctx.expect(np.abs(r - oracle).max() <= 1e-14, 'density-ratios-physical',
                   'get_density_ratios differs from the layered hydrostatic pressure weights', inp)

  # ---- equations and factories on small grids through the matrix-operator instance
  for label, kw in sw_grids(rng, ctx.quick):
    grid = sh.Grid(**kw)
    mats = c05_sw.grid_matrices(grid)
    ms, ns = grid.modal_shape, grid.nodal_shape
    mask = np.asarray(grid.mask, dtype=float)
    lat = np.arcsin(np.asarray(grid.nodal_axes[1]))
    # JAX compiles every operation once per shape: the quick tier uses five (grid, layers) shapes
    quick_layers = {'T3-gauss-r1': [1, 2, 3], 'T2-gauss-r2': [2], 'T3-equiangular-offset-fast': [3]}
    for layers in (quick_layers[label] if ctx.quick else [1, 2, 3, 4]):
      dens = random_densities(rng, layers)
      omega = float(rng.choice([0.5, 1.0, rng.uniform(0.1, 2.0)]))
      refpot = rng.uniform(0.05, 2.0, layers)
      with_oro = bool(rng.integers(0, 2)) or layers == 2
      oro = rng.standard_normal(ms) * mask * 0.3 if with_oro else None
      cfg = SWCfg(grid, dens, omega, refpot, oro, mats=mats)
      coords = cs.CoordinateSystem(grid, lc.LayerCoordinates(layers))
      specs = sw.ShallowWaterSpecs(dens, grid.radius, omega, 1.0, scales.DEFAULT_SCALE)
      eq = sw.ShallowWaterEquations(coords, specs, None if oro is None else jnp.asarray(oro), refpot)
      ctx.dist[f'sw-corr:{label}:layers={layers}:oro={with_oro}'] += 1
      st = sw.State(*(jnp.asarray(rng.standard_normal((layers,) + ms) * mask) for _ in range(3)))
      inp = dict(grid=label, layers=layers, densities=dens.tolist(), omega=omega, ref_potential=refpot.tolist(),
                 orography=with_oro, state_seed='ctx.rng')
      ctx.case(('sw-corr', label, layers, np.asarray(st.vorticity).tobytes()), nontrivial=True,
               sample=dict(grid=label, layers=layers, omega=omega))
      with ctx.impl('sw-terms-raised', inp):
        add(cfg.line('explicit', cfg.state(st)), 'ShallowWaterEquations.explicit_terms', inp,
            c05_sw.flat_state(eq.explicit_terms(st)), 'state')
        add(cfg.line('implicit', cfg.state(st)), 'ShallowWaterEquations.implicit_terms', inp,
            c05_sw.flat_state(eq.implicit_terms(st)), 'state')
        dt = float(rng.choice([0.01, -0.3, rng.uniform(0, 1)]))
        add(cfg.line('inverse', fbits(dt), cfg.state(st)), 'ShallowWaterEquations.implicit_inverse',
            dict(inp, step_size=dt), c05_sw.flat_state(eq.implicit_inverse(st, dt)), 'state')
        add(cfg.line('coriolis'), 'ShallowWaterEquations.coriolis_parameter', inp,
            np.broadcast_to(np.asarray(eq.coriolis_parameter), ns).ravel(), 'vec')
      # factories: arbitrary (not necessarily resolved) zonal profiles
      u = rng.standard_normal((layers, ns[1]))
      inpf = dict(grid=label, layers=layers, densities=dens.tolist(), u=u.tolist())
      with ctx.impl('sw-factory-raised', inpf):
        one = sws.one_layer(jnp.asarray(u[0]), grid)
        ufull = np.broadcast_to(u[:, None, :], (layers,) + ns)
        add(cfg.line('onelayer', fvec(ufull[0].ravel())), 'shallow_water_states.one_layer', inpf,
            c05_sw.flat_layer(one), 'layer')
        ml = sws.multi_layer(jnp.asarray(u), dens, coords)
        add(cfg.line('multilayer', fvec(dens), cfg.col(ufull)), 'shallow_water_states.multi_layer', inpf,
            c05_sw.flat_state(ml), 'state')
        # contract of the external solve
        dr = sw.get_density_ratios(dens.copy()) + np.eye(layers)
        onep = np.stack([np.asarray(sws.one_layer(jnp.asarray(u[k]), grid).potential) for k in range(layers)])
        res = np.einsum('ab,bml->aml', dr, np.asarray(ml.potential)) - onep
        ctx.expect(np.abs(res).max() <= 1e-11 * max(np.abs(onep).max(), 1e-300) * np.linalg.cond(dr),
                   'multi-layer-solve-contract', '(D + I) · multi_layer.potential != one_layer potentials', inpf)

  outs = ctx.model(lines)
  for (op, inp, impl, dec), o in zip(checks, outs):
    if o in ('bad-op', 'value-error'):
      ctx.corr_mismatch(op, inp, 'value', o, 'model rejected the operation')
      continue
    if dec == 'mat':
      ctx.corr_float(op, inp, np.asarray(impl), np.asarray(unfmat(o)))
    elif dec == 'vec':
      ctx.corr_float(op, inp, impl, unfvec(o))
    elif dec == 'state':
      c05_sw.compare(ctx, op, inp, impl, SWCfg.un_state(o))
    elif dec == 'layer':
      c05_sw.compare(ctx, op, inp, impl, SWCfg.un_layer(o))



# ----------------------------------------------------------------------------------------------
# validation of the named laws (hypotheses of the theorems) on real grids


def relmax(a, b=None):
  a = np.asarray(a, dtype=float)
  return float(np.abs(a if b is None else a - np.asarray(b, dtype=float)).max()) if a.size else 0.0


def validate_operator_laws(ctx, grid, label):
  """LinLaws, ConstLaws, FactoryLaws of DinoProofs/Lemmas/Balance*.lean on `grid` (random masked spectra)."""
  import jax.numpy as jnp
  from dinosaur import primitive_equations as pe
  rng = ctx.rng
  ms, ns = grid.modal_shape, grid.nodal_shape
  mask = np.asarray(grid.mask, dtype=float)
  J = jnp.asarray
  x, y = rng.standard_normal(ms) * mask, rng.standard_normal(ms) * mask
  zx, zy = rng.standard_normal(ns), rng.standard_normal(ns)
  a, b = rng.standard_normal(2)
  inp = dict(grid=label)
  ops = dict(to_nodal=(grid.to_nodal, x, y), to_modal=(grid.to_modal, zx, zy), d_dlon=(grid.d_dlon, x, y),
             cos_lat_d_dlat=(grid.cos_lat_d_dlat, x, y), sec_lat_d_dlat_cos2=(grid.sec_lat_d_dlat_cos2, x, y),
             laplacian=(grid.laplacian, x, y), inverse_laplacian=(grid.inverse_laplacian, x, y),
             clip=(grid.clip_wavenumbers, x, y))
  with ctx.impl('law-validation-raised', inp):
    for name, (f, u, v) in ops.items():
      lhs = np.asarray(f(J(a * u + b * v)))
      rhs = a * np.asarray(f(J(u))) + b * np.asarray(f(J(v)))
      ctx.expect(relmax(lhs, rhs) <= 1e-11 * max(relmax(rhs), 1e-300), f'law:linear:{name}',
                 f'{name} is not linear on {label}', inp)
    one = np.zeros(ms)
    one[0, 0] = pe._CONSTANT_NORMALIZATION_FACTOR
    ctx.expect(relmax(grid.laplacian(J(one))) == 0, 'law:lap_one', 'laplacian(one) != 0', inp)
    ctx.expect(relmax(grid.d_dlon(J(one))) <= 1e-14, 'law:dDlon_one', 'd_dlon(one) != 0', inp)
    ctx.expect(relmax(grid.cos_lat_d_dlat(J(one))) <= 1e-14, 'law:cosLatDDlat_one', 'cos_lat_d_dlat(one) != 0', inp)
    # `_CONSTANT_NORMALIZATION_FACTOR` is a 8-digit literal: to_nodal(one) = 1 to 2e-8
    ctx.expect(relmax(grid.to_nodal(J(one)), 1.0) <= 1e-7, 'law:toNodal_one', 'to_nodal(one) != 1', inp)
    ctx.expect(relmax(np.asarray(grid.to_modal(J(np.ones(ns)))), one) <= 1e-7 * one[0, 0], 'law:toModal_one',
               'to_modal(1) != one', inp)
    # FactoryLaws
    x0 = x.copy()
    x0[0, 0] = 0.0
    ctx.expect(relmax(grid.laplacian(J(x0)), grid.laplacian(J(x))) == 0, 'law:lap_zeroMean',
               'laplacian sees the (0,0) coefficient', inp)
    ctx.expect(relmax(grid.laplacian(grid.inverse_laplacian(J(x0))), x0) <= 1e-13 * relmax(x0), 'law:lap_invlap',
               'laplacian(inverse_laplacian(y)) != y on zero-mean y', inp)
    sx = np.asarray(grid.sec_lat_d_dlat_cos2(J(x)))
    ctx.expect(abs(sx[0, 0]) <= 1e-13 * relmax(sx), 'law:S_zeroMean',
               'sec_lat_d_dlat_cos2 produces a (0,0) coefficient', inp)
    cos = np.asarray(grid.cos_lat)
    ctx.expect(relmax(cos * (1 / cos), 1.0) <= 1e-15 and relmax(np.asarray(grid.sec2_lat) * cos * cos, 1.0) <= 1e-14,
               'law:tables', 'cos_lat / sec2_lat tables inconsistent', inp)
  ctx.case(('laws', label), nontrivial=True)


def validate_jet(ctx, grid, u_lat, pot_modal, inp, resolved=True):
  """`ZonalJet` of BalanceSW.lean for the zonal wind `u_lat` (1-D over latitude) on `grid`.

  `resolved=True`: the jet is in the domain where every hypothesis holds analytically (band-limited,
  exact quadrature); a hypothesis that fails there is reported (a transform or operator of the real code is
  off).  `resolved=False` (control): nothing is asserted, the verdict is only returned.
  """
  import jax.numpy as jnp
  from dinosaur import spherical_harmonic as sh
  J = jnp.asarray
  ns = grid.nodal_shape
  u = np.broadcast_to(np.asarray(u_lat)[None, :], ns)
  cos = np.broadcast_to(np.asarray(grid.cos_lat), ns)
  _, sin = grid.nodal_mesh
  sin = np.broadcast_to(np.asarray(sin), ns)
  S, T, Nd, clip = grid.sec_lat_d_dlat_cos2, grid.to_modal, grid.to_nodal, grid.clip_wavenumbers
  expect = ctx.expect if resolved else (lambda ok, *a: ok)
  margin = globals()['margin'] if resolved else (lambda name, measured, allowed: measured <= allowed)
  U = T(J(u / cos))
  zeta = -np.asarray(S(U))
  sc = max(relmax(u), 1e-300)
  curl = grid.curl_cos_lat((U, jnp.zeros_like(U)), clip=False)
  uv = sh.get_cos_lat_vector(curl, jnp.zeros_like(curl), grid, clip=True)
  ok = True
  ok &= expect(margin('hyp:helmholtz', relmax(Nd(uv[0]), u * cos), 1e-10 * sc), 'law:jet:helmholtz',
               'get_cos_lat_vector(curl_cos_lat(u)) != u cos(lat)', inp)
  zs = max(relmax(zeta), 1e-300)
  fields = dict(psi=grid.inverse_laplacian(J(zeta)), b1=T(J(u / cos) * Nd(J(zeta))), b2=T(J(u / cos * sin)),
                g=T(J(u / cos) * Nd(clip(J(pot_modal)))))
  for k, f in fields.items():
    ok &= expect(margin('hyp:zonal', relmax(grid.d_dlon(f)), 1e-10 * max(relmax(f), 1e-300)), f'law:jet:zonal_{k}',
                 f'd_dlon of the zonal field {k} is not zero', inp)
  x1 = S(T(J(u / cos) * Nd(J(zeta))))
  x2 = S(T(J(u / cos * sin)))
  x3 = grid.laplacian(T(J(u * u / 2)))
  for k, f in dict(vorticity=J(zeta), X1=x1, X2=x2, X3=x3).items():
    # exact statement: the coefficients of the top total wavenumber vanish; measured rounding noise there
    # 1e-14 .. 3e-12 of max|f| (module docstring)
    ok &= expect(margin('hyp:clip', relmax(clip(f), f), HYP_CLIP_TOL * max(relmax(f), zs, 1e-300)),
                 f'law:jet:clip_{k}', f'clip_wavenumbers changes {k} of a jet that is resolved on this grid', inp)
  return ok, np.asarray(x2), np.asarray(x3)


def jet_is_resolved(grid, spacing, deg):
  """u = cos(lat) p(sin lat), deg p = d: zeta has degree d+1, X1 = S(u/cos * zeta) degree 2d+2, X2 d+2,
  X3 = lap(u^2/2) 2d+2.  Resolved: all below the clipped total wavenumber; exact quadrature of the nodal
  products against P_l: Gauss 2 nlat - 1, equiangular nlat - 1."""
  top = grid.modal_shape[1] - 1
  nlat = grid.nodal_shape[1]
  exact = 2 * nlat - 1 if spacing == 'gauss' else nlat - 1
  return 2 * deg + 2 <= top - 1 and (2 * deg + 2) + top <= exact


# ----------------------------------------------------------------------------------------------
# sentinel probes: shallow-water jets through the factories


def probe_shallow_water(ctx):
  import jax
  import jax.numpy as jnp
  from dinosaur import spherical_harmonic as sh, shallow_water as sw, shallow_water_states as sws
  from dinosaur import coordinate_systems as cs, layer_coordinates as lc, scales
  rng = ctx.rng
  impls = [sh.RealSphericalHarmonics, sh.FastSphericalHarmonics]
  unit_cases = [(1.0, 0.5, 'factory-units')] * 3 + [(2.0, 0.5, 'radius-2'), (1.0, 1.0, 'omega-1'),
                                                   (6371.22, 7.292e-5 * 3600, 'km-hour'), (0.37, 0.81, 'other')]
  grids = {}

  def get_grid(wn, spacing, impl, radius):
    key = (wn, spacing, impl.__name__, radius)
    if key not in grids:
      grids[key] = sh.Grid.with_wavenumbers(wn, latitude_spacing=spacing, radius=radius, spherical_harmonics_impl=impl,
                                            dealiasing='cubic' if spacing == 'equiangular' else 'quadratic')
    return grids[key]

  ncase = ctx.n(14, 120)
  # quick tier: five (grid shape, layers) combinations (JAX compiles per shape), every unit case on several of them
  quick_shapes = [(15, 'gauss', 0, 1), (21, 'gauss', 1, 2), (15, 'equiangular', 1, 3), (15, 'gauss', 0, 4),
                  (21, 'gauss', 1, 1)]
  for ci in range(ncase):
    radius, omega, ulabel = unit_cases[ci % len(unit_cases)]
    if ctx.quick:
      wn, spacing, ii, layers = quick_shapes[ci % len(quick_shapes)]
      impl = impls[ii]
    else:
      wn = int(rng.choice([15, 21, 31, 42]))
      impl = impls[ci % 2]
      spacing = 'gauss' if ci % 5 else 'equiangular'
      layers = [1, 2, 3, 1, 4][ci % 5]
    grid = get_grid(wn, spacing, impl, radius)
    dens = random_densities(rng, layers)
    coefs = [jet_profile(rng, deg=(0 if ci == 0 else None)) for _ in range(layers)]
    # the generator is bounded to the domain of the theorem: resolved, alias-free jets (deg p <= 4, wn >= 15)
    assert all(jet_is_resolved(grid, spacing, len(c) - 1) for c in coefs)
    lat = np.arcsin(np.asarray(grid.nodal_axes[1]))
    u = np.stack([jet(lat, c) for c in coefs])
    refpot = rng.uniform(0.05, 2.0, layers)
    inp = dict(grid=f'T{wn}-{spacing}-{impl.__name__}', radius=radius, angular_velocity=omega, layers=layers,
               densities=dens.tolist(), jet_coefficients=[c.tolist() for c in coefs], ref_potential=refpot.tolist())
    ctx.dist[f'sw-probe:{ulabel}:layers={layers}:{spacing}'] += 1
    ctx.case(('sw-probe', ci, u.tobytes(), dens.tobytes()), nontrivial=relmax(u) > 0,
             sample=inp if ci in (0, 3) else None)
    with ctx.impl('sw-probe-raised', inp):
      coords = cs.CoordinateSystem(grid, lc.LayerCoordinates(layers))
      specs = sw.ShallowWaterSpecs(dens, radius, omega, 1.0, scales.DEFAULT_SCALE)
      eq = sw.ShallowWaterEquations(coords, specs, None, refpot)
      st = sws.multi_layer(jnp.asarray(u), dens, coords) if (layers > 1 or ci % 2) else \
          jax.tree.map(lambda a: a[None], sws.one_layer(jnp.asarray(u[0]), grid))
      tot = total_sw(eq, st)
      one_pots = np.stack([np.asarray(sws.one_layer(jnp.asarray(u[k]), grid).potential) for k in range(layers)])
      cond = float(np.linalg.cond(sw.get_density_ratios(dens.copy()) + np.eye(layers)))
      s_div = max(relmax(grid.laplacian(jnp.asarray(one_pots))), 1e-300)
      s_vor = max(relmax(st.vorticity), 1e-300)
      s_pot = max(relmax(st.potential), 1e-300)
      top = grid.modal_shape[1] - 1
      # transform noise (2e-14 at T15 .. 5e-13 at T42, see BAL_TOL) is multiplied by the Laplacian's top eigenvalue and by
      # the solve: measured residuals 3e-13 (T15) .. 4e-12 (T42) of |lap Phi|
      tol = max(1e-11, 1e-13 * top * (top + 1)) * max(1.0, cond)
      # hypotheses of T5.3 on this input (per layer): asserted, the input is in the resolved domain
      pred = np.zeros_like(tot.divergence)
      hyp_ok = True
      for k in range(layers):
        ok, x2, x3 = validate_jet(ctx, grid, u[k], np.asarray(st.potential[k]), dict(inp, layer=k))
        hyp_ok &= ok
        pred[k] = (1 - radius ** 2) * x3 + (1 - 2 * omega) * x2
      # hypothesis `hclip` of multi_layer_total: the layered pressure D . Phi is resolved
      lp = np.asarray(grid.laplacian(jnp.asarray(np.einsum('ab,bml->aml', sw.get_density_ratios(dens.copy()),
                                                             np.asarray(st.potential)))))
      hyp_ok &= ctx.expect(margin('hyp:clip', relmax(grid.clip_wavenumbers(jnp.asarray(lp)), lp),
                                  HYP_CLIP_TOL * max(relmax(lp), s_div)), 'law:jet:clip_layered_pressure',
                           'clip_wavenumbers changes lap(D . Phi) of a resolved multi-layer state', inp)
      if not hyp_ok:
        continue      # reported above; the conclusions of the theorems are not claimed without their hypotheses
      # always: zero vorticity / potential tendency, and the divergence tendency is the predicted residual
      ctx.expect(margin('sw:vort', relmax(tot.vorticity), tol * s_vor * s_vor * max(1, radius)) and
                 margin('sw:pot', relmax(tot.potential), tol * s_pot * s_vor * max(1, radius)), 'sw-zonal-vort-pot',
                 'vorticity / potential tendency of a zonal factory state is not zero', inp)
      ctx.expect(margin('sw:residual-formula', relmax(tot.divergence, pred), tol * max(s_div, relmax(pred))),
                 'sw-residual-formula',
                 'divergence tendency differs from (1-r^2) lap(u^2/2) + (1-2 Omega) S(u tan(lat)) (theorems '
                 'one_layer_total / multi_layer_total)', inp)
      if ulabel == 'factory-units':
        steady = margin('sw:steady', relmax(tot.divergence), tol * s_div)
        ctx.expect(steady, 'sw-jet-steady', f'factory state not steady in its own units: '
                   f'residual {relmax(tot.divergence) / s_div:.2e} of |lap Phi|', inp)
      else:
        # the known finding: the factories ignore grid.radius and the angular velocity
        steady = relmax(tot.divergence) <= tol * s_div
        ctx.expect(steady, FINDING_KEY, f'one_layer/multi_layer state under radius={radius}, Omega={omega}: '
                   f'residual {relmax(tot.divergence) / s_div:.2e} of |lap Phi|', inp)
  # negative control of the hypothesis validation: a jet that is NOT resolved (X1 has degree 2d+2 > L) must be
  # flagged, and nothing is claimed about its tendency
  flagged = []
  for wn, deg in [(15, 7), (21, 12)]:
    grid = get_grid(wn, 'gauss', impls[0], 1.0)
    lat = np.arcsin(np.asarray(grid.nodal_axes[1]))
    coef = 0.5 * np.cos(1.0 + 2.3 * np.arange(deg + 1))     # mixed parity: every total wavenumber is excited
    assert not jet_is_resolved(grid, 'gauss', deg)
    ul = jet(lat, coef)
    pot = np.asarray(sws.one_layer(jnp.asarray(ul), grid).potential)
    ok, _, _ = validate_jet(ctx, grid, ul, pot, dict(control=f'T{wn} deg {deg}'), resolved=False)
    flagged.append(not ok)
    ctx.dist['sw-probe:unresolved-control'] += 1
  ctx.obligation('hypothesis validation flags an unresolved jet (negative control)', 'harness-self-check', all(flagged),
                 f'flagged={flagged}')
  # replay of the Lean negative witnesses on the real code: u = cos(lat)
  for radius, omega, expect_nodal, name in [(2.0, 0.5, lambda s: 0.75 * (1 - 3 * s * s), 'radius'),
                                            (1.0, 1.0, lambda s: -(1 - 3 * s * s), 'omega')]:
    grid = sh.Grid.with_wavenumbers(10, radius=radius)
    lat = np.arcsin(np.asarray(grid.nodal_axes[1]))
    inp = dict(witness=f'one_layer_not_steady_{name}', radius=radius, angular_velocity=omega)
    with ctx.impl('sw-witness-raised', inp):
      coords = cs.CoordinateSystem(grid, lc.LayerCoordinates(1))
      eq = sw.ShallowWaterEquations(coords, sw.ShallowWaterSpecs(np.ones(1), radius, omega, 1.0, scales.DEFAULT_SCALE),
                                    None, np.array([0.1]))
      st = jax.tree.map(lambda a: a[None], sws.one_layer(jnp.asarray(np.cos(lat)), grid))
      tot = total_sw(eq, st)
      _, sin = grid.nodal_mesh
      ctx.expect(relmax(grid.to_nodal(jnp.asarray(tot.divergence[0])), expect_nodal(np.asarray(sin))) <= 1e-12,
                 'sw-witness-replay', f'Lean negative witness ({name}) does not reproduce on the real code', inp)
      ctx.case(('sw-witness', name), nontrivial=True)

# ----------------------------------------------------------------------------------------------
# primitive equations: correspondence of the rest state with the model, and sentinel probes on the real classes

PE_CLASSES = c05_pe.CLASSES
REST_TOL = 1e-12     # dry classes: residual of a resting state / |g lap h|   (measured 2e-16 .. 8e-15)
REST_TOL_MOIST = 1e-10   # moist classes: the humidity term goes through to_modal(q * to_nodal(lap ln ps)); the
                         # transform round trip of the Gaussian T21/T42 grids is exact to 2e-12 only (measured 3e-15 .. 2e-12)
BAL_TOL = 1e-11      # residual of a balanced rotating state / (natural scale * L (L + 1)): the transforms of the real
                     # grids reproduce a resolved field to 2e-14 (T15) .. 5e-13 (T21 .. T42; scipy's Gauss weights are
                     # exact to 2e-13 only for >= 31 nodes), and the Laplacian / the two derivatives of the momentum
                     # equations multiply the noise in the top wavenumbers by up to L (L + 1); measured residuals:
                     # 6e-15 (T15), 3.4e-13 (T21), 1.6e-13 (T31), 5e-13 (T42) times L (L + 1)
ORACLE_TOL = 1e-9    # code vs pointwise continuous equations, relative, up to T21 (measured 1e-14 .. 3e-11); beyond, the same
                     # noise amplification as in BAL_TOL applies: 1e-9 * L (L + 1) / 500 (measured 1.2e-10 at T42)


def oracle_tol(grid):
  top = grid.modal_shape[1] - 1
  return ORACLE_TOL * max(1.0, top * (top + 1) / 500.0)


def _tracer_names(cls, extra):
  base = {'dry': (), 'time': (), 'moist': (Q_KEY,), 'cloud': (Q_KEY, QL_KEY, QI_KEY)}[cls]
  return base + (('x',) if extra else ())


def rest_correspondence(ctx, E):
  """The states of T5.1 (`restState n (restLnp …)`) through the `dyn` driver: explicit / implicit terms of the
  model = those of the real classes, and the model's own total is zero (the theorem, executed at Float)."""
  from props.c04_dyn import DynCfg, flat_state, compare_struct
  rng, jnp, pe = ctx.rng, E.jnp, E.pe
  grid = E.grid(4)
  ms, mask = grid.modal_shape, np.asarray(grid.mask, dtype=float)
  one = np.zeros(ms)
  one[0, 0] = pe._CONSTANT_NORMALIZATION_FACTOR     # the model's `oneModal` (what DynCfg sends)
  lines, checks = [], []
  for n, kind in ([(1, 'equidistant'), (2, 'strongly-uneven'), (3, 'uneven')] if ctx.quick else
                  [(1, 'equidistant'), (2, 'strongly-uneven'), (3, 'uneven'), (4, 'refined-bottom'), (5, 'uneven')]):
    b, kind = dinoutil.random_boundaries(rng, n, kind)
    vert = E.sc.SigmaCoordinates(b)
    coords = E.cs.CoordinateSystem(horizontal=grid, vertical=vert)
    specs = E.specs(rng, 1.0)
    t0 = float(rng.uniform(0.05, 0.5)) / specs.R
    tref = np.full(n, t0)
    h = np.asarray(grid.clip_wavenumbers(jnp.asarray(rng.standard_normal(ms) * mask * 0.05 * specs.R * t0 / specs.g)))
    cfg = DynCfg(grid, vert, specs, tref, h, True)
    for cls in PE_CLASSES:
      names = _tracer_names(cls, extra=True)
      q0 = float(rng.uniform(0.002, 0.03)) if cls in ('moist', 'cloud') else 0.0
      reff = specs.R * (1 + (specs.R_vapor / specs.R - 1) * q0)
      lnp = -specs.g * h / (reff * t0) + float(rng.uniform(-1, 1)) * one
      tr = {}
      for k in names:
        tr[k] = np.broadcast_to(q0 * one, (n,) + ms).copy() if k == Q_KEY else rng.standard_normal((n,) + ms) * mask * 0.01
      z = np.zeros((n,) + ms)
      kw = dict(vorticity=jnp.asarray(z), divergence=jnp.asarray(z), temperature_variation=jnp.asarray(z),
                log_surface_pressure=jnp.asarray(lnp[None]), tracers={k: jnp.asarray(v) for k, v in tr.items()})
      tm = 0.5
      s = pe.State(**kw) if cls == 'dry' else pe.StateWithTime(sim_time=tm, **kw)
      s_tok = cfg.state(pe.StateWithTime(sim_time=tm, **kw), tm)
      inp = dict(probe='rest-correspondence', cls=cls, layers=n, levels=kind, boundaries=b.tolist(), T0=t0, q0=q0)
      ctx.dist[f'rest-corr:{cls}:layers={n}'] += 1
      ctx.case(('rest-corr', cls, n, lnp.tobytes()), nontrivial=relmax(h) > 0, sample=inp if (cls, n) == ('moist', 2) else None)
      with ctx.impl('rest-state-raised', inp):
        eq = E.CL[cls](tref, jnp.asarray(h), coords, specs)
        for op in ('explicit', 'implicit'):
          r = getattr(eq, op + '_terms')(s)
          lines.append(cfg.line(op, cls, s_tok))
          checks.append((f'{cls}.{op}_terms[rest]', inp, flat_state(r, tm), specs.g * relmax(grid.laplacian(jnp.asarray(h)))))
  outs = ctx.model(lines)
  for i in range(0, len(outs), 2):
    parts = []
    for (op, inp, impl, scale), o in zip(checks[i:i + 2], outs[i:i + 2]):
      if o in ('bad-op', 'value-error'):
        ctx.corr_mismatch(op, inp, 'value', o, 'model rejected the operation')
        continue
      m = DynCfg.un_state(o)
      compare_struct(ctx, op, inp, impl, m, fields=('vorticity', 'divergence', 'temperature_variation',
                                                    'log_surface_pressure', 'tracers'))
      parts.append(m)
    if len(parts) == 2:   # the theorem executed on the model at Float: explicit + implicit = 0
      tot = max(relmax(parts[0][f] + parts[1][f]) for f in ('vorticity', 'divergence', 'temperature_variation',
                                                             'log_surface_pressure'))
      ctx.obligation(f'model rest state steady at Float ({checks[i][0]})', 'model-execution',
                     margin('rest:model', tot, 1e-9 * max(checks[i][3], 1e-300)), f'residual {tot:.2e}')


def _modal(grid, jnp, x):
  return np.asarray(grid.to_modal(jnp.asarray(x)))


def _nodal(grid, jnp, x):
  return np.asarray(grid.to_nodal(jnp.asarray(x)))


def probe_rest(ctx, E, G, cls, variant):
  """(a) resting isothermal atmosphere in hydrostatic balance over random band-limited orography."""
  rng, jnp = ctx.rng, E.jnp
  grid, coords, specs, b, n, label = G['grid'], G['coords'], G['specs'], G['b'], G['n'], G['label']
  ms, mask, one = grid.modal_shape, np.asarray(grid.mask, dtype=float), G['one']
  moist = cls in ('moist', 'cloud')
  t0 = float(rng.uniform(0.05, 0.5)) / specs.R
  q0 = float(rng.choice([0.0, 0.01, rng.uniform(0.001, 0.04)])) if moist else 0.0
  reff = specs.R * (1 + (specs.R_vapor / specs.R - 1) * q0)
  h = rng.standard_normal(ms) * mask * float(rng.choice([0.02, 0.2])) * specs.R * t0 / specs.g
  h *= 1.0 / (1.0 + np.arange(ms[1]))[None, :]               # red spectrum, all wavenumbers present
  if variant != 'unclipped':
    h = np.asarray(grid.clip_wavenumbers(jnp.asarray(h)))     # what truncated_modal_orography produces
  lnp = -specs.g * h / (reff * t0) + float(rng.uniform(-1, 1)) * one
  tref = np.full(n, t0) if variant != 'tref-split' else t0 * rng.uniform(0.7, 1.2, n)
  tv = (t0 - tref)[:, None, None] * one
  tr = {}
  for k in _tracer_names(cls, extra=bool(rng.integers(0, 2))):
    if k == Q_KEY:
      tr[k] = np.broadcast_to(q0 * one, (n,) + ms).copy()
    elif k in (QL_KEY, QI_KEY):     # arbitrary condensate fields where T' = 0 (theorem rest_steady_cloud)
      tr[k] = rng.standard_normal((n,) + ms) * mask * 1e-3 if variant != 'tref-split' else np.zeros((n,) + ms)
    else:
      tr[k] = rng.standard_normal((n,) + ms) * mask
  z = np.zeros((n,) + ms)
  inp = dict(probe='rest', cls=cls, variant=variant, grid=label, boundaries=b.tolist(), T0=t0, q0=q0, tref=tref.tolist(),
             g=specs.g, R=specs.R, R_vapor=specs.R_vapor, tracers=sorted(tr), seed=ctx.seed)
  ctx.dist[f'rest:{cls}:{variant}:{label}:layers={n}'] += 1
  ctx.case(('rest', cls, variant, label, h.tobytes(), b.tobytes()), nontrivial=n >= 2 and relmax(h) > 0,
           sample=inp if variant == 'theorem' and cls == 'cloud' else None)
  with ctx.impl('rest-probe-raised', inp):
    tot = E.total(cls, tref, h, coords, specs, dict(vorticity=z, divergence=z, temperature_variation=tv,
                                                     log_surface_pressure=lnp[None], tracers=tr))
    glap = specs.g * np.asarray(grid.laplacian(jnp.asarray(h)))
    s_div = max(relmax(_nodal(grid, jnp, glap)), 1e-300)
    if moist and variant != 'unclipped':
      # hypothesis `hrt` of rest_steady_moist / rest_steady_cloud: lap(h) survives the nodal round trip
      rt = relmax(_modal(grid, jnp, _nodal(grid, jnp, glap)), glap)
      ctx.expect(margin('hyp:roundtrip', rt, 1e-10 * max(relmax(glap), 1e-300)), 'law:roundtrip_lap_orography',
                 'to_modal(to_nodal(lap h)) != lap h for a clipped orography', inp)
    s_t = np.sqrt(s_div)
    expected = np.zeros((n,) + ms)
    if variant == 'unclipped':      # theorem rest_total_dry: only what clip_wavenumbers removes from g lap h survives
      expected = expected + (specs.R / reff) * (glap - np.asarray(grid.clip_wavenumbers(jnp.asarray(glap))))
    res = relmax(_nodal(grid, jnp, tot['divergence'] - expected))
    ctx.expect(margin(f'rest:{"moist" if moist else "dry"}', res, (REST_TOL_MOIST if moist else REST_TOL) * s_div), f'rest-not-steady:{cls}',
               f'resting isothermal atmosphere over orography ({variant}): divergence tendency residual '
               f'{res / s_div:.2e} of |g lap h|', inp)
    others = dict(vorticity=s_div, temperature_variation=t0 * s_t, log_surface_pressure=s_t)
    others.update({'tr:' + k: max(relmax(v), 1e-300) * s_t for k, v in tr.items()})
    for f, sc in others.items():
      r = relmax(_nodal(grid, jnp, tot[f]))
      ctx.expect(margin('rest:other-fields', r, REST_TOL * sc), f'rest-not-steady:{cls}',
                 f'resting atmosphere ({variant}): {f} tendency {r:.2e} (scale {sc:.2e})', inp)
    if cls != 'dry':
      ctx.expect(tot['sim_time'] == 1.0, f'rest-not-steady:{cls}', 'sim_time does not advance at rate one', inp)


def solid_body_state(rng, specs, n, cls, tref):
  """Solid-body zonal rotation u_k = U_k cos(lat) per layer, horizontally uniform T_k and humidity, zonal
  orography h = h0 sin^2(lat), ln ps = pi0 - c sin^2(lat) / 2.

  Meridional momentum balance per layer (u^2 tan/a + f u = -(1/a) d(Phi)/dlat - (R Tv/a) d(ln ps)/dlat, Phi_k =
  g h + const_k):   U_k^2 + 2 Omega a U_k + 2 g h0 = c R Tv_k.
  Everything else vanishes identically: v.grad(ln ps) = 0, so sigma-dot = omega = 0; v.grad T = v.grad q = 0.
  `Tv_k` is what multiplies R grad(ln ps) in the class at hand (for the cloud class T(1 + eps q) - T'(q_l + q_i)).
  """
  a, om, g, R = specs.radius, specs.angular_velocity, specs.g, specs.R
  eps = specs.R_vapor / R - 1
  moist = cls in ('moist', 'cloud')
  while True:
    t0 = float(rng.uniform(0.05, 0.5)) / R
    temp = t0 * rng.uniform(0.7, 1.2, n)                      # any per-layer temperature profile
    q0 = float(rng.uniform(0.0, 0.04)) if moist else 0.0
    ql, qi = (rng.uniform(0, 3e-3, 2) if cls == 'cloud' else (0.0, 0.0))
    tv = temp * (1 + eps * q0) - (temp - tref) * (ql + qi)
    h0 = float(rng.choice([0.0, rng.uniform(-0.1, 0.1) * R * t0 / g]))
    u_top = float(rng.choice([-1, 1])) * float(rng.uniform(0.05, 0.6)) * om * a
    c = (u_top ** 2 + 2 * om * a * u_top + 2 * g * h0) / (R * tv[0])
    disc = (om * a) ** 2 + c * R * tv - 2 * g * h0
    if np.all(disc > 1e-3 * (om * a) ** 2) and abs(c) > 1e-3:
      break
  sign = np.where(rng.random(n) < 0.8, 1.0, -1.0)            # either root (the second one is the fast westward flow)
  u = -om * a + sign * np.sqrt(disc)
  u[0] = u_top
  assert np.allclose(u ** 2 + 2 * om * a * u + 2 * g * h0, c * R * tv, rtol=1e-12, atol=0)
  zed = Poly.coord(2)
  fields = dict(psi=Poly.const(-a * u) * zed, chi=Poly.const(np.zeros(n)) * zed, T=Poly.const(temp),
                pi=Poly.stack([Poly.const(float(rng.uniform(-1, 1))) - zed * zed * (c / 2)]),
                h=Poly.stack([zed * zed * h0]))
  tracers = {}
  if moist:
    tracers[Q_KEY] = Poly.const(np.full(n, q0))
  if cls == 'cloud':
    tracers[QL_KEY], tracers[QI_KEY] = Poly.const(np.full(n, ql)), Poly.const(np.full(n, qi))
  scales_ = dict(c=c, u=u, tv=tv, temp=temp, q0=q0, h0=h0)
  return fields, tracers, scales_


def state_from_fields(E, G, fields, tracers, tref, st_exact):
  grid, jnp, pts = G['grid'], E.jnp, G['pts']
  T = lambda x: _modal(grid, jnp, x)
  n = G['n']
  full = lambda p: np.broadcast_to(p(pts), (n,) + pts.shape[:-1]) if p.c.ndim == 4 else p(pts)
  kw = dict(vorticity=T(st_exact['vorticity']), divergence=T(st_exact['divergence']),
            temperature_variation=T(full(fields['T'] - Poly.const(np.asarray(tref, float)))),
            log_surface_pressure=T(fields['pi'](pts)), tracers={k: T(full(v)) for k, v in tracers.items()})
  return kw, T(fields['h'](pts))[0]


def probe_solid_body(ctx, E, G, cls):
  """(b) solid-body rotation in gradient-wind balance: steady (analytic-oracle differential, balanced member)."""
  rng, jnp = ctx.rng, E.jnp
  grid, coords, specs, b, n, label, pts = (G[k] for k in ('grid', 'coords', 'specs', 'b', 'n', 'label', 'pts'))
  tref = G['t0'] * rng.uniform(0.7, 1.2, n) if rng.random() < 0.7 else np.full(n, G['t0'])
  fields, tracers, sc = solid_body_state(rng, specs, n, cls, tref)
  if rng.random() < 0.5:
    tracers['x'] = Poly.const(rng.uniform(0.5, 2.0, n))        # a horizontally uniform passive tracer
  a = specs.radius
  inp = dict(probe='solid-body', cls=cls, grid=label, boundaries=b.tolist(), U=sc['u'].tolist(), T=sc['temp'].tolist(),
             tref=tref.tolist(), q0=sc['q0'], c=sc['c'], h0=sc['h0'], omega=specs.angular_velocity, radius=a,
             g=specs.g, R=specs.R, R_vapor=specs.R_vapor, seed=ctx.seed)
  ctx.dist[f'solid-body:{cls}:{label}:layers={n}'] += 1
  ctx.case(('solid-body', cls, label, sc['u'].tobytes(), b.tobytes()), nontrivial=True,
           sample=inp if cls == 'moist' else None)
  umax = max(np.abs(sc['u']).max(), 1e-300)
  # sum of the magnitudes of the terms that cancel in the divergence equation: lap(u^2/2), the Coriolis and
  # metric terms, g lap h and R Tv lap(ln ps)  (each is a multiple of lap(sin^2/2) = (1 - 3 sin^2) / a^2, |.| <= 2 / a^2)
  # (the pressure-gradient term is split into an explicit T' and an implicit T_ref half, each of its own size)
  t_split = np.abs(sc['tv']).max() + np.abs(tref).max() + np.abs(sc['temp'] - tref).max()
  s_div = 2 * (umax ** 2 + 2 * specs.angular_velocity * a * umax + 2 * specs.g * abs(sc['h0'])
               + specs.R * t_split * abs(sc['c'])) / a ** 2
  rate = umax / a * max(abs(sc['c']), 1.0)
  scales_ = dict(vorticity=s_div, divergence=s_div, temperature_variation=np.abs(sc['temp']).max() * rate,
                 log_surface_pressure=rate)
  orc, st = c05_pe.sphere_oracle(cls, b, c05_pe.phys_of(specs), tref, fields, tracers, pts)
  # self-check of the derivation above: the continuous equations themselves say "steady"
  self_ok = all(relmax(orc[f]) <= 1e-12 * s for f, s in scales_.items())
  ctx.obligation('oracle: solid-body rotation is a steady solution of the continuous equations', 'harness-self-check',
                 self_ok, str({f: relmax(orc[f]) for f in scales_}) if not self_ok else '')
  with ctx.impl('solid-body-raised', inp):
    kw, oro = state_from_fields(E, G, fields, tracers, tref, st)
    # hypotheses of theorem zonal_flow_steady (`ZonalFlow`, zonal fluxes) on this input
    J = jnp.asarray
    uv = E.sh.get_cos_lat_vector(J(kw['vorticity']), J(kw['divergence']), grid, clip=False)
    gl = grid.cos_lat_grad(J(kw['log_surface_pressure']), clip=False)
    un = _nodal(grid, jnp, uv[0])
    # (exactly zero in exact arithmetic; the scale of the rounding noise of d/dlon is the size of the field itself,
    #  including the uniform part of ln ps, not of its - possibly tiny - meridional gradient)
    s_p = max(relmax(_nodal(grid, jnp, gl[1])), relmax(_nodal(grid, jnp, kw['log_surface_pressure'])) / a)
    ctx.expect(margin('hyp:zonal-flow', relmax(_nodal(grid, jnp, uv[1])), 1e-10 * max(relmax(un), 1e-300)) and
               margin('hyp:zonal-flow', relmax(_nodal(grid, jnp, gl[0])), 1e-10 * s_p),
               'law:zonal-flow', 'meridional wind / zonal pressure gradient of a zonal state is not zero', inp)
    flux = _modal(grid, jnp, un * _nodal(grid, jnp, kw['temperature_variation']) * np.asarray(grid.sec2_lat))
    ctx.expect(margin('hyp:zonal-flow', relmax(grid.d_dlon(J(flux))), 1e-10 * max(relmax(flux), 1e-300)),
               'law:zonal-flux', 'd_dlon of the zonal flux u T sec^2 is not zero', inp)
    tot = E.total(cls, tref, oro, coords, specs, kw)
    for k in tracers:
      scales_['tr:' + k] = max(relmax(kw['tracers'][k]), 1e-300) * rate
    top = grid.modal_shape[1] - 1
    for f, s in scales_.items():
      r = relmax(_nodal(grid, jnp, tot[f]))
      ctx.expect(margin('solid-body', r, BAL_TOL * top * (top + 1) * s), f'solid-body-not-steady:{cls}',
                 f'solid-body rotation in gradient-wind balance: {f} tendency {r:.2e}, {r / s:.2e} of its natural scale '
                 f'(allowed {BAL_TOL * top * (top + 1):.1e})', inp)


def probe_polynomial(ctx, E, G, cls, deg):
  """(c) low-degree polynomial states: explicit + implicit = pointwise continuous equations (labelled test)."""
  rng, jnp = ctx.rng, E.jnp
  grid, coords, specs, b, n, label, pts = (G[k] for k in ('grid', 'coords', 'specs', 'b', 'n', 'label', 'pts'))
  top, nlat = grid.modal_shape[1] - 1, grid.nodal_shape[1]
  exact = 2 * nlat - 1 if G['spacing'] == 'gauss' else nlat - 1
  # the largest product transformed by the code has degree 3 deg + 1 (sigma-dot dv/dsigma), its divergence 3 deg + 2
  assert 3 * deg + 2 <= top - 1 and 3 * deg + 2 + top <= exact, 'generator outside the resolved, alias-free domain'
  t0, a = G['t0'], specs.radius
  amp = float(rng.choice([0.3, 1.0, 3.0])) * a * a * specs.angular_velocity     # Rossby number 0.3 .. 3
  tref = t0 * rng.uniform(0.7, 1.2, n) if rng.random() < 0.7 else np.full(n, t0)
  fields = dict(psi=Poly.random(rng, deg, n, amp), chi=Poly.random(rng, deg, n, 0.3 * amp),
                T=Poly.random(rng, deg, n, 0.1 * t0) + Poly.const(t0 * rng.uniform(0.8, 1.1, n)),
                pi=Poly.random(rng, deg, 1, 0.2), h=Poly.random(rng, deg, 1, 0.05 * specs.R * t0 / specs.g))
  tracers = {}
  for k in _tracer_names(cls, extra=bool(rng.integers(0, 2))):
    if k == Q_KEY:
      tracers[k] = Poly.random(rng, deg, n, 0.005) + Poly.const(rng.uniform(0.005, 0.02, n))
    elif k in (QL_KEY, QI_KEY):
      tracers[k] = Poly.random(rng, deg, n, 0.001) + Poly.const(np.full(n, 0.002))
    else:
      tracers[k] = Poly.random(rng, deg, n, 1.0)
  inp = dict(probe='polynomial-state', cls=cls, degree=deg, grid=label, boundaries=b.tolist(), tref=tref.tolist(),
             amplitude=amp, omega=specs.angular_velocity, radius=a, g=specs.g, R=specs.R, R_vapor=specs.R_vapor,
             Cp_vapor=specs.Cp_vapor, kappa=specs.kappa, tracers=sorted(tracers), seed=ctx.seed,
             coefficients={k: v.c.tolist() for k, v in fields.items()} if n <= 2 and deg <= 1 else 'ctx.rng')
  ctx.dist[f'polynomial:{cls}:deg={deg}:{label}:layers={n}'] += 1
  ctx.case(('poly', cls, deg, label, fields['psi'].c.tobytes(), b.tobytes()), nontrivial=True,
           sample=dict(inp, coefficients='...') if cls == 'dry' else None)
  orc, st = c05_pe.sphere_oracle(cls, b, c05_pe.phys_of(specs), tref, fields, tracers, pts)
  with ctx.impl('polynomial-state-raised', inp):
    kw, oro = state_from_fields(E, G, fields, tracers, tref, st)
    tot = E.total(cls, tref, oro, coords, specs, kw)
    for f, want in orc.items():
      got = _nodal(grid, jnp, tot[f])
      if f == 'temperature_variation' and cls in ('moist', 'cloud'):
        # kappa_eff is a rational function of q: the pointwise field is not band-limited; compare its spectral
        # projection (same quadrature on both sides)
        want = _nodal(grid, jnp, grid.clip_wavenumbers(grid.to_modal(jnp.asarray(want))))
      s = max(relmax(want), 1e-300)
      r = relmax(got, want)
      ctx.expect(margin('oracle', r, oracle_tol(grid) * s), f'continuous-equations:{cls}:{f.split(":")[0]}',
                 f'{f}: explicit + implicit differs from the continuous sigma-coordinate equations by {r / s:.2e} '
                 f'(degree-{deg} polynomial state)', inp)
    if cls != 'dry':
      ctx.expect(tot['sim_time'] == 1.0, f'continuous-equations:{cls}:sim_time', 'sim_time does not advance at rate one', inp)


def probe_rest_factory(ctx, E):
  """`primitive_equations_states.isothermal_rest_atmosphere`, flat case (p1 = 0): the state is steady.

  Over orography the factory uses the barometric formula of a standard atmosphere with a lapse rate, not the
  isothermal one, so its state is not in hydrostatic balance with the isothermal temperature it sets; the property
  claims the flat case only, the imbalance over a 2 km mountain is recorded in the evidence notes (not asserted)."""
  from dinosaur import primitive_equations_states as pes
  rng, jnp, pe, jax = ctx.rng, E.jnp, E.pe, E.jax
  units = E.scales.units
  specs = pe.PrimitiveEquationsSpecs.from_si()
  grid = E.grid(21)
  top = grid.modal_shape[1] - 1
  for n in ([3] if ctx.quick else [1, 3, 6]):
    b, kind = dinoutil.random_boundaries(rng, n)
    coords = E.cs.CoordinateSystem(horizontal=grid, vertical=E.sc.SigmaCoordinates(b))
    tk = float(rng.uniform(200, 320))
    inp = dict(probe='isothermal_rest_atmosphere', layers=n, boundaries=b.tolist(), tref_K=tk, p1=0.0, surface_height=None)
    ctx.dist[f'rest-factory:flat:layers={n}'] += 1
    ctx.case(('rest-factory', n, tk, b.tobytes()), nontrivial=n >= 2)
    with ctx.impl('rest-factory-raised', inp):
      fn, aux = pes.isothermal_rest_atmosphere(coords, specs, tref=tk * units.degK, p1=0. * units.pascal)
      st = fn(jax.random.PRNGKey(int(rng.integers(0, 2 ** 31))))
      oro = pe.truncated_modal_orography(aux['orography'], coords)
      tref = np.asarray(aux['ref_temperatures'], dtype=float)
      for cls in ('dry', 'time'):
        tot = E.total(cls, tref, oro, coords, specs, dict(
            vorticity=st.vorticity, divergence=st.divergence, temperature_variation=st.temperature_variation,
            log_surface_pressure=st.log_surface_pressure, tracers={}))
        # ln ps is uniform; to_modal(log(ps)) carries transform noise in the other coefficients (see BAL_TOL)
        s_div = specs.R * tref.max() * relmax(st.log_surface_pressure) / specs.radius ** 2
        for f, sc in dict(vorticity=s_div, divergence=s_div, temperature_variation=tref.max() * np.sqrt(s_div),
                          log_surface_pressure=np.sqrt(s_div)).items():
          r = relmax(_nodal(grid, jnp, tot[f]))
          ctx.expect(margin('rest:factory', r, BAL_TOL * top * (top + 1) * sc), f'rest-factory-not-steady:{cls}',
                     f'isothermal_rest_atmosphere (flat, p1 = 0): {f} tendency {r:.2e}', inp)
  # not asserted: the factory over a mountain
  try:
    lon, sin_lat = grid.nodal_mesh
    coords = E.cs.CoordinateSystem(horizontal=grid, vertical=E.sc.SigmaCoordinates.equidistant(3))
    height = 2000 * np.exp(-((np.asarray(lon) - np.pi) ** 2 + np.arcsin(np.asarray(sin_lat)) ** 2) / 0.3)
    fn, aux = pes.isothermal_rest_atmosphere(coords, specs, p1=0. * units.pascal, surface_height=height * units.meter)
    st = fn(jax.random.PRNGKey(0))
    oro = pe.truncated_modal_orography(aux['orography'], coords)
    tot = E.total('dry', aux['ref_temperatures'], oro, coords, specs, dict(
        vorticity=st.vorticity, divergence=st.divergence, temperature_variation=st.temperature_variation,
        log_surface_pressure=st.log_surface_pressure, tracers={}))
    glap = relmax(_nodal(grid, jnp, specs.g * grid.laplacian(oro)))
    ctx.notes.append('not asserted: isothermal_rest_atmosphere over a 2 km Gaussian mountain has divergence tendency '
                     f'{relmax(_nodal(grid, jnp, tot["divergence"])) / glap:.1%} of |g lap h| (lapse-rate barometric formula '
                     'with an isothermal temperature); the isothermal balance ln ps = ln p0 - g h / (R T) is exact (probe rest)')
  except Exception as e:  # pylint: disable=broad-except
    ctx.notes.append(f'isothermal_rest_atmosphere over orography could not be evaluated: {type(e).__name__}')


def probe_primitive(ctx):
  E = c05_pe.Env()
  rng, jnp = ctx.rng, E.jnp
  rest_correspondence(ctx, E)
  probe_rest_factory(ctx, E)
  # (grid, layers) combinations: JAX compiles per shape, so few shapes and several level sets / states per shape
  combos = [dict(wn=21, spacing='gauss', impl='real', dealiasing='quadratic', n=3, radius=1.0, deg=3),
            dict(wn=15, spacing='gauss', impl='fast', dealiasing='quadratic', n=1, radius=2.5, deg=2),
            dict(wn=15, spacing='equiangular', impl='real', dealiasing='cubic', n=4, radius=1.0, deg=2)]
  if not ctx.quick:
    combos += [dict(wn=31, spacing='gauss', impl='real', dealiasing='quadratic', n=5, radius=1.0, deg=3),
               dict(wn=21, spacing='gauss', impl='fast', dealiasing='quadratic', n=2, radius=0.4, deg=3),
               dict(wn=21, spacing='equiangular', impl='fast', dealiasing='cubic', n=8, radius=1.0, deg=3),
               dict(wn=42, spacing='gauss', impl='real', dealiasing='quadratic', n=6, radius=1.0, deg=3)]
  reps = ctx.n(2, 6)
  for ci, c in enumerate(combos):
    grid = E.grid(c['wn'], c['spacing'], c['impl'], c['radius'], c['dealiasing'])
    label = f"T{c['wn']}-{c['spacing']}-{c['impl']}-r{c['radius']}"
    # the constant field as ONE spectral coefficient (to_modal(ones) carries quadrature noise of 1e-13 in the other
    # coefficients, which the Laplacian amplifies; the family of T5.1 is `c * oneModal` with lap(oneModal) = 0 exactly)
    one = np.zeros(grid.modal_shape)
    one[0, 0] = float(_modal(grid, jnp, np.ones(grid.nodal_shape))[0, 0])
    G0 = dict(grid=grid, label=label, spacing=c['spacing'], pts=c05_pe.nodal_points(grid), one=one)
    for rep in range(reps):
      b, kind = dinoutil.random_boundaries(rng, c['n'], None if rep else ['uneven', 'equidistant', 'strongly-uneven'][ci % 3])
      specs = E.specs(rng, c['radius'], si=(c['radius'] == 1.0 and rep == 1))
      G = dict(G0, b=b, n=len(b) - 1, specs=specs, t0=float(rng.uniform(0.05, 0.5)) / specs.R,
               coords=E.cs.CoordinateSystem(horizontal=grid, vertical=E.sc.SigmaCoordinates(b)))
      for k, cls in enumerate(PE_CLASSES):
        probe_rest(ctx, E, G, cls, 'theorem')
        if (k + rep + ci) % 2 == 0:
          probe_rest(ctx, E, G, cls, ['unclipped', 'tref-split'][(k // 2 + rep) % 2])
        if (k + rep) % 2 == 0 or not ctx.quick:
          probe_solid_body(ctx, E, G, cls)
        if (k + rep + ci) % 2 == 1 or not ctx.quick:
          probe_polynomial(ctx, E, G, cls, int(rng.integers(1, c['deg'] + 1)) if rep else c['deg'])


def probe_sw_polynomial(ctx):
  """Layered shallow water on low-degree polynomial states: explicit + implicit = pointwise continuous equations
  (analytic-oracle differential, labelled test; general, unbalanced, divergent states with orography)."""
  import jax.numpy as jnp
  from dinosaur import spherical_harmonic as sh, shallow_water as sw
  from dinosaur import coordinate_systems as cs, layer_coordinates as lc, scales
  rng = ctx.rng
  shapes = [(15, 'gauss', sh.RealSphericalHarmonics, 'quadratic', 2), (21, 'gauss', sh.FastSphericalHarmonics, 'quadratic', 3),
            (15, 'equiangular', sh.FastSphericalHarmonics, 'cubic', 1)]
  if not ctx.quick:
    shapes += [(31, 'gauss', sh.RealSphericalHarmonics, 'quadratic', 4), (21, 'equiangular', sh.RealSphericalHarmonics, 'cubic', 5)]
  for si, (wn, spacing, impl, deal, layers) in enumerate(shapes):
    for rep in range(ctx.n(2, 5)):
      radius = float(rng.choice([1.0, 2.0, 0.37]))
      omega = float(rng.choice([0.5, 1.0, rng.uniform(0.1, 2.0)]))
      grid = sh.Grid.with_wavenumbers(wn, latitude_spacing=spacing, radius=radius, spherical_harmonics_impl=impl,
                                      dealiasing=deal)
      deg = 3 if rep == 0 else int(rng.integers(1, 4))
      top, nlat = grid.modal_shape[1] - 1, grid.nodal_shape[1]
      exact = 2 * nlat - 1 if spacing == 'gauss' else nlat - 1
      # largest transformed product: (zeta + f) v and Phi v of degree 2 deg + 1, their divergence 2 deg + 2
      assert 2 * deg + 2 <= top - 1 and 2 * deg + 2 + top <= exact
      dens = random_densities(rng, layers) if rep % 2 == 0 else rng.uniform(0.2, 3.0, layers)   # also unstable stacks
      refpot = rng.uniform(0.05, 2.0, layers)
      amp = float(rng.choice([0.3, 1.0, 3.0])) * radius ** 2 * omega
      with_oro = bool(rng.integers(0, 2))
      fields = dict(psi=Poly.random(rng, deg, layers, amp), chi=Poly.random(rng, deg, layers, 0.3 * amp),
                    phi=Poly.random(rng, deg, layers, 0.5), h=Poly.random(rng, deg, 1, 0.3) if with_oro else None)
      pts = c05_pe.nodal_points(grid)
      label = f'T{wn}-{spacing}-{impl.__name__}'
      inp = dict(probe='sw-polynomial-state', grid=label, degree=deg, layers=layers, radius=radius, angular_velocity=omega,
                 densities=dens.tolist(), ref_potential=refpot.tolist(), orography=with_oro, amplitude=amp, seed=ctx.seed)
      ctx.dist[f'sw-polynomial:{label}:layers={layers}:deg={deg}'] += 1
      ctx.case(('sw-poly', label, layers, fields['psi'].c.tobytes()), nontrivial=True, sample=inp if (si, rep) == (0, 0) else None)
      orc, st = c05_pe.shallow_water_oracle(radius, omega, dens, refpot, fields, pts)
      with ctx.impl('sw-polynomial-raised', inp):
        T = lambda x: grid.to_modal(jnp.asarray(x))
        coords = cs.CoordinateSystem(grid, lc.LayerCoordinates(layers))
        specs = sw.ShallowWaterSpecs(dens, radius, omega, 1.0, scales.DEFAULT_SCALE)
        oro = T(fields['h'](pts)[0]) if with_oro else None
        eq = sw.ShallowWaterEquations(coords, specs, oro, refpot)
        tot = total_sw(eq, sw.State(T(st['vorticity']), T(st['divergence']), T(st['potential'])))
        for f, want in orc.items():
          got = np.asarray(grid.to_nodal(jnp.asarray(getattr(tot, f))))
          s_ = max(relmax(want), 1e-300)
          r = relmax(got, want)
          ctx.expect(margin('sw:oracle', r, oracle_tol(grid) * s_), f'sw-continuous-equations:{f}',
                     f'{f}: explicit + implicit differs from the continuous layered shallow-water equations by '
                     f'{r / s_:.2e} (degree-{deg} polynomial state)', inp)


def run(ctx: common.Ctx):
  jax = common.setup_jax()
  try:   # the checks call the real code eagerly: every primitive is compiled once per shape; keep them across runs
    import os
    cdir = os.path.join(common.WORK, 'jaxcache_C05')
    os.makedirs(cdir, exist_ok=True)
    jax.config.update('jax_compilation_cache_dir', cdir)
    jax.config.update('jax_persistent_cache_min_entry_size_bytes', -1)
    jax.config.update('jax_persistent_cache_min_compile_time_secs', 0.0)
  except Exception:  # pylint: disable=broad-except
    pass
  ctx.lean('DinoProofs.Properties.C05', 'C05.txt',
           extra_files=['DinoProofs/Lemmas/Balance.lean', 'DinoProofs/Lemmas/BalanceSW.lean', 'DinoProofs/Lemmas/BalanceCol.lean', 'DinoProofs/Lemmas/BalanceZonal.lean',
                        'Dino/DynamicsSW.lean',
                        'Dino/Dynamics.lean'])
  # the CONCRETE instance of the abstract spectral model (index DYN): structural laws of the horizontal operations are
  # theorems about the list model of the real Grid, the analytic ones (Gram, Hyp-A/B) are isolated on the basis tables;
  # T5.1 (rest_steady_dry_grid), T4.2, C11 / C12 / C10 corollaries are instantiated for it.  Audited and pinned like the
  # property theorems; tied to the real Grid by dyn_inst.validate (the list-model correspondence restricted to the record)
  # (the module of the ofGrid witnesses imports Properties.DYN, so auditing it covers the whole index)
  ctx.lean('DinoProofs.Lemmas.DynamicsInstWitness', 'DYN.txt',
           extra_files=['DinoProofs/Properties/DYN.lean', 'Dino/DynamicsInst.lean', 'DinoProofs/Lemmas/DynamicsInst.lean', 'DinoProofs/Lemmas/DynamicsInstMask.lean',
                        'DinoProofs/Lemmas/DynamicsInstLaws.lean', 'DinoProofs/Lemmas/DynamicsInstSym.lean'])
  import functools
  from props import dyn_inst
  from dinosaur import spherical_harmonic as sh_
  for fast, M_, L_, nlon_, nlat_, base_ in [(0, 4, 5, 13, 7, None), (1, 4, 5, 13, 7, 4), (1, 5, 6, 16, 8, 8)]:
    impl_ = sh_.RealSphericalHarmonics if not fast else (
        sh_.FastSphericalHarmonics if base_ is None else functools.partial(sh_.FastSphericalHarmonics, base_shape_multiple=base_))
    g_ = sh_.Grid(longitude_wavenumbers=M_, total_wavenumbers=L_, longitude_nodes=nlon_, latitude_nodes=nlat_,
                  latitude_spacing='gauss', radius=1.7, spherical_harmonics_impl=impl_)
    st_ = dyn_inst.validate(ctx, g_, bool(fast))
    ctx.notes.append(f'concrete instance gridOps on Grid(M={M_}, L={L_}, {nlon_}x{nlat_}, fast={bool(fast)}, base={base_}): {st_}')
  import time
  t = [time.time()]

  def lap(name):
    t.append(time.time())
    ctx.notes.append(f'wall {name}: {t[-1] - t[-2]:.1f}s')
  lap('lean build + audit')
  run_shallow_water(ctx)
  lap('shallow-water correspondence')
  from dinosaur import spherical_harmonic as sh
  for label, kw in [('T15-gauss', dict()), ('T21-gauss-fast-r2', dict(radius=2.0, spherical_harmonics_impl=sh.FastSphericalHarmonics)),
                    ('T15-equiangular-cubic', dict(latitude_spacing='equiangular', dealiasing='cubic'))]:
    validate_operator_laws(ctx, sh.Grid.with_wavenumbers(21 if 'T21' in label else 15, **kw), label)
  lap('operator laws')
  probe_shallow_water(ctx)
  probe_sw_polynomial(ctx)
  lap('shallow-water probes')
  probe_primitive(ctx)
  lap('primitive-equation correspondence + probes')
  ctx.notes.append('worst measured / allowed per probe: ' +
                   ', '.join(f'{k}={v:.1e}' for k, v in sorted(WORST.items())))
  # review B, C05 findings 7 and 8: what the oracle and the validated laws are NOT
  ctx.notes.append('oracle scope (cloud class): the polynomial-algebra oracle (c05_pe.py) and the balanced-state '
                   'builder of the cloud class apply the condensate loading -(q_l + q_i) to T - T_ref only '
                   '(tv = T(1 + eps q) - (T - T_ref)(q_l + q_i)): this MIRRORS MoistPrimitiveEquationsWithCloudMoisture.'
                   '_virtual_temperature, it is not the true continuous equation. The missing share '
                   '-R T_ref (q_l + q_i) grad ln ps of the pressure-gradient force is the recorded C04 finding '
                   '(tref-dependence:cloud:*:momentum); for the dry and moist classes (and the cloud class with '
                   'q_l = q_i = 0) the oracle is the independent sigma-coordinate equations')
  ctx.notes.append('law validation vs probes: ConstLaws.toNodal_one / toModal_one are validated at 1e-7 for one = '
                   '_CONSTANT_NORMALIZATION_FACTOR (an 8-digit literal of the code; the theorems use the laws exactly), '
                   'while the T5.1 probes build the constant field with the exact to_modal(1)[0,0]: the validated '
                   'object and the probe object differ by 2e-8 relative')
  ctx.notes.append('hypotheses of the claim: T5.1 needs clip(lap h) = lap h (and to_modal(to_nodal lap h) = lap h for '
                   'the moist classes): otherwise the residual is g (lap h - clip lap h) in the divergence tendency '
                   '(rest_total_dry; replayed by the `unclipped` variant); T5.3 multi_layer needs the solved potentials to '
                   'be zonal (hzonal) and clip lap(D Phi) = lap(D Phi) (hclip), both validated on the factory output each '
                   'run; zonal_flow_steady assumes the vanishing of the discrete residual (zonal_flow_steady_iff_residual_'
                   'zero): its vanishing for solid-body rotation is the probe `solid-body`, not a theorem')
  return ctx.finish(RULE, 'theorems are about the Lean models Dino.Dynamics / Dino.DynamicsSW; the horizontal '
                    'operators are abstract (laws are hypotheses, validated numerically on real grids each run); '
                    'agreement with the continuous equations on general low-degree states is an analytic-oracle test')
