"""C10 — the dynamics are equivariant under grid-step rotations about the polar axis and the equatorial mirror.

Lean: DinoProofs/Properties/C10.lean
  T10.1 over the abstract models Dino/Dynamics.lean, Dino/DynamicsSW.lean, Dino/Imex.lean, Dino/Invariants.lean
        (correspondence of those models with the real classes: C04 / C05 / C06 / C11),
  T10.2 / T10.3 over Dino/Symmetry.lean + Dino/SH.lean + Dino/Fourier.lean + Dino/Legendre.lean.

This module
  (a) ties every operation of the `sym` driver (Dino/SymmetryDrv.lean) to numpy / the real `Grid`:
      roll, flipLat, the coefficient rotation (against `to_modal(np.roll(to_nodal(x)))`), the mirror sign (against
      `to_modal(flip(to_nodal(x)))`), both latitude-derivative stencils, the `l`-only operators, both longitude
      derivatives, and the Legendre rows at mirrored nodes;
  (b) validates on real grids the hypotheses `Symmetry.Equivariant` of the abstract theorem, one by one, for the
      concrete rotation and mirror, plus node / weight symmetry and the `TrigTable` reading of `basis.f`;
  (c) evaluates the property itself on the real code: transformed states (and orography, tracers) against transformed
      tendencies (explicit, implicit, implicit_inverse) and short trajectories, all equation classes, several
      integrators and filters, both spherical-harmonic implementations, gauss and equiangular latitudes;
  (c') the same on PADDED layouts of FastSphericalHarmonics (`base_shape_multiple` in {4, 5, 8}: latitude nodes,
      longitude nodes and both modal axes padded; the paddings are recorded in every probe input).  There the
      symmetry acts on the modal state / orography only (`PadSym`: rotation of the real (cos, sin) rows by
      2 pi m k / longitude_nodes, sign (-1)^(l+m) on the real entries, padding untouched) and the comparison is on
      the resolved coefficients (`grid.mask`); `PadSym` is checked on every run against the roll / flip actions of
      (a) - (c) on an unpadded fast grid, and against the same permutation of the block of real nodes on the padded
      ones.  Shallow water (1 - 2 layers, with / without orography) and primitive equations (dry; moist in
      thorough); quick: one latitude-padded grid for the mirror and one longitude-padded grid for the rotation per
      run, rotated by the seed; thorough: the whole table plus T21 / with_wavenumbers(22) with base 5 / 8.
      Measured on the unchanged tree: <= 2.2e-14.

Tolerances.  Measured on the unchanged tree (float64): operator hypotheses of (b) <= 3e-14, (c) <= 2e-13 relative
to the leaf scale (typically 1e-15 .. 7e-15).  The thresholds are 1e-10 for (b) and 1e-9 for (c): four orders above
rounding, and far below the effect of any change of a coefficient, sign or index (>= 1e-6 relative).  Table
checks of (b): `scipy.linalg.dft` against cos/sin deviates by about N * 2e-16 (1.2e-14 at N = 49, 1.8e-13 at
N = 1024) -> threshold 1e-11; equiangular nodes are symmetric to 4e-16 and their weights (a linear solve) to
1.2e-14 at 64 nodes -> thresholds 1e-13 / 1e-10; sec2_lat next to the poles amplifies the node asymmetry by
2 / cos^2(lat) (3e-13 at 32 equiangular nodes) -> threshold 1e-10.
"""
import functools
import os
import re

import numpy as np

import common
from common import fvec, fmat, fbits, unfmat, unfvec, ivec, qmat, unqmat
import dinoutil

TOL = 1e-9        # (c) probes, relative to the scale of the leaf
FLOOR = 1e-2      # a leaf is never compared more strictly than TOL * FLOOR * (largest leaf scale)
HYP_TOL = 1e-10   # (b) hypotheses on the real grid
RULE = ('grids: (M, L, N, J) from a table with corner sizes (M = 1, N = 1, 2; J = 1, 2), odd and even N, aliased '
        '(N < 2M - 1) and de-aliased, gauss and equiangular latitudes (never equiangular_with_poles: sec2_lat is '
        'infinite there), both implementations; symmetries: rotations by k in {0, 1, N-1, N/2, random, > N} and the '
        'mirror; data: standard normal spectra (masked and unmasked) and nodal fields; equation objects: random '
        'uneven sigma levels (1..6 layers), random orography, reference temperature profile, tracers; a case is '
        'non-trivial when the symmetry is not the identity (k mod N != 0) and the field has a non-zonal or '
        'hemispherically asymmetric part; padded fast layouts (base_shape_multiple 4, 5, 8; latitude / longitude / '
        'modal padding) with the modal action of the symmetry; distinct = distinct (grid, symmetry, op / class / '
        'integrator, data) hashes')

Q_KEY = 'specific_humidity'
QL_KEY = 'specific_cloud_liquid_water_content'
QI_KEY = 'specific_cloud_ice_water_content'
CLASSES = ('dry', 'time', 'moist', 'cloud')
ONE_STATE = ('bfe', 'cnrk2', 'rk3', 'rk4', 'sil3')


# --------------------------------------------------------------------------
# environment


class _Env:

  def __init__(self):
    self.jax = common.setup_jax()
    import os
    try:   # eager execution compiles one small kernel per primitive and shape; keep them across runs
      cdir = os.path.join(common.WORK, 'jaxcache_C10')
      os.makedirs(cdir, exist_ok=True)
      self.jax.config.update('jax_compilation_cache_dir', cdir)
      self.jax.config.update('jax_persistent_cache_min_entry_size_bytes', -1)
      self.jax.config.update('jax_persistent_cache_min_compile_time_secs', 0.0)
    except Exception:  # pylint: disable=broad-except
      pass
    import jax.numpy as jnp
    from dinosaur import (associated_legendre, coordinate_systems, fourier, primitive_equations, scales,
                          shallow_water, sigma_coordinates, spherical_harmonic, time_integration)
    self.jnp, self.pe, self.sh, self.sc, self.cs, self.scales = (
        jnp, primitive_equations, spherical_harmonic, sigma_coordinates, coordinate_systems, scales)
    self.ti, self.sw, self.al, self.fourier = time_integration, shallow_water, associated_legendre, fourier
    from dinosaur import filtering
    self.filtering = filtering
    pe, ti = primitive_equations, time_integration
    self.CL = dict(dry=pe.PrimitiveEquations, time=pe.PrimitiveEquationsWithTime, moist=pe.MoistPrimitiveEquations,
                   cloud=pe.MoistPrimitiveEquationsWithCloudMoisture)
    self.INT = dict(bfe=ti.backward_forward_euler, cnrk2=ti.crank_nicolson_rk2, rk3=ti.crank_nicolson_rk3,
                    rk4=ti.crank_nicolson_rk4, sil3=ti.imex_rk_sil3)
    self._grids = {}

  def impl(self, name):
    return self.sh.RealSphericalHarmonics if name == 'real' else self.sh.FastSphericalHarmonics

  def grid(self, M, L, N, J, spacing='gauss', impl='real', radius=1.0, offset=0.0, base=None):
    """`base`: `base_shape_multiple` of FastSphericalHarmonics (None: the default, no padding without a mesh)"""
    key = (M, L, N, J, spacing, impl, float(radius), float(offset), base)
    if key not in self._grids:
      cls = self.impl(impl)
      if base is not None:
        assert impl == 'fast'
        cls = functools.partial(cls, base_shape_multiple=int(base))
      self._grids[key] = self.sh.Grid(longitude_wavenumbers=M, total_wavenumbers=L, longitude_nodes=N,
                                      latitude_nodes=J, latitude_spacing=spacing, longitude_offset=offset,
                                      radius=radius, spherical_harmonics_impl=cls)
    return self._grids[key]

  def std_grid(self, M, dealiasing='quadratic', spacing='gauss', impl='real', radius=1.0, offset=0.0, base=None):
    order = {'linear': 2, 'quadratic': 3, 'cubic': 4}[dealiasing]
    N = order * M + 1
    return self.grid(M, M + 1, N, -(-N // 2), spacing, impl, radius, offset, base)

  def specs(self, rng, radius=1.0):
    R = float(rng.uniform(0.5, 3.0)) * 1e-3
    return self.pe.PrimitiveEquationsSpecs(
        radius=float(radius), angular_velocity=float(rng.uniform(0.3, 1.0)),
        gravity_acceleration=float(rng.uniform(20.0, 80.0)), ideal_gas_constant=R,
        water_vapor_gas_constant=R * float(rng.uniform(1.2, 2.0)),
        water_vapor_isobaric_heat_capacity=R * float(rng.uniform(3.0, 9.0)),
        kappa=float(rng.choice([2 / 7, rng.uniform(0.2, 0.4)])), scale=self.scales.DEFAULT_SCALE)


def _gname(g):
  impl = 'real' if type(g.spherical_harmonics).__name__ == 'RealSphericalHarmonics' else 'fast'
  name = (f'{impl}-{g.latitude_spacing}-M{g.longitude_wavenumbers}L{g.total_wavenumbers}'
          f'N{g.longitude_nodes}J{g.latitude_nodes}')
  if any(g.nodal_padding) or any(g.modal_padding):
    name += (f'-base{getattr(g.spherical_harmonics, "base_shape_multiple", None)}'
             f'-nodal{g.nodal_shape[0]}x{g.nodal_shape[1]}-modal{g.modal_shape[0]}x{g.modal_shape[1]}')
  return name


def _is_fast(g):
  return type(g.spherical_harmonics).__name__ != 'RealSphericalHarmonics'


def _unaliased(g):
  """`to_modal . to_nodal = id` on the mask: Gauss quadrature exact and the DFT columns orthogonal."""
  return (g.latitude_spacing == 'gauss' and g.longitude_nodes >= 2 * g.longitude_wavenumbers - 1
          and g.latitude_nodes >= g.total_wavenumbers)


# --------------------------------------------------------------------------
# the two symmetries in numpy (independent of the Lean model)


class Sym:
  """rotation by `k` grid steps (`k` an int) or the equatorial mirror (`k is None`) on arrays of a given grid."""

  def __init__(self, grid, k):
    self.grid, self.k = grid, k
    self.eps = -1.0 if k is None else 1.0
    self.name = 'mirror' if k is None else 'rot'
    N = grid.longitude_nodes
    self.identity = (k is not None) and (k % max(N, 1) == 0)
    m, l = grid.modal_mesh
    self._sign = (-1.0) ** ((np.abs(m) + l) % 2)

  def tag(self):
    return 'mirror' if self.k is None else f'rot{self.k}'

  def modal(self, x):
    x = np.asarray(x, dtype=float)
    if self.k is None:
      return x * self._sign
    g = self.grid
    out = x.copy()
    N, M = g.longitude_nodes, g.longitude_wavenumbers
    fast = _is_fast(g)
    for m in range(0 if fast else 1, M):
      ang = 2 * np.pi * ((m * self.k) % N) / N
      c, s = np.cos(ang), np.sin(ang)
      i = 2 * m if fast else 2 * m - 1
      out[..., i, :] = c * x[..., i, :] - s * x[..., i + 1, :]
      out[..., i + 1, :] = s * x[..., i, :] + c * x[..., i + 1, :]
    return out

  def modal_odd(self, x):
    return self.eps * self.modal(x)

  def nodal(self, z):
    z = np.asarray(z, dtype=float)
    return z[..., ::-1] if self.k is None else np.roll(z, self.k, axis=-2)


def _ks(rng, N, quick=True):
  base = [0, 1, max(N - 1, 0), N // 2, int(rng.integers(0, max(N, 1))), N + 3]
  out = []
  for k in base:
    if k not in out:
      out.append(k)
  return out


# --------------------------------------------------------------------------
# (a) correspondence of the `sym` driver

GRID_TABLE = [
    # M, L, N, J
    (1, 1, 1, 1), (1, 2, 1, 2), (1, 2, 2, 2), (2, 3, 3, 3), (2, 3, 4, 3), (2, 2, 5, 2), (3, 4, 5, 4),
    (3, 4, 6, 5), (4, 5, 4, 5), (4, 5, 9, 5), (4, 5, 13, 7), (5, 6, 16, 8), (6, 7, 19, 10), (8, 9, 25, 13),
]


def _tables(N):
  j = np.arange(max(N, 1))
  return np.cos(2 * np.pi * j / max(N, 1)), np.sin(2 * np.pi * j / max(N, 1))


def _corr(ctx, E):
  rng, jnp = ctx.rng, E.jnp
  lines, checks = [], []

  def add(line, op, inp, impl, tol=1e-9, exact=False):
    lines.append(line)
    checks.append((op, inp, np.asarray(impl, dtype=float), tol, exact))

  table = list(GRID_TABLE)
  if not ctx.quick:
    table += [(10, 11, 31, 16), (12, 13, 32, 18), (7, 9, 22, 12), (5, 8, 11, 9)]
  for gi, (M, L, N, J) in enumerate(table):
    for impl in ('real', 'fast'):
      spacing = 'gauss' if (gi + (impl == 'fast')) % 3 else 'equiangular'
      if ctx.quick and gi >= 4 and (gi + (impl == 'fast')) % 2:
        continue
      g = E.grid(M, L, N, J, spacing, impl)
      gname = _gname(g)
      ctx.dist[f'corr-grid={gname}'] += 1
      ms, ns = g.modal_shape, g.nodal_shape
      mask = np.asarray(g.mask, dtype=float)
      cs, sn = _tables(N)
      mvals, lvals = np.abs(np.asarray(g.modal_axes[0])), np.asarray(g.modal_axes[1])
      a, b = (np.asarray(v, dtype=float) for v in g._derivative_recurrence_weights)
      x_any = rng.standard_normal(ms)
      x_msk = rng.standard_normal(ms) * mask
      z = rng.standard_normal(ns)
      base = dict(grid=gname, modal_shape=list(ms), nodal_shape=list(ns))
      fast = impl == 'fast'
      # --- nodal actions
      for k in _ks(rng, N):
        inp = dict(base, k=k, z=z.tolist())
        ctx.case(('roll', gname, k, z.tobytes()), nontrivial=(k % N != 0) and N > 1)
        add(f'sym F roll {k} {fmat(z)}', 'np.roll(axis=-2)', inp, np.roll(z, k, axis=0), exact=True)
      add(f'sym F flip {fmat(z)}', 'z[..., ::-1]', dict(base, z=z.tolist()), z[:, ::-1], exact=True)
      ctx.case(('flip', gname, z.tobytes()), nontrivial=J > 1)
      # --- coefficient rotation
      for k in _ks(rng, N):
        sym = Sym(g, k)
        inp = dict(base, k=k, x=x_msk.tolist())
        ctx.case(('rot', gname, k, x_msk.tobytes()), nontrivial=(k % N != 0) and M > 1)
        tok = (f'sym F rotfast {M} {N} {k} {fvec(cs)} {fvec(sn)} {fmat(x_msk)}' if fast else
               f'sym F rotreal {N} {k} {fvec(cs)} {fvec(sn)} {fmat(x_msk)}')
        if _unaliased(g):
          with ctx.impl('corr:rot:raises', inp):
            ref = np.asarray(g.to_modal(jnp.asarray(np.roll(np.asarray(g.to_nodal(jnp.asarray(x_msk))), k, axis=0))))
            add(tok, 'to_modal(roll(to_nodal(x), k)) vs coefficient rotation', inp, ref)
        else:
          add(tok, 'coefficient rotation (numpy oracle; aliased / equiangular grid)', inp, sym.modal(x_msk))
        # any spectrum, numpy oracle (rows outside the mask, the -0 row and padding included)
        tok2 = (f'sym F rotfast {M} {N} {k} {fvec(cs)} {fvec(sn)} {fmat(x_any)}' if fast else
                f'sym F rotreal {N} {k} {fvec(cs)} {fvec(sn)} {fmat(x_any)}')
        add(tok2, 'coefficient rotation of an unmasked spectrum (numpy oracle)', dict(base, k=k, x=x_any.tolist()),
            sym.modal(x_any))
      # --- mirror sign
      inp = dict(base, x=x_msk.tolist())
      mtok = f'sym F mirror {ivec(mvals)} {ivec(lvals)} {fmat(x_msk)}'
      ctx.case(('mirror', gname, x_msk.tobytes()), nontrivial=L > 1)
      if _unaliased(g):
        with ctx.impl('corr:mirror:raises', inp):
          ref = np.asarray(g.to_modal(jnp.asarray(np.asarray(g.to_nodal(jnp.asarray(x_msk)))[:, ::-1])))
          add(mtok, 'to_modal(flip(to_nodal(x))) vs sign (-1)^(m+l)', inp, ref)
      else:
        add(mtok, 'sign (-1)^(m+l) (numpy oracle; aliased / equiangular grid)', inp, Sym(g, None).modal(x_msk))
      # --- modal operators on arbitrary spectra
      inp = dict(base, x=x_any.tolist())
      with ctx.impl('corr:ops:raises', inp):
        xa = jnp.asarray(x_any)
        add(f'sym F d1 {fmat(a)} {fmat(b)} {fmat(x_any)}', 'Grid.cos_lat_d_dlat', inp, g.cos_lat_d_dlat(xa))
        add(f'sym F d2 {fmat(a)} {fmat(b)} {fmat(x_any)}', 'Grid.sec_lat_d_dlat_cos2', inp, g.sec_lat_d_dlat_cos2(xa))
        eig = np.asarray(g.laplacian_eigenvalues, dtype=float)
        add(f'sym F lmul {fvec(eig)} {fmat(x_any)}', 'Grid.laplacian', inp, g.laplacian(xa))
        inv = np.asarray(g.inverse_laplacian(jnp.ones(ms)))[0]
        add(f'sym F lmul {fvec(inv)} {fmat(x_any)}', 'Grid.inverse_laplacian', inp, g.inverse_laplacian(xa))
        if L >= 1:
          clipv = np.asarray(g.clip_wavenumbers(jnp.ones(ms)))[0]
          add(f'sym F lmul {fvec(clipv)} {fmat(x_any)}', 'Grid.clip_wavenumbers', inp, g.clip_wavenumbers(xa))
        add(f'sym F {"fastderiv" if fast else "realderiv"} {ms[1]} {fmat(x_any)}', 'Grid.d_dlon', inp, g.d_dlon(xa))
        ctx.case(('ops', gname, x_any.tobytes()), nontrivial=L > 1)
      # --- Legendre rows at a node and at the mirrored node
      sin_lat = np.asarray(g.nodal_axes[1], dtype=float)[:J]
      x0 = float(sin_lat[int(rng.integers(0, J))]) if rng.random() < 0.7 else float(rng.uniform(-0.99, 0.99))
      p = np.asarray(E.al.evaluate(n_m=M, n_l=L, x=np.array([x0, -x0])))
      for m in range(M):
        add(f'sym F legrow {L} {m} {fbits(x0)}', 'associated_legendre.evaluate[m, x]', dict(M=M, L=L, m=m, x=x0), p[m, 0])
        add(f'sym F legrow {L} {m} {fbits(-x0)}', 'associated_legendre.evaluate[m, -x]', dict(M=M, L=L, m=m, x=-x0),
            p[m, 1])
      sg = (-1.0) ** ((np.arange(M)[:, None] + np.arange(L)[None, :]) % 2)
      ctx.case(('parity', M, L, x0), nontrivial=x0 != 0)
      ctx.expect(np.abs(p[:, 1, :] - sg * p[:, 0, :]).max() <= 1e-12 * max(1.0, np.abs(p).max()), 'parity:evaluate',
                 'associated_legendre.evaluate(-x) != (-1)^(l+m) evaluate(x)', dict(M=M, L=L, x=x0))
  # exact (rational) runs of the index conventions
  zq = [[int(v) for v in row] for row in rng.integers(-9, 10, (5, 3))]
  for k in (0, 1, 4, 5, 7):
    lines.append(f'sym Q roll {k} {qmat(zq)}')
    checks.append(('np.roll (exact)', dict(k=k, z=zq), np.roll(np.array(zq), k, axis=0), 0.0, True))
  xq = [[int(v) for v in row] for row in rng.integers(-9, 10, (5, 4))]
  lines.append(f'sym Q mirror 0,1,1,2,2 0,1,2,3 {qmat(xq)}')
  checks.append(('mirror sign (exact)', dict(x=xq), np.array(xq) * (-1.0) ** ((np.array([0, 1, 1, 2, 2])[:, None]
                                                                             + np.arange(4)[None, :]) % 2), 0.0, True))
  out = ctx.model(lines)
  for (op, inp, impl, tol, exact), line, o in zip(checks, lines, out):
    if o in ('bad-op', ''):
      ctx.corr_mismatch(op, inp, 'value', o, f'model rejected: {line[:60]}')
      continue
    mode = line.split()[1]
    if line.split()[2] == 'legrow':
      val = np.array(unfvec(o))
    elif mode == 'Q':
      val = np.array([[float(v) for v in r] for r in unqmat(o)])
    else:
      val = np.array(unfmat(o))
    if impl.size == 0 and val.size == 0:
      ctx.traces += 1
      continue
    if exact:
      ctx.traces += 1
      if impl.shape != val.shape or not np.array_equal(impl, val):
        ctx.corr_mismatch(op, inp, impl.tolist(), val.tolist(), 'exact comparison')
    else:
      ctx.corr_float(op, inp, impl, val, rtol=tol)


# --------------------------------------------------------------------------
# (b) the hypotheses of the abstract theorem, on the real Grid


def _rel(a, b):
  a, b = np.asarray(a, dtype=float), np.asarray(b, dtype=float)
  if a.shape != b.shape or not (np.isfinite(a).all() and np.isfinite(b).all()):
    return float('inf')
  s = max(np.abs(a).max(initial=0.0), np.abs(b).max(initial=0.0))
  return 0.0 if s == 0 else float(np.abs(a - b).max() / s)


def _hypotheses(ctx, E):
  rng, jnp = ctx.rng, E.jnp
  worst = 0.0
  table = [(2, 3, 4, 3), (3, 4, 5, 4), (4, 5, 4, 5), (5, 6, 16, 8), (8, 9, 25, 13), (7, 8, 15, 8)]
  if not ctx.quick:
    table += [(10, 11, 31, 16), (16, 17, 49, 25), (21, 22, 64, 32), (1, 2, 1, 2)]
  for gi, (M, L, N, J) in enumerate(table):
    for impl in ('real', 'fast'):
      for spacing in ('gauss', 'equiangular'):
        if ctx.quick and (gi + (impl == 'fast') + (spacing == 'gauss')) % 2:
          continue
        g = E.grid(M, L, N, J, spacing, impl)
        gname = _gname(g)
        ctx.dist[f'hyp-grid={gname}'] += 1
        ms, ns = g.modal_shape, g.nodal_shape
        sin_lat = np.asarray(g.nodal_axes[1], dtype=float)
        w = np.asarray(g.spherical_harmonics.basis.w, dtype=float)
        f = np.asarray(g.spherical_harmonics.basis.f, dtype=float)
        if f.ndim == 3:    # stacked Fourier matrix: back to [i, row]
          f = np.reshape(f, (f.shape[0], -1), order='F')

        def rec(h, val, inp, tol=HYP_TOL):
          nonlocal worst
          worst = max(worst, val if np.isfinite(val) else 1.0)
          ctx.expect(val <= tol, f'hyp:{h}', f'hypothesis `{h}` fails on {gname}: relative defect {val:.3e}',
                     dict(inp, grid=gname))

        # node / weight symmetry (SymNodes, SymWeights) and the TrigTable reading of basis.f
        rec('SymNodes', float(np.abs(sin_lat[::-1] + sin_lat).max()), {}, 1e-13)
        rec('SymWeights', float(np.abs(w[::-1] - w).max() / np.abs(w).max()), {}, 1e-10)
        cs, sn = _tables(N)
        i = np.arange(N)
        fast = impl == 'fast'
        for m in range(1, M):
          c0 = (2 * m) if fast else (2 * m - 1)
          rec('basis.f=cos-table', float(np.abs(f[:N, c0] - cs[(i * m) % N] / np.sqrt(np.pi)).max()), dict(m=m), 1e-11)
          rec('basis.f=sin-table', float(np.abs(f[:N, c0 + 1] - sn[(i * m) % N] / np.sqrt(np.pi)).max()), dict(m=m), 1e-11)
        rec('basis.f=const', float(np.abs(f[:N, 0] - 1 / np.sqrt(2 * np.pi)).max()), {}, 1e-15)
        if fast:
          rec('basis.f=zero-imag', float(np.abs(f[:N, 1]).max()), {}, 0.0)
        a, b = (np.asarray(v, dtype=float) for v in g._derivative_recurrence_weights)
        # both rows of every (cos, sin) pair m >= 1 carry the same recurrence weights
        pair = 0.0
        for m in range(1, M):
          c0 = (2 * m) if fast else (2 * m - 1)
          pair = max(pair, float(np.abs(a[c0] - a[c0 + 1]).max()), float(np.abs(b[c0] - b[c0 + 1]).max()))
        rec('weights-equal-on-pairs', pair, {}, 0.0)
        syms = [Sym(g, k) for k in _ks(rng, N)] + [Sym(g, None)]
        x = rng.standard_normal(ms)
        xm = x * np.asarray(g.mask)
        z = rng.standard_normal(ns)
        cosl = np.broadcast_to(np.asarray(g.cos_lat), ns)
        sec2 = np.broadcast_to(np.asarray(g.sec2_lat), ns)
        sinl = np.asarray(g.nodal_mesh[1], dtype=float)
        one = np.zeros(ms)
        one[0, 0] = E.pe._CONSTANT_NORMALIZATION_FACTOR
        J_ = jnp.asarray
        for S in syms:
          inp = dict(sym=S.tag())
          ctx.case(('hyp', gname, S.tag(), x.tobytes()), nontrivial=not S.identity)
          ctx.dist[f'hyp-sym={S.name}'] += 1
          with ctx.impl('hyp:raises', dict(inp, grid=gname)):
            for xx, lab in ((x, 'any'), (xm, 'masked')):
              rec('toNodal', _rel(g.to_nodal(J_(S.modal(xx))), S.nodal(g.to_nodal(J_(xx)))), dict(inp, spectrum=lab))
              rec('dDlon', _rel(g.d_dlon(J_(S.modal(xx))), S.modal(g.d_dlon(J_(xx)))), dict(inp, spectrum=lab))
              rec('cosLatDDlat', _rel(g.cos_lat_d_dlat(J_(S.modal(xx))), S.eps * S.modal(g.cos_lat_d_dlat(J_(xx)))),
                  dict(inp, spectrum=lab))
              rec('secLatDDlatCos2', _rel(g.sec_lat_d_dlat_cos2(J_(S.modal(xx))),
                                          S.eps * S.modal(g.sec_lat_d_dlat_cos2(J_(xx)))), dict(inp, spectrum=lab))
              rec('laplacian', _rel(g.laplacian(J_(S.modal(xx))), S.modal(g.laplacian(J_(xx)))), dict(inp, spectrum=lab))
              rec('inverseLaplacian', _rel(g.inverse_laplacian(J_(S.modal(xx))), S.modal(g.inverse_laplacian(J_(xx)))),
                  dict(inp, spectrum=lab))
              rec('clip', _rel(g.clip_wavenumbers(J_(S.modal(xx))), S.modal(g.clip_wavenumbers(J_(xx)))),
                  dict(inp, spectrum=lab))
            rec('toModal', _rel(g.to_modal(J_(S.nodal(z))), S.modal(g.to_modal(J_(z)))), inp)
            # the filters of filtering.py are multipliers by a function of l: the hypothesis `phi o rho_M = rho_M o phi`
            # of C10.spectral_filter_conjugated (which discharges HistRel / lfRel for them), on the real filter functions
            if ms[1] >= 2:
              for fname, flt in (('exponential', E.filtering.exponential_filter(g, attenuation=float(rng.uniform(1, 16)),
                                                                               order=int(rng.choice([1, 2, 6])),
                                                                               cutoff=float(rng.choice([0.0, 0.4])))),
                                 ('diffusion', E.filtering.horizontal_diffusion_filter(
                                     g, scale=float(rng.uniform(1e-3, 1e-1)), order=int(rng.choice([1, 2]))))):
                for xx, lab in ((x, 'any'), (xm, 'masked')):
                  rec('filter-commutes', _rel(flt(J_(S.modal(xx))), S.modal(np.asarray(flt(J_(xx))))),
                      dict(inp, spectrum=lab, filter=fname))
            # `hdiv` (rho_N (a / b) = rho_N a / rho_N b: hypothesis of every moist / cloud statement and of
            # pe_trajectory_equivariant) and the algebra-homomorphism part of `Sym.rhoN` (products, the constant one):
            # roll and flip permute the nodes, so these hold EXACTLY (bit for bit), also where b has a zero
            z2 = rng.standard_normal(ns)
            z2.flat[int(rng.integers(0, z2.size))] = 0.0
            with np.errstate(all='ignore'):
              qa, qb = S.nodal(z / z2), S.nodal(z) / S.nodal(z2)
            rec('hdiv', 0.0 if np.array_equal(qa, qb, equal_nan=True) else 1.0, inp, 0.0)
            rec('rhoN-mul', 0.0 if np.array_equal(S.nodal(z * z2), S.nodal(z) * S.nodal(z2)) else 1.0, inp, 0.0)
            rec('rhoN-one', 0.0 if np.array_equal(S.nodal(np.ones(ns)), np.ones(ns)) else 1.0, inp, 0.0)
            rec('cosLat', _rel(S.nodal(cosl), cosl), inp, 1e-13)
            rec('sec2Lat', _rel(S.nodal(sec2), sec2), inp, 1e-10)
            rec('sinLat', _rel(S.nodal(sinl), S.eps * sinl), inp, 1e-13)
            rec('oneModal', _rel(S.modal(one), one), inp, 1e-15)
            # odd fields: vorticity transforms with the sign eps; every operation commutes with that sign
            rec('eps*eps=1', abs(S.eps * S.eps - 1.0), inp, 0.0)
            if S.k is None:
              for nm, op, arg in (('toNodal', g.to_nodal, x), ('toModal', g.to_modal, z), ('dDlon', g.d_dlon, x),
                                  ('cosLatDDlat', g.cos_lat_d_dlat, x), ('secLatDDlatCos2', g.sec_lat_d_dlat_cos2, x),
                                  ('inverseLaplacian', g.inverse_laplacian, x), ('clip', g.clip_wavenumbers, x)):
                rec(nm + '_eps', _rel(op(J_(S.eps * arg)), S.eps * np.asarray(op(J_(arg)))), inp, 0.0)
  ctx.notes.append(f'(b) hypotheses on real grids: worst relative defect {worst:.2e} (threshold {HYP_TOL:.0e})')


# --------------------------------------------------------------------------
# (c) the property on the real equation classes


def _keep(grid):
  keep = np.array(grid.mask, dtype=bool)
  keep[:, -(1 + grid.modal_padding[-1]):] = False
  return keep


def _pe_setup(ctx, E, grid, n, cls, lkind, amp=1.0):
  rng, jnp = ctx.rng, E.jnp
  b, lk = dinoutil.random_boundaries(rng, n, lkind if n > 1 else 'equidistant')
  coords = E.cs.CoordinateSystem(horizontal=grid, vertical=E.sc.SigmaCoordinates(b))
  specs = E.specs(rng, grid.radius)
  tref = np.full(n, 250.0) if rng.random() < 0.3 else np.sort(rng.uniform(200.0, 300.0, n))
  keep = _keep(grid)
  ms = grid.modal_shape
  oro = np.asarray(grid.clip_wavenumbers(grid.to_modal(jnp.asarray(rng.uniform(0, 0.02, grid.nodal_shape))))) * keep
  l = np.arange(ms[1])

  def rm(k, a):
    return rng.standard_normal((k,) + ms) * keep * a * amp / (1.0 + l) ** 1.5

  tr = {}
  if cls in ('moist', 'cloud'):
    q = rm(n, 1e-3)
    q[:, 0, 0] += 0.03
    tr[Q_KEY] = q
  if cls == 'cloud':
    tr[QL_KEY], tr[QI_KEY] = rm(n, 1e-4), rm(n, 1e-4)
  if rng.random() < 0.6:
    tr['x'] = rm(n, 1.0)
  kw = dict(vorticity=rm(n, 0.3), divergence=rm(n, 0.05), temperature_variation=rm(n, 1.0),
            log_surface_pressure=rm(1, 0.01), tracers=tr)
  info = dict(cls=cls, layers=n, levels=lk, boundaries=b.tolist(), tref=tref.tolist(), R=specs.R, g=specs.g,
              kappa=specs.kappa, omega=specs.angular_velocity, tracers=sorted(tr))
  mk = lambda o: E.CL[cls](tref, jnp.asarray(o), coords, specs)
  return mk, oro, kw, info


def _mk_state(E, cls, kw, t, S=None):
  J = E.jnp.asarray
  ev = (lambda v: v) if S is None else S.modal
  od = (lambda v: v) if S is None else S.modal_odd
  d = dict(vorticity=J(od(kw['vorticity'])), divergence=J(ev(kw['divergence'])),
           temperature_variation=J(ev(kw['temperature_variation'])),
           log_surface_pressure=J(ev(kw['log_surface_pressure'])),
           tracers={k: J(ev(v)) for k, v in kw['tracers'].items()})
  return E.pe.State(**d) if cls == 'dry' else E.pe.StateWithTime(sim_time=t, **d)


def _leaves(s):
  out = dict(vorticity=np.asarray(s.vorticity), divergence=np.asarray(s.divergence),
             temperature_variation=np.asarray(s.temperature_variation),
             log_surface_pressure=np.asarray(s.log_surface_pressure))
  for k, v in s.tracers.items():
    out['tracers.' + k] = np.asarray(v)
  if getattr(s, 'sim_time', None) is not None:
    out['sim_time'] = np.asarray(s.sim_time, dtype=float)
  return out


def _sw_leaves(s):
  return dict(vorticity=np.asarray(s.vorticity), divergence=np.asarray(s.divergence), potential=np.asarray(s.potential))


def _compare(ctx, key, what, inp, ref, got, S, worst):
  """`got` (run on transformed data) against the transformed `ref`; every leaf relative to its own scale."""
  tr = {}
  for k, v in ref.items():
    tr[k] = v if k == 'sim_time' else (S.modal_odd(v) if k == 'vorticity' else S.modal(v))
  if set(tr) != set(got):
    ctx.fail(key, f'{what}: different leaves {sorted(tr)} vs {sorted(got)}', inp)
    return
  allscale = max([float(np.abs(v).max(initial=0.0)) for k, v in tr.items() if k != 'sim_time'] + [0.0])
  for k in tr:
    a, b = np.asarray(tr[k], dtype=float), np.asarray(got[k], dtype=float)
    if a.shape != b.shape:
      ctx.fail(key, f'{what}: leaf {k} has shape {b.shape}, expected {a.shape}', inp)
      continue
    if not (np.isfinite(a).all() and np.isfinite(b).all()):
      if not (np.isfinite(a).all() == np.isfinite(b).all()):
        ctx.fail(key, f'{what}: leaf {k}: finiteness differs between the original and the transformed run', inp)
      else:
        # never skipped silently (review B, C10 finding 4): the probes run 3 (quick) / 8 (thorough) steps of size
        # dt <= 0.01 from O(1) non-dimensional states, so overflow is impossible and a non-finite REFERENCE run can
        # only come from a NaN/inf produced by the code: it is reported, there is nothing to compare
        ctx.dist['probe-nonfinite-both'] += 1
        ctx.fail(key + ':nonfinite-reference', f'{what}: leaf {k} is non-finite in BOTH the original and the '
                 'transformed run (no comparison possible; the reference run must stay finite for these step counts)',
                 inp)
      continue
    scale = max(float(np.abs(a).max(initial=0.0)), float(np.abs(b).max(initial=0.0)), FLOOR * allscale)
    err = float(np.abs(a - b).max(initial=0.0))
    if scale > 0:
      worst[0] = max(worst[0], err / scale)
    ctx.expect(err <= TOL * scale, key,
               f'{what}: leaf `{k}` of the transformed run differs from the transformed original by {err:.3e} '
               f'(scale {scale:.3e}, relative {err / scale if scale else 0:.3e})', dict(inp, leaf=k))


def _filters(E, grid, dt, stack, leap, rng):
  ti = E.ti
  out = []
  for f in stack:
    if f == 'exp':
      fn = ti.exponential_leapfrog_step_filter if leap else ti.exponential_step_filter
      out.append(fn(grid, dt, tau=float(rng.uniform(0.005, 0.05)), order=int(rng.choice([1, 2, 6])),
                    cutoff=float(rng.choice([0.0, 0.4]))))
    elif f == 'diff':
      flt = ti.horizontal_diffusion_step_filter(grid, dt, tau=float(rng.uniform(0.01, 0.1)), order=int(rng.choice([1, 2])))
      out.append(flt)
    elif f == 'ra':
      out.append(ti.robert_asselin_leapfrog_filter(float(rng.uniform(0.01, 0.1))))
  return out


def _probe_plan(ctx):
  rng, rot = ctx.rng, ctx.seed
  stacks = [[], ['exp'], ['diff'], ['exp', 'diff']]
  grids_q = [(5, 'quadratic'), (7, 'quadratic'), (8, 'quadratic'), (6, 'linear'), (5, 'cubic'), (10, 'quadratic')]
  plan = []
  if ctx.quick:
    for i, cls in enumerate(CLASSES):
      plan.append((cls, ONE_STATE[(i + rot) % 5], stacks[(i + rot) % 4]))
    plan.append((CLASSES[rot % 4], ONE_STATE[(4 + rot) % 5], stacks[(rot + 1) % 4]))
    plan.append((CLASSES[(rot + 1) % 4], 'leapfrog', [['ra'], ['exp', 'ra'], []][rot % 3]))
    plan.append((CLASSES[(rot + 3) % 4], ONE_STATE[(2 + rot) % 5], []))
  else:
    plan = [(cls, name, stacks[(i + j + rot) % 4]) for i, cls in enumerate(CLASSES) for j, name in enumerate(ONE_STATE)]
    plan += [(cls, 'leapfrog', st) for cls in CLASSES for st in (['ra'], ['exp', 'ra'])]
  out = []
  for i, (cls, name, stack) in enumerate(plan):
    M, deal = grids_q[int(rng.integers(0, len(grids_q)))]
    if not ctx.quick and i % 6 == 4:
      M, deal = 21, 'quadratic'
    if 'diff' in stack and False:
      pass
    out.append(dict(cls=cls, integrator=name, stack=stack, M=M, dealiasing=deal,
                    impl=('real', 'fast')[(i + rot) % 2], spacing=('gauss', 'gauss', 'equiangular')[(i + rot) % 3],
                    layers=int(rng.choice([1, 2, 3, 4, 5, 6])) if i else 1 + (rot % 2),
                    lkind=str(rng.choice(['uneven', 'uneven', 'strongly-uneven', 'refined-bottom', 'equidistant'])),
                    radius=float(rng.choice([1.0, 1.0, rng.uniform(0.5, 3.0)]))))
  return out


def _probes(ctx, E, worst):
  rng, jnp, ti = ctx.rng, E.jnp, E.ti
  steps = ctx.n(3, 8)
  for ci, c in enumerate(_probe_plan(ctx)):
    cls, name, stack = c['cls'], c['integrator'], c['stack']
    grid = E.std_grid(c['M'], c['dealiasing'], c['spacing'], c['impl'], c['radius'])
    gname = _gname(grid)
    N = grid.longitude_nodes
    leap = name == 'leapfrog'
    mk, oro, kw, info = _pe_setup(ctx, E, grid, c['layers'], cls, c['lkind'], amp=float(rng.choice([0.3, 1.0])))
    dt = float(rng.choice([0.005, 0.01, 1 / 128]))
    t0 = float(rng.choice([0.0, rng.uniform(0.5, 50.0)]))
    alpha = float(rng.choice([0.5, 0.6, 1.0]))
    frng_state = rng.bit_generator.state
    filters = _filters(E, grid, dt, stack, leap, rng)
    inp0 = dict(info, config=ci, grid=gname, radius=c['radius'], integrator=name, filters=stack, dt=dt, t0=t0,
                alpha=alpha if leap else None, seed=ctx.seed, steps=steps)
    for k_ in (f'probe-class={cls}', f'probe-integrator={name}', f'probe-filters={"+".join(stack) or "none"}',
               f'probe-grid={gname}', f'probe-layers={c["layers"]}', f'probe-levels={info["levels"]}'):
      ctx.dist[k_] += 1
    kw1 = dict(kw)
    if leap:
      for f in ('vorticity', 'divergence', 'temperature_variation', 'log_surface_pressure'):
        kw1[f] = kw[f] * (1 + 0.01 * rng.standard_normal())

    def run(S):
      """tendencies and trajectory of the class over the (transformed) orography from the (transformed) state"""
      eq = mk(oro if S is None else S.modal(oro))
      s0 = _mk_state(E, cls, kw, t0, S)
      res = dict(explicit=_leaves(eq.explicit_terms(s0)), implicit=_leaves(eq.implicit_terms(s0)),
                 inverse=_leaves(eq.implicit_inverse(s0, dt)))
      if leap:
        u = (s0, _mk_state(E, cls, kw1, t0 + dt, S))
        step = ti.step_with_filters(ti.semi_implicit_leapfrog(eq, dt, alpha), filters)
      else:
        u = s0
        step = ti.step_with_filters(E.INT[name](eq, dt), filters)
      for _ in range(steps):
        u = step(u)
      res['trajectory'] = _leaves(u[1] if leap else u)
      return res

    ks = _ks(rng, N)
    sel = [ks[(ci + ctx.seed) % len(ks)], ks[(ci + ctx.seed + 2) % len(ks)]] if ctx.quick else ks
    syms = [Sym(grid, k) for k in dict.fromkeys(sel)] + [Sym(grid, None)]
    key0 = f'probe:{cls}'
    ref = None
    with ctx.impl(key0 + ':raises', inp0):
      ref = run(None)
    if ref is None:
      continue
    for S in syms:
      inp = dict(inp0, sym=S.tag())
      ctx.dist[f'probe-sym={S.name}'] += 1
      got = None
      with ctx.impl(f'{key0}:{S.name}:raises', inp):
        got = run(S)
      if got is None:
        continue
      for what in ('explicit', 'implicit', 'inverse', 'trajectory'):
        ctx.case((key0, ci, S.tag(), what, ctx.seed), nontrivial=not S.identity,
                 sample=inp if (ci == 0 and what == 'explicit' and S.k is None) else None)
        label = {'explicit': 'explicit_terms', 'implicit': 'implicit_terms', 'inverse': 'implicit_inverse',
                 'trajectory': f'{steps} steps of {name}'}[what]
        _compare(ctx, f'{key0}:{S.name}:{what}', f'{E.CL[cls].__name__}.{label} ({S.tag()}, {gname})', inp,
                 ref[what], got[what], S, worst)
    # no longitude is privileged: the tendencies do not depend on `longitude_offset`
    if ci % 2 == 0:
      g2 = E.std_grid(c['M'], c['dealiasing'], c['spacing'], c['impl'], c['radius'], offset=float(rng.uniform(0.1, 3.0)))
      with ctx.impl(key0 + ':offset:raises', inp0):
        coords2 = E.cs.CoordinateSystem(horizontal=g2, vertical=mk(oro).coords.vertical)
        e1 = mk(oro)
        eq2 = E.CL[cls](e1.reference_temperature, jnp.asarray(oro), coords2, e1.physics_specs)
        a = _leaves(eq2.explicit_terms(_mk_state(E, cls, kw, t0)))
        ctx.case((key0, ci, 'offset', ctx.seed), nontrivial=True)
        for k, v in ref['explicit'].items():
          ctx.expect(_rel(v, a[k]) <= TOL, f'{key0}:longitude_offset',
                     f'explicit_terms depend on Grid.longitude_offset (leaf {k}: {_rel(v, a[k]):.3e})', inp0)


def _sw_setup(ctx, E, grid, n, orography):
  rng, jnp = ctx.rng, E.jnp
  keep = _keep(grid)
  ms = grid.modal_shape
  l = np.arange(ms[1])
  dens = np.sort(rng.uniform(1.0, 2.0, n))
  specs = E.sw.ShallowWaterSpecs(densities=dens, radius=grid.radius, angular_velocity=float(rng.uniform(0.3, 1.0)),
                                 gravity_acceleration=float(rng.uniform(0.5, 2.0)), scale=E.scales.DEFAULT_SCALE)
  coords = E.cs.CoordinateSystem(horizontal=grid, vertical=E.sc.SigmaCoordinates.equidistant(n))
  refp = rng.uniform(0.5, 2.0, n)
  oro = (np.asarray(grid.clip_wavenumbers(grid.to_modal(jnp.asarray(rng.uniform(0, 0.05, grid.nodal_shape))))) * keep
         if orography else None)

  def rm(a):
    return rng.standard_normal((n,) + ms) * keep * a / (1.0 + l) ** 1.5

  st = (rm(0.2), rm(0.05), rm(0.1))
  mk = lambda o: E.sw.ShallowWaterEquations(coords, specs, None if o is None else jnp.asarray(o), refp)
  info = dict(cls='sw', layers=n, densities=dens.tolist(), reference_potential=refp.tolist(), orography=orography,
              omega=specs.angular_velocity)
  return mk, oro, st, info


def _probes_sw(ctx, E, worst):
  rng, jnp, ti = ctx.rng, E.jnp, E.ti
  steps = ctx.n(3, 8)
  names = ['leapfrog', 'rk3', 'sil3', 'cnrk2', 'bfe', 'rk4']
  nconf = ctx.n(3, 8)
  for ci in range(nconf):
    name = names[(ci + ctx.seed) % len(names)]
    leap = name == 'leapfrog'
    M, deal = [(5, 'quadratic'), (8, 'quadratic'), (6, 'linear'), (7, 'cubic')][int(rng.integers(0, 4))]
    impl = ('real', 'fast')[(ci + ctx.seed) % 2]
    spacing = ('gauss', 'equiangular')[(ci + ctx.seed + 1) % 2 if ci else 0]
    grid = E.std_grid(M, deal, spacing, impl, float(rng.choice([1.0, rng.uniform(0.5, 2.0)])))
    gname = _gname(grid)
    N = grid.longitude_nodes
    n = int(rng.choice([1, 2, 3]))
    mk, oro, st, info = _sw_setup(ctx, E, grid, n, orography=bool((ci + ctx.seed) % 3 != 2))
    dt = float(rng.choice([0.005, 0.01]))
    alpha = float(rng.choice([0.5, 0.7]))
    stack = [['ra'], ['exp', 'ra'], []][ci % 3] if leap else [[], ['exp'], ['diff']][ci % 3]
    filters = _filters(E, grid, dt, stack, leap, rng)
    pert = 1 + 0.01 * rng.standard_normal(3)
    inp0 = dict(info, config=ci, grid=gname, integrator=name, filters=stack, dt=dt, alpha=alpha if leap else None,
                seed=ctx.seed, steps=steps)
    for k_ in ('probe-class=sw', f'probe-integrator={name}', f'probe-grid={gname}', f'probe-layers={n}',
               f'probe-sw-orography={info["orography"]}'):
      ctx.dist[k_] += 1

    def state(S, scale=(1, 1, 1)):
      z, d, p = st
      od = (lambda v: v) if S is None else S.modal_odd
      ev = (lambda v: v) if S is None else S.modal
      return E.sw.State(vorticity=jnp.asarray(od(z * scale[0])), divergence=jnp.asarray(ev(d * scale[1])),
                        potential=jnp.asarray(ev(p * scale[2])))

    def run(S):
      eq = mk(None if oro is None else (oro if S is None else S.modal(oro)))
      s0 = state(S)
      res = dict(explicit=_sw_leaves(eq.explicit_terms(s0)), implicit=_sw_leaves(eq.implicit_terms(s0)),
                 inverse=_sw_leaves(eq.implicit_inverse(s0, dt)))
      if leap:
        u = (s0, state(S, pert))
        step = ti.step_with_filters(ti.semi_implicit_leapfrog(eq, dt, alpha), filters)
      else:
        u = s0
        step = ti.step_with_filters(E.INT[name](eq, dt), filters)
      for _ in range(steps):
        u = step(u)
      res['trajectory'] = _sw_leaves(u[1] if leap else u)
      return res

    ks = _ks(rng, N)
    sel = [ks[(ci + ctx.seed + 1) % len(ks)]] if ctx.quick else ks
    syms = [Sym(grid, k) for k in dict.fromkeys(sel)] + [Sym(grid, None)]
    ref = None
    with ctx.impl('probe:sw:raises', inp0):
      ref = run(None)
    if ref is None:
      continue
    for S in syms:
      inp = dict(inp0, sym=S.tag())
      ctx.dist[f'probe-sym={S.name}'] += 1
      got = None
      with ctx.impl(f'probe:sw:{S.name}:raises', inp):
        got = run(S)
      if got is None:
        continue
      for what in ('explicit', 'implicit', 'inverse', 'trajectory'):
        ctx.case(('probe:sw', ci, S.tag(), what, ctx.seed), nontrivial=not S.identity)
        label = {'explicit': 'explicit_terms', 'implicit': 'implicit_terms', 'inverse': 'implicit_inverse',
                 'trajectory': f'{steps} steps of {name}'}[what]
        _compare(ctx, f'probe:sw:{S.name}:{what}', f'ShallowWaterEquations.{label} ({S.tag()}, {gname})', inp,
                 ref[what], got[what], S, worst)


# --------------------------------------------------------------------------
# (c') the property on PADDED layouts of FastSphericalHarmonics (base_shape_multiple > 1)
#
# With `base_shape_multiple = b` the nodal arrays are padded to multiples of (b, b) and the modal arrays to multiples of
# (2 b, b): rows / columns appended after the last real longitude / latitude / wavenumber, which the transforms ignore
# (zero rows of `basis.f`, zero weights, zero Legendre values).  np.roll / a flip of such a nodal array is NOT the
# symmetry, so here the symmetry acts on the MODAL state only (`PadSym`): the rotation by the REAL number of
# longitudes on the real (cos, sin) rows, the sign (-1)^(l+m) on the real entries; padding untouched.


class PadSym:
  """the two symmetries as modal actions on a (possibly padded) fast layout, from the documented layout only
  (rows 2m, 2m+1 = cos / sin of wavenumber m < M, column l < L; everything else is padding)."""

  def __init__(self, grid, k):
    assert _is_fast(grid)
    self.grid, self.k = grid, k
    self.eps = -1.0 if k is None else 1.0
    self.name = 'mirror' if k is None else 'rot'
    self.M, self.L = grid.longitude_wavenumbers, grid.total_wavenumbers
    self.N, self.J = grid.longitude_nodes, grid.latitude_nodes      # REAL node counts, never the padded ones
    self.identity = (k is not None) and (k % max(self.N, 1) == 0)
    rows, cols = grid.modal_shape
    i, j = np.arange(rows)[:, None], np.arange(cols)[None, :]
    real = (i < 2 * self.M) & (j < self.L)
    self._sign = np.where(real & (((i // 2) + j) % 2 == 1), -1.0, 1.0)

  def tag(self):
    return 'mirror' if self.k is None else f'rot{self.k}'

  def modal(self, x):
    x = np.asarray(x, dtype=float)
    if self.k is None:
      return x * self._sign
    out = x.copy()
    L = self.L
    for m in range(1, self.M):
      ang = 2 * np.pi * ((m * self.k) % self.N) / self.N
      c, s = np.cos(ang), np.sin(ang)
      out[..., 2 * m, :L] = c * x[..., 2 * m, :L] - s * x[..., 2 * m + 1, :L]
      out[..., 2 * m + 1, :L] = s * x[..., 2 * m, :L] + c * x[..., 2 * m + 1, :L]
    return out

  def modal_odd(self, x):
    return self.eps * self.modal(x)

  def nodal_real_block(self, z):
    """the nodal action on the block of REAL nodes [:N, :J]; the padding rows / columns stay where they are"""
    z = np.asarray(z, dtype=float)
    out = z.copy()
    N, J = self.N, self.J
    if self.k is None:
      out[..., :J] = z[..., :J][..., ::-1]
    else:
      out[..., :N, :] = np.roll(z[..., :N, :], self.k, axis=-2)
    return out


# (M, dealiasing, base_shape_multiple, latitude spacing); nodal = (N, J) -> multiples of (b, b), modal = (2M, L) ->
# multiples of (2b, b).  The paddings are recomputed from the real Grid and recorded in every probe input.
PAD_TABLE_QUICK = [
    (8, 'quadratic', 5, 'gauss'),        # (25, 13) -> (25, 15); (16, 9) -> (20, 10): latitude only (+ modal)
    (10, 'quadratic', 4, 'gauss'),       # (31, 16) -> (32, 16); (20, 11) -> (24, 12): longitude only (+ modal)
    (5, 'quadratic', 5, 'gauss'),        # (16, 8) -> (20, 10); (10, 6) -> (10, 10)
    (7, 'quadratic', 4, 'gauss'),        # (22, 11) -> (24, 12); (14, 8) -> (16, 8)
    (7, 'quadratic', 5, 'equiangular'),  # (22, 11) -> (25, 15); (14, 8) -> (20, 10)
    (8, 'quadratic', 8, 'gauss'),        # (25, 13) -> (32, 16); (16, 9) -> (16, 16)
    (6, 'linear', 4, 'gauss'),           # (13, 7) -> (16, 8); (12, 7) -> (16, 8)
    (5, 'cubic', 8, 'gauss'),            # (21, 11) -> (24, 16); (10, 6) -> (16, 8)
]
PAD_TABLE_THOROUGH = [
    (5, 'quadratic', 4, 'gauss'),        # (16, 8) unpadded; (10, 6) -> (16, 8): modal axes only
    (8, 'quadratic', 5, 'equiangular'),
    (10, 'quadratic', 8, 'gauss'),       # (31, 16) -> (32, 16); (20, 11) -> (32, 16)
]
# the layouts of the seeded regressions: Grid.T21 / with_wavenumbers(22) with base 5 / 8
PAD_TABLE_LARGE = [(22, 23, 64, 32, 5), (22, 23, 67, 34, 8), (22, 23, 64, 32, 8)]


def _pad_info(g):
  return dict(base_shape_multiple=getattr(g.spherical_harmonics, 'base_shape_multiple', None),
              nodes=[g.longitude_nodes, g.latitude_nodes], nodal_shape=list(g.nodal_shape),
              nodal_padding=list(g.nodal_padding), modal_limits=[2 * g.longitude_wavenumbers, g.total_wavenumbers],
              modal_shape=list(g.modal_shape), modal_padding=list(g.modal_padding))


def _pad_actions_agree(ctx, E, g, worst):
  """`PadSym` against the nodal actions: on an unpadded grid the harness' roll / flip (`Sym.nodal`, the actions of
  sections (a) - (c)); on a padded grid the same permutation of the block of real nodes.  Both directions."""
  rng, J_ = ctx.rng, E.jnp.asarray
  gname = _gname(g)
  padded = any(g.nodal_padding) or any(g.modal_padding)
  keep = _keep(g)
  x = rng.standard_normal((2,) + g.modal_shape) * keep
  z = rng.standard_normal((2,) + g.nodal_shape)
  N = g.longitude_nodes
  for k in [1, int(rng.integers(2, max(N, 3))), N + 3, None]:
    P = PadSym(g, k)
    inp = dict(_pad_info(g), grid=gname, sym=P.tag())
    ctx.case(('pad-action', gname, P.tag(), x.tobytes()), nontrivial=True)
    with ctx.impl('probe:pad:action:raises', inp):
      nod = P.nodal_real_block
      if not padded:
        S = Sym(g, k)
        nod = S.nodal
        d0 = _rel(P.modal(x), S.modal(x))
        ctx.expect(d0 <= 1e-15, 'probe:pad:action-vs-harness', f'PadSym.modal differs from Sym.modal on the unpadded '
                   f'{gname} ({P.tag()}): {d0:.3e}', inp)
      # restricted to the real nodes: the padding of `to_nodal(x)` is zero and that of `z` is ignored by `to_modal`
      d1 = _rel(np.asarray(g.to_nodal(J_(P.modal(x)))), nod(np.asarray(g.to_nodal(J_(x)))))
      d2 = _rel(np.asarray(g.to_modal(J_(nod(z)))) * keep, P.modal(np.asarray(g.to_modal(J_(z))) * keep))
      worst[0] = max(worst[0], d1, d2)
      what = 'roll / flip of the nodal array' if not padded else 'roll / flip of the block of real nodes'
      ctx.expect(d1 <= HYP_TOL, 'probe:pad:action-vs-nodal', f'to_nodal(modal action) differs from the {what} of '
                 f'to_nodal on {gname} ({P.tag()}): {d1:.3e}', inp)
      ctx.expect(d2 <= HYP_TOL, 'probe:pad:action-vs-nodal', f'to_modal({what}) differs from the modal action of '
                 f'to_modal on {gname} ({P.tag()}): {d2:.3e}', inp)


def _masked(grid, leaves):
  m = np.asarray(grid.mask, dtype=float)
  return {k: (v if k == 'sim_time' else np.asarray(v, dtype=float) * m) for k, v in leaves.items()}


def _pad_run(E, eq, s0, s1, name, dt, alpha, filters, steps, leaves):
  ti = E.ti
  res = dict(explicit=leaves(eq.explicit_terms(s0)), implicit=leaves(eq.implicit_terms(s0)),
             inverse=leaves(eq.implicit_inverse(s0, dt)))
  if name == 'leapfrog':
    u = (s0, s1)
    step = ti.step_with_filters(ti.semi_implicit_leapfrog(eq, dt, alpha), filters)
  else:
    u = s0
    step = ti.step_with_filters(E.INT[name](eq, dt), filters)
  for _ in range(steps):
    u = step(u)
  res['trajectory'] = leaves(u[1] if name == 'leapfrog' else u)
  return res


def _pad_config(ctx, E, grid, syms, fam, ci, worst, cls='dry', layers=1, orography=True, name='sil3', stack=()):
  """one equation object on one padded grid: reference run, then one run per symmetry on the transformed data"""
  rng, jnp = ctx.rng, E.jnp
  steps = ctx.n(3, 6)
  gname = _gname(grid)
  leap = name == 'leapfrog'
  dt = float(rng.choice([0.005, 0.01]))
  alpha = float(rng.choice([0.5, 0.7]))
  filters = _filters(E, grid, dt, list(stack), leap, rng)
  pert = 1 + 0.01 * rng.standard_normal(3)
  if fam == 'sw':
    mk, oro, st, info = _sw_setup(ctx, E, grid, layers, orography)
    clsname, leaves, key0 = 'ShallowWaterEquations', _sw_leaves, 'probe:pad:sw'

    def state(S, scale=(1, 1, 1)):
      od = (lambda v: v) if S is None else S.modal_odd
      ev = (lambda v: v) if S is None else S.modal
      return E.sw.State(vorticity=jnp.asarray(od(st[0] * scale[0])), divergence=jnp.asarray(ev(st[1] * scale[1])),
                        potential=jnp.asarray(ev(st[2] * scale[2])))
  else:
    mk, oro, kw, info = _pe_setup(ctx, E, grid, layers, cls, str(rng.choice(['uneven', 'equidistant'])),
                                  amp=float(rng.choice([0.3, 1.0])))
    if not orography:
      oro = np.zeros_like(oro)
    info = dict(info, orography=orography)
    clsname, leaves, key0 = E.CL[cls].__name__, _leaves, f'probe:pad:{cls}'
    t0 = float(rng.choice([0.0, rng.uniform(0.5, 50.0)]))
    kw1 = dict(kw)
    for f, a in zip(('vorticity', 'divergence', 'temperature_variation'), pert):
      kw1[f] = kw[f] * a

    def state(S, scale=None):
      return _mk_state(E, cls, kw if scale is None else kw1, t0 if scale is None else t0 + dt, S)

  inp0 = dict(info, **_pad_info(grid), config=f'pad{ci}', grid=gname, integrator=name, filters=list(stack), dt=dt,
              alpha=alpha if leap else None, seed=ctx.seed, steps=steps)
  for k_ in (f'probe-pad-class={fam if fam == "sw" else cls}', f'probe-pad-integrator={name}', f'probe-pad-grid={gname}',
             f'probe-pad-layers={layers}', f'probe-pad-orography={orography}',
             f'probe-pad-filters={"+".join(stack) or "none"}'):
    ctx.dist[k_] += 1

  def run(S):
    eq = mk(None if oro is None else (oro if S is None else S.modal(oro)))
    return _pad_run(E, eq, state(S), state(S, pert) if leap else None, name, dt, alpha, filters, steps, leaves)

  ref = None
  with ctx.impl(key0 + ':raises', inp0):
    ref = run(None)
  if ref is None:
    return
  # the reference run must not be trivial on the resolved coefficients (a vanishing tendency would compare 0 with 0)
  live = all(max(float(np.abs(v).max(initial=0.0)) for k, v in _masked(grid, ref[w]).items() if k != 'sim_time') > 0
             for w in ('explicit', 'implicit', 'inverse', 'trajectory'))
  for S in syms:
    inp = dict(inp0, sym=S.tag())
    ctx.dist[f'probe-pad-sym={S.name}'] += 1
    got = None
    with ctx.impl(f'{key0}:{S.name}:raises', inp):
      got = run(S)
    if got is None:
      continue
    for what in ('explicit', 'implicit', 'inverse', 'trajectory'):
      ctx.case((key0, ci, gname, S.tag(), what, ctx.seed), nontrivial=(not S.identity) and live,
               sample=inp if (what == 'explicit' and S.k is None and fam == 'sw') else None)
      label = {'explicit': 'explicit_terms', 'implicit': 'implicit_terms', 'inverse': 'implicit_inverse',
               'trajectory': f'{steps} steps of {name}'}[what]
      _compare(ctx, f'{key0}:{S.name}:{what}', f'{clsname}.{label} ({S.tag()}, padded {gname})', inp,
               _masked(grid, ref[what]), _masked(grid, got[what]), S, worst)


def _probes_padded(ctx, E, worst):
  rng, seed = ctx.rng, ctx.seed
  # the modal actions are the symmetry of sections (a) - (c): checked against roll / flip on an UNPADDED fast grid
  M0, deal0 = [(5, 'quadratic'), (7, 'quadratic'), (6, 'linear')][seed % 3]
  _pad_actions_agree(ctx, E, E.std_grid(M0, deal0, 'gauss', 'fast'), worst)
  table = list(PAD_TABLE_QUICK) + ([] if ctx.quick else list(PAD_TABLE_THOROUGH))
  grids = [E.std_grid(M, deal, spacing, 'fast', base=b) for (M, deal, b, spacing) in table]
  if not ctx.quick:
    grids += [E.grid(M, L, N, J, 'gauss', 'fast', base=b) for (M, L, N, J, b) in PAD_TABLE_LARGE]
  lat = [g for g in grids if g.nodal_padding[1] > 0]
  lon = [g for g in grids if g.nodal_padding[0] > 0]
  for g in grids:   # the table is what its comments say: every grid is padded somewhere, all three kinds occur
    assert any(g.nodal_padding) or any(g.modal_padding), _gname(g)
  assert lat and lon and any(g.modal_padding[0] for g in grids) and any(g.modal_padding[1] for g in grids)
  if ctx.quick:
    g_mir = lat[seed % len(lat)]
    g_rot = [g for g in lon if g is not g_mir][seed % (len(lon) - 1)]
    chosen = [(g_mir, 'mirror'), (g_rot, 'rot')]
  else:
    chosen = [(g, 'both') for g in grids]
  sw_int = ['sil3', 'leapfrog', 'rk3', 'cnrk2', 'bfe', 'rk4']
  pe_int = ['rk4', 'leapfrog', 'cnrk2', 'bfe', 'sil3', 'rk3']
  ci = 0
  for gi, (g, role) in enumerate(chosen):
    _pad_actions_agree(ctx, E, g, worst)
    N = g.longitude_nodes
    ks = [k for k in _ks(rng, N) if k % N != 0]
    if ctx.quick:   # the symmetry whose axis is padded, always; the other one on one of the two equation families
      rot = [PadSym(g, ks[(seed + gi) % len(ks)])]
      mir = [PadSym(g, None)]
      syms_sw = (mir if role == 'mirror' else rot) + ((rot if role == 'mirror' else mir) if (seed + gi) % 2 == 0 else [])
      syms_pe = (mir if role == 'mirror' else rot) + ((rot if role == 'mirror' else mir) if (seed + gi) % 2 == 1 else [])
    else:
      syms_sw = syms_pe = [PadSym(g, k) for k in ks[:3]] + [PadSym(g, None)]
    big = g.longitude_wavenumbers > 12
    # shallow water: 1 - 2 layers, with and without orography (both over the two grids of a quick run)
    sw_confs = [((seed + gi) % 2 + 1, bool((seed + gi + 1) % 2))] if (ctx.quick or big) else [(1, True), (2, False), (2, True)]
    for (n, with_oro) in sw_confs:
      name = sw_int[(ci + seed) % len(sw_int)]
      stack = ((['ra'], ['exp', 'ra'], [])[ci % 3] if name == 'leapfrog' else ([], ['exp'], ['diff'])[ci % 3])
      _pad_config(ctx, E, g, syms_sw, 'sw', ci, worst, layers=n, orography=with_oro, name=name, stack=stack)
      ci += 1
    pe_confs = [('dry', 1 + (seed + gi) % 3)] if ctx.quick else ([('dry', 2)] if big else [('dry', 3), ('moist', 2)])
    for (cls, n) in pe_confs:
      name = pe_int[(ci + seed) % len(pe_int)]
      stack = ((['ra'], [])[ci % 2] if name == 'leapfrog' else ([], ['exp'])[ci % 2])
      _pad_config(ctx, E, g, syms_pe, 'pe', ci, worst, cls=cls, layers=n, orography=bool((ci + seed) % 3), name=name,
                  stack=stack)
      ci += 1


# --------------------------------------------------------------------------

LEAN_FILES = ['Dino/Symmetry.lean', 'Dino/SymmetryDrv.lean'] + [
    f'DinoProofs/Lemmas/{n}.lean' for n in (
        'Symmetry', 'SymmetryDyn', 'SymmetryPE', 'SymmetryMoist', 'SymmetrySW', 'SymmetryImex', 'SymmetryTraj',
        'SymmetrySH', 'SymmetryOps', 'SymmetryRot', 'SymmetryRotReal', 'SymmetryRotFast', 'SymmetryMirror',
        'SymmetryFilter')]


def _symmetry_imports():
  """every DinoProofs/Lemmas/Symmetry*.lean module that Properties/C10.lean imports, transitively: whatever the
  property module pulls in is audited for forbidden constructs (no file list to keep in step, no existence guard:
  an imported module that is missing is a build break)."""
  seen, todo = [], ['DinoProofs/Properties/C10.lean']
  while todo:
    f = todo.pop()
    src = common.strip_lean_comments(open(os.path.join(common.LEAN, f)).read())
    for m in re.findall(r'^import (DinoProofs\.Lemmas\.Symmetry\w*)\s*$', src, re.M):
      g = m.replace('.', '/') + '.lean'
      if g not in seen:
        seen.append(g)
        todo.append(g)
  return seen


def run(ctx: common.Ctx):
  E = _Env()
  extra = LEAN_FILES + [f for f in _symmetry_imports() if f not in LEAN_FILES]
  ctx.lean('DinoProofs.Properties.C10', 'C10.txt', extra_files=extra)
  ctx.assumptions += [
      'T10.1 is about the abstract models Dino.Dynamics / Dino.DynamicsSW / Dino.Imex / Dino.Invariants; their '
      'correspondence with the real classes is checked by C04, C05, C06, C11',
      'the hypotheses Symmetry.Equivariant of T10.1 are proved operation by operation for the list model (T10.2, '
      'T10.3) and validated on the real Grid on every run (section (b)); the abstract carriers M, N are not '
      'instantiated with the list model inside Lean',
      'cos / sin tables and the Legendre nodes / weights are external: TrigTable, SymNodes, SymWeights are hypotheses '
      'of T10.2 / T10.3, validated on every run on the arrays the real Grid computed',
      'float rounding is outside the theorems (thresholds 1e-9 / 1e-10, measured rounding <= 2e-13)',
      'rot_latitude_derivatives_commute has two hypotheses: the derivative recurrence weights of the two rows of every '
      '(cos, sin) pair m >= 1 are equal (validated exactly on _derivative_recurrence_weights of every grid, key '
      'hyp:weights-equal-on-pairs) and sn 0 = 0 (a field of TrigTable, which the real sine satisfies: '
      'trig_tables_exist), so that the unrotated (+0, -0) pair of the fast layout stays put',
      'padding: the fast-basis statements are proved with padding of the axes the symmetry does NOT act on (rotation: '
      'longitude-node padding 0; mirror: latitude-node padding 0): np.roll / a flip of a padded nodal axis is not the '
      'symmetry; the probes of (c) use unpadded nodal layouts, those on padded layouts (section c-prime, any axis '
      'padded) apply the symmetry to the modal state only (PadSym), which is checked against roll / flip on an '
      'unpadded grid and against the permutation of the block of real nodes on the padded ones (key '
      'probe:pad:action-vs-nodal)',
      'hdiv (rho_N (a / b) = rho_N a / rho_N b) and the algebra-homomorphism part of rho_N are hypotheses of every '
      'moist / cloud statement and of pe_trajectory_equivariant: validated exactly (bit for bit) for roll and flip in '
      'section (b), keys hyp:hdiv, hyp:rhoN-mul, hyp:rhoN-one',
      'filters along trajectories: HistRel / lfRel ask for conjugated filters; for leaf-wise multipliers commuting with '
      'rho_M this is proved for one-state schemes and for leapfrog runs (with Robert-Asselin filters of any strength), '
      'primitive-equation classes and shallow water (C10.spectral_filter_conjugated, sw_spectral_filter_conjugated, '
      'leapfrog_spectral_filters_related, pe_/sw_trajectory_equivariant_spectral_filters, '
      'pe_/sw_leapfrog_equivariant_spectral_filters); that the real '
      'exponential / diffusion filters commute with rho_M is validated in section (b) (hyp:filter-commutes) and proved '
      'for the list model only (rot_lMul_commutes, mirror_dDlon_lMul_commute)',
      'Equivariant.lproj is a model device (projection on one total wavenumber, used by implicit_inverse) with no '
      'real counterpart: NOT validated on the real Grid; covered by the list-model rot_lMul_commutes']
  _corr(ctx, E)
  _hypotheses(ctx, E)
  worst = [0.0]
  _probes(ctx, E, worst)
  _probes_sw(ctx, E, worst)
  worst_pad = [0.0]
  _probes_padded(ctx, E, worst_pad)
  ctx.notes.append(f'(c) probes on padded fast layouts: worst relative defect {worst_pad[0]:.2e} (threshold {TOL:.0e})')
  ctx.notes.append(f'(c) probes: worst relative defect of equivariance on the real code {worst[0]:.2e} (threshold {TOL:.0e})')
  if not ctx.quick:
    ctx.leanchecker(['DinoProofs.Properties.C10'])
  return ctx.finish(RULE, 'theorems are about the Lean models; float rounding is outside the theorems')
