#!/bin/sh
# register.sh <token|-> <RunNamespace|-> <Dino imports, comma sep|-> <DinoProofs imports|-> [DinoGen imports]
cd "$(dirname "$0")/../lean"
if [ "$1" != "-" ] && ! grep -q "\"$1\" ::" Main.lean; then
  sed -i "s/    | _ => none/    | \"$1\" :: rest => $2.run rest\n    | _ => none/" Main.lean
fi
add() { f=$1; shift; for m in $(echo "$1" | tr ',' ' '); do grep -qx "import $m" $f || echo "import $m" >> $f; done; }
[ "$3" != "-" ] && add Dino.lean "$3"
[ "$4" != "-" ] && add DinoProofs.lean "$4"
[ -n "$5" ] && add DinoGen.lean "$5"
tail -3 Main.lean >/dev/null; grep -n '::' Main.lean
