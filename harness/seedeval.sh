#!/bin/sh
# seedeval.sh <slot> <Cxx> <k> <check ids...> : like seedrun.sh, but in evaluation slot <slot>
# (scratch worktree /tmp/wt/own<slot>, private lake project work/eval<slot>/lean), so that several
# seeded changes can be evaluated at the same time without sharing DinoGen or the lean lock.
set -e
here="$(cd "$(dirname "$0")/.." && pwd)"
s=$1; p=$2; k=$3; shift 3
src=/tmp/seeds/$p/seed_$k
wt=/tmp/wt/own$s
export DINO_LEAN_DIR="$here/work/eval$s/lean"
git -C $wt checkout -q -- .
/venv/bin/python "$here/harness/seedtest.py" "$src" $wt "$@" > "$src/result.json"
/venv/bin/python "$here/harness/seedimport.py" "$src" "$p-$k" "$src/result.json"
# restore the unchanged-tree generated files in the slot's lake project
rm -rf "$DINO_LEAN_DIR/DinoGen" && cp -r "$here/lean/DinoGen" "$DINO_LEAN_DIR/DinoGen"
