#!/bin/sh
# merge_staging.sh Cxx : copy a builder's staged Lean sources into lean/ and show its REGISTER.txt
set -e
here="$(cd "$(dirname "$0")/.." && pwd)"
src="$here/staging/$1"
for d in Dino DinoProofs DinoGen index; do
  [ -d "$src/$d" ] && rsync -a "$src/$d/" "$here/lean/$d/"
done
echo "--- REGISTER.txt"; cat "$src/REGISTER.txt" 2>/dev/null || true
