#!/venv/bin/python
"""Entry point: check.py Cxx [--tier quick|thorough] [--replay file]."""
import os
import sys
sys.path.insert(0, os.path.dirname(os.path.abspath(__file__)))
import common
if __name__ == '__main__':
  sys.exit(common.main())
