"""Generators and small helpers shared by the property modules."""
from __future__ import annotations

import itertools
import numpy as np


def random_boundaries(rng, n=None, kind=None):
  """Admissible sigma boundaries with n layers: equidistant, mildly or strongly uneven."""
  if n is None:
    n = int(rng.choice([1, 2, 3, 4, 5, 6, 8, 12]))
  if kind is None:
    kind = rng.choice(['equidistant', 'uneven', 'strongly-uneven', 'refined-bottom'])
  if kind == 'equidistant' or n == 1:
    b = np.linspace(0, 1, n + 1)
  elif kind == 'uneven':
    d = rng.uniform(0.5, 1.5, n)
    b = np.concatenate([[0], np.cumsum(d) / d.sum()])
  elif kind == 'strongly-uneven':
    d = np.exp(rng.uniform(-3, 3, n))
    b = np.concatenate([[0], np.cumsum(d) / d.sum()])
  else:
    b = np.linspace(0, 1, n + 1) ** 0.5
  b[0], b[-1] = 0.0, 1.0
  return b, str(kind)


def columns(a, axis):
  """Iterate over 1-D columns of `a` along `axis` -> (index tuple, column)."""
  a = np.asarray(a)
  a = np.moveaxis(a, axis, 0)
  for idx in itertools.product(*[range(s) for s in a.shape[1:]]):
    yield idx, a[(slice(None),) + idx]


def from_columns(cols, shape_rest, axis, ndim):
  """Inverse of `columns`: cols is list of 1-D arrays in iteration order."""
  m = len(cols[0]) if cols else 0
  out = np.zeros((m,) + tuple(shape_rest))
  for idx, c in zip(itertools.product(*[range(s) for s in shape_rest]), cols):
    out[(slice(None),) + idx] = c
  return np.moveaxis(out, 0, axis)


def relerr(a, b):
  a = np.asarray(a, dtype=float)
  b = np.asarray(b, dtype=float)
  if a.shape != b.shape:
    return np.inf
  if a.size == 0:
    return 0.0
  if not (np.isfinite(a).all() and np.isfinite(b).all()):
    return np.inf
  scale = max(np.abs(a).max(), np.abs(b).max())
  return 0.0 if scale == 0 else float(np.abs(a - b).max() / scale)
