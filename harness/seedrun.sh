#!/bin/sh
# seedrun.sh <Cxx> <k> <check ids...> : confirm a seeded change from /tmp/seeds/Cxx/seed_k in the scratch
# worktree ${SEED_WT:-/tmp/wt/own}, run the given checks against it, and import it as /verif/seeded/Cxx-k
set -e
here="$(cd "$(dirname "$0")/.." && pwd)"
p=$1; k=$2; shift 2
src=/tmp/seeds/$p/seed_$k
git -C ${SEED_WT:-/tmp/wt/own} checkout -q -- . 
/venv/bin/python "$here/harness/seedtest.py" "$src" ${SEED_WT:-/tmp/wt/own} "$@" > "$src/result.json"
/venv/bin/python "$here/harness/seedimport.py" "$src" "$p-$k" "$src/result.json"
# the translators rewrote lean/DinoGen from the seeded worktree: restore the committed (unchanged-tree) copies
git -C "$here" checkout -q -- lean/DinoGen
