"""Shared machinery of the dinosaur verification harness.

Run with /venv/bin/python (imports /repo's `dinosaur`).  See DESIGN.md section 4
for the verdict logic implemented by `Ctx.finish`.
"""
from __future__ import annotations

import collections
import contextlib
import fcntl
import hashlib
import json
import os
import re
import struct
import subprocess
import sys
import time
import traceback

VERIF = os.path.dirname(os.path.dirname(os.path.abspath(__file__)))
LEAN = os.environ.get('DINO_LEAN_DIR') or os.path.join(VERIF, 'lean')
WORK = os.path.join(VERIF, 'work')
EVID = os.environ.get('VERIF_EVIDENCE_DIR') or os.path.join(VERIF, 'evidence')   # override: seeded-change runs only
REPO = os.environ.get('DINOSAUR_REPO', '/repo')
DRV = os.path.join(LEAN, '.lake', 'build', 'bin', 'dinodrv')
ALLOWED_AXIOMS = {'propext', 'Classical.choice', 'Quot.sound'}
FORBIDDEN = re.compile(
    r'\b(sorry|admit|native_decide|bv_decide|implemented_by|unsafe)\b'
    r'|^\s*axiom\s|maxHeartbeats\s+0\b', re.M)

TRUSTED_BASE = [
    'Lean 4.33.0 kernel',
    'Mathlib v4.33.0 (library of kernel-checked lemmas)',
    'axioms: propext, Classical.choice, Quot.sound only (audited by #print axioms on every run)',
    'no sorry / admit / native_decide / bv_decide / own axioms (source audit on every run)',
    'Python correspondence harness and translators under /verif/harness',
    'Lean Float runtime (C libm) for executing the model in the correspondence check only',
]


# `#sig thm` prints a hash of the STATEMENT of `thm` together with the types and bodies of every constant of the `Dino`
# namespace (model functions, predicates such as `Dom`, `Shaped`, `IotaRel`, structures and their constructors) that the
# statement reaches transitively; Mathlib / core constants and the generated `DinoGen` tables are not followed.  The
# pairs (name, hash) are sorted by name before mixing, so the result does not depend on traversal order.
SIG_ELAB = r"""elab "#sig " id:ident : command => do
  let c ← liftCoreM <| realizeGlobalConstNoOverloadWithInfo id
  let env ← getEnv
  let some info := env.find? c | throwError "unknown constant"
  let mut seen : NameSet := {}
  let mut todo : Array Name := info.type.getUsedConstants
  let mut parts : Array (String × UInt64) := #[]
  while !todo.isEmpty do
    let n := todo.back!
    todo := todo.pop
    if seen.contains n then continue
    seen := seen.insert n
    if n.getRoot == `Dino then
      if let some ci := env.find? n then
        let mut h : UInt64 := hash ci.type
        todo := todo ++ ci.type.getUsedConstants
        match ci with
        | .defnInfo d =>
          h := mixHash h (hash d.value)
          todo := todo ++ d.value.getUsedConstants
        | .inductInfo i =>
          for ctor in i.ctors do todo := todo.push ctor
        | _ => pure ()
        parts := parts.push (n.toString, h)
  let sorted := parts.qsort (fun a b => a.1 < b.1)
  let mut h : UInt64 := hash info.type
  for p in sorted do h := mixHash h (mixHash (hash p.1) p.2)
  logInfo m!"SIG {c} {h}"
"""


class Infra(Exception):
  """Infrastructure failure: exit 2, never a VIOLATION line."""


# --------------------------------------------------------------------------
# encodings shared with lean/Dino/Util.lean


def fbits(x) -> str:
  """float -> decimal value of its IEEE-754 bit pattern."""
  return str(struct.unpack('<Q', struct.pack('<d', float(x)))[0])


def unfbits(s: str) -> float:
  return struct.unpack('<d', struct.pack('<Q', int(s)))[0]


def fvec(xs) -> str:
  xs = list(xs)
  return ','.join(fbits(x) for x in xs) if xs else '_'


def unfvec(s: str):
  return [] if s == '_' else [unfbits(t) for t in s.split(',')]


def fmat(rows) -> str:
  rows = list(rows)
  return ';'.join(fvec(r) for r in rows) if rows else '_'


def unfmat(s: str):
  return [] if s == '_' else [unfvec(t) for t in s.split(';')]


def qstr(fr) -> str:
  """Fraction/int -> 'p/q'."""
  from fractions import Fraction
  fr = Fraction(fr)
  return str(fr.numerator) if fr.denominator == 1 else f'{fr.numerator}/{fr.denominator}'


def qvec(xs) -> str:
  xs = list(xs)
  return ','.join(qstr(x) for x in xs) if xs else '_'


def unqvec(s: str):
  from fractions import Fraction
  return [] if s == '_' else [Fraction(t) for t in s.split(',')]


def qmat(rows) -> str:
  rows = list(rows)
  return ';'.join(qvec(r) for r in rows) if rows else '_'


def unqmat(s: str):
  return [] if s == '_' else [unqvec(t) for t in s.split(';')]


def ivec(xs) -> str:
  xs = list(xs)
  return ','.join(str(int(x)) for x in xs) if xs else '_'


def univec(s: str):
  return [] if s == '_' else [int(t) for t in s.split(',')]


# --------------------------------------------------------------------------


@contextlib.contextmanager
def lean_lock():
  os.makedirs(WORK, exist_ok=True)
  with open(os.path.join(WORK, 'lean_' + hashlib.sha1(LEAN.encode()).hexdigest()[:8] + '.lock'), 'w') as f:
    fcntl.flock(f, fcntl.LOCK_EX)
    try:
      yield
    finally:
      fcntl.flock(f, fcntl.LOCK_UN)


def sh(cmd, cwd=None, timeout=3600, inp=None):
  p = subprocess.run(cmd, cwd=cwd, input=inp, capture_output=True, text=True,
                     timeout=timeout)
  return p.returncode, p.stdout, p.stderr


def write_if_changed(path, content) -> bool:
  try:
    if open(path).read() == content:
      return False
  except FileNotFoundError:
    pass
  os.makedirs(os.path.dirname(path), exist_ok=True)
  with open(path, 'w') as f:
    f.write(content)
  return True


def strip_lean_comments(src: str) -> str:
  # nested block comments
  out, depth, i, n = [], 0, 0, len(src)
  while i < n:
    if src.startswith('/-', i):
      depth += 1
      i += 2
    elif depth and src.startswith('-/', i):
      depth -= 1
      i += 2
    elif depth:
      if src[i] == '\n':
        out.append('\n')
      i += 1
    elif src.startswith('--', i):
      j = src.find('\n', i)
      i = n if j < 0 else j
    else:
      out.append(src[i])
      i += 1
  return ''.join(out)


def load_sigs(pid):
  """pinned statement hashes of the property theorems of `pid` (None when no .sig file is committed)."""
  p = os.path.join(LEAN, 'index', f'{pid}.sig')
  if not os.path.exists(p):
    return None
  return dict(l.split() for l in open(p) if l.strip() and not l.startswith('#'))


def load_known():
  with open(os.path.join(VERIF, 'known_findings.json')) as f:
    return json.load(f)


class Ctx:
  """State of one check run."""

  def __init__(self, pid: str, tier: str, seed: int):
    import numpy as np
    self.pid, self.tier, self.seed = pid, tier, seed
    self.quick = tier == 'quick'
    self.rng = np.random.default_rng(seed)
    self.t0 = time.time()
    self.obligations = []      # dict(name, kind, ok, detail)
    self.breaks = []           # dict(kind, name, detail, input)
    self.failures = []         # dict(key, what, input)  property fails on real code
    self.known_hits = []
    self.evaluations = 0
    self.traces = 0
    self.nontrivial = set()
    self.samples = []
    self.dist = collections.Counter()
    self.notes = []
    self.assumptions = []
    self.checker_cmds = []
    self.known = [k for k in load_known().get('findings', []) if k['property'] == pid]

  # ---- sizes ----
  def n(self, quick, thorough):
    return quick if self.quick else thorough

  # ---- Lean ----
  def lean_build(self, targets, what='proof'):
    """lake build; a failure is a broken obligation, not an infrastructure error."""
    cmd = ['lake', 'build'] + list(targets)
    self.checker_cmds.append('cd lean && ' + ' '.join(cmd))
    with lean_lock():
      rc, out, err = sh(cmd, cwd=LEAN, timeout=3000)
    if rc != 0:
      txt = out + err
      errs = re.findall(r'error: ([^\n]*)', txt)
      self.breaks.append(dict(kind=what, name=' '.join(targets),
                              detail='; '.join(errs[:6]) or txt[-800:], input=None))
      return False
    return True

  def audit(self, module: str, theorems, files, pin=False):
    """Source audit + `#print axioms` of every indexed theorem of `module`."""
    for f in files:
      src = strip_lean_comments(open(os.path.join(LEAN, f)).read())
      m = FORBIDDEN.search(src)
      if m:
        self.breaks.append(dict(kind='proof', name=f'forbidden construct in {f}',
                                detail=m.group(0).strip(), input=None))
    # `#sig` prints a structural hash of the elaborated STATEMENT (the type) of each theorem: compared with the hashes
    # pinned in lean/index/<pid>.sig (written by harness/pinsigs.py and committed), so that a theorem cannot be
    # weakened, or dropped together with its index line, without the check noticing
    body = (f'import {module}\nimport Lean\nopen Lean Elab Command in\n' + SIG_ELAB
            + ''.join(f'#sig {t}\n#print axioms {t}\n' for t in theorems))
    apath = os.path.join(WORK, f'Audit_{self.pid}.lean')
    write_if_changed(apath, body)
    self.checker_cmds.append(f'cd lean && lake env lean ../work/Audit_{self.pid}.lean')
    os.makedirs(WORK, exist_ok=True)
    with lean_lock():
      rc, out, err = sh(['lake', 'env', 'lean', apath], cwd=LEAN, timeout=1200)
    txt = out + err
    seen = {}
    for m in re.finditer(r"'([^']+)' (does not depend on any axioms|depends on axioms: \[([^\]]*)\])", txt):
      axs = set() if m.group(3) is None else {a.strip() for a in m.group(3).replace('\n', ' ').split(',')}
      seen[m.group(1)] = axs
    sigs = dict(re.findall(r'SIG (\S+) (\d+)', txt))
    self.sigs_seen = getattr(self, 'sigs_seen', {})
    self.sigs_seen.update(sigs)
    pinned = load_sigs(pin) if pin else None   # pin = name of the index (lean/index/<pin>.txt / .sig), set by Ctx.lean
    if pinned is not None:
      for t in sorted(set(pinned) - set(theorems)):
        self.breaks.append(dict(kind='proof', name=t, detail='theorem is pinned in the .sig file but no longer indexed '
                                '(dropped from lean/index)', input=None))
    for t in theorems:
      if pinned is not None and t in seen:
        if t not in pinned:
          self.breaks.append(dict(kind='proof', name=t, detail='indexed theorem has no pinned statement hash '
                                  '(run harness/pinsigs.py after reviewing the statement)', input=None))
        elif sigs.get(t) != pinned[t]:
          self.obligations.append(dict(name=t + ' [statement pinned]', kind='theorem', ok=False,
                                       detail=f'statement hash {sigs.get(t)} != pinned {pinned[t]}'))
          self.breaks.append(dict(kind='proof', name=t, detail='the STATEMENT of this theorem changed since it was pinned '
                                  f'(hash {sigs.get(t)} != {pinned[t]}): the property is no longer shown to hold in the '
                                  'reviewed form', input=None))
    for t in theorems:
      if t not in seen:
        self.obligations.append(dict(name=t, kind='theorem', ok=False, detail='not found / does not compile'))
        self.breaks.append(dict(kind='proof', name=t, detail='theorem missing or not compiling: ' + txt[-400:], input=None))
      elif not seen[t] <= ALLOWED_AXIOMS:
        self.obligations.append(dict(name=t, kind='theorem', ok=False, detail=f'axioms {sorted(seen[t])}'))
        self.breaks.append(dict(kind='proof', name=t, detail=f'uses axioms {sorted(seen[t] - ALLOWED_AXIOMS)}', input=None))
      else:
        self.obligations.append(dict(name=t, kind='theorem', ok=True, detail=','.join(sorted(seen[t])) or 'no axioms'))

  def lean(self, module: str, index_file: str, extra_files=(), gen_targets=()):
    """Build `module` (+driver), then audit every theorem named in the index."""
    idx = os.path.join(LEAN, 'index', index_file)
    theorems = [l.strip() for l in open(idx) if l.strip() and not l.startswith('#')]
    ok = self.lean_build(list(gen_targets) + [module, 'dinodrv'])
    files = [module.replace('.', '/') + '.lean'] + list(extra_files)
    if ok:
      self.audit(module, theorems, files, pin=os.path.splitext(index_file)[0])
    else:
      for t in theorems:
        self.obligations.append(dict(name=t, kind='theorem', ok=False, detail='module does not build'))
    return ok

  def leanchecker(self, modules):
    cmd = ['lake', 'env', 'leanchecker'] + list(modules)
    self.checker_cmds.append('cd lean && ' + ' '.join(cmd))
    with lean_lock():
      rc, out, err = sh(cmd, cwd=LEAN, timeout=3000)
    ok = rc == 0
    self.obligations.append(dict(name='leanchecker ' + ' '.join(modules), kind='recheck', ok=ok,
                                 detail=(out + err)[-300:]))
    if not ok:
      self.breaks.append(dict(kind='proof', name='leanchecker', detail=(out + err)[-600:], input=None))

  def model(self, lines):
    """Feed operation lines to the compiled Lean driver; one output line each."""
    if not lines:
      return []
    if not os.path.exists(DRV):
      if not self.lean_build(['dinodrv'], what='model'):
        raise Infra('model driver does not build')
    rc, out, err = sh([DRV], inp='\n'.join(lines) + '\n', timeout=3000)
    res = out.split('\n')
    if res and res[-1] == '':
      res.pop()
    if rc != 0 or len(res) != len(lines):
      raise Infra(f'model driver failed rc={rc} lines={len(lines)} out={len(res)} err={err[-400:]}')
    return res

  # ---- bookkeeping ----
  def case(self, key, nontrivial=True, sample=None, branch=None):
    self.evaluations += 1
    if nontrivial:
      self.nontrivial.add(hashlib.sha1(repr(key).encode()).hexdigest())
    if branch is not None:
      self.dist[branch] += 1
    if sample is not None and len(self.samples) < 10:
      self.samples.append(sample)

  def corr_mismatch(self, op, inp, impl, model, detail=''):
    self.breaks.append(dict(kind='correspondence', name=op,
                            detail=f'impl={_short(impl)} model={_short(model)} {detail}', input=inp))

  def corr_float(self, op, inp, impl, model, rtol=1e-9, atol=1e-12):
    import numpy as np
    a = np.asarray(impl, dtype=float).ravel()
    b = np.asarray(model, dtype=float).ravel()
    self.traces += 1
    if a.shape != b.shape:
      self.corr_mismatch(op, inp, list(a.shape), list(b.shape), 'shape')
      return False
    if a.size == 0:
      return True
    fa, fb = np.isfinite(a), np.isfinite(b)
    if not (fa == fb).all() or not ((np.isnan(a) == np.isnan(b)).all()):
      self.corr_mismatch(op, inp, a.tolist(), b.tolist(), 'finiteness')
      return False
    if fa.any():
      scale = np.abs(a[fa]).max()
      err = np.abs(a[fa] - b[fa]).max()
      if err > rtol * scale + atol:
        self.corr_mismatch(op, inp, a.tolist(), b.tolist(), f'err={err:.3e} scale={scale:.3e}')
        return False
    if not (a[~fa] == b[~fa])[~np.isnan(a[~fa])].all():
      self.corr_mismatch(op, inp, a.tolist(), b.tolist(), 'inf sign')
      return False
    return True

  def corr_exact(self, op, inp, impl, model):
    self.traces += 1
    if impl != model:
      self.corr_mismatch(op, inp, impl, model)
      return False
    return True

  def fail(self, key, what, inp):
    """The property fails on the real code at `inp` (structural `key` for known findings)."""
    for k in self.known:
      if k['key'] == key:
        if k not in self.known_hits:
          self.known_hits.append(k)
        return
    self.failures.append(dict(key=key, what=what, input=inp))

  @contextlib.contextmanager
  def impl(self, key, inp, what='implementation raised'):
    """Exceptions raised by the real code inside this block count as failures of the property."""
    try:
      yield
    except Infra:
      raise
    except Exception as e:  # pylint: disable=broad-except
      self.fail(key, f'{what}: {type(e).__name__}: {str(e)[:300]}', inp)

  def expect(self, ok, key, what, inp):
    if not ok:
      self.fail(key, what, inp)
    return ok

  def obligation(self, name, kind, ok, detail=''):
    self.obligations.append(dict(name=name, kind=kind, ok=bool(ok), detail=detail))
    if not ok:
      self.breaks.append(dict(kind=kind, name=name, detail=detail, input=None))

  # ---- verdict ----
  def finish(self, rule: str, level_note: str = ''):
    os.makedirs(EVID, exist_ok=True)
    os.makedirs(os.path.join(WORK, 'replay'), exist_ok=True)
    violation = None
    if self.failures:
      f = self.failures[0]
      violation = dict(kind='failing-input', **f, all_failures=self.failures[:20],
                       broken=self.breaks[:10])
    elif self.breaks:
      b = self.breaks[0]
      violation = dict(kind='no-failing-input-found', broken=self.breaks[:20],
                       what=f"{b['kind']} no longer checks: {b['name']}: {b['detail']}")
    n_obl = len(self.obligations)
    n_ok = sum(1 for o in self.obligations if o['ok'])
    self.notes.append('provenance: ' + _provenance())
    ev = dict(
        property_id=self.pid, tier=self.tier, seed=self.seed, level='proof',
        coverage=dict(
            obligations=n_obl, discharged=n_ok,
            checker_cmd=('cd lean && ' + ' && '.join(dict.fromkeys(c[len('cd lean && '):] if c.startswith('cd lean && ') else c
                                                             for c in self.checker_cmds))) if self.checker_cmds else 'cd lean && lake build',
            trusted_base=TRUSTED_BASE + self.assumptions,
            evaluations=self.evaluations, distinct_nontrivial=len(self.nontrivial),
            rule=rule, samples=self.samples[:10],
            traces_validated_against_impl=self.traces,
            input_distribution=dict(self.dist),
            obligation_list=[dict(name=o['name'], kind=o['kind'], ok=o['ok']) for o in self.obligations],
            known_findings_hit=[k['key'] for k in self.known_hits],
            notes=self.notes,
        ),
        assumptions=self.assumptions + ([level_note] if level_note else []),
        wall_s=round(time.time() - self.t0, 2),
        violations=(len(self.failures) or (1 if self.breaks else 0)),
    )
    with open(os.path.join(EVID, f'{self.pid}.json'), 'w') as f:
      json.dump(ev, f, indent=1, default=_jsonable)
    for k in self.known_hits:
      print(f"KNOWN-FINDING: property={self.pid} {k['key']}: {k['what']}")
    if violation is None:
      print(f'OK property={self.pid} tier={self.tier} seed={self.seed} obligations={n_ok}/{n_obl} '
            f'evaluations={self.evaluations} distinct_nontrivial={len(self.nontrivial)} '
            f'corr_traces={self.traces} wall={ev["wall_s"]}s')
      return 0
    rp = os.path.join(WORK, 'replay', f'{self.pid}_{self.tier}_{self.seed}.json')
    with open(rp, 'w') as f:
      json.dump(dict(property=self.pid, tier=self.tier, seed=self.seed, **violation), f,
                indent=1, default=_jsonable)
    tail = ' no-failing-input-found' if violation['kind'] == 'no-failing-input-found' else ''
    print(f"DETAIL {violation['what']}"[:1500])
    print(f'VIOLATION property={self.pid} replay={rp}{tail}')
    return 1


def _git(path, *args):
  try:
    p = subprocess.run(['git', '-C', path] + list(args), capture_output=True, text=True, timeout=20)
    return p.stdout.strip() if p.returncode == 0 else ''
  except Exception:  # pylint: disable=broad-except
    return ''


def _provenance():
  """which trees this run looked at: commit of /verif and of the checked repository, and whether either is dirty"""
  parts = []
  for name, path in (('verif', VERIF), ('repo', REPO)):
    head = _git(path, 'rev-parse', '--short', 'HEAD') or 'unknown'
    dirty = bool(_git(path, 'status', '--porcelain', '--untracked-files=no', '--', '.', ':!evidence', ':!lean/DinoGen'))
    parts.append(f'{name}={path}@{head}' + ('+uncommitted-changes' if dirty else ''))
  return ', '.join(parts) + time.strftime(', written %Y-%m-%dT%H:%M:%SZ', time.gmtime())


def _short(x, n=300):
  s = repr(x)
  return s if len(s) <= n else s[:n] + '…'


def _jsonable(o):
  import numpy as np
  from fractions import Fraction
  if isinstance(o, np.ndarray):
    return o.tolist()
  if isinstance(o, (np.floating, np.integer, np.bool_)):
    return o.item()
  if isinstance(o, Fraction):
    return qstr(o)
  if isinstance(o, (set, tuple)):
    return list(o)
  return repr(o)


def setup_jax(devices: int = 1):
  if devices > 1:
    os.environ['XLA_FLAGS'] = (os.environ.get('XLA_FLAGS', '') +
                               f' --xla_force_host_platform_device_count={devices}')
  os.environ.setdefault('JAX_PLATFORMS', 'cpu')
  import jax
  jax.config.update('jax_enable_x64', True)
  return jax


def main(argv=None):
  import argparse
  import importlib
  ap = argparse.ArgumentParser()
  ap.add_argument('pid')
  ap.add_argument('--tier', default=os.environ.get('VERIF_TIER', 'quick'), choices=['quick', 'thorough'])
  ap.add_argument('--replay', default=None)
  a = ap.parse_args(argv)
  seed = int(os.environ.get('VERIF_SEED', '0'))
  sys.path.insert(0, os.path.dirname(os.path.abspath(__file__)))
  if REPO not in sys.path:
    sys.path.insert(0, REPO)
  try:
    ctx = Ctx(a.pid, a.tier, seed)
    mod = importlib.import_module(f'props.{a.pid}')
    if a.replay:
      data = json.load(open(a.replay))
      rc = mod.replay(ctx, data) if hasattr(mod, 'replay') else _generic_replay(mod, ctx, data)
    else:
      rc = mod.run(ctx)
    sys.stdout.flush()
    return rc
  except Infra as e:
    print(f'INFRA-ERROR property={a.pid}: {e}')
    return 2
  except subprocess.TimeoutExpired as e:
    print(f'INFRA-ERROR property={a.pid}: timeout {e}')
    return 2
  except Exception:
    traceback.print_exc()
    print(f'INFRA-ERROR property={a.pid}: unexpected exception')
    return 2


def _generic_replay(mod, ctx, data):
  """Replays re-run the whole check with the recorded seed and tier."""
  ctx2 = Ctx(data['property'], data.get('tier', 'quick'), int(data.get('seed', 0)))
  return mod.run(ctx2)
