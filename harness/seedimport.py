#!/usr/bin/env python3
"""seedimport.py <seed_dir> <seed_id> <seedtest_result.json>: copies a confirmed seeded change to /verif/seeded/<id>/."""
import json, os, shutil, sys
VERIF = os.path.dirname(os.path.dirname(os.path.abspath(__file__)))
src, sid, resf = sys.argv[1:4]
dst = os.path.join(VERIF, 'seeded', sid)
os.makedirs(dst, exist_ok=True)
for f in ('patch.diff', 'demo.py'):
  shutil.copy(os.path.join(src, f), os.path.join(dst, f))
notes = json.load(open(os.path.join(src, 'notes.json')))
res = json.load(open(resf))
assert res['demo_clean_rc'] == 0 and res['demo_patched_rc'] != 0, 'demo not confirmed'
meta = dict(
    id=sid, property=notes.get('property'), summary=notes.get('summary'),
    needs_to_manifest=notes.get('needs_to_manifest'), author_tests_run=notes.get('tests_run'),
    confirmed=dict(demo_exit_clean=res['demo_clean_rc'], demo_exit_patched=res['demo_patched_rc'],
                   how='harness/seedtest.py: patch applied in a scratch worktree of /repo HEAD; demo run clean and patched; '
                       'checks run with DINOSAUR_REPO=<worktree>; worktree restored'),
    checks={c: dict(exit=v['rc'], lines=v['lines']) for c, v in res.get('checks', {}).items()},
    detected=any(v['rc'] == 1 for v in res.get('checks', {}).values()),
)
json.dump(meta, open(os.path.join(dst, 'meta.json'), 'w'), indent=1)
print(sid, 'detected' if meta['detected'] else 'MISSED')
