#!/usr/bin/env python3
"""Rewrites the table of DESIGN.md section 11.6 from seeded/*/meta.json (between the SEEDTABLE markers)."""
import glob, json, os, re
V = os.path.dirname(os.path.dirname(os.path.abspath(__file__)))
rows = []
for f in sorted(glob.glob(os.path.join(V, 'seeded', '*', 'meta.json'))):
  m = json.load(open(f))
  summ = re.sub(r'\s+', ' ', m.get('summary') or '').replace('|', '/')
  short = summ[:230] + ('…' if len(summ) > 230 else '')
  det = []
  for c, v in (m.get('checks') or {}).items():
    lines = v.get('lines') or []
    kind = 'no failing input' if any('no-failing-input-found' in l for l in lines) else 'failing input'
    det.append(f"{c}: {'exit 1, ' + kind if v.get('exit') == 1 else 'exit %s (not detected)' % v.get('exit')}")
  rows.append(f"| {m['id']} | {short} | {'; '.join(det)} |")
table = '| id | change (author\'s summary, truncated) | checks run against it |\n|----|--------|-----------|\n' + '\n'.join(rows)
p = os.path.join(V, 'DESIGN.md')
s = open(p).read()
a, b = '<!-- SEEDTABLE-BEGIN -->', '<!-- SEEDTABLE-END -->'
s = s[:s.index(a) + len(a)] + '\n' + table + '\n' + s[s.index(b):]
open(p, 'w').write(s)
print(len(rows), 'rows')
