#!/bin/sh
# mergefix.sh Cxx [Cyy ...] : merge staged Lean sources of the given properties, rebuild, re-pin statements, run 3 seeds
here="$(cd "$(dirname "$0")/.." && pwd)"; cd "$here"
for c in "$@"; do sh harness/merge_staging.sh $c >/dev/null; done
(cd lean && lake build 2>&1 | grep -v "^warning\|^Note\|^Hint\|^\s*$\|apply\]\|^✔\|^⚠\|omit\|consider\|^  " | tail -6)
/venv/bin/python harness/pinsigs.py "$@" 2>&1 | tail -n $#
for c in "$@"; do for s in 0 1 2; do VERIF_SEED=$s VERIF_EVIDENCE_DIR=$here/work/ev_tmp ./check $c quick | grep -v KNOWN | tail -1 | cut -c1-170; done; ./check $c quick | tail -1 | cut -c1-60; done
