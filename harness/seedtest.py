#!/usr/bin/env python3
"""Run registered checks against a seeded change in a scratch worktree of /repo.

usage: seedtest.py <seed_dir> <worktree> <Cxx> [<Cyy> ...] [--tier quick]
  seed_dir contains patch.diff and demo.py.  The patch is applied in <worktree> (a scratch git
  worktree of /repo, never /repo itself), the demo is confirmed (exit 0 clean, non-zero patched),
  each check is run with DINOSAUR_REPO=<worktree>, and the worktree is restored.
"""
import json
import os
import subprocess
import sys

VERIF = os.path.dirname(os.path.dirname(os.path.abspath(__file__)))


def sh(cmd, cwd=None, env=None, timeout=3600):
  p = subprocess.run(cmd, cwd=cwd, env=env, capture_output=True, text=True, timeout=timeout)
  return p.returncode, p.stdout + p.stderr


def main():
  args = [a for a in sys.argv[1:] if not a.startswith('--')]
  tier = 'quick'
  if '--tier' in sys.argv:
    tier = sys.argv[sys.argv.index('--tier') + 1]
    args.remove(tier)
  seed, wt, checks = os.path.abspath(args[0]), os.path.abspath(args[1]), args[2:]
  env = dict(os.environ, PYTHONPATH=wt, JAX_PLATFORMS='cpu')
  res = dict(seed=seed, worktree=wt, tier=tier)
  rc, out = sh(['git', 'status', '--porcelain', '--untracked-files=no'], cwd=wt)
  if out.strip():
    print('worktree not clean:', out)
    return 2
  demo = os.path.join(seed, 'demo.py')
  rc, out = sh(['/venv/bin/python', demo], cwd=wt, env=env)
  res['demo_clean_rc'] = rc
  rc, out = sh(['git', 'apply', os.path.join(seed, 'patch.diff')], cwd=wt)
  if rc != 0:
    print('patch does not apply:', out)
    return 2
  try:
    rc, out = sh(['/venv/bin/python', demo], cwd=wt, env=env)
    res['demo_patched_rc'] = rc
    res['demo_patched_tail'] = out[-400:]
    res['checks'] = {}
    for c in checks:
      cenv = dict(os.environ, DINOSAUR_REPO=wt, VERIF_EVIDENCE_DIR=os.path.join(VERIF, 'work', 'seed_evidence'))
      rc, out = sh([os.path.join(VERIF, 'check'), c, tier], cwd=VERIF, env=cenv)
      lines = [l for l in out.split('\n') if l.startswith(('VIOLATION', 'DETAIL', 'OK ', 'KNOWN', 'INFRA'))]
      res['checks'][c] = dict(rc=rc, lines=[l[:600] for l in lines[-4:]])
  finally:
    sh(['git', 'checkout', '--', '.'], cwd=wt)
  print(json.dumps(res, indent=1))
  return 0


if __name__ == '__main__':
  sys.exit(main())
