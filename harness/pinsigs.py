#!/venv/bin/python
"""pinsigs.py Cxx [Cyy ...] : (re)writes lean/index/Cxx.sig = structural hashes of the STATEMENTS of the indexed
property theorems, from the current build.  Run only after reviewing the statements; the file is committed and every
check run compares the live hashes with it (harness/common.py, Ctx.audit)."""
import os, sys
sys.path.insert(0, os.path.dirname(os.path.abspath(__file__)))
import common

for pid in sys.argv[1:]:
  ctx = common.Ctx(pid if pid.startswith('C') and len(pid) == 3 else 'C05', 'quick', 0)   # extra indices (DYN) ride on a host check
  idx = os.path.join(common.LEAN, 'index', f'{pid}.txt')
  theorems = [l.strip() for l in open(idx) if l.strip() and not l.startswith('#')]
  sigp = os.path.join(common.LEAN, 'index', f'{pid}.sig')
  if os.path.exists(sigp):
    os.remove(sigp)
  module = {'DYN': 'DinoProofs.Lemmas.DynamicsInstWitness'}.get(pid, f'DinoProofs.Properties.{pid}')
  ctx.lean_build([module])
  ctx.audit(module, theorems, [])
  missing = [t for t in theorems if t not in ctx.sigs_seen]
  if missing or ctx.breaks:
    print(pid, 'NOT pinned:', missing[:5], ctx.breaks[:2])
    continue
  with open(sigp, 'w') as f:
    f.write(f'# statement hashes of the property theorems of {pid} (harness/pinsigs.py); compared on every run\n')
    for t in theorems:
      f.write(f'{t} {ctx.sigs_seen[t]}\n')
  print(pid, 'pinned', len(theorems))
