"""Translator: live spherical-harmonic basis arrays of dinosaur -> lean/DinoGen/SHCert.lean (+ SHCertX.lean).

Run on every check of C01.  For a family of small `spherical_harmonic.Grid` objects (both transform
implementations, gauss / equiangular / equiangular_with_poles spacing, longitude offset, non-unit
radius, padded and stacked fast layouts) it asks the *real code* for

  * `grid.spherical_harmonics.basis.f / .p / .w`  (Fourier matrix, Legendre tables, quadrature weights),
  * the latitude nodes and weights of `get_latitude_nodes` and the longitude weight of
    `fourier.quadrature_nodes`,

and writes them as exact binary fixed point literals `Fx = ⟨m, e⟩ = m / 2^e` (every IEEE double is of this
form), together with certificate theorems `… = true := by decide +kernel`:

  shape     array shapes agree with (N, R, J, L)
  gram      every entry of the separable Gram tensor  Σ_i f f · Σ_j w p p  is within eps of the identity for
            all output entries and all input entries of the *resolved block*
  colint    b0·∫Y_(r,l) = δ_(r,l),(0,0) within eps on the resolved block (b0 = the constant (0,0) function)
  b0sq      b0² lies in the fixed interval that implies |b0²·4π − 1| ≤ 1e-15 (1e-6 before the interval was tightened)
  const     f[i][0]·p[0][j][0] = b0 exactly on all genuine nodes
  wnonneg   quadrature weights >= 0
  zeros     p[r][j][l] = 0 exactly for l < |m(r)|
  padding   (fast layouts) all padding rows/columns, and the `-0` column, are exactly zero
  quad      Σ_j wlat_j x_j^k = ∫_{-1}^{1} x^k within eps for every k <= deg
  wprod     basis.w = wf · wlat within eps
  nodes     nodes symmetric (within eps) and inside [-1, 1]

The resolved block is NOT read off the data: it is the Lean function `SH.resolvedRealMask/resolvedFastMask`
applied to (M, L, N, deg) with `deg = SH.quadDegree spacing J` (Gauss: 2J-1, equiangular: J-1) — the spacing
rule of DESIGN 6/C01.  A grid whose rule resolves nothing would make the certificates vacuous, so the
translator refuses such a configuration.

Quick tier: `DinoGen/SHCert.lean` (grids g1..g7, M <= 4; these names are listed in lean/index/C01.txt).
Thorough tier: additionally `DinoGen/SHCertX.lean` (larger grids x1.., same certificate kinds).
Files are rewritten only when their content changes.
"""
from __future__ import annotations

import math
import os
from fractions import Fraction

import numpy as np

import common

EPS_EXP = 40          # eps = 2^-40 ~ 9.1e-13 for every certificate

# (id, impl, M, L, N, J, spacing, longitude_offset, radius, fast kwargs)
QUICK = [
    ('g0', 'real', 2, 3, 5, 3, 'gauss', 0.0, None, {}),                        # tiny; also emitted in `Fx` form
    ('g1', 'real', 4, 5, 13, 7, 'gauss', 0.0, None, {}),                       # with_wavenumbers(4)
    ('g2', 'fast', 4, 5, 13, 7, 'gauss', 0.0, None, dict(stacked_fourier_transforms=False)),
    ('g3', 'fast', 3, 4, 10, 5, 'gauss', 0.25, 6.37122e6,                       # padded to (16, 8)/(16, 8)
     dict(base_shape_multiple=8, stacked_fourier_transforms=True)),
    ('g4', 'real', 3, 4, 9, 7, 'equiangular', 0.3, 2.5, {}),
    ('g5', 'real', 3, 4, 9, 7, 'equiangular_with_poles', 0.0, None, {}),
    ('g6', 'real', 4, 5, 8, 4, 'gauss', 0.0, None, {}),                         # TL-like: only l' <= 3 resolved
    ('g7', 'fast', 3, 4, 13, 6, 'equiangular', 1.0, 0.5, {}),                    # even node count: only l' <= 2 resolved
]

THOROUGH = [
    ('x1', 'real', 6, 7, 19, 10, 'gauss', 0.0, None, {}),
    ('x2', 'fast', 6, 7, 19, 10, 'gauss', 0.0, None, dict(stacked_fourier_transforms=True)),
    ('x3', 'real', 8, 9, 16, 8, 'gauss', 0.5, 2.0, {}),                          # construct(7, 4): TL-like
    ('x4', 'fast', 8, 9, 16, 8, 'gauss', 0.0, None, dict(base_shape_multiple=8)),
    ('x5', 'real', 5, 6, 21, 11, 'equiangular', 0.0, None, {}),                  # with_wavenumbers(5, cubic)
    ('x6', 'fast', 5, 6, 21, 11, 'equiangular_with_poles', 0.1, 3.0, dict(base_shape_multiple=2)),
    ('x7', 'real', 10, 11, 31, 16, 'gauss', 0.0, None, {}),                      # with_wavenumbers(10)
    ('x8', 'fast', 10, 11, 31, 16, 'gauss', 0.0, None, {}),
    ('x9', 'real', 10, 11, 31, 16, 'equiangular', 0.0, None, {}),                # measured 5e-2 round trip: partly resolved
    ('x10', 'real', 2, 2, 4, 2, 'gauss', 0.0, None, {}),
    ('x11', 'real', 1, 1, 1, 1, 'gauss', 0.0, None, {}),
    ('x12', 'fast', 1, 3, 2, 3, 'equiangular_with_poles', 0.0, None, {}),
    ('x13', 'real', 3, 8, 7, 8, 'gauss', 0.0, None, {}),                         # M << L
    ('x14', 'fast', 7, 7, 16, 12, 'equiangular', 0.0, 10.0, dict(base_shape_multiple=4, stacked_fourier_transforms=True)),
]


class TranslatorError(Exception):
  pass


def quad_degree(spacing: str, J: int) -> int:
  """the spacing rule (mirrors `SH.quadDegree`, natural-number subtraction)"""
  return max(2 * J - 1, 0) if spacing == 'gauss' else max(J - 1, 0)


def make_grid(cfg):
  from dinosaur import spherical_harmonic as sh
  import functools
  gid, impl, M, L, N, J, spacing, off, radius, kw = cfg
  # Grid passes only the five size fields to the implementation; layout options are bound here
  cls = sh.RealSphericalHarmonics if impl == 'real' else functools.partial(sh.FastSphericalHarmonics, **kw)
  return sh.Grid(longitude_wavenumbers=M, total_wavenumbers=L, longitude_nodes=N, latitude_nodes=J,
                 latitude_spacing=spacing, longitude_offset=off, radius=radius, spherical_harmonics_impl=cls)


def dyadic(x):
  """a double as (numerator, exponent): x = n / 2^e exactly (n odd or e = 0)"""
  x = float(x)
  if not math.isfinite(x):
    raise TranslatorError(f'non-finite basis entry {x!r}')
  fr = Fraction(x)
  d = fr.denominator
  e = d.bit_length() - 1
  if (1 << e) != d:
    raise TranslatorError('denominator of a double is not a power of two')
  return fr.numerator, e


def fx(x) -> str:
  """exact `Fx` literal of a double: ⟨m, e⟩ = m / 2^e"""
  n, e = dyadic(x)
  return f'⟨{n}, {e}⟩' if n >= 0 else f'⟨({n}), {e}⟩'


def scaled(arr):
  """integer array with one common binary exponent: arr = ints / 2^E exactly"""
  arr = np.asarray(arr, dtype=np.float64)
  dy = [dyadic(v) for v in arr.ravel()]
  E = max([e for _, e in dy] + [0])
  ints = np.empty(len(dy), dtype=object)
  for k, (n, e) in enumerate(dy):
    ints[k] = n << (E - e)
  return ints.reshape(arr.shape), E


def ilit(n) -> str:
  n = int(n)
  return str(n) if n >= 0 else f'({n})'


def ivec(v) -> str:
  return '[' + ', '.join(ilit(x) for x in v) + ']'


def imat(a, ind='    ') -> str:
  return '[\n' + ',\n'.join(ind + ivec(r) for r in a) + ']'


def iten(a) -> str:
  return '[\n' + ',\n'.join('   ' + imat(m, '     ') for m in a) + ']'


def vec(v) -> str:
  return '[' + ', '.join(fx(x) for x in v) + ']'


def mat(a, ind='  ') -> str:
  return '[\n' + ',\n'.join(ind + vec(r) for r in a) + ']'


def ten(a) -> str:
  return '[\n' + ',\n'.join(' ' + mat(m, '   ') for m in a) + ']'


def extract(cfg):
  """arrays of one grid, from the real code"""
  from dinosaur import spherical_harmonic as sh
  from dinosaur import fourier
  gid, impl, M, L, N, J, spacing, off, radius, kw = cfg
  g = make_grid(cfg)
  s = g.spherical_harmonics
  b = s.basis
  f = np.asarray(b.f, dtype=np.float64)
  stacked = f.ndim == 3
  if stacked:  # `np.reshape(f, (-1, 2, R // 2), order='F')`: f3[i, s, m] = f[i, s + 2 m]
    n0, two, half = f.shape
    if two != 2:
      raise TranslatorError(f'{gid}: stacked f has shape {f.shape}')
    flat = np.zeros((n0, 2 * half))
    flat[:, 0::2] = f[:, 0, :]
    flat[:, 1::2] = f[:, 1, :]
    if not np.array_equal(np.reshape(flat, f.shape, order='F'), f):
      raise TranslatorError(f'{gid}: cannot undo the stacking reshape of f')
    f = flat
  p = np.asarray(b.p, dtype=np.float64)
  w = np.asarray(b.w, dtype=np.float64)
  x, wlat = sh.get_latitude_nodes(J, spacing)
  _, wf = fourier.quadrature_nodes(N)
  (Rm, Lm), (Nn, Jn) = s.modal_shape, s.nodal_shape
  if f.shape != (Nn, Rm) or w.shape != (Jn,) or p.ndim != 3 or p.shape[1:] != (Jn, Lm):
    raise TranslatorError(f'{gid}: unexpected basis shapes f{f.shape} p{p.shape} w{w.shape} for modal {s.modal_shape} nodal {s.nodal_shape}')
  if impl == 'real' and p.shape[0] != Rm:
    raise TranslatorError(f'{gid}: real p has {p.shape[0]} tables for {Rm} rows')
  if impl == 'fast' and 2 * p.shape[0] != Rm:
    raise TranslatorError(f'{gid}: fast p has {p.shape[0]} tables for {Rm} rows')
  deg = quad_degree(spacing, J)
  if deg < L - 1 or N <= M - 1:
    raise TranslatorError(f'{gid}: the spacing rule resolves nothing (deg={deg}, L={L}, N={N}, M={M})')
  return dict(cfg=cfg, grid=g, f=f, p=p, w=w, x=np.asarray(x, float), wlat=np.asarray(wlat, float), wf=float(wf),
              R=Rm, Lm=Lm, Nn=Nn, Jn=Jn, stacked=stacked, deg=deg,
              pad_rows=Rm - 2 * M if impl == 'fast' else 0, pad_cols=Lm - L)


K = EPS_EXP


def render_grid(a, module) -> tuple[str, list[str]]:
  gid, impl, M, L, N, J, spacing, off, radius, kw = a['cfg']
  R, Lm, Nn, Jn = a['R'], a['Lm'], a['Nn'], a['Jn']
  ft, ef = scaled(a['f'].T)                         # [r][i]
  pt, ep = scaled(np.transpose(a['p'], (0, 2, 1)))   # [t][l][j]
  w, ew = scaled(a['w'])
  x, ex = scaled(a['x'])
  wl, ewl = scaled(a['wlat'])
  wf, ewf = dyadic(a['wf'])
  pdiv = 1 if impl == 'real' else 2
  o, names = [], []
  o.append(f'/-! ### {gid}: {impl} M={M} L={L} N={N} J={J} {spacing} offset={off} radius={radius} {kw or ""}')
  o.append(f'  modal shape ({R}, {Lm}), nodal shape ({Nn}, {Jn}), stacked f: {a["stacked"]}, deg = {a["deg"]} -/')
  o.append(f'def {gid} : SH.ICert where')
  o.append(f'  N := {Nn}\n  R := {R}\n  J := {Jn}\n  L := {Lm}\n  pdiv := {pdiv}')
  o.append(f'  ft := {imat(ft)}\n  ef := {ef}')
  o.append(f'  pt := {iten(pt)}\n  ep := {ep}')
  o.append(f'  w := {ivec(w)}\n  ew := {ew}')
  o.append(f'  x := {ivec(x)}\n  ex := {ex}')
  o.append(f'  wl := {ivec(wl)}\n  ewl := {ewl}')
  o.append(f'  wf := {ilit(wf)}\n  ewf := {ewf}')
  if impl == 'real':
    o.append(f'def {gid}_mask : List (List Bool) := SH.resolvedRealMask {M} {L} {N} (SH.quadDegree "{spacing}" {J})')
    o.append(f'def {gid}_mabs : List Nat := (SH.realMvals {M}).map Int.natAbs')
  else:
    o.append(f'def {gid}_mask : List (List Bool) := SH.resolvedFastMask {M} {L} {a["pad_rows"]} {a["pad_cols"]} {N} (SH.quadDegree "{spacing}" {J})')
    o.append(f'def {gid}_mabs : List Nat := (SH.fastMvals {M} {a["pad_rows"]}).map Int.natAbs')

  def thm(name, stmt):
    names.append(f'DinoGen.{module}.{gid}_{name}')
    o.append(f'theorem {gid}_{name} : {stmt} = true := by decide +kernel')

  thm('shape', f'{gid}.shapeOk')
  thm('gram', f'{gid}.gramOk {gid}_mask {K}')
  thm('colint', f'{gid}.colIntOk {gid}_mask {K}')
  thm('b0sq', f'{gid}.b0sqOk')
  thm('const', f'{gid}.constOk {N} {J}')
  thm('nonneg', f'{gid}.nonnegOk')
  thm('zeros', f'{gid}.zerosOk {gid}_mabs')
  if impl == 'fast':
    thm('padding', f'{gid}.paddingOk {M} {L} {N} {J}')
  thm('quad', f'{gid}.quadOk (SH.quadDegree "{spacing}" {J}) {K}')
  thm('wprod', f'{gid}.wprodOk {K}')
  thm('nodes', f'{gid}.nodesOk {K}')
  o.append('')
  return '\n'.join(o), names


def render_fx(a, module) -> tuple[str, list[str]]:
  """the same Gram certificate in the `Fx` form consumed by `Dino.C01.roundtrip_of_cert` (tiny grid only)"""
  gid, impl, M, L, N, J, spacing, off, radius, kw = a['cfg']
  assert impl == 'real'
  o = [f'/-! ### {gid} in `Fx` form: the arrays in the layout of `SH.Basis` -/',
       f'def {gid}_fx : SH.Basis Fx := ⟨{mat(a["f"])},\n {ten(a["p"])},\n {vec(a["w"])}⟩',
       f'theorem {gid}_fx_gram : SH.gramCheck {gid}_fx.f {gid}_fx.p {gid}_fx.w {gid}_mask {a["R"]} {a["Lm"]} (⟨1, {K}⟩ : Fx) = true := by decide +kernel',
       '']
  return '\n'.join(o), [f'DinoGen.{module}.{gid}_fx_gram']


HEADER = ['/-! GENERATED on every run by harness/gen/shcert.py from the basis arrays that live',
          '`dinosaur.spherical_harmonic.Grid` objects compute (`basis.f`, `basis.p`, `basis.w`, latitude nodes and',
          'weights), as exact integers with a common binary exponent per array, with kernel-checked certificates.',
          'Do not edit. -/']


def render(arrs, module: str) -> tuple[str, list[str]]:
  out = ['import Dino.SHCheck2'] + HEADER + ['set_option maxRecDepth 100000',
                                             f'namespace DinoGen.{module}', 'open Dino', '']
  names = []
  for a in arrs:
    txt, ns = render_grid(a, module)
    out.append(txt)
    names += ns
    if a['cfg'][0] == 'g0':
      txt, ns = render_fx(a, module)
      out.append(txt)
      names += ns
  out += [f'end DinoGen.{module}', '']
  return '\n'.join(out), names


def generate(tier='quick', lean_dir=None):
  """Regenerate DinoGen/SHCert.lean (and, in the thorough tier, DinoGen/SHCertX.lean + one module per grid
  under DinoGen/SHCertX/, so that lake checks them in parallel).

  Returns dict(arrays, xarrays, names=[quick certificate names], xnames=[thorough names],
  xmodules=[lake targets], xfiles=[paths relative to lean/], changed=bool)."""
  lean_dir = lean_dir or common.LEAN
  arrs = [extract(c) for c in QUICK]
  txt, names = render(arrs, 'SHCert')
  changed = common.write_if_changed(os.path.join(lean_dir, 'DinoGen', 'SHCert.lean'), txt)
  xarrs, xnames, xmodules, xfiles = [], [], [], []
  if tier == 'thorough':
    xarrs = [extract(c) for c in THOROUGH]
    for a in xarrs:
      gid = a['cfg'][0]
      xtxt, ns = render([a], 'SHCertX')
      rel = os.path.join('DinoGen', 'SHCertX', f'{gid.upper()}.lean')
      changed = common.write_if_changed(os.path.join(lean_dir, rel), xtxt) or changed
      xnames += ns
      xmodules.append(f'DinoGen.SHCertX.{gid.upper()}')
      xfiles.append(rel)
    umbrella = '\n'.join([f'import {m}' for m in xmodules] + HEADER + [''])
    changed = common.write_if_changed(os.path.join(lean_dir, 'DinoGen', 'SHCertX.lean'), umbrella) or changed
    xmodules.append('DinoGen.SHCertX')
  return dict(arrays=arrs, xarrays=xarrs, names=names, xnames=xnames, xmodules=xmodules, xfiles=xfiles,
              changed=changed)
