"""Translator for C20: literal constants of dinosaur/radiation.py and the defaults of
dinosaur/held_suarez.py -> lean/DinoGen/ForcingConsts.lean (exact rationals).

Run on every check, so that the certificates in DinoProofs/Properties/C20.lean
(`variation <= mean`, `sigma_b < 1`, `0 <= ka <= ks`, integer harmonics in
`equation_of_time`, ...) are re-proved about what the source says *now*.

Sources of the numbers:
  * module attributes of the imported `dinosaur.radiation` (DAYS_PER_YEAR, MINUTES_PER_DAY,
    TOTAL_SOLAR_IRRADIANCE, SOLAR_IRRADIANCE_VARIATION);
  * the literals inside `radiation.equation_of_time` (AST of the live function's source):
    `c1 * sin(k1*b) - c2 * cos(k2*b) - c3 * sin(k3*b)`;
  * default arguments of `HeldSuarezForcing.__init__` (inspect.signature).

A Python float x is emitted as `Fraction(repr(x))` (the shortest decimal that round-trips,
i.e. the literal the author wrote: 9.87 -> 987/100, 0.7 -> 7/10, 1/40 -> 1/40).
If the shape of the source changed so that a number cannot be located the translator raises
`TranslatorError`; the caller records that as a broken tie.
"""
from __future__ import annotations

import ast
import inspect
import os
import textwrap
from fractions import Fraction

import common


class TranslatorError(Exception):
  pass


def frac(x) -> Fraction:
  if isinstance(x, bool):
    raise TranslatorError(f'boolean where a number was expected: {x!r}')
  if isinstance(x, int):
    return Fraction(x)
  if isinstance(x, Fraction):
    return x
  x = float(x)
  if x != x or x in (float('inf'), float('-inf')):
    raise TranslatorError(f'non-finite constant {x!r}')
  return Fraction(repr(x))


def lean_rat(fr: Fraction) -> str:
  fr = Fraction(fr)
  num = f'({fr.numerator} : Rat)' if fr.numerator >= 0 else f'(-{-fr.numerator} : Rat)'
  return num if fr.denominator == 1 else f'{num} / {fr.denominator}'


def _num(node):
  """numeric literal (possibly negated) -> python number"""
  if isinstance(node, ast.Constant) and isinstance(node.value, (int, float)) and not isinstance(node.value, bool):
    return node.value
  if isinstance(node, ast.UnaryOp) and isinstance(node.op, ast.USub):
    return -_num(node.operand)
  raise TranslatorError(f'expected a numeric literal, found `{ast.unparse(node)}`')


def _trig_term(node, var):
  """`c * jnp.<fn>(k * var)` or `c * jnp.<fn>(var)` -> (c, fn, k)"""
  if not (isinstance(node, ast.BinOp) and isinstance(node.op, ast.Mult)):
    raise TranslatorError(f'expected `c * trig(..)`, found `{ast.unparse(node)}`')
  c = _num(node.left)
  call = node.right
  if not (isinstance(call, ast.Call) and isinstance(call.func, ast.Attribute) and len(call.args) == 1
          and not call.keywords and call.func.attr in ('sin', 'cos')):
    raise TranslatorError(f'expected a sin/cos call, found `{ast.unparse(call)}`')
  arg = call.args[0]
  if isinstance(arg, ast.Name) and arg.id == var:
    k = 1
  elif (isinstance(arg, ast.BinOp) and isinstance(arg.op, ast.Mult) and isinstance(arg.right, ast.Name)
        and arg.right.id == var):
    k = _num(arg.left)
  elif (isinstance(arg, ast.BinOp) and isinstance(arg.op, ast.Mult) and isinstance(arg.left, ast.Name)
        and arg.left.id == var):
    k = _num(arg.right)
  else:
    raise TranslatorError(f'argument of {call.func.attr} is not `k * {var}`: `{ast.unparse(arg)}`')
  return c, call.func.attr, k


def equation_of_time_literals(radiation):
  """-> dict(eotA, eotB, eotC, harmonics=[k1,k2,k3]) from the source of `equation_of_time`."""
  src = textwrap.dedent(inspect.getsource(radiation.equation_of_time))
  fn = ast.parse(src).body[0]
  assigns = {n.targets[0].id: n.value for n in ast.walk(fn)
             if isinstance(n, ast.Assign) and len(n.targets) == 1 and isinstance(n.targets[0], ast.Name)}
  if 'added_minutes' not in assigns or 'b' not in assigns:
    raise TranslatorError('equation_of_time: assignments to `b` / `added_minutes` not found')
  bexpr = assigns['b']
  if ast.unparse(bexpr) != 'orbital_phase - SPRING_EQUINOX':
    raise TranslatorError(f'equation_of_time: b = `{ast.unparse(bexpr)}`')
  e = assigns['added_minutes']
  # (T1 - T2) - T3
  if not (isinstance(e, ast.BinOp) and isinstance(e.op, ast.Sub) and isinstance(e.left, ast.BinOp)
          and isinstance(e.left.op, ast.Sub)):
    raise TranslatorError(f'equation_of_time: added_minutes = `{ast.unparse(e)}` is not `T1 - T2 - T3`')
  t1, t2, t3 = e.left.left, e.left.right, e.right
  (a, f1, k1), (b, f2, k2), (c, f3, k3) = _trig_term(t1, 'b'), _trig_term(t2, 'b'), _trig_term(t3, 'b')
  if (f1, f2, f3) != ('sin', 'cos', 'sin'):
    raise TranslatorError(f'equation_of_time: trig functions are {(f1, f2, f3)}, expected sin, cos, sin')
  ret = [n for n in ast.walk(fn) if isinstance(n, ast.Return)]
  if len(ret) != 1 or ast.unparse(ret[0].value) != '2 * jnp.pi * added_minutes / MINUTES_PER_DAY':
    raise TranslatorError('equation_of_time: return expression is not `2 * jnp.pi * added_minutes / MINUTES_PER_DAY`')
  return dict(eotA=a, eotB=b, eotC=c, harmonics=[k1, k2, k3])


def _magnitude(q, unit=None):
  """pint Quantity (optionally converted to `unit`) or plain number -> python number"""
  if hasattr(q, 'magnitude'):
    if unit is not None:
      q = q.to(unit)
    return q.magnitude
  return q


def collect():
  """-> ordered dict name -> Fraction (and 'eotHarmonics' -> list of Fractions)."""
  from dinosaur import radiation
  from dinosaur import held_suarez
  units = radiation.units
  out = {}
  out['daysPerYear'] = frac(radiation.DAYS_PER_YEAR)
  out['minutesPerDay'] = frac(radiation.MINUTES_PER_DAY)
  out['secondsPerDay'] = frac(radiation.SECONDS_PER_DAY)
  out['totalSolarIrradiance'] = frac(_magnitude(radiation.TOTAL_SOLAR_IRRADIANCE, units.W / units.meter**2))
  out['solarIrradianceVariation'] = frac(_magnitude(radiation.SOLAR_IRRADIANCE_VARIATION, units.W / units.meter**2))
  # defaults of get_direct_solar_irradiance / get_radiation_flux must be those module constants
  for fn, names in ((radiation.get_direct_solar_irradiance, ('mean_irradiance', 'variation', 'perihelion')),
                    (radiation.get_radiation_flux, ('mean_irradiance', 'variation')),
                    (radiation.get_normalized_radiation_flux, ('mean_irradiance', 'variation'))):
    sig = inspect.signature(fn)
    for n in names:
      if n not in sig.parameters or sig.parameters[n].default is inspect.Parameter.empty:
        raise TranslatorError(f'{fn.__name__}: parameter `{n}` with a default not found')
    want = dict(mean_irradiance=radiation.TOTAL_SOLAR_IRRADIANCE, variation=radiation.SOLAR_IRRADIANCE_VARIATION,
                perihelion=radiation.PERIHELION)
    for n in names:
      d = sig.parameters[n].default
      if _magnitude(d) != _magnitude(want[n]):
        raise TranslatorError(f'{fn.__name__}: default of `{n}` is not the module constant')
  eot = equation_of_time_literals(radiation)
  out['eotA'], out['eotB'], out['eotC'] = frac(eot['eotA']), frac(eot['eotB']), frac(eot['eotC'])
  out['eotHarmonics'] = [frac(k) for k in eot['harmonics']]
  sig = inspect.signature(held_suarez.HeldSuarezForcing.__init__)
  def default(name, unit=None):
    if name not in sig.parameters or sig.parameters[name].default is inspect.Parameter.empty:
      raise TranslatorError(f'HeldSuarezForcing.__init__: default of `{name}` not found')
    return frac(_magnitude(sig.parameters[name].default, unit))
  out['hsP0'] = default('p0', units.pascal)
  out['hsSigmaB'] = default('sigma_b')
  out['hsKf'] = default('kf', 1 / units.day)
  out['hsKa'] = default('ka', 1 / units.day)
  out['hsKs'] = default('ks', 1 / units.day)
  out['hsMinT'] = default('minT', units.degK)
  out['hsMaxT'] = default('maxT', units.degK)
  out['hsDTy'] = default('dTy', units.degK)
  out['hsDThz'] = default('dThz', units.degK)
  return out


DOC = {
    'daysPerYear': 'radiation.DAYS_PER_YEAR',
    'minutesPerDay': 'radiation.MINUTES_PER_DAY',
    'secondsPerDay': 'radiation.SECONDS_PER_DAY',
    'totalSolarIrradiance': 'radiation.TOTAL_SOLAR_IRRADIANCE [W/m^2]',
    'solarIrradianceVariation': 'radiation.SOLAR_IRRADIANCE_VARIATION [W/m^2]',
    'eotA': 'equation_of_time: coefficient of sin(k1*b)',
    'eotB': 'equation_of_time: coefficient of cos(k2*b) (subtracted)',
    'eotC': 'equation_of_time: coefficient of sin(k3*b) (subtracted)',
    'hsP0': 'HeldSuarezForcing default p0 [Pa]',
    'hsSigmaB': 'HeldSuarezForcing default sigma_b',
    'hsKf': 'HeldSuarezForcing default kf [1/day]',
    'hsKa': 'HeldSuarezForcing default ka [1/day]',
    'hsKs': 'HeldSuarezForcing default ks [1/day]',
    'hsMinT': 'HeldSuarezForcing default minT [K]',
    'hsMaxT': 'HeldSuarezForcing default maxT [K]',
    'hsDTy': 'HeldSuarezForcing default dTy [K]',
    'hsDThz': 'HeldSuarezForcing default dThz [K]',
}


def render(consts) -> str:
  lines = ['/-! GENERATED on every run by harness/gen/consts_c20.py from dinosaur/radiation.py and',
           '  dinosaur/held_suarez.py (exact rationals of the literals in the source). Do not edit. -/',
           'namespace DinoGen.ForcingConsts', '']
  for k, v in consts.items():
    if k == 'eotHarmonics':
      continue
    lines.append(f'/-- {DOC[k]} -/')
    lines.append(f'def {k} : Rat := {lean_rat(v)}')
  lines.append('/-- equation_of_time: the multiples k1, k2, k3 of `b = orbital_phase - SPRING_EQUINOX`'
               ' inside sin, cos, sin -/')
  lines.append('def eotHarmonics : List Rat := [' + ', '.join(lean_rat(k) for k in consts['eotHarmonics']) + ']')
  lines += ['', 'end DinoGen.ForcingConsts', '']
  return '\n'.join(lines)


def run(ctx=None):
  """Regenerate DinoGen/ForcingConsts.lean; returns the dict of constants.
  With a `ctx`, a failure is recorded as a broken obligation and None is returned."""
  try:
    consts = collect()
    content = render(consts)
  except Exception as e:  # pylint: disable=broad-except
    if ctx is None:
      raise
    ctx.obligation('translator consts_c20 (radiation.py / held_suarez.py literals)', 'translator', False,
                   f'{type(e).__name__}: {e}')
    return None
  path = os.path.join(common.LEAN, 'DinoGen', 'ForcingConsts.lean')
  changed = common.write_if_changed(path, content)
  if ctx is not None:
    ctx.obligation('translator consts_c20 (radiation.py / held_suarez.py literals)', 'translator', True,
                   'rewritten' if changed else 'unchanged')
    ctx.notes.append('DinoGen/ForcingConsts.lean: ' + ', '.join(
        f'{k}={common.qstr(v) if not isinstance(v, list) else [common.qstr(x) for x in v]}'
        for k, v in consts.items()))
  return consts
