"""Translator: coefficient tables of dinosaur.time_integration -> lean/DinoGen/Tableaux.lean.

Run on every check of C06.  Imports `dinosaur.time_integration` from the repo under test,
replaces (at run time, no source change) the two generic factories
`low_storage_runge_kutta_crank_nicolson` and `imex_runge_kutta` by recorders, calls
`crank_nicolson_rk3`, `crank_nicolson_rk4`, `imex_rk_sil3`, and writes every coefficient twice:

* `<name>_float`: the exact value of the Python float (`Fraction(x)`, a dyadic rational);
* `<name>`: the intended rational: the simplest fraction with denominator <= 10000 when it is
  within one ulp of the float (`1/3`, `153/128`, ...), otherwise the shortest decimal that
  round-trips (`Fraction(repr(x))`, e.g. the Carpenter-Kennedy 13-digit decimals).

The Lean theorems (order conditions, Taylor match, monotone alphas, closeness of the two values)
are about these generated constants, so a changed coefficient in the source breaks a proof
obligation on the next run.
"""
from __future__ import annotations

import math
import os
from fractions import Fraction

import common

SCHEMES = ('crank_nicolson_rk3', 'crank_nicolson_rk4', 'imex_rk_sil3')
PREFIX = {'crank_nicolson_rk3': 'rk3', 'crank_nicolson_rk4': 'rk4', 'imex_rk_sil3': 'sil3'}


class TranslatorError(Exception):
  pass


def capture():
  """name -> dict(kind='ls', alphas, betas, gammas) | dict(kind='tab', a_ex, a_im, b_ex, b_im); raw numbers."""
  from dinosaur import time_integration as ti
  cap = {}
  cur = [None]

  def fake_ls(alphas, betas, gammas, equation, time_step):
    cap[cur[0]] = dict(kind='ls', alphas=list(alphas), betas=list(betas), gammas=list(gammas))
    return lambda u: u

  def fake_rk(tableau, equation, time_step):
    cap[cur[0]] = dict(kind='tab', a_ex=[list(r) for r in tableau.a_ex], a_im=[list(r) for r in tableau.a_im],
                       b_ex=list(tableau.b_ex), b_im=list(tableau.b_im))
    return lambda u: u

  for fn in ('low_storage_runge_kutta_crank_nicolson', 'imex_runge_kutta') + SCHEMES:
    if not hasattr(ti, fn):
      raise TranslatorError(f'dinosaur.time_integration.{fn} disappeared')
  orig = (ti.low_storage_runge_kutta_crank_nicolson, ti.imex_runge_kutta)
  ti.low_storage_runge_kutta_crank_nicolson, ti.imex_runge_kutta = fake_ls, fake_rk
  try:
    for name in SCHEMES:
      cur[0] = name
      getattr(ti, name)(None, 1.0)
      if name not in cap:
        raise TranslatorError(f'{name} no longer calls a generic factory')
  finally:
    ti.low_storage_runge_kutta_crank_nicolson, ti.imex_runge_kutta = orig
  return cap


def exact(x) -> Fraction:
  if isinstance(x, bool) or not isinstance(x, (int, float, Fraction)):
    raise TranslatorError(f'coefficient {x!r} is not a number')
  if isinstance(x, float) and not math.isfinite(x):
    raise TranslatorError(f'coefficient {x!r} is not finite')
  return Fraction(x)


def intended(x) -> Fraction:
  e = exact(x)
  if not isinstance(x, float):
    return e
  ulp = Fraction(math.ulp(x))
  simple = e.limit_denominator(10000)
  if abs(simple - e) <= ulp:
    return simple
  return Fraction(repr(x))


def _q(fr: Fraction) -> str:
  if fr.denominator == 1:
    return str(fr.numerator) if fr >= 0 else f'({fr.numerator})'
  s = f'{abs(fr.numerator)}/{fr.denominator}'
  return s if fr >= 0 else f'(-{s})'


def _vec(xs, f):
  return '[' + ', '.join(_q(f(x)) for x in xs) + ']'


def _mat(rows, f):
  return '[' + ', '.join(_vec(r, f) for r in rows) + ']'


def render(cap) -> str:
  out = ['/-! GENERATED on every run by harness/gen/tableaux.py from the coefficient arguments that',
         '`crank_nicolson_rk3`, `crank_nicolson_rk4`, `imex_rk_sil3` of dinosaur/time_integration.py pass to',
         'the generic factories.  `x` = intended rational, `x_float` = exact value of the Python float.',
         'Do not edit. -/', 'namespace DinoGen', '']
  for name in SCHEMES:
    c, p = cap[name], PREFIX[name]
    if c['kind'] == 'ls':
      for fld in ('alphas', 'betas', 'gammas'):
        out.append(f'def {p}_{fld} : List Rat := {_vec(c[fld], intended)}')
        out.append(f'def {p}_{fld}_float : List Rat := {_vec(c[fld], exact)}')
    else:
      for fld, lean in (('a_ex', 'aEx'), ('a_im', 'aIm')):
        out.append(f'def {p}_{lean} : List (List Rat) := {_mat(c[fld], intended)}')
        out.append(f'def {p}_{lean}_float : List (List Rat) := {_mat(c[fld], exact)}')
      for fld, lean in (('b_ex', 'bEx'), ('b_im', 'bIm')):
        out.append(f'def {p}_{lean} : List Rat := {_vec(c[fld], intended)}')
        out.append(f'def {p}_{lean}_float : List Rat := {_vec(c[fld], exact)}')
    out.append('')
  out += ['end DinoGen', '']
  return '\n'.join(out)


def check_shape(cap):
  ls = {PREFIX[n] for n in SCHEMES if cap[n]['kind'] == 'ls'}
  if ls != {'rk3', 'rk4'} or cap['imex_rk_sil3']['kind'] != 'tab':
    raise TranslatorError(f'factories used changed: { {n: cap[n]["kind"] for n in SCHEMES} }')


def generate(lean_dir=None):
  """Regenerate DinoGen/Tableaux.lean; returns (captured tables, changed?)."""
  cap = capture()
  check_shape(cap)
  path = os.path.join(lean_dir or common.LEAN, 'DinoGen', 'Tableaux.lean')
  changed = common.write_if_changed(path, render(cap))
  return cap, changed
