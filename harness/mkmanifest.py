#!/usr/bin/env python3
"""Regenerates /verif/MANIFEST.json from the table below (keeps it schema-valid)."""
import json
import os

VERIF = os.path.dirname(os.path.dirname(os.path.abspath(__file__)))

TB = ('Trusted: Lean 4.33 kernel; Mathlib v4.33; axioms propext/Classical.choice/Quot.sound only (audited each run); '
      'the Python correspondence harness; Lean Float runtime for executing the model. ')

CHECKS = {
    'C13': dict(
        technique='Lean 4 theorems (list induction over an arbitrary field) about a hand-written executable model, '
                  'tied to the code by a differential correspondence check on every run',
        text='Machine-checked proof, for every layer count, every (uneven) level set and every column over an arbitrary '
             'field: cumulative integrals end at the total; down+up = total+local; matrix/scan/flip cumulative sums agree; '
             'centred differences exact on affine profiles; summation by parts for centred advection; dense = sparse = '
             'R x trapezoid-in-log-sigma geopotential; validation accepts exactly the strictly increasing sets from 0 to 1. '
             'The model (lean/Dino/Sigma.lean) is run on the same inputs as sigma_coordinates / jax_numpy_utils / '
             'primitive_equations in float64 on every run and every output compared at 1e-9; the property itself is also '
             'evaluated on the real code (sentinel / failing-input search).',
        note=TB + 'Modelled, not verified: jnp.einsum/cumsum/XLA execution, numpy log; float rounding is outside the theorems.',
        design='6/C13'),
    'C03': dict(
        technique='Lean 4 theorems about a hand-written executable model of the implicit terms / block matrix / three solve '
                  'strategies, tied to the code by a differential correspondence check on every run; numpy.linalg.inv is a '
                  'parameter whose left-inverse contract is checked on every matrix it was given',
        text='Machine-checked proof: shallow-water Schur solve is the two-sided inverse of 1 - eta*L for every eta (denominator >= 1 '
             'for Phi >= 0, lambda <= 0); for every layer count, level set, reference profile, eta of either sign and column '
             'state the block matrix applied to the stacked state equals x - eta*implicit_terms(x); split = stacked (block '
             'decomposition); any left inverse of the matrix returns x; the block-wise strategy is the exact resolvent when its two '
             'inverted blocks are left inverses of I - GH and I - HG; the repaired cumulative-sum H agrees with the dense H on an '
             'uneven column where the pre-repair code provably did not (exact rational witnesses). Dense = cumulative-sum '
             'geopotential for every level set comes from C13. Dense H = cumulative-sum H is proved for every layer count, every level '
             'set without a zero thickness, every reference profile and column (and shown false with a zero thickness); the pre-repair '
             'form is proved correct for every equidistant level set and fails on an uneven witness; hence the resolvent identity holds with the cumulative-sum '
             'products for split / stacked / block-wise; also the right-inverse direction, linearity of implicit_terms and the '
             'time-reversed solve. Every model operation is compared with the real code (float64, 1e-9) '
             'on random uneven level sets; the resolvent identity is also evaluated on the real code for every method pair.',
        note=TB + 'Modelled, not verified: numpy.linalg.inv (contract |inv(M)M - I| <= 1e-9 + 1e-12 cond(M) checked per run), jnp.einsum, XLA.',
        design='6/C03'),
    'C06': dict(
        technique='Lean 4 theorems about an executable model of every IMEX integrator; tableaux regenerated from the source as exact '
                  'rationals on every run (translator harness/gen/tableaux.py) and order/stability certificates re-proved by '
                  'decide +kernel; exact rational correspondence with the real integrators',
        text='Machine-checked proof for any field, any module of states, arbitrary F, linear G with a resolvent, any stage count and '
             'any dt: reductions to the explicit / implicit parent method; low-storage recursion = Butcher form; scalar amplification '
             'functions and their Taylor match to design order (Euler 1; CN-RK2, RK3-CN, SIL3, centred leapfrog 2; RK3/RK4/SIL3 '
             '3/4/3 for G=0 linear F) on the coefficients regenerated from the source; rooted-tree order conditions (RK4: all Taylor / tree / coupling residuals within 1e-12, because the source coefficients are 13-digit decimals); A-stability '
             'over C for every dt >= 0, Re mu <= 0 (any low-storage scheme with non-decreasing alpha, SIL3 quartic inequality, leapfrog '
             'alpha >= 1/2); length validation accepts exactly the consistent triples (negative witness for the old chained !=). '
             'Two thirds of the correspondence cases are compared by exact rational equality. Butcher\'s theorem itself is not formalised.',
        note=TB + 'Translator (monkey-patches the factories at run time, no source change). Not formalised: Butcher theorem (order conditions => order p for smooth F).',
        design='6/C06'),
    'C15': dict(
        technique='Lean 4 theorems over the reals (Real.exp) about an executable model of the filters and of numpy broadcasting on shape '
                  'lists, tied to the code by differential correspondence',
        text='Machine-checked proof over the reals (in float64 the factor underflows to 0 for attenuations above ~745), for attenuation, scale, dt/tau >= 0, 0 <= cutoff < 1, natural-number orders, diffusion order >= 1, radius != 0: exponential and diffusion factors lie in (0,1], equal 1 at l=0, are antitone in l and depend on l only; '
             'two half steps = one full step for all step filters; array-valued strengths act slice-wise; Robert-Asselin leaves the '
             'newest level and linear-in-time sequences unchanged and is a convex combination for 0 <= r <= 1/2; _preserves_shape holds iff '
             'shapes are broadcast-compatible and broadcast to the leaf shape, so scalars, clocks and every leaf whose trailing axes do not broadcast to the spectrum\'s are untouched (a leaf whose last axis has the spectral length L is rescaled, by design); '
             'the diffusion step normaliser is positive on padded layouts (negative witnesses for both repaired defects).',
        note=TB + 'exp is external to the executable model (Float.exp); proofs use Real.exp. Side conditions lmax>0, cutoff<1, tau!=0 are explicit.',
        design='6/C15'),
    'C18': dict(
        technique='Lean 4 theorems about an executable model of scales.Scale (exponent-vector homomorphism) and of the time conversions '
                  'with an explicit rounding parameter fl (instantiated by IEEE round-to-nearest-even to 53 bits), tied to the code by '
                  'bit-exact differential correspondence on doubles for the timedelta path and 1e-9 correspondence for factors, conversions, datetimes and orbital phases',
        text='Machine-checked proof: the scaling factor is a monoid homomorphism from dimension vectors (factor_add / zsmul / neg, defined '
             'exactly on covered vectors, ValueError otherwise); for scales with non-zero base scales (ScaleOK; the code accepts a zero scale) and units with non-zero conversion factor, dimensionalize and nondimensionalize are mutually inverse, independent of '
             'the unit of expression, and respect products, quotients, integer powers; Scale() accepts exactly one scale per base dimension; '
             'for every rounding function with relative error <= 2^-53 per operation (and exact on integers < 2^53; the IEEE model fl53 is '
             'proved to satisfy it), every time scale T != 0 (no overflow / underflow of s/T) and every whole number of seconds |s| <= 1e9, both the scalar and the array path '
             'of dimensionalize_timedelta64 return s (negative witness on the real doubles: the pre-repair truncation turns 27 s into 26 s); '
             'datetime <-> model time recovers every minute stamp for |minutes| <= 1e12; over the reals phase reduction lands in [0, period), is congruent, '
             'periodic, unique and idempotent and orbital phases lie in [0, 2 pi) (in float64 the reduced phase of a tiny negative time is fl(2 pi): the probe accepts [0, 2 pi] up to 2 ulp and counts such cases); day-of-year <= days-in-year. The model is run bit-for-bit '
             'against the code (timedelta path on every whole second 0..1e5 in quick) and the rounding hypothesis is sampled on the real doubles.',
        note=TB + 'Assumed: each double operation of the conversions rounds with relative error <= 2^-53 (sampled on every run). pint unit registry is external (factor table compared). Offset units (degC) excluded by construction.',
        design='6/C18'),
    'C20': dict(
        technique='Lean 4 theorems over the reals (Real.sin/cos) and over ordered fields about an executable model of radiation.py and '
                  'held_suarez.py; every literal constant is regenerated from the source on every run (translator harness/gen/consts_c20.py '
                  '-> DinoGen/ForcingConsts.lean) and its admissibility re-proved by decide +kernel; differential correspondence on every op',
        text='Machine-checked proof for all latitudes, longitudes, phases, sigma levels and parameters: |sin altitude| <= 1; '
             'S0-|dS| <= irradiance <= S0+|dS| (both attained); 0 <= flux <= S0+|dS| when |dS| <= S0, flux = 0 exactly on the night side, '
             'normalised flux in [0,1]; invariance under integer numbers of turns of the orbital phase, synodic phase and longitude, and '
             'flux(t) = flux at the unwrapped phases; the boundary-layer ramp is in [0,1] and zero above sigma_b, so kv >= 0 and kv = 0 there; '
             'kt is a convex combination of ka, ks (>= 0, = ka above sigma_b); T_eq >= T_min; the surface-pressure tendency is identically zero; '
             'for states whose spare top total wavenumber is clipped the drag on (vorticity, divergence) equals -kv times them (given that to_modal/curl/div are homogeneous and the wind round trip '
             'holds: hypotheses sampled on the real pole-free grids on such states; on unclipped states the real code deviates by O(1) in the top wavenumber) and is dissipative; temperature relaxes toward T_eq at rate kt. The admissibility '
             'hypotheses (0 <= dS < S0, harmonics 2,1,1, 0 < sigma_b < 1, 0 <= ka <= ks, ...) are certificates on the constants regenerated '
             'from the source. Global mean = S/4 is a quadrature statement and is a labelled test only.',
        note=TB + 'Translator harness/gen/consts_c20.py (reads module constants and dataclass defaults). sin/cos/exp/log are external to the executable model (libm at run time, Real.* in proofs).',
        design='6/C20'),
    'C14': dict(
        technique='Lean 4 theorems (induction over step counts, nesting depth and input lists, for arbitrary state types) about an '
                  'executable model of the stepping / scan combinators of time_integration.py, tied to the code by exact integer-valued '
                  'differential correspondence with step functions drawn from a small DSL',
        text='Machine-checked proof for every step function, state type and split: step_with_filters folds the filters left to right '
             'with the pre-step state as first argument; repeated fn n = fn^[n]; trajectory_from_step returns frame k = post(f^[(k or k+1)*inner] x), '
             'final carry f^[outer*inner] x, for every (outer, inner, start_with_input), and for inner >= 1 any (outer, inner) trajectory is the sub-sampling of the '
             '(outer*inner, 1) one; nested_checkpoint_scan equals the flat scan for every admissible factorisation (arrays and pytrees), any two '
             'factorisations agree, and, for scan bodies with at least one output leaf, the accepted calls are characterised exactly (length mismatch ValueError, reshape mismatch TypeError, zero outer length ValueError: matching the real error kinds; empty nested_lengths: IndexError on a one-element input, shown by example); accumulate_repeated = sum_k w_k step^[k+1]; the DFI '
             'weights are normalised, Lanczos weights are >= 0 with non-zero total for c >= T > 0, and digital_filter_initialization returns every '
             'state that is steady for the forward and the time-reversed filtered steps; TimeReversedImExODE is an involution. Correspondence: '
             'every ordered factorisation of every length <= 24 (quick) / <= 360 (thorough), all 5x5x2 small trajectory splits, malformed nestings.',
        note=TB + 'jax.lax.scan and jax.checkpoint are modelled as the sequential loop / identity on values (gradients of nested vs flat scan are compared by probes only).',
        design='6/C14'),
    'C17': dict(
        technique='Lean 4 theorems over an arbitrary linearly ordered field about an executable model of jnp.interp (with its eps guard), '
                  '_dot_interp, linear / safe extrapolation, pressure<->sigma<->hybrid regridding, get_surface_pressure, bilinear and '
                  'nearest-neighbour weights, tied to the code by differential correspondence on adversarial queries (nodes, midpoints, +-1 ulp, ends, far outside)',
        text='Machine-checked proof for node sets of any size (spacing above the 2^-104 guard of jnp.interp), arbitrary data and queries: interp returns '
             'node values at nodes, is a convex combination of the two neighbours inside (hence bounded by them), constant outside, equal to the '
             'reference piecewise-linear interpolant; the dot-product (TPU) variant equals the default variant for every query and every node count >= 1 (negative witness for the pre-repair one-node defect; the repair is proved behaviour-preserving for >= 2 nodes); interpolation (>= 1 node) and linear / safe extrapolation (>= 2 nodes: with one node linear_interp_with_linear_extrap returns 0, characterised) are exact on affine data; '
             'safe extrapolation = linear within the allowed end cells and none beyond; sigma->pressure->sigma and hybrid->sigma are the identity / exact on affine columns; '
             'get_surface_pressure returns the root of the piecewise-linear relative height; bilinear weights reproduce constants and are the identity between equal grids; '
             'nearest neighbour of a node of the same grid is itself for distinct nodes strictly inside the poles (haversine strictly positive elsewhere; pole rows, where all longitudes coincide, are excluded). Validation (increasing nodes) is characterised exactly.',
        note=TB + 'sklearn BallTree is external (nearest is compared against a brute-force haversine argmin); NaN and denormal queries are outside the model (XLA flushes denormals).',
        design='6/C17'),
    'C16': dict(
        technique='Lean 4 theorems over an arbitrary linearly ordered field (sin as any monotone g, instantiated with Real.sin on [-pi/2, pi/2]; Python % as a parameter) '
                  'about an executable model of the conservative latitude / longitude / vertical weights and of the NaN bookkeeping, tied to the code by differential correspondence',
        text='Machine-checked proof for coordinate vectors of any length and fields of any size: overlaps are >= 0, row sums equal the target cell size and column sums the source cell size for any two partitions '
             'of the same interval, hence normalised weights are non-negative with rows summing to one, constants are reproduced, outputs stay within [min,max] of the overlapping inputs and '
             'the area-weighted integral is conserved (latitude with g = sin, vertical sigma layers, hybrid->sigma, and the periodic longitude case via _align_phase_with for point lists in [0, P), increasing, at least two per grid, with source + target cell width <= P/2 (i.e. 1/n_s + 1/n_t <= 1/2 for equispaced grids); '
             'the precondition stated in the code is insufficient: witness = 3 -> 4 longitudes, where conservation fails on the real code too); the horizontal regridder conserves the double integral; NaN logic: skipna=True gives NaN iff all overlapping inputs are NaN, '
             'skipna=False gives NaN iff the non-null weight fraction is not within rtol 1e-3 of 1 (sliver witness = the recorded known finding).',
        note=TB + 'Known finding (committed in known_findings.json): skipna=False does not propagate NaN through overlaps below 0.1 % of a cell.',
        design='6/C16'),
    'C19': dict(
        technique='Lean 4 theorems (structural induction over nested dictionaries with keys as character lists; list lemmas for pytrees and arrays) about an executable model of '
                  'pytree_utils, the spectral up/down-sampling of coordinate_systems and the shape->dims inference of xarray_utils, tied to the code by differential correspondence and real xarray / NetCDF-attribute round trips',
        text='Machine-checked proof for one-character separators and every nested dictionary whose keys avoid the separator (empty keys and empty branches allowed): sep.join/split are inverse, flatten_dict succeeds exactly on separator-free dictionaries and '
             'unflatten(flatten d) == d in the sense of Python == (negative witnesses for the three repaired defects of the pre-fix code); replace_with_matching_or_default preserves structure; pack/unpack, stack/unstack, '
             'split/concat, split_axis are mutually inverse whenever the forward operation succeeds (any number of leaves, any leaf sizes); downsample(upsample x) = x and the up-sampled coefficients describe the same series for any prefix-stable basis (prefix stability of the real bases: C01 for Legendre, probed for the rest); shape->dims inference returns the intended names whenever the shape table has no collision, '
             'and the collisions are characterised (modal = nodal shape; layers = 1: the recorded known finding). Real round trips (asdict/coordinate_system_from_attrs, data_to_xarray/xarray_to_*) are bit-identical on random coordinate systems.',
        note=TB + 'xarray / pandas / NetCDF attribute encoding are external (exercised, not modelled). Known finding: data_to_xarray rejects 3-D nodal data when layers == 1.',
        design='6/C19'),
    'C09': dict(
        technique='Lean 4 theorems (finite-sum re-indexing over an arbitrary commutative ring) about executable models of RealSphericalHarmonics and FastSphericalHarmonics (padding, stacked layout, option record), '
                  'tied to the code by differential correspondence of both implementations and the model on the same inputs',
        text='Machine-checked proof for arbitrary sizes M, L, N, J and arbitrary padding: with iota the re-indexing between the two modal layouts, Fast.synth(iota x) = pad(Real.synth x) (row 1 and the padding of the input are ignored), '
             'Fast.analysis(pad z) = iota(Real.analysis z) with row 1 and all padding exactly zero; the longitude derivative, mask, m/l values, clip, Laplacian and inverse Laplacian commute with iota; the stacked Fourier contraction equals the unstacked one; '
             'every value of the option record (einsum argument order, precision hint, stacking) gives the same result in exact arithmetic; the two basis constructions of the code satisfy the structural relation for every Legendre table. '
             'Sentinel: every public Grid method and the equation classes with the implementation switched and each option toggled (1e-12).',
        note=TB + 'XLA einsum / precision hints are executed, not modelled: option independence is exact in the model, to rounding in the code.',
        design='6/C09'),
    'C01': dict(
        technique='Lean 4 theorems (any commutative ring / ordered field, any sizes) about an executable model of the Legendre recurrence, the real Fourier bases and both '
                  'transform classes; certificates (decide +kernel on exact fixed-point arithmetic) regenerated on every run from the basis arrays the live Grid objects compute '
                  '(translator harness/gen/shcert.py -> DinoGen/SHCert.lean); differential correspondence in float64 and in exact rational arithmetic',
        text='Machine-checked proof for every basis of consistent shape, every size and every spectral field: analysis(synth x) is the action of the separable Gram tensor; an entrywise eps-identity Gram tensor on the resolved block '
             'gives an eps*|x|_1 round trip for every field supported there; soundness of the exact Gram check that the certificates evaluate, so that for each certified grid (both implementations, gauss / equiangular / with poles, offsets, radii, padding) '
             'the round-trip bound holds for ALL fields in exact arithmetic on the float constants the code computed; structural zeros of the Legendre table for l < m at every size (entries outside the triangle neither influence nor appear); '
             'integral of a synthesised field = r^2 * (column integrals) and the (0,0) normalisation |b0^2 * 4 pi - 1| <= 1e-6 on the generated constants; fast layout with padding. '
             'PARTIAL (named): the quantifier over grid configurations is certified on small grids (M <= 4 quick / <= 10 thorough) and sampled numerically on T21, TL31, TL47 (quick) / T21..T106, TL31..TL127 (thorough) (Gram within 1e-10 on the block the spacing rule says is resolved); '
             'Gauss-Legendre exactness and Legendre orthogonality are not in the installed Mathlib.',
        note=TB + 'Translator harness/gen/shcert.py. scipy roots_legendre / numpy linalg.solve (quadrature nodes and weights) are external: their output is what the certificates check. sqrt/sin/cos external to the executable model.',
        design='6/C01'),
    'C02': dict(
        technique='Lean 4 theorems (commutative rings / fields, Real for the analytic derivative) about an executable model of every Grid operator for both modal layouts, '
                  'tied to the code by differential correspondence on every unit coefficient of small grids and by analytic-oracle probes on the real code',
        text='Machine-checked proof for both layouts, all sizes M, L, paddings and radii r != 0: the index map of both longitude-derivative functions is the coefficient map of the termwise analytic derivative of the Fourier series (HasDerivAt); '
             'd_dlon o d_dlon = -m^2, d_dlon kills m = 0; laplacian and inverse_laplacian are inverse on 1 <= l < L, inverse_laplacian is zero at l = 0 and on padding, eigenvalues scale as r^-2; for arbitrary weights D1 - D2 = 2 Mu, and with the code\'s recurrence weights '
             'a^2 = (l^2-m^2)/(4l^2-1) the coefficient-space Legendre equation D1 D1 + d_dlon d_dlon = (1 - Mu Mu) r^2 laplacian holds for every (m, l) in the interior of the truncation (model weights with any sqrt that squares back; Real.sqrt instance); '
             'k x k x = -id, div(k x v) = -curl v, curl(k x v) = div v, linearity of every operator, clip idempotent and commuting with l-diagonal operators; vor/div -> wind -> vor/div is the identity and div of a rotated gradient vanishes given the two nodal hypotheses Hyp-A/Hyp-B. '
             'PARTIAL (named): the latitude-derivative recurrence is proved consistent with the Laplacian and with multiplication by sin(lat), not derived from a formal definition of P_l^m (absent from Mathlib); Hyp-A/Hyp-B are validated numerically on the real grids on every run.',
        note=TB + 'Domain: identities are stated where clipping is vacuous (top wavenumber(s) zero), see DESIGN 6/C02.',
        design='6/C02'),
    'C04': dict(
        technique='Lean 4 theorems about an executable abstract spectral model (Dino/Dynamics.lean: horizontal operations as data, their laws as named hypotheses) of the four primitive-equation classes, '
                  'tied to the code by differential correspondence of the column physics and of full explicit/implicit terms through a matrix-operator instance; the laws are validated on the real Grid on every run; two-profile differential on the real classes',
        text='Machine-checked proof for every level set, reference profile and kappa: the implicit temperature weights H applied to a divergence column equal the explicit adiabatic + vertical-advection formulas evaluated on the reference profile (the two halves of the split are the same discretisation), '
             'H is additive in the profile; for the dry and the time-carrying classes, for any two reference profiles and states with the same absolute temperature, explicit + implicit tendencies are identical, for admissible states (vorticity, divergence, ln ps clipped; lap invlap delta = delta; >= 1 layer), from linearity and the named discrete-calculus laws on the masked coefficient space (round trip, curl grad = 0, div grad = laplacian, div(uv(zeta, delta)) = delta, to_nodal(1) = 1, laplacian kills the mean, clip laws); '
             'for the moist class (humidity clipped like the state, R != 0) the same holds given additionally the product-rule laws (div / curl of q*grad p through the nodal product) and invertibility of 1 + (cp_v/cp - 1) q (T4.3); '
             'for the cloud class the difference of the two totals is proved to be exactly R (T1 - T2) clip((curl|div)_cos_lat((q_l+q_i) sec^2 cos_lat_grad ln ps)) in vorticity / divergence and zero elsewhere (T4.4), with invariance when q_l = q_i = 0 and a concrete witness that the dependence is non-zero: '
             'this is the recorded known finding, and the check compares the measured difference of the real class with the closed form (1e-9) so that any other T_ref dependence is still a violation. '
             'The product-rule laws are validated on quadratic and cubic grids on every run and are asserted to fail on linear grids (known finding: moist classes on linear grids, aliasing level). include_vertical_advection=False is not claimed.',
        note=TB + 'Horizontal operators are abstract in the theorems; the carrier of modal fields is to be read as the space of MASKED coefficient arrays (closed under every operation: validated each run); their laws are hypotheses validated numerically on masked inputs (quadratic and cubic grids) on every run. Both sides use the same totalised 1/dsigma, so only 2 != 0 is needed as an arithmetic side condition.',
        design='6/C04'),
    'C07': dict(
        technique='Lean 4 theorems about an executable model of the hand-written collective schedules (_allgather_matmul_twoway, _matmul_reducescatter_twoway, _parallel_dot_cumsum) and of the padding / stacking / frequency-offset bookkeeping, '
                  'tied to the code by a schedule trace extracted from the real shard_map code on 8 virtual CPU devices, model correspondence, and a sharded-vs-unsharded differential on every (z,x,y) mesh of 1..8 devices',
        text='Machine-checked proof: for every even axis size n (and n = 1) and every device, the two-way all-gather matmul accumulates exactly the chunk products sum_c lhs_a[c] rhs_c and the reduce-scatter matmul leaves sum_s lhs_s[a] rhs_s on device a, each product once (general induction; additionally the executable schedule is evaluated symbolically for the axis sizes 1, 2, 4, 6, 8 of the property\'s own quantifier by decide +kernel; odd sizes > 1 rejected as in the code); '
             'parallel prefix sum = cumulative sum of the concatenation in both directions for any shard count; zero-padded bases: the padded transform restricted to the unpadded block equals the unpadded transform and padding outputs are zero; stack/unstack of m is a bijection; per-shard longitude derivative with frequency offset = restriction of the global derivative; '
             'crop o f o pad = f for level-wise f; _round_to_multiple laws; the repaired diffusion step filter is finite on padded layouts (negative witness for the pre-fix NaN). '
             'PARTIAL (named): XLA SPMD partitioner, shard_map, collectives, with_sharding_constraint, and the subscript logic of sharded_einsum (gather-vs-scatter choice, reduce / transfer subscripts, reversed argument order) are executed by the check, not modelled; sharded implicit operators, filters and whole steps are decided by the sharded-vs-unsharded differential. Domain: odd x / y axis sizes > 1 are rejected loudly by the code.',
        note=TB + 'Runs with XLA_FLAGS=--xla_force_host_platform_device_count=8.',
        design='6/C07'),
    'C11': dict(
        technique='Lean 4 theorems (submodule invariants by induction over arbitrary histories of filtered steps) about the abstract spectral model Dino.Dynamics, the integrator model Dino.Imex and Dino.Filters; '
                  'clock-advance certificates on the tableaux regenerated from the source; model correspondence and bitwise trajectory probes on the real code',
        text='Machine-checked proof: for every state the explicit tendencies of every class lie in the structural submodule S (zero outside the mask and at the clipped top wavenumber); vorticity / divergence tendencies have zero (0,0) coefficient (dry class exactly); '
             'implicit terms and the implicit inverse map S -> S, keep the (0,0) entries and pass vorticity, tracers and the clock through; every integrator maps S -> S and advances an observable with explicit tendency c, implicit tendency 0 by (dt*adv)*c, so the invariant holds after ANY list of steps and of filters satisfying FilterOk (List.foldl; history-level statements for the dry and with-time classes, term-level for the moist and cloud classes, correspondence + trajectory probes for shallow water: being strengthened); '
             'adv = 1 for Euler, CN-RK2, RK3, SIL3 (certificates on the regenerated tables) and within 1e-12 of one for the 13-digit RK4 table; filters leave scalar leaves alone and fix the (0,0) entry; any linear functional that vanishes on both tendencies and is passed through by the inverse (the (0,0) means of vorticity / divergence, the shallow-water mean thickness: checked on the shallow-water model and the real class each run) is conserved by every integrator; a uniform tracer has zero tendency given the round-trip and div(uv) = delta laws.',
        note=TB + 'Moist classes: (0,0) entries of the humidity corrections are quadrature-level (1e-19), stated to rounding; laws of the horizontal operators are hypotheses validated on the real grids.',
        design='6/C11'),
    'C10': dict(
        technique='Lean 4 theorems: abstract equivariance of the Dynamics / shallow-water models and of every integrator under any action commuting with the horizontal operations (signs for the mirror), '
                  'by induction over arbitrary histories; concrete rotation and mirror actions on the list model of both transform layouts for all sizes; the hypotheses of the abstract theorem are validated on the real Grid on every run; '
                  'differential correspondence of every model op; rotated / mirrored states vs transformed tendencies and trajectories on the real equation classes',
        text='Machine-checked proof: (T10.1) for any symmetry (linear rho on modal fields, algebra homomorphism on nodal fields, sign eps with eps^2 = 1) that commutes with every horizontal operation (sign eps on cos_lat_d_dlat, sec_lat_d_dlat_cos2, sin(lat); vorticity odd), explicit_terms, implicit_terms and implicit_inverse of the dry, with-time, moist and cloud classes '
             'over the transformed orography, and of shallow water with any number of layers, commute with the action (an error is raised for both or neither); every integrator step (Euler pair, CN-RK2, every low-storage RK, every Butcher tableau, leapfrog, time-reversed) is intertwined, hence whole trajectories of any length with any filters that are conjugated by the action (induction; that the code\'s spectral filters are conjugated follows from their being l-multipliers and is additionally tested), including Robert-Asselin leapfrog runs. '
             '(T10.2) for all N, M, k: the 2x2 rotation of each (cos, sin) pair by 2 pi m k / N intertwines synthesis and analysis with roll k in both layouts (with padding of the axes the symmetry does not act on; padded longitude-node / latitude-node layouts of the transformed axis are excluded), and commutes with d_dlon, with every operator acting on l only and with the latitude derivatives; real cos/sin satisfy the table hypothesis for every N > 0. '
             '(T10.3) the sign (-1)^(l+m) (Legendre parity from C01) intertwines synthesis / analysis with the latitude flip for symmetric nodes and weights, the latitude derivatives anticommute with it, d_dlon and l-multipliers commute. '
             'PARTIAL (named): the abstract carriers are not instantiated with the list model inside Lean; the operation-wise commutation hypotheses are proved for the list model (T10.2/T10.3) and validated on the real Grid each run (2.6e-15); node / weight symmetry and the trig tables are validated on the arrays the code computed.',
        note=TB + 'Fast-layout d_dlon commutation is for frequency_offset = 0 (unsharded); sharded execution is C07. equiangular_with_poles excluded for dynamics (sec^2 infinite at the poles by construction).',
        design='6/C10'),
    'C05': dict(
        technique='Lean 4 theorems about the abstract spectral models Dino.Dynamics (four primitive-equation classes) and Dino.DynamicsSW (layered shallow water + the state factories), laws of the horizontal operators as named hypotheses validated on real grids every run; '
                  'differential correspondence of every shallow-water routine, both factories and the rest-state construction; sentinel probes on the real code incl. an independent exact polynomial-algebra oracle of the continuous sigma-coordinate equations (labelled test)',
        text='Machine-checked proof: (T5.1) for every level set, constant T_ref and any orography whose Laplacian carries nothing at the clipped top wavenumber (and, for the moist classes, survives the transform round trip; otherwise the total is exactly g (lap h - clip lap h), also proved), the resting state zeta = delta = T\' = 0, ln ps = -g h/(R_eff T_ref) + const has zero total tendency in the dry, with-time, moist (uniform humidity, R_eff = R(1 + (R_v/R - 1) q0)) and cloud classes; '
             '(T5.2) the code\'s interior sigma-dot padded with the boundary zeros equals sigma F(1) - F(sigma) at all n+1 boundaries and vanishes at sigma = 0 and 1; the total ln ps tendency is minus the sigma = 1 value of the same cumulative integral; thicknesses sum to one; '
             '(T5.3) the state built by shallow_water_states.one_layer / multi_layer (any layer count, jnp.linalg.solve as a contract) has total tendency equal to the explicit residual (1 - r^2) X3 + (1 - 2 Omega) X2, which vanishes when radius = 1 and 2 Omega = 1 (steady in the factory\'s own units; concrete witnesses that it does not vanish for another radius / Omega = the recorded known finding sw-factory-units; multi_layer additionally assumes that the solved potentials are zonal and unclipped, validated each run); '
             'any non-divergent zonal flow of the dry classes has every tendency zero except divergence, which equals the discrete gradient-wind balance residual (its vanishing for solid-body rotation with the analytically balanced surface pressure is a test on the real code, not a theorem). '
             'PARTIAL (named): agreement with the continuous equations on general low-degree states and the analytic gradient-wind balance U^2 + 2 Omega a U = c R T are analytic-oracle TESTS on the real code (exact polynomial algebra in (x,y,z) with the documented vertical differences, 1e-9), not theorems: the abstract operators carry no sphere calculus; the zonal-flow theorem is for the dry classes; T5.4 (refinement to an advective-form spec) not done.',
        note=TB + 'Known finding: shallow_water_states factories hard-code radius 1 and 2 Omega = 1. Observation (not a finding, see DESIGN 11.3): isothermal_rest_atmosphere(surface_height=...) uses a lapse-rate barometric formula, so its state is not the hydrostatically balanced one the property speaks of.',
        design='6/C05'),
    'C12': dict(
        technique='Lean 4 theorems: the scaling group (length, time, mass, temperature factors) acts on parameters and states of the Dynamics / shallow-water / Held-Suarez models through the weights of C18\'s Scale homomorphism; '
                  'equivariance of every term (dimensional homogeneity) and of every integrator step, by induction over histories; correspondence of the model action with what the real from_si / Scale code produces under two scales; '
                  'two-scale differential of tendencies, inverses and trajectories on the real classes; static pass over /repo for scale bypasses (module constants / defaults evaluated under DEFAULT_SCALE) against a justified allow-list',
        text='Machine-checked proof: the named weights are Scale.w of their dimension vectors, a homomorphism in the scale and the dimension vector; the parameter action is a group action; nondimensionalisation under scale b = under scale a times the weight of the change of scale; '
             'for parameters related by the action and every additive constant of ln ps: explicit_terms, implicit_terms and implicit_inverse of the dry, with-time, moist and cloud classes are equivariant (one more inverse-time weight), the implicit terms annihilate the ln ps constant, the scaled inverse has the nine scaled blocks; '
             'the same for shallow water (eta scaled by the time factor) and for Held-Suarez friction, equilibrium temperature, relaxation and level-wise explicit terms (over the reals, exp c = pressure weight); '
             'one step of every integrator (Euler pair, CN-RK2, leapfrog, every low-storage RK and IMEX-RK tableau) commutes with the action when dt is scaled; resolvent equivariance follows from equivariance of G and two-sided resolvents (C03); trajectories and filtered steps of any history commute; '
             'the exponential and diffusion step filters are scale-invariant when dt and tau are both times; instantiated for the four primitive-equation classes on tree vectors for any scheme and any history. Negative witness: scaling g like a velocity breaks the identity. '
             'PARTIAL (named): linearity / constant-annihilation of the horizontal operators, the exact diagonal similarity between the two externally computed inverses (InvScaled: inv\' = S inv S^-1; proved for the model\'s own scaled inverse) and their constant-mode behaviour (ConstMode) are named hypotheses validated on the real code each run; T12.2 is instantiated concretely for the primitive-equation classes only (shallow water and Held-Suarez trajectories: abstract theorem + two-scale differential).',
        note=TB + 'implicit_inverse under widely different scales is compared through an a-posteriori bound computed from the matrices numpy.linalg.inv actually returned (diagonal similarity loses accuracy: measured up to 3e-10). Known finding: shallow_water.default_filters uses a tau default expressed in DEFAULT_SCALE units.',
        design='6/C12'),
    'C08': dict(
        technique='Lean 4 theorems about a dual-number scalar (Dino/AD.lean: JAX\'s JVP rules as arithmetic on (value, tangent)) at which the EXISTING executable models (Sigma, Interp, Filters, Implicit, the Dynamics column physics, Held-Suarez T_eq) are run unchanged, '
                  'and about matrix JVP/VJP chains; differential correspondence jax.jvp vs the Dual Float model; finite-difference, adjointness, finiteness and scan / checkpoint gradient probes on the real code (labelled tests)',
        text='Machine-checked proof: (T8.1) analysis is the quadrature-weighted adjoint of synthesis for every shaped basis (sum_ij w_j (S x)_ij z_ij = sum_rl x_rl (A z)_rl; entry form of both Jacobians); <J v, w> = <v, J^T w> for every matrix, preserved through any list of composed steps (induction), (J2 J1) v and (J2 J1)^T w factor as the chain rule says; '
             '(T8.2) every operator that is linear with static coefficients is its own derivative (value part = primal, tangent part = the operator on the tangent): both transforms, vertical mat-vecs and cumulative sums, geopotential and temperature implicit operators, implicit_terms, implicit_inverse with a static step, Laplacian / inverse Laplacian / clip, filters and Robert-Asselin, shallow-water implicit terms and Schur inverse; '
             '(T8.3) checkpoint is the identity on values, the nested checkpointed scan equals the flat scan as functions for every admissible factorisation (from C14), hence every derivative operator of one is a derivative of the other and dual-number carries agree; '
             '(T8.4) interp is affine in the data with weights in [0,1] summing to one, its dual-number tangent wrt the query is slope * dx with slope (f_{j+1}-f_j)/(x_{j+1}-x_j) inside a cell and 0 beyond the ends, every guarded divisor is non-zero on the dividing branch; Held-Suarez T_eq = max(floor, smooth) has the tangent of the active branch and that tangent is the HasDerivAt derivative away from the kink; '
             '(T8.5) soundness of forward mode by evaluation over the reals for +, -, *, /, powers, sin, cos, exp, log, max (Tracks closed under each, denominators / arguments guarded), instantiated for the pointwise rational kernels of the column physics (tangent = symbolic derivative, linear in the tangent, denominators positive on 0 <= q <= 1). '
             'PARTIAL (named, by design): JAX\'s own JVP / VJP / transpose / checkpoint / scan rules are executed, not modelled; "matches a central finite difference", "reverse mode is the exact adjoint" and "finite" on whole steps are probes on the real code (measured: adjoint 1.5e-16, scan gradients 4e-16, FD within 1e-3 of its tolerance), reported as tests; ties of jnp.maximum / end nodes of interp are excluded from theorems and correspondence.',
        note=TB + 'Modelled, not verified: JAX autodiff transformations, jax.checkpoint, jax.lax.scan.',
        design='6/C08'),
}

# ---- claim texts after the independent review (docs/audit) and the repairs that followed: these REPLACE the texts above
CHECKS['C01']['text'] = CHECKS['C01']['text'].replace(
    "and the (0,0) normalisation |b0^2 * 4 pi - 1| <= 1e-6 on the generated constants;",
    "and the (0,0) normalisation: |b0^2 * 4 pi - 1| <= 1e-15 on the generated float64 constants (20-digit pi bounds from Mathlib), and the 8-digit literal _CONSTANT_NORMALIZATION_FACTOR of primitive_equations within 2e-9 of sqrt(4 pi) (its value is compared with the literal in the Lean statement on every run);")
CHECKS['C02']['text'] = (
    "Machine-checked proof for both layouts, all sizes M, L, paddings and radii r != 0: the index map of both longitude-derivative functions is the coefficient map of the termwise analytic derivative of the Fourier series (HasDerivAt); "
    "d_dlon o d_dlon = -m^2, d_dlon kills m = 0; laplacian and inverse_laplacian are inverse on 1 <= l < L, inverse_laplacian is zero at l = 0 and on padding, eigenvalues scale as r^-2; for arbitrary weights D1 - D2 = 2 Mu, and with the code's recurrence weights "
    "a^2 = (l^2-m^2)/(4l^2-1) the coefficient-space Legendre equation D1 D1 + d_dlon d_dlon = (1 - Mu Mu) r^2 laplacian holds for every (m, l) in the interior of the truncation (model weights with any sqrt that squares back; Real.sqrt instance); "
    "k x k x = -id, div(k x v) = -curl v, curl(k x v) = div v, linearity of every operator (the model's own synthesis / analysis of both layouts are proved linear for every basis of consistent shape), clip idempotent and commuting with l-diagonal operators. "
    "T2.6 is an exact-arithmetic REDUCTION: the wind round trip equals entrywise curl S grad chi + div S grad psi / div S grad chi - curl S grad psi; on Dom (MASKED zero-mean fields whose top 1 (clip=False) / 2 (clip=True) wavenumbers are empty, no node at a pole: cos(lat) != 0 is a named side condition) it is the identity given Hyp-A (div S grad = laplacian) and Hyp-B (curl S grad = 0) on that same domain, "
    "and within 2 eps max(|vor|,|div|) of the identity when their residuals are <= eps max|laplacian psi| (eps-form, any ordered field); the identities curl grad = 0, div grad = Laplacian, div of a rotated gradient = 0 ARE Hyp-B, Hyp-A, Hyp-B + div(k x v) = -curl v. "
    "Hyp-A/B are proved exactly only on a rational M = 3 transform pair (where they provably fail off the mask) and are validated numerically (1e-9) on the real grids on every run on fields drawn from exactly Dom (membership checked by the model), with an off-mask negative control. "
    "PARTIAL (named): the latitude-derivative recurrence is proved consistent with the Laplacian and with multiplication by sin(lat), not derived from a formal definition of P_l^m (absent from Mathlib); Hyp-A/Hyp-B on the real grids are numerical.")
CHECKS['C02']['note'] = CHECKS['C02']['note'] + ' Side condition cos(lat) != 0: equiangular_with_poles is excluded from the wind conversions (recorded as a control each run).'
CHECKS['C03']['text'] = CHECKS['C03']['text'].replace(
    "the block-wise strategy is the exact resolvent when its two inverted blocks are left inverses of I - GH and I - HG;",
    "the block-wise strategy is proved to be the exact resolvent of x - eta*implicit_terms(x) for every layer count, level set without a zero thickness, reference profile and eta, with dense or cumulative-sum products, whenever the two matrices returned by numpy.linalg.inv are left inverses of the two matrices the code forms (I - M[div,tp] M[tp,div] and I - M[tp,div] M[div,tp]: modelled, compared with the matrices actually handed to numpy.linalg.inv on every run, and the contract checked on them);"
).replace(
    "the pre-repair '\n             'form is proved correct for every equidistant level set and fails on an uneven witness;", "XX")
CHECKS['C03']['text'] = CHECKS['C03']['text'].replace(
    "the pre-repair form is proved correct for every equidistant level set and fails on an uneven witness;",
    "the pre-repair form is characterised exactly (correct iff in each row the off-diagonal coefficient vanishes or the thicknesses on that side equal the first / last one; hence correct for equidistant sets and for <= 2 layers, and with >= 3 layers and non-zero corner coefficients agreement forces equal thicknesses; fails on an explicit uneven 3-layer witness);")
CHECKS['C05']['text'] = CHECKS['C05']['text'].replace(
    "which equals the discrete gradient-wind balance residual (its vanishing for solid-body rotation with the analytically balanced surface pressure is a test on the real code, not a theorem). '",
    "which equals the discrete gradient-wind balance residual, so such a flow is steady iff that residual vanishes (its vanishing for solid-body rotation with the analytically balanced surface pressure is a test on the real code and a computation on a toy sphere with longitude, not a theorem). '")
CHECKS['C05']['technique'] = CHECKS['C05']['technique'].replace(
    "(labelled test)", "(labelled test; for the cloud class the oracle mirrors the class's condensate loading on T - T_ref only, i.e. it contains the C04 finding)")
CHECKS['C06']['text'] = (
    "Machine-checked proof for any field, any module of states, arbitrary F, G with a resolvent, any stage count and any dt: every scheme is proved EQUAL to imex_runge_kutta of an explicit Butcher pair (lsrk_eq_imexRK for the low-storage family with the Crank-Nicolson chain as its DIRK rows, any stage count; bfe_eq_imexRK; cnrk2_eq_imexRK), "
    "and with F = 0 the generic IMEX-RK satisfies the DIRK stage equations Y_i - dt a_ii G Y_i = y0 + dt sum_{j<i} a_ij G Y_j, y1 = y0 + dt sum b_i G Y_i (any tableau); reductions to the explicit / implicit parent method; low-storage recursion = Butcher form. "
    "Per scheme, on the coefficients regenerated from the source on every run: (i) bivariate Taylor match of the linear amplification function with exp(x+y): Euler pair degree 1 exact; CN-RK2, RK3-CN, SIL3 degree 2 exact with explicit remainder; RK4-CN degree 2 with coefficient defects <= 1e-12; centred leapfrog second-order consistent; for G = 0: RK3 degree 3 exact, RK4 degree 4 within 1e-12, SIL3 degree 3 for linear F; "
    "(ii) rooted-tree conditions of the explicit part: RK3 order <= 3 exact, RK4 order <= 4 with residuals <= 1e-12 (the source coefficients are 13-digit decimals; measured 7e-14), SIL3 order 2 plus the linear order-3 condition; (iii) all six additive (IMEX) pair conditions of order <= 2: RK3-CN, SIL3, CN-RK2 exact, RK4-CN <= 1e-12, Euler pair the two of order 1. "
    "A-stability over C for every dt >= 0, Re mu <= 0 (any low-storage scheme with non-decreasing alpha, SIL3 quartic inequality, leapfrog alpha >= 1/2 with a sharpness witness); length validation accepts exactly the consistent triples (negative witness for the old chained !=). "
    "NOT formalised: Butcher's theorem for additive RK methods (order conditions (ii)+(iii) => order p for every smooth F); leapfrog (two-step): linear consistency only.")
CHECKS['C07']['text'] = (
    "Machine-checked proof: for every axis size n that is 1 or even, every device, any chunk sizes and any batch index, the two-way all-gather matmul and the reduce-scatter matmul leave on device a exactly rows-chunk a of the UNSHARDED product A B of the list model (general schedule induction + block decomposition of the contraction; additionally n = 1, 2, 4, 6, 8 by kernel evaluation of the symbolic schedule; odd n > 1 rejected as in the code), and the per-device pieces reassemble to A B; "
    "sharded_einsum's hand-written subscript / strategy logic (_parse_einsum_subscripts, _determine_reduce_subscript, _determine_transfer_subscript, the subscripts of _reversed_arg_order_einsum, gather-vs-scatter choice, lhs_spec, split / scatter axis, axis name) is modelled and proved: the reduce / transfer letters are the unique contracted-and-sharded / transferred-and-sharded letters and the reversed argument order denotes the same contraction; "
    "parallel prefix sum = cumulative sum of the concatenation in both directions for any shard count; zero-padded bases: the padded transform restricted to the unpadded block equals the unpadded transform and padding outputs are zero; stack/unstack of m is a bijection; per-shard longitude derivative with frequency offset = restriction of the global derivative (odd shard row counts rejected as by the code); "
    "crop o f o pad = f for level-wise f; _round_to_multiple is the exact integer ceiling and equals the code's binary64 evaluation for x < 2^53; the repaired diffusion step filter is finite on padded layouts (negative witness for the pre-fix NaN). "
    "DOMAIN: x / y mesh axes of odd size > 1 are rejected loudly (ValueError 'axis_size must be 1 or even'; z may have any size); on layouts with a padded total-wavenumber axis the raw cos_lat_d_dlat / sec_lat_d_dlat_cos2 write a value into the first padding column (characterised exactly in C09), asserted each run to be confined there and never to reach resolved coefficients. "
    "PARTIAL (named): XLA SPMD partitioner, shard_map, the collectives, with_sharding_constraint, jnp.einsum / eval_shape and _transform_einsum's ellipsis / spec selection (recorded from the real code) are executed, not modelled; the sharded implicit operators, filters and whole steps have no theorem beyond the padded-filter lemmas and are decided by the sharded-vs-unsharded differential on meshes with z x y in {1,2,4,6,8} (x, y in {1, even}) plus vertical-only 3, 5, 7 (one whole filtered IMEX step per quick run).")
CHECKS['C09']['text'] = CHECKS['C09']['text'].replace(
    "'Sentinel: every public Grid method", 
    "'for the bases and paddings the code builds the modal row padding is proved even (from _round_to_multiple(2M, 2 base x_shards)), so no parity hypothesis remains; cos_lat_d_dlat / sec_lat_d_dlat_cos2 agree with the reference layout on every resolved coefficient and are zero in row 1 and all padding EXCEPT padding column L, which (when the l axis is padded) holds -(L-1) resp. -(L+1) sqrt((L^2-m^2)/(4L^2-1)) x[m,L-1] because b[:, -1] = 0 zeroes the last PADDED column (value proved; it is the exact l = L coefficient); clip, the Laplacians, the synthesis and any further latitude derivative discard it; '\n             'cos_lat_grad / div_cos_lat / curl_cos_lat commute with iota exactly for clip=True and up to that characterised column for clip=False; k_cross commutes; integrate(pad z) = integrate(z). PARTIAL (named): get_cos_lat_vector, the wind conversions (nodal division by cos_lat), the equation classes, leading batch axes and the single-device mesh are not modelled: their equivalence under the switched implementation is a differential test on the real code. '\n             'Sentinel: every public Grid method")
CHECKS['C10']['text'] = CHECKS['C10']['text'].replace(
    "that commutes with every horizontal operation (sign eps on cos_lat_d_dlat, sec_lat_d_dlat_cos2, sin(lat); vorticity odd),",
    "that commutes with every horizontal operation (sign eps on cos_lat_d_dlat, sec_lat_d_dlat_cos2, sin(lat); vorticity odd) and, for the moist / cloud statements, with nodal division (rho_N(a/b) = rho_N a / rho_N b: validated exactly for roll and flip each run),"
).replace(
    "(induction; that the code\\'s spectral filters are conjugated follows from their being l-multipliers and is additionally tested)",
    "(induction; for tree filters applying one linear multiplier to every modal leaf conjugation is PROVED from 'the multiplier commutes with rho_M' (spectral_filter_conjugated), which holds for l-multipliers in the list model and is validated on the real exponential / diffusion filters each run)")
CHECKS['C11']['text'] = (
    "Machine-checked proof: for every state the explicit tendencies of every class lie in the structural submodule S (zero outside the mask and at the clipped top wavenumber); dry-class (zeta, delta) tendencies have zero (0,0) coefficient; implicit terms and the implicit inverse map S -> S for any supplied matrices and pass zeta, tracers and the clock through. "
    "On the executable tree-vector model, from any record in S with n >= 1 levels that carries the tracer keys the class looks up (moist: specific_humidity; cloud: plus the two condensate keys) no exception is raised, and after ANY list of one-state steps (each with its own scheme, dt and filters) or k leapfrog steps with step filters and Robert-Asselin the state is again such a record and sim_time = t0 + sum dt adv rate, for all four classes. "
    "FilterOk is proved for filtering._make_filter_fn lifted to the spectral carrier: any 1-D scaling for S and the clock; scalings equal to 1 at l = 0 (exponential filter with cutoff >= 0, horizontal diffusion of order >= 1) for the (0,0) coefficients and the uniform tracer. adv = 1 for Euler, CN-RK2, RK3, SIL3 (certificates on the regenerated tables) and within 1e-12 for the 13-digit RK4 table. "
    "Dry and with-time classes: (zeta, delta)_00 of every level are unchanged after any such history, given that the externally inverted l = 0 matrix is a right inverse (Inv0Ok; via C03). Shallow water (the same Dino.DynamicsSW model as C05): mask / clip closure, (zeta, delta)_00 conserved and, for states of zero mean divergence (preserved), the mean layer thickness phi_00 conserved through any history. "
    "Dry classes with zero mean divergence: a uniform tracer keeps its value at every level after any history, given linearity, the unit mode and div(uv) = delta. "
    "PARTIAL (named): moist classes: (zeta, delta)_00 and the uniform tracer hold to rounding only (quadrature-level 1e-19 in the humidity corrections) and are probes; that the real filter equals the lifted form is a differential tie (model trajectories vs step_with_filters), not proved; OpsClosed, Mode0, UniformOk, Inv0Ok are hypotheses validated on the real grids (linear truncations included) on every run.")
CHECKS['C11']['technique'] = CHECKS['C11']['technique'].replace("the integrator model Dino.Imex and Dino.Filters;", "the shallow-water model Dino.DynamicsSW, the integrator model Dino.Imex and Dino.Filters, with frames on tree-vector records;")
CHECKS['C12']['text'] = CHECKS['C12']['text'].replace("Negative witness: scaling g like a velocity breaks the identity.", "Negative witness (indexed theorem): scaling g like a velocity breaks the identity; ConstMode is exhibited in Lean on a genuine inverse at eta = 1/10.")
CHECKS['C14']['text'] = CHECKS['C14']['text'].replace(
    "and, for scan bodies with at least one output leaf, the accepted calls are characterised exactly (length mismatch ValueError, reshape mismatch TypeError, zero outer length ValueError: matching the real error kinds; empty nested_lengths: IndexError on a one-element input, shown by example);",
    "and the accepted calls are characterised exactly for bodies with any number of output leaves including none: lengths must match, nested_lengths non-empty, and only when there is an output leaf all non-innermost lengths positive (a body without output leaf returns (carry, None) also for zero outer lengths, as the real code does); the error kinds match the real ones (length mismatch ValueError, reshape mismatch TypeError, zero outer length ValueError; empty nested_lengths is never accepted: ValueError if length is given and != 1, else IndexError when every leaf has exactly one row, else TypeError);")
CHECKS['C15']['text'] = CHECKS['C15']['text'].replace(
    "diffusion order >= 1, radius != 0:",
    "diffusion order >= 1, radius != 0 (diffusion order 0 and cutoff < 0 are accepted by the code without validation and there the real filter multiplies the mean by e^-scale resp. damps l = 0: domain statements measured each run, outside the documented parameter ranges):")
CHECKS['C16']['text'] = CHECKS['C16']['text'].replace(
    "and the periodic longitude case via _align_phase_with for point lists in [0, P), increasing, at least two per grid, with source + target cell width <= P/2 (i.e. 1/n_s + 1/n_t <= 1/2 for equispaced grids); '\n             'the precondition stated in the code is insufficient: witness = 3 -> 4 longitudes, where conservation fails on the real code too)",
    "and the periodic longitude case for point lists strictly increasing, at least two per grid, each spanning less than a period ANYWHERE on the real line (any longitude_offset: % period is shown to rotate the vector and the weight matrix), with largest circular gaps gap_s + gap_t <= P/2 (1/n_s + 1/n_t <= 1/2 for equispaced grids); '\n             'outside this domain the real code is not conservative (3 -> 4 longitudes: known finding lon-conservation-wide-cells; the precondition stated in the code is insufficient); hybrid->sigma under the (unchecked by the code) hypothesis that the hybrid boundaries a/sp+b are sorted; three statements (first conjuncts of verticalWeights_rows / lonWeights_rows, noskip_nan_iff) are definitional unfoldings)")
CHECKS['C17']['text'] = CHECKS['C17']['text'].replace(
    "pole rows, where all longitudes coincide, are excluded)", "on grids WITH pole rows the same identity is a test on the real code on every run (it holds in float64 because rounding separates the coincident pole nodes), not a theorem)")
CHECKS['C18']['text'] = CHECKS['C18']['text'].replace(
    "and respect products, quotients, integer powers;",
    "and respect products, quotients, integer powers; the same round trips and unit independence for AFFINE units (degC, degF: conversion factor + offset, as pint does with autoconvert_offset_to_baseunit), with the characterisation that a linearised conversion agrees only for offset 0;")
CHECKS['C18']['note'] = CHECKS['C18']['note'].replace("Offset units (degC) excluded by construction.", "Compound offset units are excluded (the code raises on them).")
CHECKS['C19']['text'] = CHECKS['C19']['text'].replace(
    "split/concat, split_axis are mutually inverse whenever the forward operation succeeds (any number of leaves, any leaf sizes);",
    "split/concat, split_axis succeed on consistent inputs and are mutually inverse (any number of leaves, any leaf sizes);")
CHECKS['C19']['note'] = CHECKS['C19']['note'] + ' Known findings also: multi-character separators overlapping a key end; modal_shape == nodal_shape mislabelling.'
CHECKS['C20']['text'] = CHECKS['C20']['text'].replace(
    "hypotheses sampled on the real pole-free grids on such states;",
    "hypotheses exhibited in Lean on a 3-mode clipping transform pair and sampled on the real pole-free grids on such states; cos_lat != 0 is a named side condition of the division by cos_lat^2, validated each run: on equiangular_with_poles the real drag is non-finite;")
CHECKS['C04']['text'] = CHECKS['C04']['text'].replace(
    "The product-rule laws are validated on quadratic and cubic grids on every run and are asserted to fail on linear grids (known finding: moist classes on linear grids, aliasing level).",
    "The laws are required on MASKED arrays only (LawsOn / MaskClosed: the restricted operations satisfy the unrestricted laws, and a grid model where the unrestricted laws provably fail is given); mask closure of every operation is validated exactly on every grid used, with an unmasked negative control. The product-rule laws are validated on quadratic and cubic grids on every run and are asserted to fail on linear grids, where the moist-type dependence (known finding) is pinned on every run to its closed form (R_v - R) dT_ref (defect of the product-rule laws) [+ the cloud residual] to 1e-9, so any other dependence is a violation.")

def _sub(pid, old, new):
  t = CHECKS[pid]['text']
  assert old in t, (pid, old[:50])
  CHECKS[pid]['text'] = t.replace(old, new, 1)

_sub('C09', "Sentinel: every public Grid method",
     "For the bases and paddings the code builds the modal row padding is proved even (from _round_to_multiple(2M, 2 base x_shards)), so no parity hypothesis remains. cos_lat_d_dlat / sec_lat_d_dlat_cos2 agree with the reference layout on every resolved coefficient and are zero in row 1 and all padding EXCEPT padding column L, which (when the l axis is padded) holds -(L-1) resp. -(L+1) times sqrt((L^2-m^2)/(4L^2-1)) x[m,L-1], because b[:, -1] = 0 zeroes the last PADDED column (value proved; it is the exact l = L coefficient); clip, the Laplacians, the synthesis and any further latitude derivative discard it. "
     "cos_lat_grad / div_cos_lat / curl_cos_lat commute with iota exactly for clip=True and up to that characterised column for clip=False; k_cross commutes; integrate(pad z) = integrate(z). PARTIAL (named): get_cos_lat_vector, the wind conversions (nodal division by cos_lat), the equation classes, leading batch axes and the single-device mesh are not modelled: their equivalence under the switched implementation is a differential test on the real code. "
     "Sentinel: every public Grid method")
_sub('C16', "and the periodic longitude case via _align_phase_with for point lists in [0, P), increasing, at least two per grid, with source + target cell width <= P/2 (i.e. 1/n_s + 1/n_t <= 1/2 for equispaced grids); the precondition stated in the code is insufficient: witness = 3 -> 4 longitudes, where conservation fails on the real code too)",
     "and the periodic longitude case for point lists strictly increasing, at least two per grid, each spanning less than a period ANYWHERE on the real line (any longitude_offset: % period is shown to rotate the vector and the weight matrix), with largest circular gaps gap_s + gap_t <= P/2 (1/n_s + 1/n_t <= 1/2 for equispaced grids); outside this domain the real code is not conservative (3 -> 4 longitudes: known finding lon-conservation-wide-cells; the precondition stated in the code is insufficient); hybrid->sigma under the hypothesis, unchecked by the code, that the hybrid boundaries a/sp+b are sorted; the first conjuncts of verticalWeights_rows / lonWeights_rows and noskip_nan_iff are definitional unfoldings)")
_sub('C10', "(induction; that the code's spectral filters are conjugated follows from their being l-multipliers and is additionally tested)",
     "(induction; for tree filters applying one linear multiplier to every modal leaf conjugation is PROVED from 'the multiplier commutes with rho_M' (spectral_filter_conjugated), which holds for l-multipliers in the list model and is validated on the real exponential / diffusion filters each run)")
_sub('C05', "which equals the discrete gradient-wind balance residual (its vanishing for solid-body rotation with the analytically balanced surface pressure is a test on the real code, not a theorem).",
     "which equals the discrete gradient-wind balance residual, so such a flow is steady iff that residual vanishes (its vanishing for solid-body rotation with the analytically balanced surface pressure is a test on the real code and a computation on a toy sphere with longitude, not a theorem).")

# ---- after the extensions x_C01 (T1.5) and x_DYN (concrete instance of the abstract spectral model)
_sub('C01', "PARTIAL (named): the quantifier over grid configurations",
     "(T1.5) Over the reals, for every number of longitude nodes N and wavenumbers M accepted by the code (N >= M >= 1), the model's real Fourier basis (both layouts) has under the trapezoid weight 2 pi / N the exact Gram matrix [N | m-m'] +- [N | m+m'] (constant row sqrt2 [N | m]); it is the identity (except the structurally zero row / column 1 of the zero-imag layout) iff 2(M-1) < N, column-wise as soon as |m'| + (M-1) < N, with the aliasing counterexample at N = 2(M-1); "
     "consequently transform(inverse_transform x) = x holds EXACTLY for every field supported in the triangle, for all N, M, L, J and any padding, provided only that the Legendre tables are orthonormal under the latitude weights: the configuration quantifier is proved in the longitude direction (tied to the real arrays by a Gram sweep at 1e-12 incl. N = M, 2M-2, 2M-1; every T* / TL* / with_wavenumbers grid satisfies the condition) and remains certified / sampled in the latitude direction only. "
     "PARTIAL (named): the quantifier over LATITUDE configurations")
_DYN = (" The abstract carriers are INSTANTIATED with the list model of the real Grid (Dino.DynamicsInst.gridOps; index DYN, 77 theorems, audited and pinned through the C05 check and tied to the real Grid by the C02 / C09 list-model correspondence restricted to the record): "
        "linearity of all operations, clip / Laplacian / l-projection laws, lap(one) = 0, (0,0)-mode facts, mask closure (layouts without padding columns; with padding columns the closed set is 'masked except column L', proved and reproduced on the real Grid), radius scaling and the mirror commutation laws are THEOREMS of the instance; "
        "the analytic laws are isolated as hypotheses on the basis tables only (AnalyticLaws: C01 Gram identity, C02 Hyp-A / Hyp-B, to_nodal(1) = 1, sec^2 cos^2 = 1), div(uv) = delta is derived from them, and every hypothesis is a theorem on the rational M = 3 grid gT.")
CHECKS['C04']['text'] += _DYN + " T4.2 is instantiated for the concrete grid under AnalyticLaws only (total_tendency_indep_of_reference_grid; fully discharged on gT: t42_gT)."
CHECKS['C05']['text'] += _DYN + " T5.1 (dry) is instantiated for the concrete grid with NO hypothesis on the tables (rest_steady_dry_grid)."
CHECKS['C10']['text'] += _DYN + " For the mirror all operation-wise commutation laws are theorems of the instance (equivariant_mirror); the two transform laws reduce to T10.3; the rotation is not packaged for the instance."
CHECKS['C11']['text'] += _DYN + " OpsClosed (every layout with the loose mask; unpadded with the strict mask), Mode0 and Mean0 are theorems of the instance given sqrt 0 = 0 and C01's structural zeros; UniformOk.div_uv and Inv0Ok remain validated hypotheses."
CHECKS['C12']['text'] += _DYN + " OpsLaws, ProjLaws and OpsScaled (grid of radius l r) are theorems of the instance; explicitTerms_two_radii instantiates T12.1 for the concrete grid without any table hypothesis; InvScaled and ConstMode (external inverses) remain hypotheses."
CHECKS['C05']['technique'] += '; this check also audits the index DYN (concrete instance of the abstract model) and runs its tie to the real Grid (props/dyn_inst.py)'

# ---- after the second review (docs/audit/review2_*.md) and the repairs that followed
def _try_sub(pid, old, new):
  t = CHECKS[pid]['text']
  if old in t:
    CHECKS[pid]['text'] = t.replace(old, new, 1)
  else:
    raise SystemExit(f'mkmanifest: anchor not found for {pid}: {old[:60]}')

_try_sub('C08', "(T8.3) checkpoint is the identity on values, the nested checkpointed scan equals the flat scan as functions for every admissible factorisation (from C14), hence every derivative operator of one is a derivative of the other and dual-number carries agree;",
         "(T8.3) jax.checkpoint is MODELLED as the identity on values (an assumption about JAX, not a theorem); under it the nested checkpointed scan equals the flat scan as a function for every admissible factorisation (C14), hence any functional of the two functions (JVP, VJP, gradient) agrees by congruence and dual-number carries agree; that the real jax.checkpoint / nested_checkpoint_scan leave values and gradients unchanged is tested by the probes;")
_try_sub('C08', "implicit_terms, implicit_inverse with a static step,", "implicit_terms (dense and cumulative-sum products), implicit_inverse with a static step for the split (default), stacked and block-wise strategies,")
_try_sub('C08', "every guarded divisor is non-zero on the dividing branch;", "every guarded divisor is non-zero on the dividing branch (for 0 <= eps and node gaps above the guard); the same for linear_interp_with_linear_extrap (the end cells serve every query beyond the ends) and the safe-extrapolation variant (NaN exactly where the primal is; elsewhere the slope of the active cell of the original node set);")
_try_sub('C08', "Held-Suarez T_eq = max(floor, smooth) has the tangent of the active branch and that tangent is the HasDerivAt derivative away from the kink;", "Held-Suarez T_eq = max(floor, smooth) has the tangent of the active branch and that tangent is the HasDerivAt derivative for p0 != 0, 0 < sigma ps / p0 and away from the kink;")
_try_sub('C08', "denominators positive on 0 <= q <= 1)", "denominators positive on 0 <= q <= 1 and 0 < cp_v/cp; the kernels ARE the lambdas of the Dynamics moist adiabatic term: moistAdiabatic_eq_kernels)")
_try_sub('C08', "(measured: adjoint 1.5e-16, scan gradients 4e-16, FD within 1e-3 of its tolerance)", "(measured: adjoint defect <= 1e-4 of its tolerance, finite differences <= 1e-3 of tolerance for the smooth and <= 1e-2 for the piecewise-smooth entry points, 0 entries classed as kinks against a 2 % ceiling); derivatives with respect to the interpolation NODES and of _dot_interp are correspondence and probes only; 28 of the 86 indexed names are one-line closure lemmas, labelled helper-lemma in the evidence")
CHECKS['C11']['text'] += (" Hypotheses carried by every closure / history theorem: masked orography (shallow water: none or masked); leapfrog runs start from a pair one dt apart (clock) resp. with equal (0,0) coefficients / the same uniform tracer; VertShaped (n >= 1), inverse matrices with >= 2n+1 rows, and 1+1 != 0 for the one-state histories. "
                          "OpsClosed is validated with Mk = the modal mask on unpadded layouts and with Mk = mask + first padding column of the total-wavenumber axis on padded layouts (with Mk = mask it is false there: the raw latitude derivatives write into that column), S = mask below the clipped wavenumber in both cases (toy instance toy3p proves the same shape of statement); device meshes by C07's differential.")
_try_sub('C07', "leave on device a exactly rows-chunk a of the UNSHARDED product A B of the list model", "leave on device a exactly rows-chunk a of the UNSHARDED product A B of the list model (entrywise for any A; as arrays, shapes included, for A of n r rows and B of n k rows of width w; the batched form is entrywise)")
_try_sub('C07', "zero-padded bases: the padded transform restricted to the unpadded block equals the unpadded transform and padding outputs are zero;", "zero-padded bases: for ANY content on the padding of the input, the padded transform restricted to the unpadded block equals the unpadded transform and padding outputs are zero;")
_try_sub('C07', "and the reversed argument order denotes the same contraction;", "and the reversed argument order denotes the same contraction; for the matrix pattern ik,kj->ij on a one-axis mesh the plan is proved to induce exactly the chunking assumed by the collective theorems, so the sharded einsum equals the einsum of the model (for the batched transform patterns on a 3-axis mesh that link is by schedule trace + differential);")
_try_sub('C07', "the repaired diffusion step filter is finite on padded layouts (negative witness for the pre-fix NaN).", "the repaired diffusion step filter is finite on padded layouts (tau != 0, radius != 0; neutral on the padding for order >= 1; exponential filter for 0 <= c < 1 and a wavenumber axis with a positive entry; negative witness for the pre-fix NaN).")
CHECKS['C07']['technique'] = CHECKS['C07']['technique'].replace("and a sharded-vs-unsharded differential on every (z,x,y) mesh of 1..8 devices", "and a sharded-vs-unsharded differential on (z,x,y) meshes with x, y in {1, even}: thorough = all 20 factorisations of 1, 2, 4, 8 devices, the five 6-device meshes and vertical-only 3, 5, 7; quick = single-axis power-of-two meshes, (2,2,2), the 6-device meshes and seed-rotated subsets, one whole filtered IMEX step per run; odd x / y > 1 asserted rejected")
_try_sub('C12', "the exponential and diffusion step filters are scale-invariant when dt and tau are both times;", "the exponential and diffusion step filters are scale-invariant when dt and tau are both times, and FilterScaled is PROVED for every tree filter applying one additive, homogeneous map that fixes the constant mode to every modal leaf, hence for every total-wavenumber multiplier with factor one at l = 0, hence for histories of any schemes with exponential_step_filter (cutoff >= 0) and horizontal_diffusion_step_filter (order >= 1) in the four primitive-equation classes (both admissibility conditions are necessary: negative witness); leapfrog and shallow-water filters: abstract theorem + two-scale differential;")
_try_sub('C04', "The laws are required on MASKED arrays only", "The masked theorems are also proved for the UNRESTRICTED operations applied to states whose leaves and orography lie in the mask (…_on_mask, via proved naturality of the restriction: restrict_hom, total_restrict, totalMoist_restrict). The laws are required on MASKED arrays only")
_try_sub('C10', "and with the latitude derivatives;", "and with the latitude derivatives provided the recurrence weights of the two rows of every (cos, sin) pair m >= 1 are equal (validated exactly each run) and, for the fast layout, sin 0 = 0;")
_try_sub('C10', "(induction; for tree filters applying one linear multiplier to every modal leaf conjugation is PROVED", "(induction; for one-state schemes and for leapfrog runs with Robert-Asselin filters of any strength, for the primitive-equation classes and for shallow water: for tree filters applying one linear multiplier to every modal leaf conjugation is PROVED")
_try_sub('C20', "on unclipped states the real code deviates by O(1) in the top wavenumber)", "both domain boundaries are asserted negative controls each run: for states with energy at the spare top wavenumber l = L-1 the real drag is NOT -kv (zeta, delta): relative deviation 1 at l = L-1, 0.1-0.3 at L-3, L-5 and vorticity leaks into the divergence tendency; 'all states' holds for all states with l = L-1 clipped, which is what every model step produces)")
CHECKS['C20']['text'] += " Admissibility also assumes sigma <= 1, kf >= 0, ka, ks >= 0, sigma_b < 1, unit scale > 0, mean irradiance > 0 and strict |dS| < S0 for the day / night equivalence; cutoff >= 0, T_eq >= T_min and d ln ps / dt = 0 are definitional in the model: that they describe the real code rests on the correspondence check, for sigma ps / p0 > 0 (ps <= 0 gives NaN in the real code)."
_try_sub('C02', "it is the identity given Hyp-A", "it is the identity (below the top wavenumber for clip=False, as arrays for clip=True) given Hyp-A")
_try_sub('C02', "Hyp-A/B are proved exactly only on a rational M = 3 transform pair (where they provably fail off the mask)", "Hyp-A/B are proved exactly on a rational M = 3 transform pair (a biorthogonal monic-Legendre pair with Walsh longitude columns, not the orthonormal basis of the code; they provably fail off the mask there), are KERNEL-CHECKED within 2^-40 per unit field on five small LIVE grids each run (M <= 3, L <= 4, both layouts incl. padded, gauss and equiangular: certificates regenerated from the arrays the real Grid computed, so that vor_div_roundtrip_eps applies to ALL Dom fields of those grids)")
_try_sub('C09', "(value proved; it is the exact l = L coefficient)", "(value proved; it equals the l = L coefficient of the (L+1)-truncated reference derivative on every probe)")
_try_sub('C09', "clip, the Laplacians, the synthesis and any further latitude derivative discard it.", "clip, the Laplacians and the synthesis discard it, and so does any further latitude derivative under the side condition sqrt 0 = 0 (satisfied by numpy.sqrt).")
_try_sub('C09', "k_cross commutes; integrate(pad z) = integrate(z).", "k_cross commutes; integrate(pad z) = integrate(z); for EVERY array of the fast shape (not only iota-images) and either clip flag the unpadded block of d_dlon, cos_lat_grad, div_cos_lat, curl_cos_lat, k_cross and the two latitude derivatives is the reference operator applied to the unpadded block, and 'equal outside padding column L' is a congruence for these operators, so compositions commute with iota outside column L (div / curl of grad stated for all four clip combinations).")
_try_sub('C14', "lengths must match, nested_lengths non-empty,", "for every leaf of xs whose trailing shape has positive size the leading length must equal prod(nested_lengths) (a leaf of size 0 passes reshape with every leading length, because jax compares total sizes, and is scanned as prod(nested_lengths) empty rows: modelled, proved and pinned on the real code each run), nested_lengths non-empty with natural-number entries (negative entries are outside the model; their real error kinds are recorded),")
_try_sub('C14', "every ordered factorisation of every length <= 24 (quick) / <= 360 (thorough)", "every ordered factorisation of every length <= 24 (both tiers); thorough adds at most 25 sampled ordered factorisations of each of 15 lengths 36..360 (sampled, not exhaustive)")
_try_sub('C14', "the DFI weights are normalised, Lanczos weights are >= 0 with non-zero total for c >= T > 0, and digital_filter_initialization returns every state that is steady for the forward and the time-reversed filtered steps;",
         "the DFI weights are normalised whenever the total weight 1 + 2 sum w != 0; over the reals, for dt != 0 and cutoff_period >= time_span > 0, the Lanczos weights are >= 0 with total >= 1 and digital_filter_initialization returns every state fixed by the filtered forward and time-reversed steps;")
CHECKS['C16']['text'] += (" Vertical (sigma layers, hybrid->sigma): conservation over the covered range only, both bound vectors sorted, for every output agreeing with weights@x on the rows with non-zero overlap (rows without overlap are 0/0 and excluded); latitude points inside [-pi/2, pi/2]; % is assumed to reduce into [0, P) by whole periods (proved for the exact rational %; float % can return P itself); "
                          "skipna_nan_iff for non-negative weights, value_is_weighted_mean for atol + rtol < 1; regrid_conservation / regrid_constant are about the from-coordinates entry point; outside the longitude domain the real code NEED NOT be conservative (8 of 11 probed pairs conserved). Hybrid bounds a/sp+b are sorted iff sp >= 303 hPa (ECMWF137) / 265 hPa (UFS127): below any surface pressure on Earth, recorded each run.")
CHECKS['C16']['note'] += ' Known findings: skipna-false-sliver-overlap and lon-conservation-wide-cells.'
_try_sub('C18', "(in float64 the reduced phase of a tiny negative time is fl(2 pi): the probe accepts [0, 2 pi] up to 2 ulp and counts such cases);",
         "(in float64 the computed phase lies in [-e, 2 pi + e) with e = 2^-53 ((1 + 2^-53)(|x| + 2 pi) + 2 pi): proved for a bit-exact double model that is compared bit for bit with the code; phases slightly above 2 pi do occur on realistic times and are the recorded known finding orbital-range);")
_try_sub('C18', "The model is run bit-for-bit '\n             'against the code (timedelta path on every whole second 0..1e5 in quick)", "XX") if False else None
CHECKS['C18']['text'] += (" Further hypotheses: factor_add needs ScaleOK (necessary: counter-example at a zero scale); every round trip needs the scale to cover the dimensions of the quantity; datetime stamps are recovered when a whole number of minutes from the reference (off-minute stamps: characterised); the linearised affine conversion agrees iff offset = 0 or v = 1; Scale() accepts at most one scale per base dimension; dimension exponents are integers in the model (m**0.5 is accepted by the code and outside the model); nondim of quotients / negative powers carries the side conditions m2 != 0 / m != 0; pint's conversion is a tested hypothesis; the 0..1e5 whole-second sweep runs through the real code only, the model sees ~440 sampled seconds per scale, bit for bit.")
CHECKS['C19']['text'] += (" pack / stack / concat succeed iff the off-axis shapes (rank included) of all leaves agree (iff theorems; the real acceptance is compared on equal-product / other-rank / empty-leaf cases); stack/unstack and split_axis/concat are two-sided inverses; replace_with_matching_or_default returns iff every default is used (iff theorem); a shape gets the names of the LAST table entry with that shape (inferDims_no_collision), two collisions are worked out explicitly.")
CHECKS['C05']['text'] += (" Further named hypotheses: T5.2's ln ps statement is for states whose divergence survives the nodal round trip on every level; the residual formula g (lap h - clip lap h) for general orography is proved for the dry class; one_layer_total / multi_layer_total assume FactoryLaws, ZonalJet for each layer's wind (Helmholtz round trip, zonality of the stream function and the three flux fields, clip fixing the jet vorticity and X1, X2, X3), orography = none and radius != 0, all validated each run with a negative control.")

# ---- after the third review (docs/audit/review3_G.md)
for _pid in ('C04', 'C05', 'C10', 'C11', 'C12'):
  CHECKS[_pid]['text'] = CHECKS[_pid]['text'].replace(
      "index DYN, 77 theorems,", "index DYN, 101 theorems,").replace(
      "and every hypothesis is a theorem on the rational M = 3 grid gT.",
      "and every hypothesis is a theorem on the rational M = 3 grid gT (which is NOT built by ofGrid: a biorthogonal monic-Legendre pair with Walsh longitude columns and rational weights). WF and MaskOk are PROVED for the ofGrid record of the model's own buildReal and buildFast bases for every size and padding (wf_ofGrid_buildReal / maskOk_ofGrid_buildReal, wf_ofGrid_buildFast / maskOk_ofGrid_buildFast: the structural zeros of the padded fast tables are a theorem, fastBasisOf_zeros; hypotheses: sqrt 0 = 0, M, L >= 1, even row padding), and exhibited on concrete rational ofGrid records of both layouts (gReal, gFast: M = 2, L = 3, 4 longitudes, padded fast layout) on which rest_steady_dry_grid, explicitTerms_mean0_grid and explicitTerms_mem_grid are instantiated; AnalyticLaws is exhibited only on gT. "
      "Of the 16 fields of the record, the 8 operations are the list-model functions conjugated by the conversion; the l-projection, the unit mode, the eigenvalue and nodal tables are direct definitions.").replace(
      "mask closure (layouts without padding columns; with padding columns the closed set is 'masked except column L', proved and reproduced on the real Grid)",
      "mask closure (layouts without padding columns; with padding columns the closed set PROVED is 'masked rows, padding columns free' (Loose), and on the real Grid only column L is populated: measured by the harness; the failure of strict mask closure there is proved, not_maskClosed_gPad)")
_try_sub('C04', "T4.2 is instantiated for the concrete grid under AnalyticLaws only (total_tendency_indep_of_reference_grid; fully discharged on gT: t42_gT).",
         "T4.2 is instantiated for the concrete grid under WF, MaskOk, NO padding column (which excludes padded FastSphericalHarmonics layouts) and AnalyticLaws (total_tendency_indep_of_reference_grid; fully discharged on gT: t42_gT).")
_try_sub('C10', "For the mirror all operation-wise commutation laws are theorems of the instance (equivariant_mirror); the two transform laws reduce to T10.3; the rotation is not packaged for the instance.",
         "For the mirror all operation-wise commutation laws are theorems of the instance (equivariant_mirror) given symmetric cos / sec^2 / sin node tables; the two transform laws reduce to T10.3 for the real layout only; no grid satisfying all five hypotheses is exhibited in Lean; the rotation is not packaged for the instance.")
_try_sub('C01', "it is the identity (except the structurally zero row / column 1 of the zero-imag layout) iff 2(M-1) < N,",
         "it is the identity iff 2(M-1) < N (real layout; for the zero-imag layout, identity except the structurally zero row / column 1, the 'if' direction is the indexed theorem),")
_try_sub('C01', "for all N, M, L, J and any padding,", "for all N, M, L, J and any padding with an even number of padded modal rows (which the code's shapes always have),")
_try_sub('C02', "so that vor_div_roundtrip_eps applies to ALL Dom fields of those grids)",
         "in EXACT rational arithmetic of the model's operators on the live double arrays, so that vor_div_roundtrip_eps applies to ALL Dom fields of those grids with |round trip - id| <= 2 rows cols 2^-40 max(|vor|,|div|) below the top wavenumber (roundtrip_h1..h5; two of the clip=True cases have an empty Dom on these tiny grids); the float64 round trip of the real code is compared with that bound by a separate probe)")
_try_sub('C18', "proved for a bit-exact double model that is compared bit for bit with the code;",
         "proved for a double model whose floor is exact (true of jnp.floor_divide for |x / 2 pi| < 2^49, i.e. every realistic model time; beyond ~3e15 the real code differs) and which is compared bit for bit with the eager float64 code;")
CHECKS['C18']['text'] = CHECKS['C18']['text'].replace("with the characterisation that a linearised conversion agrees only for offset 0;", "with the characterisation that a linearised conversion agrees iff offset = 0 or v = 1;")
CHECKS['C19']['text'] += (" Domain of the array statements: all leaves of one dtype representable under the active precision (jnp.concatenate / stack promote dtypes: an int32 leaf packed with float32 leaves comes back rounded), rank >= 1, axis in range, all trees of the same structure; "
                          "real NetCDF round trips skip tracer names that NetCDF cannot encode (non-ASCII: UnicodeEncodeError, counted in the evidence). Known findings: single-layer-nodal-3d, modal-equals-nodal-shape, multichar-separator-overlap.")
_try_sub('C14', "else IndexError when every leaf has exactly one row, else TypeError);", "else IndexError when every leaf whose trailing size is positive has exactly one row, else TypeError; rank-0 leaves are outside the model); the ValueError for a zero non-innermost length with an output leaf IS the recorded known finding nested-scan-zero-outer;")
CHECKS['C12']['text'] += " Known finding (reported by the check on every run): shallow_water.default_filters relies on a tau default expressed in DEFAULT_SCALE time units."
CHECKS['C06']['note'] += ' Correspondence cases in which the random linear problem makes a resolvent singular (ZeroDivisionError / LinAlgError in the exact rational run) are skipped and counted in the evidence.'

NOT_YET = {
}


def main():
  checks = []
  for pid in sorted(CHECKS):
    c = CHECKS[pid]
    checks.append(dict(
        property_id=pid,
        quick_cmd=f'./check {pid} quick',
        thorough_cmd=f'./check {pid} thorough',
        evidence_file=f'evidence/{pid}.json',
        replay_cmd_template=f'./check {pid} quick --replay {{path}}',
        engine='lean4-model+correspondence',
        level_claimed=dict(category='proof', text=c['text'], design_ref=f"DESIGN.md section {c['design']}"),
        level_note=c['note'],
        technique=c['technique'],
    ))
  all_ids = [f'C{i:02d}' for i in range(1, 21)]
  na = [dict(property_id=p, reason=NOT_YET.get(p, 'check not yet registered in this commit (work in progress; see DESIGN.md section 6 for the plan)'))
        for p in all_ids if p not in CHECKS]
  man = dict(
      version=1,
      setup_cmd='cd lean && lake build',
      hooks=dict(
          guard='DINOSAUR_VERIF',
          enable='no source hooks: checks import /repo/dinosaur in-process with /venv/bin/python; DINOSAUR_VERIF is reserved and guards nothing',
          baseline_off_cmd='cd /repo && /venv/bin/python -m pytest -ra -q -p no:cacheprovider --timeout=900 --continue-on-collection-errors',
          source_commits=[],
          add_only=True),
      engines=[dict(name='lean4-model+correspondence', path='lean/ + harness/',
                    serves_properties=sorted(CHECKS),
                    kind_free_text='Lean 4 + Mathlib proofs about an executable model; Python differential correspondence and failing-input search against /repo')],
      checks=checks,
      notes='fix: commits in /repo (unguarded defect repairs): see known_findings.json "fixed" entries. '
            'Exit codes: 0 ok, 1 VIOLATION, 2 infrastructure error/timeouts.',
      not_applicable=na,
  )
  with open(os.path.join(VERIF, 'MANIFEST.json'), 'w') as f:
    json.dump(man, f, indent=1)
  print('wrote MANIFEST.json with', len(checks), 'checks')


if __name__ == '__main__':
  main()
