import DinoGen.Tableaux
