import DinoGen.Tableaux
import DinoGen.ForcingConsts
