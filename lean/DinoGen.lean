import DinoGen.Tableaux
import DinoGen.ForcingConsts
import DinoGen.SHCert
import DinoGen.GridCert
