import DinoGen.GridCert.H1
import DinoGen.GridCert.H2
import DinoGen.GridCert.H3
import DinoGen.GridCert.H4
import DinoGen.GridCert.H5
/-! GENERATED on every run of C02 by harness/props/c02_gridcert.py from the arrays that a live
`dinosaur.spherical_harmonic.Grid` object computes (radius, derivative recurrence weights, `basis.f`, `basis.p`,
`basis.w`, `cos_lat`), as exact integers with a common binary exponent per array, with kernel-checked
certificates of Hyp-A / Hyp-B on every unit field of the domain of the wind round trip.  Do not edit. -/
