/-! GENERATED on every run by harness/gen/consts_c20.py from dinosaur/radiation.py and
  dinosaur/held_suarez.py (exact rationals of the literals in the source). Do not edit. -/
namespace DinoGen.ForcingConsts

/-- radiation.DAYS_PER_YEAR -/
def daysPerYear : Rat := (1461 : Rat) / 4
/-- radiation.MINUTES_PER_DAY -/
def minutesPerDay : Rat := (1440 : Rat)
/-- radiation.SECONDS_PER_DAY -/
def secondsPerDay : Rat := (86400 : Rat)
/-- radiation.TOTAL_SOLAR_IRRADIANCE [W/m^2] -/
def totalSolarIrradiance : Rat := (1361 : Rat)
/-- radiation.SOLAR_IRRADIANCE_VARIATION [W/m^2] -/
def solarIrradianceVariation : Rat := (47 : Rat)
/-- equation_of_time: coefficient of sin(k1*b) -/
def eotA : Rat := (987 : Rat) / 100
/-- equation_of_time: coefficient of cos(k2*b) (subtracted) -/
def eotB : Rat := (753 : Rat) / 100
/-- equation_of_time: coefficient of sin(k3*b) (subtracted) -/
def eotC : Rat := (3 : Rat) / 2
/-- HeldSuarezForcing default p0 [Pa] -/
def hsP0 : Rat := (100000 : Rat)
/-- HeldSuarezForcing default sigma_b -/
def hsSigmaB : Rat := (7 : Rat) / 10
/-- HeldSuarezForcing default kf [1/day] -/
def hsKf : Rat := (1 : Rat)
/-- HeldSuarezForcing default ka [1/day] -/
def hsKa : Rat := (1 : Rat) / 40
/-- HeldSuarezForcing default ks [1/day] -/
def hsKs : Rat := (1 : Rat) / 4
/-- HeldSuarezForcing default minT [K] -/
def hsMinT : Rat := (200 : Rat)
/-- HeldSuarezForcing default maxT [K] -/
def hsMaxT : Rat := (315 : Rat)
/-- HeldSuarezForcing default dTy [K] -/
def hsDTy : Rat := (60 : Rat)
/-- HeldSuarezForcing default dThz [K] -/
def hsDThz : Rat := (10 : Rat)
/-- equation_of_time: the multiples k1, k2, k3 of `b = orbital_phase - SPRING_EQUINOX` inside sin, cos, sin -/
def eotHarmonics : List Rat := [(2 : Rat), (1 : Rat), (1 : Rat)]

end DinoGen.ForcingConsts
