import Dino.GridCert
/-! GENERATED on every run of C02 by harness/props/c02_gridcert.py from the arrays that a live
`dinosaur.spherical_harmonic.Grid` object computes (radius, derivative recurrence weights, `basis.f`, `basis.p`,
`basis.w`, `cos_lat`), as exact integers with a common binary exponent per array, with kernel-checked
certificates of Hyp-A / Hyp-B on every unit field of the domain of the wind round trip.  Do not edit. -/
set_option maxRecDepth 100000
namespace DinoGen.GridCert
open Dino

/-! ### h3: fast M=2 L=3 nlon=8 nlat=4 gauss radius=0.54 offset=0.0 {'base_shape_multiple': 4}
  modal shape (8, 4), nodal shape (8, 4) -/
def h3 : Grid.GCert where
  ly := ⟨true, 2, 3, 4, 1⟩
  N := 8
  J := 4
  rn := 607985949695017
  re := 50
  a := [
    [0, 10400617828738616, 9302595389222324, 0],
    [0, 0, 0, 0],
    [0, 0, 8056283928194521, 0],
    [0, 0, 8056283928194521, 0],
    [0, 0, 0, 0],
    [0, 0, 0, 0],
    [0, 0, 0, 0],
    [0, 0, 0, 0]]
  ea := 54
  b := [
    [10400617828738616, 9302595389222324, 9134967327998248, 0],
    [0, 0, 0, 0],
    [0, 8056283928194521, 8612529791393490, 0],
    [0, 8056283928194521, 8612529791393490, 0],
    [0, 0, 0, 0],
    [0, 0, 0, 0],
    [0, 0, 0, 0],
    [0, 0, 0, 0]]
  eb := 54
  f := [
    [64732085914533729860086919069696, 0, 91544993821033987464612024418304, 0, 0, 0, 0, 0],
    [64732085914533729860086919069696, 0, 64732085914533729860086919069696, 64732085914533720852887664328704, 0, 0, 0, 0],
    [64732085914533729860086919069696, 0, 5605514183044675, 91544993821033987464612024418304, 0, 0, 0, 0],
    [64732085914533729860086919069696, 0, (-64732085914533720852887664328704), 64732085914533729860086919069696, 0, 0, 0, 0],
    [64732085914533729860086919069696, 0, (-91544993821033987464612024418304), 11211028366089350, 0, 0, 0, 0],
    [64732085914533729860086919069696, 0, (-64732085914533738867286173810688), (-64732085914533720852887664328704), 0, 0, 0, 0],
    [64732085914533729860086919069696, 0, (-16816542549134024), (-91544993821033987464612024418304), 0, 0, 0, 0],
    [64732085914533729860086919069696, 0, 64732085914533711845688409587712, (-64732085914533738867286173810688), 0, 0, 0, 0]]
  ef := 107
  p := [
   [
     [12738103345051544, (-18999286770331088), 17441260777514320, 0],
     [12738103345051544, (-7501016106948392), (-9303185067813544), 0],
     [12738103345051544, 7501016106948392, (-9303185067813544), 0],
     [12738103345051544, 18999286770331088, 17441260777514320, 0]],
   [
     [0, (-7931107511134939), 15271818070198340, 0],
     [0, (-14671615245959470), 11153665972118816, 0],
     [0, (-14671615245959470), (-11153665972118816), 0],
     [0, (-7931107511134939), (-15271818070198340), 0]],
   [
     [0, 0, 0, 0],
     [0, 0, 0, 0],
     [0, 0, 0, 0],
     [0, 0, 0, 0]],
   [
     [0, 0, 0, 0],
     [0, 0, 0, 0],
     [0, 0, 0, 0],
     [0, 0, 0, 0]]]
  ep := 54
  w := [4921615755394765, 9226859748662116, 9226859748662116, 4921615755394765]
  ew := 54
  cosl := [4579027056525620, 8470661011701319, 8470661011701319, 4579027056525620]
  ec := 53
theorem h3_shape : h3.shapeOk = true := by decide +kernel
theorem h3_hyp0_r0 : h3.rowOk false (1 / 2 ^ 40) 0 = true := by decide +kernel
theorem h3_hyp0_r1 : h3.rowOk false (1 / 2 ^ 40) 1 = true := by decide +kernel
theorem h3_hyp0_r2 : h3.rowOk false (1 / 2 ^ 40) 2 = true := by decide +kernel
theorem h3_hyp0_r3 : h3.rowOk false (1 / 2 ^ 40) 3 = true := by decide +kernel
theorem h3_hyp0_r4 : h3.rowOk false (1 / 2 ^ 40) 4 = true := by decide +kernel
theorem h3_hyp0_r5 : h3.rowOk false (1 / 2 ^ 40) 5 = true := by decide +kernel
theorem h3_hyp0_r6 : h3.rowOk false (1 / 2 ^ 40) 6 = true := by decide +kernel
theorem h3_hyp0_r7 : h3.rowOk false (1 / 2 ^ 40) 7 = true := by decide +kernel
theorem h3_hyp0 : h3.hypOk false (1 / 2 ^ 40) = true :=
  Grid.GCert.hypOk_of_rows h3 false _ 8 rfl (fun i hi => match i, hi with
    | 0, _ => h3_hyp0_r0
    | 1, _ => h3_hyp0_r1
    | 2, _ => h3_hyp0_r2
    | 3, _ => h3_hyp0_r3
    | 4, _ => h3_hyp0_r4
    | 5, _ => h3_hyp0_r5
    | 6, _ => h3_hyp0_r6
    | 7, _ => h3_hyp0_r7
    | n + 8, h => absurd h (by omega))
theorem h3_hyp1_r0 : h3.rowOk true (1 / 2 ^ 40) 0 = true := by decide +kernel
theorem h3_hyp1_r1 : h3.rowOk true (1 / 2 ^ 40) 1 = true := by decide +kernel
theorem h3_hyp1_r2 : h3.rowOk true (1 / 2 ^ 40) 2 = true := by decide +kernel
theorem h3_hyp1_r3 : h3.rowOk true (1 / 2 ^ 40) 3 = true := by decide +kernel
theorem h3_hyp1_r4 : h3.rowOk true (1 / 2 ^ 40) 4 = true := by decide +kernel
theorem h3_hyp1_r5 : h3.rowOk true (1 / 2 ^ 40) 5 = true := by decide +kernel
theorem h3_hyp1_r6 : h3.rowOk true (1 / 2 ^ 40) 6 = true := by decide +kernel
theorem h3_hyp1_r7 : h3.rowOk true (1 / 2 ^ 40) 7 = true := by decide +kernel
theorem h3_hyp1 : h3.hypOk true (1 / 2 ^ 40) = true :=
  Grid.GCert.hypOk_of_rows h3 true _ 8 rfl (fun i hi => match i, hi with
    | 0, _ => h3_hyp1_r0
    | 1, _ => h3_hyp1_r1
    | 2, _ => h3_hyp1_r2
    | 3, _ => h3_hyp1_r3
    | 4, _ => h3_hyp1_r4
    | 5, _ => h3_hyp1_r5
    | 6, _ => h3_hyp1_r6
    | 7, _ => h3_hyp1_r7
    | n + 8, h => absurd h (by omega))

end DinoGen.GridCert
