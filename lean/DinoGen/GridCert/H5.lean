import Dino.GridCert
/-! GENERATED on every run of C02 by harness/props/c02_gridcert.py from the arrays that a live
`dinosaur.spherical_harmonic.Grid` object computes (radius, derivative recurrence weights, `basis.f`, `basis.p`,
`basis.w`, `cos_lat`), as exact integers with a common binary exponent per array, with kernel-checked
certificates of Hyp-A / Hyp-B on every unit field of the domain of the wind round trip.  Do not edit. -/
set_option maxRecDepth 100000
namespace DinoGen.GridCert
open Dino

/-! ### h5: fast M=2 L=4 nlon=6 nlat=4 gauss radius=1.0 offset=0.7 {'base_shape_multiple': 2}
  modal shape (4, 4), nodal shape (6, 4) -/
def h5 : Grid.GCert where
  ly := ⟨true, 2, 4, 0, 0⟩
  N := 6
  J := 4
  rn := 1
  re := 0
  a := [
    [0, 10400617828738616, 9302595389222324, 9134967327998248],
    [0, 0, 0, 0],
    [0, 0, 8056283928194521, 8612529791393490],
    [0, 0, 8056283928194521, 8612529791393490]]
  ea := 54
  b := [
    [10400617828738616, 9302595389222324, 9134967327998248, 0],
    [0, 0, 0, 0],
    [0, 8056283928194521, 8612529791393490, 0],
    [0, 8056283928194521, 8612529791393490, 0]]
  eb := 54
  f := [
    [32366042957266864930043459534848, 0, 45772496910516993732306012209152, 0],
    [32366042957266864930043459534848, 0, 22886248455258501369752633475072, 39640145119152446090345130754048],
    [32366042957266864930043459534848, 0, (-22886248455258487858953751363584), 39640145119152450593944758124544],
    [32366042957266864930043459534848, 0, (-45772496910516993732306012209152), 5605514183044675],
    [32366042957266864930043459534848, 0, (-22886248455258519384151142957056), (-39640145119152437083145876013056)],
    [32366042957266864930043459534848, 0, 22886248455258465340955614511104, (-39640145119152468608343267606528)]]
  ef := 106
  p := [
   [
     [12738103345051544, (-18999286770331088), 17441260777514320, (-10270538279817418)],
     [12738103345051544, (-7501016106948392), (-9303185067813544), 13875996778556238],
     [12738103345051544, 7501016106948392, (-9303185067813544), (-13875996778556238)],
     [12738103345051544, 18999286770331088, 17441260777514320, 10270538279817418]],
   [
     [0, (-7931107511134939), 15271818070198340, (-20088663170686400)],
     [0, (-14671615245959470), 11153665972118816, 5792429137221433],
     [0, (-14671615245959470), (-11153665972118816), 5792429137221433],
     [0, (-7931107511134939), (-15271818070198340), (-20088663170686400)]]]
  ep := 54
  w := [1640538585131588, 3075619916220705, 3075619916220705, 1640538585131588]
  ew := 52
  cosl := [4579027056525620, 8470661011701319, 8470661011701319, 4579027056525620]
  ec := 53
theorem h5_shape : h5.shapeOk = true := by decide +kernel
theorem h5_hyp0_r0 : h5.rowOk false (1 / 2 ^ 40) 0 = true := by decide +kernel
theorem h5_hyp0_r1 : h5.rowOk false (1 / 2 ^ 40) 1 = true := by decide +kernel
theorem h5_hyp0_r2 : h5.rowOk false (1 / 2 ^ 40) 2 = true := by decide +kernel
theorem h5_hyp0_r3 : h5.rowOk false (1 / 2 ^ 40) 3 = true := by decide +kernel
theorem h5_hyp0 : h5.hypOk false (1 / 2 ^ 40) = true :=
  Grid.GCert.hypOk_of_rows h5 false _ 4 rfl (fun i hi => match i, hi with
    | 0, _ => h5_hyp0_r0
    | 1, _ => h5_hyp0_r1
    | 2, _ => h5_hyp0_r2
    | 3, _ => h5_hyp0_r3
    | n + 4, h => absurd h (by omega))
theorem h5_hyp1_r0 : h5.rowOk true (1 / 2 ^ 40) 0 = true := by decide +kernel
theorem h5_hyp1_r1 : h5.rowOk true (1 / 2 ^ 40) 1 = true := by decide +kernel
theorem h5_hyp1_r2 : h5.rowOk true (1 / 2 ^ 40) 2 = true := by decide +kernel
theorem h5_hyp1_r3 : h5.rowOk true (1 / 2 ^ 40) 3 = true := by decide +kernel
theorem h5_hyp1 : h5.hypOk true (1 / 2 ^ 40) = true :=
  Grid.GCert.hypOk_of_rows h5 true _ 4 rfl (fun i hi => match i, hi with
    | 0, _ => h5_hyp1_r0
    | 1, _ => h5_hyp1_r1
    | 2, _ => h5_hyp1_r2
    | 3, _ => h5_hyp1_r3
    | n + 4, h => absurd h (by omega))

end DinoGen.GridCert
