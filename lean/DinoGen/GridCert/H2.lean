import Dino.GridCert
/-! GENERATED on every run of C02 by harness/props/c02_gridcert.py from the arrays that a live
`dinosaur.spherical_harmonic.Grid` object computes (radius, derivative recurrence weights, `basis.f`, `basis.p`,
`basis.w`, `cos_lat`), as exact integers with a common binary exponent per array, with kernel-checked
certificates of Hyp-A / Hyp-B on every unit field of the domain of the wind round trip.  Do not edit. -/
set_option maxRecDepth 100000
namespace DinoGen.GridCert
open Dino

/-! ### h2: real M=2 L=4 nlon=5 nlat=4 gauss radius=6.37 offset=0.3 
  modal shape (3, 4), nodal shape (5, 4) -/
def h2 : Grid.GCert where
  ly := ⟨false, 2, 4, 0, 0⟩
  N := 5
  J := 4
  rn := 7171982406587515
  re := 50
  a := [
    [0, 10400617828738616, 9302595389222324, 9134967327998248],
    [0, 0, 8056283928194521, 8612529791393490],
    [0, 0, 8056283928194521, 8612529791393490]]
  ea := 54
  b := [
    [10400617828738616, 9302595389222324, 9134967327998248, 0],
    [0, 8056283928194521, 8612529791393490, 0],
    [0, 8056283928194521, 8612529791393490, 0]]
  eb := 54
  f := [
    [14373410442865826, 20327071985855924, 0],
    [14373410442865826, 6281410689512392, 19332194269348944],
    [14373410442865826, (-16444946682440352), 11947953135573590],
    [14373410442865826, (-16444946682440356), (-11947953135573584)],
    [14373410442865826, 6281410689512387, (-19332194269348944)]]
  ef := 55
  p := [
   [
     [12738103345051544, (-18999286770331088), 17441260777514320, (-10270538279817418)],
     [12738103345051544, (-7501016106948392), (-9303185067813544), 13875996778556238],
     [12738103345051544, 7501016106948392, (-9303185067813544), (-13875996778556238)],
     [12738103345051544, 18999286770331088, 17441260777514320, 10270538279817418]],
   [
     [0, (-7931107511134939), 15271818070198340, (-20088663170686400)],
     [0, (-14671615245959470), 11153665972118816, 5792429137221433],
     [0, (-14671615245959470), (-11153665972118816), 5792429137221433],
     [0, (-7931107511134939), (-15271818070198340), (-20088663170686400)]],
   [
     [0, (-7931107511134939), 15271818070198340, (-20088663170686400)],
     [0, (-14671615245959470), 11153665972118816, 5792429137221433],
     [0, (-14671615245959470), (-11153665972118816), 5792429137221433],
     [0, (-7931107511134939), (-15271818070198340), (-20088663170686400)]]]
  ep := 54
  w := [7874585208631623, 14762975597859384, 14762975597859384, 7874585208631623]
  ew := 54
  cosl := [4579027056525620, 8470661011701319, 8470661011701319, 4579027056525620]
  ec := 53
theorem h2_shape : h2.shapeOk = true := by decide +kernel
theorem h2_hyp0_r0 : h2.rowOk false (1 / 2 ^ 40) 0 = true := by decide +kernel
theorem h2_hyp0_r1 : h2.rowOk false (1 / 2 ^ 40) 1 = true := by decide +kernel
theorem h2_hyp0_r2 : h2.rowOk false (1 / 2 ^ 40) 2 = true := by decide +kernel
theorem h2_hyp0 : h2.hypOk false (1 / 2 ^ 40) = true :=
  Grid.GCert.hypOk_of_rows h2 false _ 3 rfl (fun i hi => match i, hi with
    | 0, _ => h2_hyp0_r0
    | 1, _ => h2_hyp0_r1
    | 2, _ => h2_hyp0_r2
    | n + 3, h => absurd h (by omega))
theorem h2_hyp1_r0 : h2.rowOk true (1 / 2 ^ 40) 0 = true := by decide +kernel
theorem h2_hyp1_r1 : h2.rowOk true (1 / 2 ^ 40) 1 = true := by decide +kernel
theorem h2_hyp1_r2 : h2.rowOk true (1 / 2 ^ 40) 2 = true := by decide +kernel
theorem h2_hyp1 : h2.hypOk true (1 / 2 ^ 40) = true :=
  Grid.GCert.hypOk_of_rows h2 true _ 3 rfl (fun i hi => match i, hi with
    | 0, _ => h2_hyp1_r0
    | 1, _ => h2_hyp1_r1
    | 2, _ => h2_hyp1_r2
    | n + 3, h => absurd h (by omega))

end DinoGen.GridCert
