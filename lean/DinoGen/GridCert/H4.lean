import Dino.GridCert
/-! GENERATED on every run of C02 by harness/props/c02_gridcert.py from the arrays that a live
`dinosaur.spherical_harmonic.Grid` object computes (radius, derivative recurrence weights, `basis.f`, `basis.p`,
`basis.w`, `cos_lat`), as exact integers with a common binary exponent per array, with kernel-checked
certificates of Hyp-A / Hyp-B on every unit field of the domain of the wind round trip.  Do not edit. -/
set_option maxRecDepth 100000
namespace DinoGen.GridCert
open Dino

/-! ### h4: real M=2 L=3 nlon=5 nlat=6 equiangular radius=2.0 offset=0.0 
  modal shape (3, 3), nodal shape (5, 6) -/
def h4 : Grid.GCert where
  ly := ⟨false, 2, 3, 0, 0⟩
  N := 5
  J := 6
  rn := 2
  re := 0
  a := [
    [0, 10400617828738616, 9302595389222324],
    [0, 0, 8056283928194521],
    [0, 0, 8056283928194521]]
  ea := 54
  b := [
    [10400617828738616, 9302595389222324, 0],
    [0, 8056283928194521, 0],
    [0, 8056283928194521, 0]]
  eb := 54
  f := [
    [14373410442865826, 20327071985855924, 0],
    [14373410442865826, 6281410689512392, 19332194269348944],
    [14373410442865826, (-16444946682440352), 11947953135573590],
    [14373410442865826, (-16444946682440356), (-11947953135573584)],
    [14373410442865826, 6281410689512387, (-19332194269348944)]]
  ef := 55
  p := [
   [
     [12738103345051544, (-21311262253665448), 25621239540108284],
     [12738103345051544, (-15600926743107920), 7120816245988171],
     [12738103345051544, (-5710335510557523), (-11379607048131930)],
     [12738103345051544, 5710335510557528, (-11379607048131928)],
     [12738103345051544, 15600926743107928, 7120816245988190],
     [12738103345051544, 21311262253665448, 25621239540108284]],
   [
     [0, (-4037816962365569), 8721183177395923],
     [0, (-11031521092846172), 17442366354791856],
     [0, (-15069338055211742), 8721183177395925],
     [0, (-15069338055211742), (-8721183177395933)],
     [0, (-11031521092846168), (-17442366354791856)],
     [0, (-4037816962365569), (-8721183177395923)]],
   [
     [0, (-4037816962365569), 8721183177395923],
     [0, (-11031521092846172), 17442366354791856],
     [0, (-15069338055211742), 8721183177395925],
     [0, (-15069338055211742), (-8721183177395933)],
     [0, (-11031521092846168), (-17442366354791856)],
     [0, (-4037816962365569), (-8721183177395923)]]]
  ep := 54
  w := [5372392173756116, 17103934831570990, 22798794607654916, 22798794607654928, 17103934831570978, 5372392173756109]
  ew := 55
  cosl := [4662469420320397, 12738103345051546, 17400572765371946, 17400572765371944, 12738103345051542, 4662469420320397]
  ec := 54
theorem h4_shape : h4.shapeOk = true := by decide +kernel
theorem h4_hyp0_r0 : h4.rowOk false (1 / 2 ^ 40) 0 = true := by decide +kernel
theorem h4_hyp0_r1 : h4.rowOk false (1 / 2 ^ 40) 1 = true := by decide +kernel
theorem h4_hyp0_r2 : h4.rowOk false (1 / 2 ^ 40) 2 = true := by decide +kernel
theorem h4_hyp0 : h4.hypOk false (1 / 2 ^ 40) = true :=
  Grid.GCert.hypOk_of_rows h4 false _ 3 rfl (fun i hi => match i, hi with
    | 0, _ => h4_hyp0_r0
    | 1, _ => h4_hyp0_r1
    | 2, _ => h4_hyp0_r2
    | n + 3, h => absurd h (by omega))
theorem h4_hyp1_r0 : h4.rowOk true (1 / 2 ^ 40) 0 = true := by decide +kernel
theorem h4_hyp1_r1 : h4.rowOk true (1 / 2 ^ 40) 1 = true := by decide +kernel
theorem h4_hyp1_r2 : h4.rowOk true (1 / 2 ^ 40) 2 = true := by decide +kernel
theorem h4_hyp1 : h4.hypOk true (1 / 2 ^ 40) = true :=
  Grid.GCert.hypOk_of_rows h4 true _ 3 rfl (fun i hi => match i, hi with
    | 0, _ => h4_hyp1_r0
    | 1, _ => h4_hyp1_r1
    | 2, _ => h4_hyp1_r2
    | n + 3, h => absurd h (by omega))

end DinoGen.GridCert
