import Dino.Shard
import Dino.ShardEinsum
/-!
# `jax_numpy_utils.sharded_einsum` on two 2-D operands over a one-axis mesh — from the plan to the collectives

`Dino.ShardEinsum.plan` mirrors the *decisions* of `sharded_einsum` (strategy, `lhs_spec`, `split_axis` /
`scatter_axis`, reduce axis name); `Dino.Shard.allgatherMatmul` / `matmulReducescatter` mirror the two collective
schedules on abstract chunks `lhs a c`.  This file mirrors what lies between them in the code, for 2-D operands:

* `shard_map(in_specs=(lhs_spec, rhs_spec))`: device `d` receives the block of `lhs` cut along every axis whose
  `lhs_spec` entry is the mesh axis (`shardBlock`), and rows block `d` of `rhs` (`rhs_spec = P(name, None)`:
  `splitEvery`);
* inside the collective: `chunk_size = lhs.shape[axis] // axis_size` on the *block*, and
  `lax.dynamic_slice_in_dim(lhs, chunk_index * chunk_size, chunk_size, axis)` (`sliceAxis`).

Only the 2-D / one-axis case is modelled (the einsums of the transforms carry batch letters and live on a 3-axis
mesh; for those the link from the plan to the block layout of the operands is covered by the schedule trace and
the sharded-vs-unsharded differential of the harness, not by a theorem).
-/
namespace Dino.ShardEinsum
open Dino.Shard

section blocks
variable {α : Type}

/-- `lax.dynamic_slice_in_dim(m, c * size, size, axis)` on a 2-D array (list of rows) -/
def sliceAxis (axis : Nat) (m : List (List α)) (c size : Nat) : List (List α) :=
  if axis = 0 then rowChunk m c size else colChunk m c size

/-- `shape[axis]` of a 2-D shape -/
def shapeAt (shape : Nat × Nat) (axis : Nat) : Nat := if axis = 0 then shape.1 else shape.2

/-- axis `t` of an array with partition spec `spec` is cut over the mesh axis `name` (a spec shorter than the rank
 leaves the remaining axes unsharded) -/
def shardedBy (spec : List (Option String)) (t : Nat) (name : String) : Bool := spec.getD t none == some name

/-- shape of the block every device holds under `shard_map` with in-spec `spec` on a one-axis mesh (`name`, `n`
 devices), for an operand of shape `shape` -/
def blockShape (spec : List (Option String)) (name : String) (n : Nat) (shape : Nat × Nat) : Nat × Nat :=
  (if shardedBy spec 0 name then shape.1 / n else shape.1, if shardedBy spec 1 name then shape.2 / n else shape.2)

/-- the block of device `d` -/
def shardBlock (spec : List (Option String)) (name : String) (n : Nat) (shape : Nat × Nat) (m : List (List α))
    (d : Nat) : List (List α) :=
  let bs := blockShape spec name n shape
  let m1 := if shardedBy spec 0 name then rowChunk m d bs.1 else m
  if shardedBy spec 1 name then colChunk m1 d bs.2 else m1

end blocks

/-- `distributed_matmul` of `sharded_einsum` for a 2-D `lhs` of shape `lhsShape` and a 2-D `rhs` with `rhsRows` rows
 whose leading axis is sharded over the mesh axis `p.axisName` (`n` devices; `rhs_spec = P(name, None)`), given the
 plan `p`: the per-device results of the collective the plan selects (`none` = `ValueError`: odd axis size; a plan
 without a mesh axis name cannot arise from `plan`, whose reduce axis is sharded).  `mm` is the chunk product. -/
def shardedEinsumMat {α M : Type} [Add M] [Zero M] (mm : List (List α) → List (List α) → M) (p : Plan) (n : Nat)
    (lhsShape : Nat × Nat) (rhsRows : Nat) (lhs rhs : List (List α)) : Option (List M) :=
  match p.axisName with
  | none => none
  | some name =>
    let bs := blockShape p.lhsSpec name n lhsShape
    let chunk := shapeAt bs p.axis / n
    let chunks := fun d c => sliceAxis p.axis (shardBlock p.lhsSpec name n lhsShape lhs d) c chunk
    let shards := splitEvery (rhsRows / n) rhs
    if p.gather then allgatherMatmul mm [] chunks shards else matmulReducescatter mm [] chunks shards

end Dino.ShardEinsum
