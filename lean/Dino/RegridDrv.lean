import Dino.Util
import Dino.Regrid
/-! Line-protocol operations for the regridding model: `regrid <F|Q> <op> args…`

 `sin` is `Num.sin` (meaningful at `F` only); Python's `%` is implemented exactly at both
 scalars (`PyMod`).  A NaN of a field travels as `n`. -/
namespace Dino.Regrid
open Dino

/-- exact rational value of a finite double -/
def floatToRat? (x : Float) : Option Rat :=
  let b := x.toBits.toNat
  let neg := b / 2 ^ 63 = 1
  let e : Nat := (b / 2 ^ 52) % 2048
  let m : Nat := b % 2 ^ 52
  if e = 2047 then none else
  let (mant, ex) : Nat × Int := if e = 0 then (m, -1074) else (m + 2 ^ 52, (e : Int) - 1075)
  let r : Rat := if ex ≥ 0 then ((mant * 2 ^ ex.toNat : Nat) : Rat) else mkRat mant (2 ^ (-ex).toNat)
  some (if neg then -r else r)

/-- C `fmod` (exact: the result is a double), then numpy's sign adjustment of `np.mod` -/
def pyModFloat (x p : Float) : Float :=
  match floatToRat? x, floatToRat? p with
  | some xr, some pr =>
    if pr = 0 then x - x / p * p  -- NaN, as numpy
    else
      let q := xr / pr
      let tq : Int := if q ≥ 0 then q.floor else -((-q).floor)
      let r := ratToFloat (xr - pr * tq)
      if r == 0 then 0
      else if (p < 0) != (r < 0) then r + p else r
  | _, _ => x - x / p * p

def pyModRat (x p : Rat) : Rat := if p = 0 then 0 else x - p * (x / p).floor

class PyMod (K : Type) where
  md : K → K → K

instance : PyMod Float := ⟨pyModFloat⟩
instance : PyMod Rat := ⟨pyModRat⟩

variable (K : Type) [Num K] [PyMod K]

local instance numLT : LT K := ⟨fun a b => Num.ltb a b = true⟩
local instance numDecLT : DecidableLT K := fun a b => inferInstanceAs (Decidable (Num.ltb a b = true))

def parseOpt? (s : String) : Option (Option K) :=
  if s = "n" then some none else (Num.parse? s).map some

def parseOptMat? (s : String) : Option (List (List (Option K))) :=
  if s = "_" then some [] else (s.splitOn ";").mapM fun r => (r.splitOn ",").mapM (parseOpt? K)

def renderOpt (v : Option K) : String :=
  match v with
  | some x => Num.render x
  | none => "n"

def renderOptMat (m : List (List (Option K))) : String :=
  if m.isEmpty then "_" else ";".intercalate (m.map fun r => ",".intercalate (r.map (renderOpt K)))

def renderOptW (r : Option (List (List K))) : String :=
  match r with
  | some w => renderMat w
  | none => "value-error"

/-- `rtol=1e-3`, default `atol=1e-8` of `jnp.isclose` -/
def rtolK : K := Num.ofRat (1 / 1000 : Rat)
def atolK : K := Num.ofRat (1 / 100000000 : Rat)

def runK : List String → Option String
  | ["latbounds", hp, x] => do
      let hp ← Num.parse? (K := K) hp; let x ← parseVec? x
      pure (renderVec (latBounds hp x))
  | ["latov", hp, s, t] => do
      let hp ← Num.parse? (K := K) hp; let s ← parseVec? s; let t ← parseVec? t
      pure (renderMat (latOverlap Num.sin hp s t))
  | ["latw", hp, s, t] => do
      let hp ← Num.parse? (K := K) hp; let s ← parseVec? s; let t ← parseVec? t
      pure (renderOptW K (latWeights Num.sin hp s t))
  | ["lonbounds", p, x] => do
      let p ← Num.parse? (K := K) p; let x ← parseVec? x
      let xm := x.map (PyMod.md · p)
      pure (renderMat [lowerBounds p xm, upperBounds p xm])
  | ["lonov", p, a, b] => do
      let p ← Num.parse? (K := K) p; let a ← parseVec? a; let b ← parseVec? b
      pure (renderMat (lonOverlap PyMod.md p a b))
  | ["lonw", p, s, t] => do
      let p ← Num.parse? (K := K) p; let s ← parseVec? s; let t ← parseVec? t
      pure (renderOptW K (lonWeights PyMod.md p s t))
  | ["align", x, t, p] => do
      let x ← Num.parse? (K := K) x; let t ← Num.parse? t; let p ← Num.parse? p
      pure (Num.render (alignPhase x t p))
  | ["intov", sb, tb] => do
      let sb ← parseVec? (K := K) sb; let tb ← parseVec? tb
      pure (renderMat (intervalOverlap sb tb))
  | ["vertw", sb, tb] => do
      let sb ← parseVec? (K := K) sb; let tb ← parseVec? tb
      pure (renderMat (verticalWeights sb tb))
  | ["hybounds", a, b, sp] => do
      let a ← parseVec? (K := K) a; let b ← parseVec? b; let sp ← Num.parse? sp
      pure (renderVec (hybridSigmaBounds a b sp))
  | ["hybrid", a, b, sp, sg, f] => do
      let a ← parseVec? (K := K) a; let b ← parseVec? b; let sp ← Num.parse? sp
      let sg ← parseVec? sg; let f ← parseVec? f
      match regridHybridToSigma a b sp sg f with
      | some r => pure (renderVec r)
      | none => pure "value-error"
  | ["call", skip, hp, p, lonS, lonT, latS, latT, f] => do
      let skip ← parseBool? skip
      let hp ← Num.parse? (K := K) hp; let p ← Num.parse? p
      let lonS ← parseVec? lonS; let lonT ← parseVec? lonT
      let latS ← parseVec? latS; let latT ← parseVec? latT
      let f ← parseOptMat? K f
      match regrid PyMod.md Num.sin hp p (rtolK K) (atolK K) skip lonS lonT latS latT f with
      | some r => pure (renderOptMat K r)
      | none => pure "value-error"
  | ["cell", skip, mean, frac] => do
      let skip ← parseBool? skip
      let mean ← Num.parse? (K := K) mean; let frac ← Num.parse? frac
      pure (renderOptMat K [[cellValue (rtolK K) (atolK K) skip mean frac]])
  | _ => none

def run : List String → Option String
  | "F" :: rest => runK Float rest
  | "Q" :: rest => runK Rat rest
  | _ => none

end Dino.Regrid
