import Dino.Util
import Dino.Forcing
/-! Line-protocol operations for the forcing model: `forcing F <op> args…`
 (the model needs `sin`, `cos`, `exp`, `log`, `pow`, `floor`, so it is run at `Float` only).

 `cvec` = `MINUTES_PER_DAY, PERIHELION, SPRING_EQUINOX, EARTH_AXIS_INCLINATION, eotA, eotB, eotC`;
 `pvec` = `p0, kappa, minT, maxT, dTy, dThz`. -/
namespace Dino.Forcing
open Dino

instance : Transc Float where
  sin := Float.sin
  cos := Float.cos
  exp := Float.exp
  log := Float.log
  pow := Float.pow
  floor := Float.floor
  pi := 3.141592653589793

def parseConsts? (s : String) : Option (OrbitConsts Float) := do
  match ← parseVec? (K := Float) s with
  | [m, p, e, i, a, b, c] => some ⟨m, p, e, i, a, b, c⟩
  | _ => none

def parseEqParams? (s : String) : Option (EqParams Float) := do
  match ← parseVec? (K := Float) s with
  | [p0, kappa, minT, maxT, dTy, dThz] => some ⟨p0, kappa, minT, maxT, dTy, dThz⟩
  | _ => none

private def num? (s : String) : Option Float := Num.parse? (K := Float) s
private def vec? (s : String) : Option (List Float) := parseVec? (K := Float) s

/-- `value-error` when the point arrays do not have the same length (numpy would not broadcast) -/
private def sameLen (a b : List Float) (r : List Float) : String :=
  if a.length = b.length then renderVec r else "value-error"

def runF : List String → Option String
  | ["irr", phases, mean, var, peri] => do
      let phases ← vec? phases; let mean ← num? mean; let var ← num? var; let peri ← num? peri
      pure (renderVec (irradianceVec phases mean var peri))
  | ["decl", c, phases] => do
      let c ← parseConsts? c; let phases ← vec? phases
      pure (renderVec (declinationVec c phases))
  | ["eot", c, phases] => do
      let c ← parseConsts? c; let phases ← vec? phases
      pure (renderVec (equationOfTimeVec c phases))
  | ["hour", c, o, s, lon] => do
      let c ← parseConsts? c; let o ← num? o; let s ← num? s; let lon ← vec? lon
      pure (renderVec (hourAngleVec c o s lon))
  | ["sinalt", c, o, s, lon, lat] => do
      let c ← parseConsts? c; let o ← num? o; let s ← num? s; let lon ← vec? lon; let lat ← vec? lat
      pure (sameLen lon lat (solarSinAltitudeVec c o s lon lat))
  | ["flux", c, o, s, mean, var, lon, lat] => do
      let c ← parseConsts? c; let o ← num? o; let s ← num? s; let mean ← num? mean
      let var ← num? var; let lon ← vec? lon; let lat ← vec? lat
      pure (sameLen lon lat (fluxVec c o s mean var lon lat))
  | ["nflux", c, o, s, mean, var, lon, lat] => do
      let c ← parseConsts? c; let o ← num? o; let s ← num? s; let mean ← num? mean
      let var ← num? var; let lon ← vec? lon; let lat ← vec? lat
      pure (sameLen lon lat (normalizedFluxVec c o s mean var lon lat))
  | ["orbital", ro, rs, ko, ks, t] => do
      let ro ← num? ro; let rs ← num? rs; let ko ← num? ko; let ks ← num? ks; let t ← num? t
      let now := timeToOrbital ro rs ko ks t
      pure (renderVec [now.1, now.2])
  | ["fluxt", c, ro, rs, ko, ks, t, mean, var, lon, lat] => do
      let c ← parseConsts? c
      let ro ← num? ro; let rs ← num? rs; let ko ← num? ko; let ks ← num? ks; let t ← num? t
      let mean ← num? mean; let var ← num? var; let lon ← vec? lon; let lat ← vec? lat
      pure (sameLen lon lat (fluxAtTimeVec c ro rs ko ks t mean var lon lat))
  | ["kv", kf, sb, sig] => do
      let kf ← num? kf; let sb ← num? sb; let sig ← vec? sig
      pure (renderVec (kvVec kf sb sig))
  | ["kt", ka, ks, sb, sig, lat] => do
      let ka ← num? ka; let ks ← num? ks; let sb ← num? sb; let sig ← vec? sig; let lat ← vec? lat
      pure (renderMat (ktMat ka ks sb sig lat))
  | ["teq", p, sig, lat, ps] => do
      let p ← parseEqParams? p; let sig ← num? sig; let lat ← vec? lat; let ps ← vec? ps
      pure (sameLen lat ps (equilibriumTemperatureVec p sig lat ps))
  | ["veltend", kf, sb, sig, coslat, x] => do
      let kf ← num? kf; let sb ← num? sb; let sig ← num? sig
      let coslat ← vec? coslat; let x ← vec? x
      pure (sameLen coslat x (velTendency kf sb sig coslat x))
  | ["temptend", p, ka, ks, sb, sig, tref, lat, lsp, tv] => do
      let p ← parseEqParams? p; let ka ← num? ka; let ks ← num? ks; let sb ← num? sb
      let sig ← num? sig; let tref ← num? tref
      let lat ← vec? lat; let lsp ← vec? lsp; let tv ← vec? tv
      if lat.length = lsp.length ∧ lsp.length = tv.length then
        pure (renderVec (tempTendency p ka ks sb sig tref lat lsp tv))
      else pure "value-error"
  | _ => none

def run : List String → Option String
  | "F" :: rest => runF rest
  | _ => none

end Dino.Forcing
