import Dino.Comb
/-!
Line-protocol operations for the combinator model: `comb <Z|F> <op> args…`

`Z` runs on exact integers (`Int`), `F` on `Float` (bit patterns).  Step functions, filters,
post-processing functions and scan bodies are programs of the small DSL of
`harness/props/c14_dsl.py`, acting on the flattened state (a vector):

* `A:<mat>:<vec>`  `s <- A @ s + b`
* `M:<m>`          `s <- s mod m` (elementwise, Python sign convention)
* `C:<i>:<k>`      `s[i] += k`
* `X:<i>:<j>`      `s[i] += s[j]`
* `P:<i>:<j>`      `s[i] *= s[j]`

instructions are separated by `|` (`.` = empty program), programs by `~` (`_` = no program);
vectors are comma separated, matrix rows separated by `;`, `_` = empty.

ops
* `swf prog filters u`                                  → vector
* `rep prog n x`                                        → vector
* `traj prog filters outer inner swi post ysel x`       → `final frames`
* `nscan prog dc ysel init leaves length lengths`       → `ok carry ys` | error kind
  (`leaves`: `N` for `xs = None`, else the leaves as matrices separated by `/`; `length`: `N` or a number)
* `nscano prog dc ysel nout init leaves length lengths`  → `ok carry ys` | error kind
  (the general model `nestedCheckpointScanOut`: `nout` = number of array leaves of the body's output
  pytree; with `nout = 0` — a body returning `None` as output — `ys` is rendered `N`)
* `nscans prog dc ysel nout init leaves sizes length lengths` → `ok carry ys` | error kind
  (the model with the `reshape` test on TOTAL sizes, `nestedCheckpointScanSized` /
  `nestedCheckpointScanTreeSized`: `sizes` = for every leaf the size of its trailing shape
  `prod x.shape[1:]`, possibly `0`; `_` for `xs = None`)
* `acc prog weights x`                                  → vector
* `lanczos T c dt` (F only)                             → vector | error kind
* `dfi solver E I filters T c dt s` (F only)            → vector
-/
namespace Dino.Comb
open Dino Dino.Imex

/-- scalars of the DSL -/
class Sc (K : Type) extends Add K, Mul K, Zero K where
  parse? : String → Option K
  render : K → String
  pmod : K → Int → K

instance : Sc Int where
  parse? := String.toInt?
  render := toString
  pmod a m := a.emod m

instance : Sc Float where
  parse? := parseFloatBits?
  render := showFloatBits
  pmod a m := a - Float.floor (a / Float.ofInt m) * Float.ofInt m

variable {K : Type} [Sc K]

inductive Ins (K : Type) where
  | aff (a : List (List K)) (b : List K)
  | md (m : Int)
  | ctr (i : Nat) (k : K)
  | addx (i j : Nat)
  | mulx (i j : Nat)

def dotS (r s : List K) : K := (List.zipWith (· * ·) r s).foldl (· + ·) 0

def runIns : Ins K → List K → List K
  | .aff a b, s => List.zipWith (· + ·) (a.map fun r => dotS r s) b
  | .md m, s => s.map (Sc.pmod · m)
  | .ctr i k, s => s.set i (s.getD i 0 + k)
  | .addx i j, s => s.set i (s.getD i 0 + s.getD j 0)
  | .mulx i j, s => s.set i (s.getD i 0 * s.getD j 0)

def runProg (p : List (Ins K)) (s : List K) : List K := p.foldl (fun s i => runIns i s) s

def pVec? (s : String) : Option (List K) :=
  if s = "_" then some [] else (s.splitOn ",").mapM Sc.parse?

def pMat? (s : String) : Option (List (List K)) :=
  if s = "_" then some [] else (s.splitOn ";").mapM pVec?

def rVec (v : List K) : String :=
  if v.isEmpty then "_" else ",".intercalate (v.map Sc.render)

def rMat (m : List (List K)) : String :=
  if m.isEmpty then "_" else ";".intercalate (m.map rVec)

def pIns? (s : String) : Option (Ins K) :=
  match s.splitOn ":" with
  | ["A", a, b] => do pure (.aff (← pMat? a) (← pVec? b))
  | ["M", m] => do pure (.md (← m.toInt?))
  | ["C", i, k] => do pure (.ctr (← i.toNat?) (← Sc.parse? k))
  | ["X", i, j] => do pure (.addx (← i.toNat?) (← j.toNat?))
  | ["P", i, j] => do pure (.mulx (← i.toNat?) (← j.toNat?))
  | _ => none

def pProg? (s : String) : Option (List (Ins K)) :=
  if s = "." then some [] else (s.splitOn "|").mapM pIns?

def pProgs? (s : String) : Option (List (List (Ins K))) :=
  if s = "_" then some [] else (s.splitOn "~").mapM pProg?

/-- `filter_of(prog, spec)`: the program acts on `u ++ u_next`, the result is its second half -/
def filterOf (p : List (Ins K)) (u uNext : List K) : List K :=
  (runProg p (u ++ uNext)).drop u.length

def select (ysel : List Nat) (z : List K) : List K := ysel.map (z.getD · 0)

def renderRes (r : Except Err (List K × List (List K))) : String :=
  match r with
  | .error e => e.toString
  | .ok (c, ys) => s!"ok {rVec c} {rMat ys}"

/-- vectors with zero-padding addition, so that `[]` is a genuine zero (`zeros_like`) -/
structure Vec (K : Type) where
  data : List K

def vadd : List K → List K → List K
  | [], q => q
  | p, [] => p
  | a :: p, b :: q => (a + b) :: vadd p q

instance : Add (Vec K) := ⟨fun a b => ⟨vadd a.data b.data⟩⟩
instance : Zero (Vec K) := ⟨⟨[]⟩⟩
instance : SMul K (Vec K) := ⟨fun c a => ⟨a.data.map (c * ·)⟩⟩

def padTo (d : Nat) (v : List K) : List K := v ++ List.replicate (d - v.length) 0

def runK (K : Type) [Sc K] : List String → Option String
  | ["swf", p, fs, u] => do
    let p ← pProg? (K := K) p; let fs ← pProgs? (K := K) fs; let u ← pVec? (K := K) u
    pure (rVec (stepWithFilters (runProg p) (fs.map filterOf) u))
  | ["rep", p, n, x] => do
    let p ← pProg? (K := K) p; let n ← n.toNat?; let x ← pVec? (K := K) x
    pure (rVec (repeated (runProg p) n x))
  | ["traj", p, fs, outer, inner, swi, post, ysel, x] => do
    let p ← pProg? (K := K) p; let fs ← pProgs? (K := K) fs
    let outer ← outer.toNat?; let inner ← inner.toNat?; let swi ← parseBool? swi
    let post ← pProg? (K := K) post; let ysel ← parseNatVec? ysel; let x ← pVec? (K := K) x
    let r := trajectoryFromStep (stepWithFilters (runProg p) (fs.map filterOf)) outer inner swi
      (fun s => select ysel (runProg post s)) x
    pure s!"{rVec r.1} {rMat r.2}"
  | ["nscan", p, dc, ysel, init, leaves, length, ls] => do
    let p ← pProg? (K := K) p; let dc ← dc.toNat?; let ysel ← parseNatVec? ysel
    let init ← pVec? (K := K) init
    let leaves ← if leaves = "N" then some [] else (leaves.splitOn "/").mapM (pMat? (K := K))
    let length ← if length = "N" then some none else length.toNat?.map some
    let ls ← parseNatVec? ls
    let body := fun (c : List K) (row : List K) =>
      let z := runProg p (c ++ row)
      (z.take dc, select ysel z)
    match leaves with
    | [xs] => pure (renderRes (nestedCheckpointScan body init xs length ls))
    | _ => pure (renderRes (nestedCheckpointScanTree (fun c r => body c r.flatten) init leaves length ls))
  | ["nscano", p, dc, ysel, nout, init, leaves, length, ls] => do
    let p ← pProg? (K := K) p; let dc ← dc.toNat?; let ysel ← parseNatVec? ysel
    let nout ← nout.toNat?
    let init ← pVec? (K := K) init
    let leaves ← if leaves = "N" then some [] else (leaves.splitOn "/").mapM (pMat? (K := K))
    let length ← if length = "N" then some none else length.toNat?.map some
    let ls ← parseNatVec? ls
    let body := fun (c : List K) (row : List K) =>
      let z := runProg p (c ++ row)
      (z.take dc, select ysel z)
    let r := match leaves with
      | [xs] => nestedCheckpointScanOut nout body init xs length ls
      | _ => nestedCheckpointScanTreeOut nout (fun c r => body c r.flatten) init leaves length ls
    match r with
    | .error e => pure e.toString
    | .ok (c, ys) => pure (if nout = 0 then s!"ok {rVec c} N" else s!"ok {rVec c} {rMat ys}")
  | ["nscans", p, dc, ysel, nout, init, leaves, sizes, length, ls] => do
    let p ← pProg? (K := K) p; let dc ← dc.toNat?; let ysel ← parseNatVec? ysel
    let nout ← nout.toNat?
    let init ← pVec? (K := K) init
    let leaves ← if leaves = "N" then some [] else (leaves.splitOn "/").mapM (pMat? (K := K))
    let sizes ← parseNatVec? sizes
    let length ← if length = "N" then some none else length.toNat?.map some
    let ls ← parseNatVec? ls
    if sizes.length ≠ leaves.length then none else
    let body := fun (c : List K) (row : List K) =>
      let z := runProg p (c ++ row)
      (z.take dc, select ysel z)
    let r := match sizes.zip leaves with
      | [(sz, xs)] => nestedCheckpointScanSized sz [] nout body init xs length ls
      | sl => nestedCheckpointScanTreeSized [] nout (fun c r => body c r.flatten) init sl length ls
    match r with
    | .error e => pure e.toString
    | .ok (c, ys) => pure (if nout = 0 then s!"ok {rVec c} N" else s!"ok {rVec c} {rMat ys}")
  | ["acc", p, w, x] => do
    let p ← pProg? (K := K) p; let w ← pVec? (K := K) w; let x ← pVec? (K := K) x
    let r := accumulateRepeated (V := Vec K) (fun v => ⟨runProg p v.data⟩) w ⟨x⟩
    pure (rVec (padTo x.length r.data))
  | _ => none

/-! ### float-only operations -/

instance : Neg (Vec Float) := ⟨fun a => ⟨a.data.map (- ·)⟩⟩

def piF : Float := 3.141592653589793

/-- `np.sinc`: `y = where(pi*x, pi*x, eps); sin(y)/y` -/
def sincF (x : Float) : Float :=
  let y := piF * x
  let y := if y == 0 then Float.ofBits 0x3CB0000000000000 else y
  Float.sin y / y

def floorF (x : Float) : Int := (Float.floor x).toInt64.toInt

def matVecF (m : List (List Float)) (u : List Float) : List Float := m.map fun r => dotS r u

/-- the linear equation used by the harness: `F = E·`, `G = I·`, `implicit_inverse(x, η) = x + η·I x` -/
def mkEq (e im : List (List Float)) : ImEx Float (Vec Float) :=
  ⟨fun x => ⟨matVecF e x.data⟩, fun x => ⟨matVecF im x.data⟩,
   fun x η => x + η • (⟨matVecF im x.data⟩ : Vec Float)⟩

/-- the harness's explicit Euler solver `u + dt·(F u + G u)` -/
def feSolver (eq : ImEx Float (Vec Float)) (dt : Float) (u : Vec Float) : Vec Float :=
  u + dt • (eq.F u + eq.G u)

def runF : List String → Option String
  | ["lanczos", t, c, dt] => do
    let t ← parseFloatBits? t; let c ← parseFloatBits? c; let dt ← parseFloatBits? dt
    match dfiSteps (fun x => x == 0) floorF Float.ofInt (fun a b => a < b) t dt with
    | .error e => pure e.toString
    | .ok n => pure (rVec (lanczosWeights sincF n.toNat t c))
  | ["dfi", solver, e, im, fs, t, c, dt, s] => do
    let e ← pMat? (K := Float) e; let im ← pMat? (K := Float) im
    let fs ← pProgs? (K := Float) fs
    let t ← parseFloatBits? t; let c ← parseFloatBits? c; let dt ← parseFloatBits? dt
    let s ← pVec? (K := Float) s
    let solver ← if solver = "bfe" then some (bfe (K := Float) (V := Vec Float))
      else if solver = "fe" then some feSolver else none
    let filters : List (Vec Float → Vec Float → Vec Float) :=
      fs.map fun p u un => ⟨filterOf p u.data un.data⟩
    match digitalFilterInitialization (fun x => x == 0) floorF Float.ofInt (fun a b => a < b) sincF
        solver (mkEq e im) filters t c dt ⟨s⟩ with
    | .error err => pure err.toString
    | .ok r => pure (rVec (padTo s.length r.data))
  | rest => runK Float rest

def run : List String → Option String
  | "Z" :: rest => runK Int rest
  | "F" :: rest => runF rest
  | _ => none

end Dino.Comb
