import Dino.Util
/-! Small dense linear algebra on lists (core Lean only); matrices are lists of rows. -/
namespace Dino.Lin
variable {K : Type} [Add K] [Mul K] [Zero K]

def zerosN (n : Nat) : List K := List.replicate n 0

def dotv (a b : List K) : K := (List.zipWith (· * ·) a b).sum

def scale (c : K) (v : List K) : List K := v.map (c * ·)

def vadd (a b : List K) : List K := List.zipWith (· + ·) a b

/-- `Σ_m c[m] • rows[m]` as a vector of width `n` (rows are expected to have length `n`) -/
def vecMat : List K → List (List K) → Nat → List K
  | c :: cs, r :: rs, n => vadd (scale c r) (vecMat cs rs n)
  | _, _, n => zerosN n

/-- column `c` of a matrix (missing entries read as 0) -/
def col (a : List (List K)) (c : Nat) : List K := a.map fun row => row.getD c 0

/-- transpose of a matrix with `ncols` columns -/
def transposeM (a : List (List K)) (ncols : Nat) : List (List K) :=
  (List.range ncols).map fun c => col a c

/-- matrix product `a · b` where `b` has rows of width `n` -/
def matMul (a b : List (List K)) (n : Nat) : List (List K) := a.map fun row => vecMat row b n

end Dino.Lin
