/-! Shared helpers for the executable model (core Lean only, no Mathlib). -/
namespace Dino

/-- parse a rational written `p/q` or `p` (p may be negative) -/
def parseRat? (s : String) : Option Rat :=
  match s.splitOn "/" with
  | [p] => p.toInt?.map (fun i => (i : Rat))
  | [p, q] => do
      let pi ← p.toInt?
      let qi ← q.toNat?
      if qi = 0 then none else some (mkRat pi qi)
  | _ => none

def showRat (r : Rat) : String :=
  if r.den = 1 then toString r.num else s!"{r.num}/{r.den}"

/-- floats travel as the decimal value of their IEEE-754 bit pattern -/
def parseFloatBits? (s : String) : Option Float :=
  s.toNat?.map (fun n => Float.ofBits n.toUInt64)

def showFloatBits (x : Float) : String := toString x.toBits.toNat

end Dino

namespace Dino

/-- Scalars the driver can run the model at: `Float` (bit-exact transfer) and `Rat`. -/
class Num (K : Type) extends Add K, Sub K, Mul K, Div K, Neg K, Zero K, One K where
  parse? : String → Option K
  render : K → String
  ltb : K → K → Bool
  ofRat : Rat → K
  sqrt : K → K        -- only meaningful at `Float`
  exp : K → K
  log : K → K
  sin : K → K
  cos : K → K

def ratToFloat (r : Rat) : Float :=
  Float.ofInt r.num / Float.ofNat r.den

instance : Num Float where
  parse? := parseFloatBits?
  render := showFloatBits
  ltb a b := a < b
  ofRat := ratToFloat
  sqrt := Float.sqrt
  exp := Float.exp
  log := Float.log
  sin := Float.sin
  cos := Float.cos

instance : Num Rat where
  parse? := parseRat?
  render := showRat
  ltb a b := a < b
  ofRat := id
  sqrt := id
  exp := id
  log := id
  sin := id
  cos := id

variable {K : Type} [Num K]

def leb (a b : K) : Bool := !(Num.ltb b a)
def absK (a : K) : K := if Num.ltb a 0 then -a else a
def maxK (a b : K) : K := if Num.ltb a b then b else a
def minK (a b : K) : K := if Num.ltb b a then b else a

/-- vectors travel as comma separated scalars, `_` for the empty vector -/
def parseVec? (s : String) : Option (List K) :=
  if s = "_" then some [] else (s.splitOn ",").mapM Num.parse?

def renderVec (v : List K) : String :=
  if v.isEmpty then "_" else ",".intercalate (v.map Num.render)

/-- matrices: rows separated by `;` -/
def parseMat? (s : String) : Option (List (List K)) :=
  if s = "_" then some [] else (s.splitOn ";").mapM parseVec?

def renderMat (m : List (List K)) : String :=
  if m.isEmpty then "_" else ";".intercalate (m.map renderVec)

def parseNatVec? (s : String) : Option (List Nat) :=
  if s = "_" then some [] else (s.splitOn ",").mapM String.toNat?

def parseIntVec? (s : String) : Option (List Int) :=
  if s = "_" then some [] else (s.splitOn ",").mapM String.toInt?

def renderIntVec (v : List Int) : String :=
  if v.isEmpty then "_" else ",".intercalate (v.map toString)

def renderNatVec (v : List Nat) : String :=
  if v.isEmpty then "_" else ",".intercalate (v.map toString)

def parseBool? (s : String) : Option Bool :=
  if s = "1" then some true else if s = "0" then some false else none

def renderBool (b : Bool) : String := if b then "1" else "0"

end Dino

instance : NatCast Float := ⟨Float.ofNat⟩
