import Dino.DynamicsSW
import Dino.DynamicsDrv
/-!
# Executable instance of `DynamicsSW` and its line protocol: `sw <F|Q> <op> <args…>`

As for `dyn`, every horizontal linear operator is a matrix supplied by the caller (extracted from
the real `spherical_harmonic.Grid`); carriers `M = Vec nm K`, `N = Vec nn K`.

* `sw F ratios <density>` → matrix `get_density_ratios(density)`
* `sw F addeye <matrix>` → `matrix + eye`
* `sw F <op> <cfg…> <args…>` with `cfg` = 18 tokens
  `nm,nn,nL  toNodal toModal dDlon cosLatDDlat secLatDDlatCos2 laplacian inverseLaplacian clip
   lidx  cosLat;sec2Lat;sinLat  oneModal  radius,Ω,g  lapEig  densities  refPotential  orography|none`
  and `op` ∈ `explicit st`, `implicit st`, `inverse dt st`, `pressure pot`, `coriolis`,
  `onelayer u`, `multilayer density U` (`st` = `vort|div|pot`, matrices with one row per layer).

`zeroMean` of the instance zeroes the flat index 0 (= coefficient `[0, 0]` of the `[m, l]` layout);
`solve` is Gaussian elimination without pivoting (the leading minors of `D + I` are non-zero for
strictly increasing densities).
-/
namespace Dino.DynamicsSW
open Dino Dino.Dynamics

variable (K : Type) [Num K]

local instance numLT : LT K := ⟨fun a b => Num.ltb a b = true⟩
local instance numDecLT : DecidableLT K := fun a b => inferInstanceAs (Decidable (Num.ltb a b = true))

/-- `x.at[0, 0].set(0)` on the flattened coefficients -/
def zeroMeanV {n : Nat} (x : Vec n K) : Vec n K :=
  match x.data with
  | [] => ⟨[]⟩
  | _ :: t => ⟨0 :: t⟩

/-! ### Gaussian elimination on `A · X = B`, `B` a list of vectors (one per row of `A`) -/

/-- eliminate the first column: rows are `(coefficients, rhs)` -/
def elimStep {n : Nat} (piv : List K × Vec n K) (rows : List (List K × Vec n K)) :
    List (List K × Vec n K) :=
  let p := piv.1.headD 0
  rows.map fun r =>
    let f := r.1.headD 0 / p
    ((List.zipWith (fun a b => a - f * b) r.1 piv.1).tail, r.2 - f • piv.2)

/-- solve by forward elimination and back substitution (no pivoting) -/
def gaussRows {n : Nat} : Nat → List (List K × Vec n K) → List (Vec n K)
  | 0, _ => []
  | _, [] => []
  | fuel + 1, piv :: rows =>
    let rest := gaussRows fuel (elimStep K piv rows)
    -- x₀ = (b₀ − Σ_{j≥1} a₀ⱼ xⱼ) / a₀₀
    let s := (List.zipWith (fun (a : K) (x : Vec n K) => a • x) piv.1.tail rest).foldl (· + ·) (0 : Vec n K)
    ((1 / piv.1.headD 0) • (piv.2 - s)) :: rest

def gaussSolve {n : Nat} (a : List (List K)) (b : List (Vec n K)) : List (Vec n K) :=
  gaussRows K a.length (List.zip a b)

/-! ### parsing -/

def parseSWState? {n : Nat} (s : String) : Option (State (Vec n K)) :=
  match s.splitOn "|" with
  | [z, d, p] => do
      let z ← parseCol? K z; let d ← parseCol? K d; let p ← parseCol? K p
      pure { vorticity := z, divergence := d, potential := p }
  | _ => none

def renderSWState {n : Nat} (s : State (Vec n K)) : String :=
  "|".intercalate [renderCol K s.vorticity, renderCol K s.divergence, renderCol K s.potential]

def parseSWCfg? (nm nn nL : Nat) :
    List String → Option (ShallowWaterEquations K (MV K nm) (NV K nn) × List String)
  | toNodal :: toModal :: dDlon :: cosLatDDlat :: secLatDDlatCos2 :: laplacian :: inverseLaplacian
      :: clip :: lidx :: tables :: oneModal :: consts :: lapEig :: densities :: refPotential
      :: orography :: rest => do
      let toNodal ← parseMat? (K := K) toNodal; let toModal ← parseMat? (K := K) toModal
      let dDlon ← parseMat? (K := K) dDlon; let cosLatDDlat ← parseMat? (K := K) cosLatDDlat
      let secLatDDlatCos2 ← parseMat? (K := K) secLatDDlatCos2
      let laplacian ← parseMat? (K := K) laplacian
      let inverseLaplacian ← parseMat? (K := K) inverseLaplacian
      let clip ← parseMat? (K := K) clip
      let lidx ← parseNatVec? lidx
      let tables ← parseMat? (K := K) tables
      let oneModal ← parseVecV? K oneModal
      let consts ← parseVec? (K := K) consts
      let lapEig ← parseVec? (K := K) lapEig
      let densities ← parseVec? (K := K) densities
      let refPotential ← parseVec? (K := K) refPotential
      let orography ← if orography = "none" then some none else (parseVecV? K orography).map some
      match tables, consts with
      | [cosLat, sec2Lat, sinLat], [radius, omega, g] =>
        let ops : HOps K (MV K nm) (NV K nn) :=
          { toNodal := matOp toNodal, toModal := matOp toModal, dDlon := matOp dDlon
            cosLatDDlat := matOp cosLatDDlat, secLatDDlatCos2 := matOp secLatDDlatCos2
            laplacian := matOp laplacian, inverseLaplacian := matOp inverseLaplacian
            clip := matOp clip, lproj := lprojOf lidx, nL := nL
            lapEig := fun l => lapEig.getD l 0
            cosLat := ⟨cosLat⟩, sec2Lat := ⟨sec2Lat⟩, sinLat := ⟨sinLat⟩
            oneModal := oneModal, radius := radius }
        pure ({ ops := ops
                specs := { densities := densities, radius := radius, angularVelocity := omega,
                           gravityAcceleration := g }
                orography := orography
                referencePotential := refPotential }, rest)
      | _, _ => none
  | _ => none

def runOps {nm nn : Nat} (eq : ShallowWaterEquations K (MV K nm) (NV K nn)) :
    List String → Option String
  | ["explicit", st] => do
      let s ← parseSWState? K st
      pure (renderSWState K (eq.explicitTerms s))
  | ["implicit", st] => do
      let s ← parseSWState? K st
      pure (renderSWState K (eq.implicitTerms s))
  | ["inverse", dt, st] => do
      let dt ← Num.parse? (K := K) dt
      let s ← parseSWState? K st
      pure (renderSWState K (eq.implicitInverse dt s))
  | ["pressure", pot] => do
      let pot ← parseCol? (n := nm) K pot
      pure (renderCol K (eq.layeredPressure pot))
  | ["coriolis"] => pure (renderV K eq.coriolisParameter)
  | ["onelayer", u] => do
      let u ← parseVecV? (n := nn) K u
      let s := oneLayer eq.ops (zeroMeanV K) u
      pure ("|".intercalate [renderV K s.vorticity, renderV K s.divergence, renderV K s.potential])
  | ["multilayer", density, us] => do
      let density ← parseVec? (K := K) density
      let us ← parseCol? (n := nn) K us
      pure (renderSWState K (multiLayer eq.ops (zeroMeanV K) (gaussSolve K) us density))
  | _ => none

def runK : List String → Option String
  | ["ratios", density] => do
      let density ← parseVec? (K := K) density
      pure (renderMat (getDensityRatios density))
  | ["addeye", a] => do
      let a ← parseMat? (K := K) a
      pure (renderMat (addEye a))
  | op :: sizes :: rest => do
      let sz ← parseNatVec? sizes
      match sz with
      | [nm, nn, nL] =>
        let (eq, args) ← parseSWCfg? K nm nn nL rest
        runOps K eq (op :: args)
      | _ => none
  | _ => none

def run : List String → Option String
  | "F" :: rest => runK Float rest
  | "Q" :: rest => runK Rat rest
  | _ => none

end Dino.DynamicsSW
