import Dino.Imex
import Dino.Filters
import Dino.Dynamics
/-!
# Invariants — executable definitions for C11 (core Lean only)

* the clock advance of the two integrator factories (`lsrkAdv`, `tabAdv`): what one step of
  `low_storage_runge_kutta_crank_nicolson` / `imex_runge_kutta` adds (in units of `dt`) to a
  quantity whose explicit tendency is the constant one and whose implicit tendency is zero
  (`sim_time` of `PrimitiveEquationsWithTime`);
* `stepWithFilters` / `runSteps`: `time_integration.step_with_filters` and a history of filtered steps;
* `TM`: a `tree_math` vector together with the Python scalar `0` that the integrators start their
  accumulators from (`h = 0`, `sum(...)`), and the arithmetic of `primitive_equations.StateWithTime`
  / `shallow_water.State` as `tree_math` structs;
* the four primitive-equation classes and the shallow-water equations as `Imex.ImEx` objects;
* the shallow-water equation set of `dinosaur/shallow_water.py` over the horizontal record
  `Dynamics.HOps` (`SW.*`);
* the structural predicate of C11 on flattened spectral leaves (`zeroOff`, `coef00`).
-/
namespace Dino.Invariants
open Dino Dino.Imex Dino.Dynamics

/-! ## clock advance of the integrator factories -/
section adv
variable {K : Type} [Add K] [Mul K] [Zero K] [One K]

/-- the loop of `low_storage_runge_kutta_crank_nicolson` run on the scalar problem
 `F ≡ 1, G ≡ 0, G_inv = id` with `dt = 1`: `σ` is the value of `h`, `acc` the increment of `u`.
 (The list of `α` only drives the recursion, as in `Imex.lsrkLoop`.) -/
def lsrkAdvLoop : List K → List K → List K → K → K → K
  | _ :: a1 :: as, b :: bs, c :: cs, σ, acc =>
    lsrkAdvLoop (a1 :: as) bs cs (1 + b * σ) (acc + c * (1 + b * σ))
  | _, _, _, _, acc => acc

def lsrkAdv (αs βs γs : List K) : K := lsrkAdvLoop αs βs γs 0 0

/-- `sum(row[j] for j in range(n) if row[j])` -/
def wcoef (nz : K → Bool) (row : List K) (n : Nat) : K :=
  (row.take n).foldl (fun acc a => if nz a then acc + a else acc) 0

/-- the number of stage values `f[0..]` that `imex_runge_kutta` has computed when it forms `y_next` -/
def tabStages (t : Tableau K) : Nat := min t.aEx.length t.aIm.length + 1

/-- `imex_runge_kutta` on `F ≡ 1, G ≡ 0, G_inv = id`, `dt = 1`: the increment `Σ_j b_ex[j]` -/
def tabAdv (nz : K → Bool) (t : Tableau K) : K := wcoef nz t.bEx (tabStages t)

end adv

/-! ## `step_with_filters` and histories -/
section hist
variable {U : Type}

/-- `time_integration.step_with_filters(step_fn, filters)(u)` -/
def stepWithFilters (step : U → U) (filters : List (U → U → U)) (u : U) : U :=
  filters.foldl (fun uNext flt => flt u uNext) (step u)

/-- a history: any list of (step function, filters) pairs applied in order -/
def runSteps (steps : List ((U → U) × List (U → U → U))) (u : U) : U :=
  steps.foldl (fun x st => stepWithFilters st.1 st.2 x) u

/-- the states visited by a history (initial state first) -/
def trace (steps : List ((U → U) × List (U → U → U))) (u : U) : List U :=
  match steps with
  | [] => [u]
  | st :: rest => u :: trace rest (stepWithFilters st.1 st.2 u)

end hist

/-! ## the integrators of `time_integration.py` as one family -/
section schemes
variable {K V : Type} [Add K] [Sub K] [Mul K] [Div K] [Neg K] [Zero K] [One K]
variable [Add V] [Zero V] [SMul K V]

/-- the one-state integrators: `backward_forward_euler`, `crank_nicolson_rk2`,
 `low_storage_runge_kutta_crank_nicolson(α, β, γ)` (hence `crank_nicolson_rk3/rk4`) and
 `imex_runge_kutta(tableau)` (hence `imex_rk_sil3`); `semi_implicit_leapfrog` acts on pairs and is
 treated separately -/
inductive Scheme (K : Type) where
  | bfe
  | cnrk2
  | lsrk (αs βs γs : List K)
  | tableau (nz : K → Bool) (t : Tableau K)

/-- the step function of the scheme; `none` = the factory raises `ValueError` -/
def Scheme.step (e : ImEx K V) (dt : K) : Scheme K → Option (V → V)
  | .bfe => some (Imex.bfe e dt)
  | .cnrk2 => some (Imex.cnrk2 e dt)
  | .lsrk αs βs γs => Imex.lsrk e dt αs βs γs
  | .tableau nz t => Imex.imexRK nz e dt t

/-- what one step adds to a clock (explicit tendency one, implicit zero), in units of `dt` -/
def Scheme.adv : Scheme K → K
  | .bfe => 1
  | .cnrk2 => 1
  | .lsrk αs βs γs => lsrkAdv αs βs γs
  | .tableau nz t => tabAdv nz t

/-- one entry of a history of one-state steps: the scheme, its step size, and the state filters
 (`runge_kutta_step_filter(f)`) applied after the step by `step_with_filters` -/
structure Entry (K V : Type) where
  sch : Scheme K
  dt : K
  filters : List (V → V)

/-- run a history; `none` = some factory raised `ValueError` -/
def runHistory (e : ImEx K V) : List (Entry K V) → V → Option V
  | [], u => some u
  | en :: rest, u =>
    match en.sch.step e en.dt with
    | none => none
    | some f => runHistory e rest (stepWithFilters f (en.filters.map Filters.rkStepFilter) u)

/-- the clock advance of a history -/
def historyAdv : List (Entry K V) → K
  | [] => 0
  | en :: rest => en.dt * en.sch.adv + historyAdv rest

/-- `robert_asselin_leapfrog_filter(r)` on `tree_math` vectors:
 `((1 - 2r)·current + r·(previous + future), future)` -/
def robertAsselin (r : K) (u uNext : V × V) : V × V :=
  ((1 - (1 + 1) * r) • u.2 + r • (u.1 + uNext.2), uNext.2)

/-- the filters of a leapfrog step: `leapfrog_step_filter(f)` or `robert_asselin_leapfrog_filter(r)` -/
inductive LfFilter (K V : Type) where
  | state (g : V → V)
  | ra (r : K)

def LfFilter.fn : LfFilter K V → (V × V → V × V → V × V)
  | .state g => Filters.leapfrogStepFilter g
  | .ra r => robertAsselin r

/-- `k` filtered `semi_implicit_leapfrog` steps on the pair `(previous, current)` -/
def runLeapfrog (e : ImEx K V) (dt α : K) (filters : List (LfFilter K V)) (k : Nat) (u : V × V) :
    V × V :=
  runSteps (List.replicate k (Imex.leapfrog e dt α, filters.map LfFilter.fn)) u

end schemes

/-! ## `tree_math` vectors with the Python scalar `0` -/

/-- `zero` is the Python number `0` (`h = 0`, the start value of `sum`); `err` is a raised
 exception (a missing `specific_humidity` tracer) -/
inductive TM (V : Type) where
  | zero
  | val (v : V)
  | err

namespace TM
variable {K V : Type}

instance : Zero (TM V) := ⟨.zero⟩

instance [Add V] : Add (TM V) :=
  ⟨fun a b => match a, b with
    | .err, _ => .err
    | _, .err => .err
    | .zero, y => y
    | x, .zero => x
    | .val x, .val y => .val (x + y)⟩

instance [SMul K V] : SMul K (TM V) :=
  ⟨fun c a => match a with
    | .zero => .zero
    | .err => .err
    | .val x => .val (c • x)⟩

/-- a function of states applied to a vector (`tree_math.unwrap`) -/
def lift (f : V → V) : TM V → TM V
  | .val x => .val (f x)
  | _ => .err

def liftO (f : V → Option V) : TM V → TM V
  | .val x => match f x with
    | some r => .val r
    | none => .err
  | _ => .err

def get? : TM V → Option V
  | .val x => some x
  | _ => none

end TM

/-! ## arithmetic of the state structs (`tree_math.struct`) -/
section arith
variable {K M : Type}

/-- `StateWithTime + StateWithTime` -/
instance [Add K] [Add M] : Add (StateWithTime K M) :=
  ⟨fun a b => { state := State.add a.state b.state, simTime := a.simTime + b.simTime }⟩

/-- `scalar * StateWithTime` -/
instance [Mul K] [SMul K M] : SMul K (StateWithTime K M) :=
  ⟨fun c a => { state := State.mapLevels (fun x => c • x) a.state, simTime := c * a.simTime }⟩

end arith

/-! ## the shallow-water equations over `HOps` (`dinosaur/shallow_water.py`) -/
namespace SW

/-- `shallow_water.State` -/
structure State (M : Type) where
  vorticity : List M
  divergence : List M
  potential : List M

/-- `ShallowWaterEquations` (`coords.horizontal` is the record `ops`; `densityRatios` is the value
 of `get_density_ratios(physics_specs.densities)`) -/
structure Eqs (K M N : Type) where
  ops : HOps K M N
  densityRatios : List (List K)
  angularVelocity : K
  orography : Option M
  referencePotential : List K

section
variable {K M N : Type}
  [Add K] [Sub K] [Mul K] [Div K] [Neg K] [Zero K] [One K]
  [Add M] [Sub M] [Neg M] [Zero M] [SMul K M]
  [Add N] [Sub N] [Neg N] [Zero N] [Mul N] [One N] [SMul K N]

instance : Add (State M) :=
  ⟨fun a b => { vorticity := Col.add a.vorticity b.vorticity
                divergence := Col.add a.divergence b.divergence
                potential := Col.add a.potential b.potential }⟩

instance : SMul K (State M) :=
  ⟨fun c a => { vorticity := Col.smul c a.vorticity
                divergence := Col.smul c a.divergence
                potential := Col.smul c a.potential }⟩

/-- multiplication of a modal field by an array indexed by the total wavenumber
 (`x * a[np.newaxis, :]`), written with the wavenumber projections of `HOps` -/
def lscale (h : HOps K M N) (f : Nat → K) (x : M) : M :=
  ((List.range h.nL).map fun l => f l • h.lproj l x).foldl (· + ·) 0

variable (e : Eqs K M N)

/-- `ShallowWaterEquations.explicit_terms` -/
def explicitTerms (s : State M) : State M :=
  let h := e.ops
  -- `get_cos_lat_vector(vorticity, divergence, grid)` (default `clip=True`), then `to_nodal`
  let clv := List.zipWith (fun z d => h.cosLatVector true z d) s.vorticity s.divergence
  let u := clv.map fun p => h.toNodal p.1
  let v := clv.map fun p => h.toNodal p.2
  -- `state_to_nodal`: `to_nodal(clip_wavenumbers(x))`
  let nodalVorticity := s.vorticity.map fun x => h.toNodal (h.clip x)
  let nodalPotential := s.potential.map fun x => h.toNodal (h.clip x)
  let coriolis : N := ((1 + 1) * e.angularVelocity) • h.sinLat
  let totalVorticity := nodalVorticity.map fun z => z + coriolis
  let sec2 := h.sec2Lat
  let bU := (List.zipWith (fun a t => a * t * sec2) u totalVorticity).map h.toModal
  let bV := (List.zipWith (fun a t => a * t * sec2) v totalVorticity).map h.toModal
  let gU := (List.zipWith (fun a p => a * p * sec2) u nodalPotential).map h.toModal
  let gV := (List.zipWith (fun a p => a * p * sec2) v nodalPotential).map h.toModal
  let en := (List.zipWith (fun a b => ((1 / (1 + 1)) : K) • ((a * a + b * b) * sec2)) u v).map h.toModal
  let p0 := Col.matvec e.densityRatios s.potential
  let p := match e.orography with
    | some o => Col.addLevel p0 o
    | none => p0
  { vorticity := List.zipWith (fun a b => h.clip (-(h.divCosLat true (a, b)))) bU bV
    divergence := List.zipWith (fun pe ab => h.clip (-(h.laplacian pe) + h.curlCosLat true ab))
      (Col.add p en) (List.zip bU bV)
    potential := List.zipWith (fun a b => h.clip (-(h.divCosLat true (a, b)))) gU gV }

/-- `ShallowWaterEquations.implicit_terms` -/
def implicitTerms (s : State M) : State M :=
  { vorticity := Col.zerosLike s.vorticity
    divergence := s.potential.map fun x => -(e.ops.laplacian x)
    potential := List.zipWith (fun (r : K) d => (-r) • d) e.referencePotential s.divergence }

/-- `inverse_schur_complement[k, l] = 1 / (1 - step_size² · ref_potential[k] · eigenvalue[l])` -/
def inverseSchur (eta r : K) (l : Nat) : K := 1 / (1 - eta * eta * r * e.ops.lapEig l)

/-- `ShallowWaterEquations.implicit_inverse` -/
def implicitInverse (s : State M) (eta : K) : State M :=
  let h := e.ops
  let rdp := List.zip e.referencePotential (List.zip s.divergence s.potential)
  { vorticity := s.vorticity
    divergence := rdp.map fun t =>
      lscale h (inverseSchur e eta t.1) (t.2.1 - eta • h.laplacian t.2.2)
    potential := rdp.map fun t =>
      lscale h (inverseSchur e eta t.1) ((-eta * t.1) • t.2.1 + t.2.2) }

/-- the equations as an `ImplicitExplicitODE` on `tree_math` vectors -/
def imex : ImEx K (TM (State M)) :=
  { F := TM.lift (explicitTerms e)
    G := TM.lift (implicitTerms e)
    Ginv := fun x eta => TM.lift (fun s => implicitInverse e s eta) x }

end
end SW

/-! ## the primitive-equation classes as `ImplicitExplicitODE`s -/
section pe
variable {K M N : Type}
  [Add K] [Sub K] [Mul K] [Div K] [Neg K] [Zero K] [One K] [BEq K]
  [Add M] [Sub M] [Neg M] [Zero M] [SMul K M]
  [Add N] [Sub N] [Neg N] [Zero N] [Mul N] [One N] [SMul K N] [Div N]

/-- the four classes of `primitive_equations.py` -/
inductive Cls where
  | dry | time | moist | cloud
  deriving DecidableEq, Repr

/-- `explicit_terms` of the class (the plain `PrimitiveEquations` has no clock: its state is the
 `state` component, the clock slot is given tendency zero) -/
def explicitOf (cls : Cls) (eq : PrimitiveEquations K M N) (s : StateWithTime K M) :
    Option (StateWithTime K M) :=
  match cls with
  | .dry => some { state := eq.explicitTerms s.state, simTime := 0 }
  | .time => some (PrimitiveEquationsWithTime.explicitTerms eq s)
  | .moist => MoistPrimitiveEquations.explicitTerms eq s
  | .cloud => MoistPrimitiveEquationsWithCloudMoisture.explicitTerms eq s

/-- `implicit_terms` of every class (inherited) -/
def implicitOf (eq : PrimitiveEquations K M N) (s : StateWithTime K M) : StateWithTime K M :=
  PrimitiveEquationsWithTime.implicitTerms eq s

/-- `implicit_inverse` of every class; `invOf η l` is the matrix `numpy.linalg.inv` returned for
 step size `η` and total wavenumber `l` -/
def inverseOf (eq : PrimitiveEquations K M N) (invOf : K → Nat → List (List K))
    (s : StateWithTime K M) (eta : K) : StateWithTime K M :=
  PrimitiveEquationsWithTime.implicitInverse eq (invOf eta) s

/-- the class as an `ImplicitExplicitODE` on `tree_math` vectors -/
def peImEx (cls : Cls) (eq : PrimitiveEquations K M N) (invOf : K → Nat → List (List K)) :
    ImEx K (TM (StateWithTime K M)) :=
  { F := TM.liftO (explicitOf cls eq)
    G := TM.lift (implicitOf eq)
    Ginv := fun x eta => TM.lift (fun s => inverseOf eq invOf s eta) x }

end pe

/-! ## the structural predicate on flattened spectral leaves -/
section pred
variable {K : Type}

/-- every coefficient at a position where `keep` is false is zero (`keep` = the modal mask with
 the clipped total wavenumbers removed); a leaf of the wrong size fails -/
def zeroOff (isZero : K → Bool) (keep : List Bool) (x : List K) : Bool :=
  keep.length == x.length && (List.zipWith (fun k v => k || isZero v) keep x).all id

/-- the coefficient of the constant mode: position `(m, l) = (0, 0)` of the row-major leaf -/
def coef00 [Zero K] (x : List K) : K := x.headD 0

end pred

end Dino.Invariants
