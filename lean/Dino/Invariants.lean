import Dino.Imex
import Dino.Filters
import Dino.Dynamics
import Dino.DynamicsSW
/-!
# Invariants — executable definitions for C11 (core Lean only)

* the clock advance of the two integrator factories (`lsrkAdv`, `tabAdv`): what one step of
  `low_storage_runge_kutta_crank_nicolson` / `imex_runge_kutta` adds (in units of `dt`) to a
  quantity whose explicit tendency is the constant one and whose implicit tendency is zero
  (`sim_time` of `PrimitiveEquationsWithTime`);
* `stepWithFilters` / `runSteps`: `time_integration.step_with_filters` and a history of filtered steps;
* `TM`: a `tree_math` vector together with the Python scalar `0` that the integrators start their
  accumulators from (`h = 0`, `sum(...)`), and the arithmetic of `primitive_equations.StateWithTime`
  / `shallow_water.State` as `tree_math` structs;
* the four primitive-equation classes and the shallow-water equations (`Dino.DynamicsSW`, the one
  shallow-water model of the framework) as `Imex.ImEx` objects;
* the state filters of `filtering.py` on the spectral carrier (`filterLevel`, `filterPE`, `filterSW`);
* the structural predicate of C11 on flattened spectral leaves (`zeroOff`, `coef00`).
-/
namespace Dino.Invariants
open Dino Dino.Imex Dino.Dynamics

/-! ## clock advance of the integrator factories -/
section adv
variable {K : Type} [Add K] [Mul K] [Zero K] [One K]

/-- the loop of `low_storage_runge_kutta_crank_nicolson` run on the scalar problem
 `F ≡ 1, G ≡ 0, G_inv = id` with `dt = 1`: `σ` is the value of `h`, `acc` the increment of `u`.
 (The list of `α` only drives the recursion, as in `Imex.lsrkLoop`.) -/
def lsrkAdvLoop : List K → List K → List K → K → K → K
  | _ :: a1 :: as, b :: bs, c :: cs, σ, acc =>
    lsrkAdvLoop (a1 :: as) bs cs (1 + b * σ) (acc + c * (1 + b * σ))
  | _, _, _, _, acc => acc

def lsrkAdv (αs βs γs : List K) : K := lsrkAdvLoop αs βs γs 0 0

/-- `sum(row[j] for j in range(n) if row[j])` -/
def wcoef (nz : K → Bool) (row : List K) (n : Nat) : K :=
  (row.take n).foldl (fun acc a => if nz a then acc + a else acc) 0

/-- the number of stage values `f[0..]` that `imex_runge_kutta` has computed when it forms `y_next` -/
def tabStages (t : Tableau K) : Nat := min t.aEx.length t.aIm.length + 1

/-- `imex_runge_kutta` on `F ≡ 1, G ≡ 0, G_inv = id`, `dt = 1`: the increment `Σ_j b_ex[j]` -/
def tabAdv (nz : K → Bool) (t : Tableau K) : K := wcoef nz t.bEx (tabStages t)

end adv

/-! ## `step_with_filters` and histories -/
section hist
variable {U : Type}

/-- `time_integration.step_with_filters(step_fn, filters)(u)` -/
def stepWithFilters (step : U → U) (filters : List (U → U → U)) (u : U) : U :=
  filters.foldl (fun uNext flt => flt u uNext) (step u)

/-- a history: any list of (step function, filters) pairs applied in order -/
def runSteps (steps : List ((U → U) × List (U → U → U))) (u : U) : U :=
  steps.foldl (fun x st => stepWithFilters st.1 st.2 x) u

/-- the states visited by a history (initial state first) -/
def trace (steps : List ((U → U) × List (U → U → U))) (u : U) : List U :=
  match steps with
  | [] => [u]
  | st :: rest => u :: trace rest (stepWithFilters st.1 st.2 u)

end hist

/-! ## the integrators of `time_integration.py` as one family -/
section schemes
variable {K V : Type} [Add K] [Sub K] [Mul K] [Div K] [Neg K] [Zero K] [One K]
variable [Add V] [Zero V] [SMul K V]

/-- the one-state integrators: `backward_forward_euler`, `crank_nicolson_rk2`,
 `low_storage_runge_kutta_crank_nicolson(α, β, γ)` (hence `crank_nicolson_rk3/rk4`) and
 `imex_runge_kutta(tableau)` (hence `imex_rk_sil3`); `semi_implicit_leapfrog` acts on pairs and is
 treated separately -/
inductive Scheme (K : Type) where
  | bfe
  | cnrk2
  | lsrk (αs βs γs : List K)
  | tableau (nz : K → Bool) (t : Tableau K)

/-- the step function of the scheme; `none` = the factory raises `ValueError` -/
def Scheme.step (e : ImEx K V) (dt : K) : Scheme K → Option (V → V)
  | .bfe => some (Imex.bfe e dt)
  | .cnrk2 => some (Imex.cnrk2 e dt)
  | .lsrk αs βs γs => Imex.lsrk e dt αs βs γs
  | .tableau nz t => Imex.imexRK nz e dt t

/-- what one step adds to a clock (explicit tendency one, implicit zero), in units of `dt` -/
def Scheme.adv : Scheme K → K
  | .bfe => 1
  | .cnrk2 => 1
  | .lsrk αs βs γs => lsrkAdv αs βs γs
  | .tableau nz t => tabAdv nz t

/-- one entry of a history of one-state steps: the scheme, its step size, and the state filters
 (`runge_kutta_step_filter(f)`) applied after the step by `step_with_filters` -/
structure Entry (K V : Type) where
  sch : Scheme K
  dt : K
  filters : List (V → V)

/-- run a history; `none` = some factory raised `ValueError` -/
def runHistory (e : ImEx K V) : List (Entry K V) → V → Option V
  | [], u => some u
  | en :: rest, u =>
    match en.sch.step e en.dt with
    | none => none
    | some f => runHistory e rest (stepWithFilters f (en.filters.map Filters.rkStepFilter) u)

/-- the clock advance of a history -/
def historyAdv : List (Entry K V) → K
  | [] => 0
  | en :: rest => en.dt * en.sch.adv + historyAdv rest

/-- `robert_asselin_leapfrog_filter(r)` on `tree_math` vectors:
 `((1 - 2r)·current + r·(previous + future), future)` -/
def robertAsselin (r : K) (u uNext : V × V) : V × V :=
  ((1 - (1 + 1) * r) • u.2 + r • (u.1 + uNext.2), uNext.2)

/-- the filters of a leapfrog step: `leapfrog_step_filter(f)` or `robert_asselin_leapfrog_filter(r)` -/
inductive LfFilter (K V : Type) where
  | state (g : V → V)
  | ra (r : K)

def LfFilter.fn : LfFilter K V → (V × V → V × V → V × V)
  | .state g => Filters.leapfrogStepFilter g
  | .ra r => robertAsselin r

/-- `k` filtered `semi_implicit_leapfrog` steps on the pair `(previous, current)` -/
def runLeapfrog (e : ImEx K V) (dt α : K) (filters : List (LfFilter K V)) (k : Nat) (u : V × V) :
    V × V :=
  runSteps (List.replicate k (Imex.leapfrog e dt α, filters.map LfFilter.fn)) u

end schemes

/-! ## `tree_math` vectors with the Python scalar `0` -/

/-- `zero` is the Python number `0` (`h = 0`, the start value of `sum`); `err` is a raised
 exception (a missing `specific_humidity` tracer) -/
inductive TM (V : Type) where
  | zero
  | val (v : V)
  | err

namespace TM
variable {K V : Type}

instance : Zero (TM V) := ⟨.zero⟩

instance [Add V] : Add (TM V) :=
  ⟨fun a b => match a, b with
    | .err, _ => .err
    | _, .err => .err
    | .zero, y => y
    | x, .zero => x
    | .val x, .val y => .val (x + y)⟩

instance [SMul K V] : SMul K (TM V) :=
  ⟨fun c a => match a with
    | .zero => .zero
    | .err => .err
    | .val x => .val (c • x)⟩

/-- a function of states applied to a vector (`tree_math.unwrap`) -/
def lift (f : V → V) : TM V → TM V
  | .val x => .val (f x)
  | _ => .err

def liftO (f : V → Option V) : TM V → TM V
  | .val x => match f x with
    | some r => .val r
    | none => .err
  | _ => .err

def get? : TM V → Option V
  | .val x => some x
  | _ => none

end TM

/-! ## arithmetic of the state structs (`tree_math.struct`) -/
section arith
variable {K M : Type}

/-- `StateWithTime + StateWithTime` -/
instance [Add K] [Add M] : Add (StateWithTime K M) :=
  ⟨fun a b => { state := State.add a.state b.state, simTime := a.simTime + b.simTime }⟩

/-- `scalar * StateWithTime` -/
instance [Mul K] [SMul K M] : SMul K (StateWithTime K M) :=
  ⟨fun c a => { state := State.mapLevels (fun x => c • x) a.state, simTime := c * a.simTime }⟩

end arith

/-! ## the shallow-water equations (`Dino.DynamicsSW`, the model shared with C05/C10/C12) as an
`ImplicitExplicitODE` on `tree_math` vectors -/
namespace SW
open Dino.DynamicsSW

section
variable {K M N : Type}
  [Add K] [Sub K] [Mul K] [Div K] [Neg K] [Zero K] [One K]
  [Add M] [Sub M] [Neg M] [Zero M] [SMul K M]
  [Add N] [Sub N] [Neg N] [Zero N] [Mul N] [One N] [SMul K N]

/-- `shallow_water.State + shallow_water.State` (`tree_math.struct`) -/
instance : Add (DynamicsSW.State M) := ⟨DynamicsSW.State.add⟩

/-- `scalar * shallow_water.State` -/
instance : SMul K (DynamicsSW.State M) :=
  ⟨fun c a => DynamicsSW.State.mapLevels (fun x => c • x) a⟩

/-- `ShallowWaterEquations` as an `ImplicitExplicitODE` on `tree_math` vectors -/
def imex [LT K] [DecidableLT K] (e : ShallowWaterEquations K M N) :
    ImEx K (TM (DynamicsSW.State M)) :=
  { F := TM.lift e.explicitTerms
    G := TM.lift e.implicitTerms
    Ginv := fun x eta => TM.lift (e.implicitInverse eta) x }

end
end SW

/-! ## state filters on the spectral carrier

`filtering._make_filter_fn(scaling)` multiplies every leaf whose trailing shape matches the 1-D
`scaling` (one factor per total wavenumber) by `scaling[np.newaxis, :]` and leaves every other leaf
(the scalar `sim_time`) alone.  On the abstract carrier `M` the product with a function of the total
wavenumber is written with the wavenumber projections of `HOps` (`DynamicsSW.lmul`, as
`implicit_inverse` of the shallow-water equations); a scaling whose length is not the number of
total wavenumbers does not preserve the shape and leaves the leaf alone (`_preserves_shape`). -/
section stateFilters
variable {K M N : Type}
  [Add K] [Sub K] [Mul K] [Div K] [Neg K] [Zero K] [One K]
  [Add M] [Zero M] [SMul K M]

/-- `rescale` on one level of a spectral leaf -/
def filterLevel (h : HOps K M N) (scal : List K) (x : M) : M :=
  if scal.length = h.nL then DynamicsSW.lmul h (fun l => scal.getD l 0) x else x

/-- `tree_map(rescale, ·)` on a `StateWithTime`: the clock is the scalar leaf `()` -/
def filterPE (h : HOps K M N) (scal : List K) (s : StateWithTime K M) : StateWithTime K M :=
  { state := State.mapLevels (filterLevel h scal) s.state
    simTime := ((Filters.filterLeaf [scal.length] scal ([], [s.simTime])).2).headD s.simTime }

/-- `tree_map(rescale, ·)` on a `shallow_water.State` -/
def filterSW (h : HOps K M N) (scal : List K) (s : DynamicsSW.State M) : DynamicsSW.State M :=
  DynamicsSW.State.mapLevels (filterLevel h scal) s

end stateFilters

/-! ## the primitive-equation classes as `ImplicitExplicitODE`s -/
section pe
variable {K M N : Type}
  [Add K] [Sub K] [Mul K] [Div K] [Neg K] [Zero K] [One K] [BEq K]
  [Add M] [Sub M] [Neg M] [Zero M] [SMul K M]
  [Add N] [Sub N] [Neg N] [Zero N] [Mul N] [One N] [SMul K N] [Div N]

/-- the four classes of `primitive_equations.py` -/
inductive Cls where
  | dry | time | moist | cloud
  deriving DecidableEq, Repr

/-- `explicit_terms` of the class (the plain `PrimitiveEquations` has no clock: its state is the
 `state` component, the clock slot is given tendency zero) -/
def explicitOf (cls : Cls) (eq : PrimitiveEquations K M N) (s : StateWithTime K M) :
    Option (StateWithTime K M) :=
  match cls with
  | .dry => some { state := eq.explicitTerms s.state, simTime := 0 }
  | .time => some (PrimitiveEquationsWithTime.explicitTerms eq s)
  | .moist => MoistPrimitiveEquations.explicitTerms eq s
  | .cloud => MoistPrimitiveEquationsWithCloudMoisture.explicitTerms eq s

/-- `implicit_terms` of every class (inherited) -/
def implicitOf (eq : PrimitiveEquations K M N) (s : StateWithTime K M) : StateWithTime K M :=
  PrimitiveEquationsWithTime.implicitTerms eq s

/-- `implicit_inverse` of every class; `invOf η l` is the matrix `numpy.linalg.inv` returned for
 step size `η` and total wavenumber `l` -/
def inverseOf (eq : PrimitiveEquations K M N) (invOf : K → Nat → List (List K))
    (s : StateWithTime K M) (eta : K) : StateWithTime K M :=
  PrimitiveEquationsWithTime.implicitInverse eq (invOf eta) s

/-- the class as an `ImplicitExplicitODE` on `tree_math` vectors -/
def peImEx (cls : Cls) (eq : PrimitiveEquations K M N) (invOf : K → Nat → List (List K)) :
    ImEx K (TM (StateWithTime K M)) :=
  { F := TM.liftO (explicitOf cls eq)
    G := TM.lift (implicitOf eq)
    Ginv := fun x eta => TM.lift (fun s => inverseOf eq invOf s eta) x }

end pe

/-! ## the structural predicate on flattened spectral leaves -/
section pred
variable {K : Type}

/-- every coefficient at a position where `keep` is false is zero (`keep` = the modal mask with
 the clipped total wavenumbers removed); a leaf of the wrong size fails -/
def zeroOff (isZero : K → Bool) (keep : List Bool) (x : List K) : Bool :=
  keep.length == x.length && (List.zipWith (fun k v => k || isZero v) keep x).all id

/-- the coefficient of the constant mode: position `(m, l) = (0, 0)` of the row-major leaf -/
def coef00 [Zero K] (x : List K) : K := x.headD 0

end pred

end Dino.Invariants
