import Dino.Shard
import Dino.ShardEinsum
import Dino.ShardEinsumMat
/-! Line-protocol operations for the sharding model: `shard <op> args…` (integer ops) and
 `shard <F|Q> <op> args…` (numeric ops).  3-D tables travel as matrices separated by `|`. -/
namespace Dino.Shard
open Dino

def renderTrace (t : Trace) : String :=
  if t.items.isEmpty then "_" else
  ",".intercalate (t.items.map fun i => s!"{i.1}.{i.2.1}.{i.2.2}")

/-- devices separated by `;`, products `device.chunk.source` separated by `,` -/
def renderTraces (r : Option (List Trace)) : String :=
  match r with
  | none => "value-error"
  | some ts => if ts.isEmpty then "_" else ";".intercalate (ts.map renderTrace)

def renderOptNat (r : Option Nat) : String :=
  match r with
  | some n => toString n
  | none => "none"

/-- mesh on the wire: `z,x,y`, or `_` for `mesh is None` -/
def parseMesh? (s : String) : Option (Option (Nat × Nat × Nat)) :=
  if s = "_" then some none else
  match parseNatVec? s with
  | some [z, x, y] => some (some (z, x, y))
  | _ => none

/-! ### `sharded_einsum` string logic: subscripts travel as comma separated code points (`_` = empty),
 partition specs as comma separated axis names with `-` for `None` (`_` = empty spec) -/

def parseChars? (s : String) : Option (List Char) := (parseNatVec? s).map (·.map Char.ofNat)
def renderChars (cs : List Char) : String := renderNatVec (cs.map (·.toNat))

def parseSpec? (s : String) : Option (List (Option String)) :=
  if s = "_" then some [] else some ((s.splitOn ",").map fun t => if t = "-" then none else some t)

def renderSpec (sp : List (Option String)) : String :=
  if sp.isEmpty then "_" else ",".intercalate (sp.map fun t => t.getD "-")

def renderRes {α : Type} (f : α → String) (r : ShardEinsum.Res α) : String :=
  match r with
  | .ok a => f a
  | .error e => e

def runE : List String → Option String
  | ["parse", s] => do
      let s ← parseChars? s
      pure (renderRes (fun (t : List Char × List Char × List Char) =>
        s!"{renderChars t.1} {renderChars t.2.1} {renderChars t.2.2}") (ShardEinsum.parseSubscripts s))
  | ["reduce", l, r, o, spec] => do
      let l ← parseChars? l; let r ← parseChars? r; let o ← parseChars? o; let spec ← parseSpec? spec
      pure (renderRes (fun (c : Char) => toString c.toNat) (ShardEinsum.determineReduce l r o spec))
  | ["transfer", l, r, o, spec] => do
      let l ← parseChars? l; let r ← parseChars? r; let o ← parseChars? o; let spec ← parseSpec? spec
      pure (renderRes (fun (c : Char) => toString c.toNat) (ShardEinsum.determineTransfer l r o spec))
  | ["rev", s] => do
      let s ← parseChars? s
      pure (renderRes renderChars (ShardEinsum.reversedSubscripts s))
  | ["plan", s, lsh, rsh, g, rspec, ospec] => do
      let s ← parseChars? s; let lsh ← parseNatVec? lsh; let rsh ← parseNatVec? rsh
      let g ← (if g = "n" then some none else (parseBool? g).map some)
      let rspec ← parseSpec? rspec; let ospec ← parseSpec? ospec
      pure (renderRes (fun (p : ShardEinsum.Plan) =>
        s!"{renderBool p.gather} {renderSpec p.lhsSpec} {p.axis} {p.axisName.getD "-"} {p.reduce.toNat} {p.transfer.toNat}")
        (ShardEinsum.plan s lsh rsh g rspec ospec))
  | _ => none

def runI : List String → Option String
  | "es" :: rest => runE rest
  | ["ag", n] => do let n ← n.toNat?; pure (renderTraces (allgatherSym n))
  | ["rs", n] => do let n ← n.toNat?; pure (renderTraces (reducescatterSym n))
  | ["permfwd", n] => do
      let n ← n.toNat?; pure (renderNatVec ((permFwd n).map (·.2)))
  | ["permbwd", n] => do
      let n ← n.toNat?; pure (renderNatVec ((permBwd n).map (·.2)))
  | ["ppermute", dsts, xs] => do
      -- sources are 0..len-1 in order, destinations given; data naturals, zero = 0
      let d ← parseNatVec? dsts; let xs ← parseNatVec? xs
      pure (renderNatVec (ppermute 0 (d.zipIdx.map fun p => (p.2, p.1)) xs))
  | ["rtm", x, m] => do
      let x ← x.toNat?; let m ← m.toNat?
      match roundToMultiple x m with
      | some r => pure (toString r)
      | none => pure "zero-division"
  | ["defbase", mesh] => do let mesh ← parseMesh? mesh; pure (toString (defaultBase mesh))
  | ["shapes", base, mesh, nlon, nlat, m, l] => do
      let base ← base.toNat?; let mesh ← parseMesh? mesh
      let nlon ← nlon.toNat?; let nlat ← nlat.toNat?; let m ← m.toNat?; let l ← l.toNat?
      match nodalShape base mesh nlon nlat, modalShape base mesh m l with
      | some ns, some ms =>
        let np := padding2 ns (nlon, nlat)
        let mp := padding2 ms (2 * m, l)
        pure (renderNatVec [ns.1, ns.2, ms.1, ms.2, np.1, np.2, mp.1, mp.2])
      | _, _ => pure "zero-division"
  | ["freqoff", rows, a] => do
      let rows ← rows.toNat?; let a ← a.toNat?; pure (toString (frequencyOffset rows a))
  | ["vpad", zm, nlev] => do
      -- levels are symbols 1..nlev, padding symbol 0; prints padded levels and the padding
      let zm := if zm = "_" then none else zm.toNat?
      let nlev ← nlev.toNat?
      match verticalPad 0 zm ((List.range nlev).map (· + 1)) with
      | some (f, p) => pure s!"{renderNatVec f} {renderOptNat p}"
      | none => pure "zero-division"
  | ["vcrop", pad, nlev] => do
      let pad := if pad = "none" then none else pad.toNat?
      let nlev ← nlev.toNat?
      pure (renderNatVec (verticalCrop ((List.range nlev).map (· + 1)) pad))
  | _ => none

variable (K : Type) [Num K] [NatCast K]

def parseTable? (s : String) : Option (List (List (List K))) :=
  if s = "_" then some [] else (s.splitOn "|").mapM parseMat?

def renderOptVecS (r : Option (List K)) : String :=
  match r with
  | some v => renderVec v
  | none => "value-error"

/-- matrices with entrywise addition (`accum += …` on 2-D chunks) -/
structure MatL where
  m : List (List K)

instance : Add (MatL K) := ⟨fun a b => ⟨List.zipWith Lin.vadd a.m b.m⟩⟩
instance : Zero (MatL K) := ⟨⟨[]⟩⟩

def renderDevMats (r : Option (List (MatL K))) : String :=
  match r with
  | some ms => if ms.isEmpty then "_" else "|".intercalate (ms.map fun m => renderMat m.m)
  | none => "value-error"

def runK : List String → Option String
  | ["semat", s, n, g, rspec, ospec, a, b] => do
      -- `sharded_einsum(s, A, B, gather_inputs=g, rhs_spec, out_spec)` on two 2-D operands over a one-axis mesh of
      -- `n` devices: the plan, then the collective it selects on the `shard_map` blocks; devices separated by `|`
      let s ← parseChars? s; let n ← n.toNat?
      let g ← (if g = "n" then some none else (parseBool? g).map some)
      let rspec ← parseSpec? rspec; let ospec ← parseSpec? ospec
      let a ← parseMat? (K := K) a; let b ← parseMat? (K := K) b
      let w := (b.headD []).length
      let lsh := (a.length, (a.headD []).length)
      match ShardEinsum.plan s [lsh.1, lsh.2] [b.length, w] g rspec ospec with
      | .error e => pure e
      | .ok p =>
        pure (renderDevMats K (ShardEinsum.shardedEinsumMat (fun l x => MatL.mk (Lin.matMul l x w)) p n lsh b.length a b))
  | ["agmat", n, k, r, w, a, b] => do
      -- A: (n·r) × (n·k) coefficients, device `d` holds rows chunk `d` (out spec); B: (n·k) × w inputs,
      -- device `s` holds rows chunk `s`; `einsum('ik,kj->ij')`, `split_axis = 1`
      let _n ← n.toNat?; let k ← k.toNat?; let r ← r.toNat?; let w ← w.toNat?
      let a ← parseMat? (K := K) a; let b ← parseMat? (K := K) b
      pure (renderDevMats K (allgatherMatmul (fun l x => MatL.mk (Lin.matMul l x w)) []
        (fun d c => colChunk (rowChunk a d r) c k) (splitEvery k b)))
  | ["rsmat", n, k, r, w, a, b] => do
      -- device `s` holds columns chunk `s` of A (rhs spec) with all rows; `scatter_axis = 0`
      let _n ← n.toNat?; let k ← k.toNat?; let r ← r.toNat?; let w ← w.toNat?
      let a ← parseMat? (K := K) a; let b ← parseMat? (K := K) b
      pure (renderDevMats K (matmulReducescatter (fun l x => MatL.mk (Lin.matMul l x w)) []
        (fun s c => rowChunk (colChunk a s k) c r) (splitEvery k b)))
  | ["agmm", lhs, rhs] => do
      -- lhs[a][c]: chunk c (a scalar) of the block of device a; rhs[s]: shard of device s
      let lhs ← parseMat? (K := K) lhs; let rhs ← parseVec? (K := K) rhs
      pure (renderOptVecS K (allgatherMatmul (fun (l x : K) => l * x) 0
        (fun a c => (lhs.getD a []).getD c 0) rhs))
  | ["rsmm", lhs, rhs] => do
      let lhs ← parseMat? (K := K) lhs; let rhs ← parseVec? (K := K) rhs
      pure (renderOptVecS K (matmulReducescatter (fun (l x : K) => l * x) 0
        (fun a c => (lhs.getD a []).getD c 0) rhs))
  | ["pcumsum", rev, shards] => do
      let rev ← parseBool? rev; let sh ← parseMat? (K := K) shards
      match parallelDotCumsum rev sh with
      | some r => pure (renderMat r)
      | none => pure "value-error"
  | ["pcumsum_incl", shards] => do
      let sh ← parseMat? (K := K) shards
      pure (renderMat (parallelDotCumsumInclusive sh))
  | ["dlon", srows, width, x] => do
      let srows ← srows.toNat?; let width ← width.toNat?; let x ← parseMat? (K := K) x
      match shardedDerivativeChecked (splitEvery srows x) width with
      | some r => pure (renderMat r.flatten)
      | none => pure "value-error"
  | ["unstack", srows, x] => do
      let srows ← srows.toNat?; let x ← parseVec? (K := K) x
      pure (renderMat (shardedUnstackM (splitEvery srows x)))
  | ["stack", srows, a, b] => do
      let srows ← srows.toNat?; let a ← parseVec? (K := K) a; let b ← parseVec? (K := K) b
      pure (renderVec (shardedStackM (splitEvery srows a) (splitEvery srows b)))
  | ["padmat", c, pr, pc, a] => do
      let c ← c.toNat?; let pr ← pr.toNat?; let pc ← pc.toNat?; let a ← parseMat? (K := K) a
      pure (renderMat (padMat a c pr pc))
  | ["padtable", j, l, pm, pj, pl, p] => do
      let j ← j.toNat?; let l ← l.toNat?; let pm ← pm.toNat?; let pj ← pj.toNat?; let pl ← pl.toNat?
      let p ← parseTable? K p
      pure ("|".intercalate ((padTable p j l pm pj pl).map renderMat))
  | ["clipmask", width, n, padl] => do
      let width ← width.toNat?; let n ← n.toNat?; let padl ← padl.toNat?
      pure (renderVec (clipMask (K := K) width n padl))
  | ["inveig", l, eigs] => do
      let l ← l.toNat?; let eigs ← parseVec? (K := K) eigs
      pure (renderVec (invEigen eigs l))
  | ["fsynth", stacked, dims, f, p, w, x] => do
      -- dims = R,J,L,npx,npy,mpx,mpy; (f,p,w) unpadded basis; x padded modal array
      let stacked ← parseBool? stacked
      let d ← parseNatVec? dims
      let f ← parseMat? (K := K) f; let p ← parseTable? K p; let w ← parseVec? (K := K) w
      let x ← parseMat? (K := K) x
      match d with
      | [r, j, l, npx, npy, mpx, mpy] =>
        let pb := padBasis ⟨f, p, w⟩ r j l npx npy mpx mpy
        pure (renderMat (if stacked then SH.fastSynthStacked pb (j + npy) x
                         else SH.fastSynth pb (j + npy) x))
      | _ => none
  | ["fanal", stacked, dims, f, p, w, z] => do
      let stacked ← parseBool? stacked
      let d ← parseNatVec? dims
      let f ← parseMat? (K := K) f; let p ← parseTable? K p; let w ← parseVec? (K := K) w
      let z ← parseMat? (K := K) z
      match d with
      | [r, j, l, npx, npy, mpx, mpy] =>
        let pb := padBasis ⟨f, p, w⟩ r j l npx npy mpx mpy
        pure (renderMat (if stacked then SH.fastAnalysisStacked pb (r + mpx) (j + npy) (l + mpy) z
                         else SH.fastAnalysis pb (r + mpx) (j + npy) (l + mpy) z))
      | _ => none
  | _ => none

def run : List String → Option String
  | "F" :: rest => runK Float rest
  | "Q" :: rest => runK Rat rest
  | rest => runI rest

end Dino.Shard
